/* C20 / btree.c driver: replays one history of B-tree operations per line on the repository's
 * btree.c (linked from the scratch build of the current tree) and prints the answers in the
 * model driver's format.  Nodes come from malloc/free through the X entry points (the way
 * store.c supplies its own node allocator); live nodes are counted.
 *
 *   H t=<t> ; ins k e ; del k ; delq k ; eq k ; ge k ; min ; max ; check ; dump ; nodes ; size ; height
 *   rekey k k2 : overwrite the key of the slot btreeSearchEQ(k) finds, in place (store.c does this to
 *                reuse an entry); afterwards the tree may be out of order, which btreeCheck must report
 */
#include "axlgen.h"
#include "btree.h"
#include "store.h"
#include "opsys.h"
#include "debug.h"
#include "drv_common.h"

static long live = 0;

static BTree drvAlloc(ULong nbytes)
{
	BTree b = (BTree) malloc(nbytes);
	if (!b) { fprintf(stderr, "out of memory\n"); exit(3); }
	memset(b, 0x5a, nbytes);	/* stale slots are visibly garbage */
	live++;
	return b;
}

static void drvFree(BTree b)
{
	live--;
	free(b);
}

static void dump(BTree x)
{
	int i;
	if (x->isLeaf) {
		putchar('[');
		for (i = 0; i < x->nKeys; i++)
			printf("%s%lu:%lu", i ? " " : "", (unsigned long) btreeKey(x, i), (unsigned long) btreeElt(x, i));
		putchar(']');
	}
	else {
		putchar('(');
		for (i = 0; i < x->nKeys; i++) {
			dump(btreeBranch(x, i));
			printf(" %lu:%lu ", (unsigned long) btreeKey(x, i), (unsigned long) btreeElt(x, i));
		}
		dump(btreeBranch(x, i));
		putchar(')');
	}
}

static long nodes(BTree x)
{
	long n = 1; int i;
	if (!x->isLeaf) for (i = 0; i <= x->nKeys; i++) n += nodes(btreeBranch(x, i));
	return n;
}

static long size(BTree x)
{
	long n = x->nKeys; int i;
	if (!x->isLeaf) for (i = 0; i <= x->nKeys; i++) n += size(btreeBranch(x, i));
	return n;
}

static void showSlot(BTree b, int ix)
{
	if (!b) printf("none");
	else printf("%lu:%lu", (unsigned long) btreeKey(b, ix), (unsigned long) btreeElt(b, ix));
}

/* one operation: tokens op[0..n-1]; returns 0 on a malformed operation */
static int doOp(BTree *pbt, char **op, int n)
{
	BTree b; int ix = -7;
	if (n == 3 && !strcmp(op[0], "ins")) {
		btreeInsertX(pbt, strtoul(op[1], 0, 10), (BTreeElt) strtoul(op[2], 0, 10), drvAlloc);
		putchar('+');
	}
	else if (n == 2 && (!strcmp(op[0], "del") || !strcmp(op[0], "delq"))) {
		BTreeKey k = strtoul(op[1], 0, 10);
		BTreeElt e = (BTreeElt) 0;
		/* deleting an absent key is undefined (btreeDelete0 follows a branch of a leaf) */
		if (!btreeSearchEQ(*pbt, k, &ix)) printf("absent");
		else if (op[0][3]) { btreeDeleteX(pbt, k, NULL, drvFree); putchar('-'); }
		else { btreeDeleteX(pbt, k, &e, drvFree); printf("-%lu", (unsigned long) e); }
	}
	else if (n == 3 && !strcmp(op[0], "rekey")) {
		b = btreeSearchEQ(*pbt, strtoul(op[1], 0, 10), &ix);
		if (!b) printf("absent");
		else { btreeKey(b, ix) = strtoul(op[2], 0, 10); printf("ok"); }
	}
	else if (n == 2 && !strcmp(op[0], "eq")) {
		b = btreeSearchEQ(*pbt, strtoul(op[1], 0, 10), &ix); showSlot(b, ix);
	}
	else if (n == 2 && !strcmp(op[0], "ge")) {
		b = btreeSearchGE(*pbt, strtoul(op[1], 0, 10), &ix); showSlot(b, ix);
	}
	else if (n == 1 && !strcmp(op[0], "min")) {
		if ((*pbt)->nKeys == 0) printf("none");	/* slot 0 of an empty leaf */
		else { b = btreeSearchMin(*pbt, &ix); showSlot(b, ix); }
	}
	else if (n == 1 && !strcmp(op[0], "max")) {
		if ((*pbt)->nKeys == 0) printf("none");	/* slot -1 of an empty leaf */
		else { b = btreeSearchMax(*pbt, &ix); showSlot(b, ix); }
	}
	else if (n == 1 && !strcmp(op[0], "check")) printf("%d", btreeCheck(*pbt));
	else if (n == 1 && !strcmp(op[0], "dump")) dump(*pbt);
	else if (n == 1 && !strcmp(op[0], "nodes")) printf("%ld", live);
	else if (n == 1 && !strcmp(op[0], "size")) printf("%ld", size(*pbt));
	else if (n == 1 && !strcmp(op[0], "height")) {
		long h = 0; for (b = *pbt; !b->isLeaf; b = btreeBranch(b, 0)) h++;
		printf("%ld", h);
	}
	else return 0;
	return 1;
}

int main(int argc, char **argv)
{
	char *line = NULL; size_t cap = 0;
	osInit();
	dbInit();
	while (getline(&line, &cap, stdin) >= 0) {
		char *save = 0, *tok, *op[4];
		int n = 0, first = 1, bad = 0;
		long t = 0;
		BTree bt = 0;
		tok = strtok_r(line, " \t\r\n", &save);
		if (!tok || strcmp(tok, "H")) bad = 1;
		if (!bad) { tok = strtok_r(NULL, " \t\r\n", &save); if (!tok || strncmp(tok, "t=", 2)) bad = 1; else t = atol(tok + 2); }
		if (!bad && (t < 2 || t > 30000)) bad = 1;
		if (!bad) { tok = strtok_r(NULL, " \t\r\n", &save); if (tok && strcmp(tok, ";")) bad = 1; }
		if (bad) { printf("bad-op"); DRV_EMIT(); continue; }
		live = 0;
		bt = btreeNewX(t, drvAlloc);
		/* answers are buffered by stdio; a malformed history prints bad-op only when it is
		 * the first thing on the line, so generators must not produce one */
		while (tok) {
			n = 0;
			while ((tok = strtok_r(NULL, " \t\r\n", &save)) && strcmp(tok, ";")) {
				if (n < 4) op[n] = tok;
				n++;
			}
			if (!first) putchar(';');
			first = 0;
			if (n > 3 || !doOp(&bt, op, n)) { printf("bad-op"); break; }
		}
		btreeFreeX(bt, drvFree);
		if (live != 0) printf(";leak=%ld", live);
		DRV_EMIT();
	}
	return 0;
}
