/* C02 / of_peep.c driver.  One request per line:
 *
 *     <fast:0|1> <m> ret E | <fast> <m> if E L | <fast> <m> sel E L0 .. Ln | oob
 *
 * (<m> is ignored here; `oob` prints what this executable reads behind peepBValOpInfo[])
 *
 *  E ::= T | F | #<signed decimal> | v<i> | call <k> <B|C|S|W> E | cast <B|C|S|W> E | <BVal name> E*
 *
 * The expression is built with foamNew*, put as the only statement into the body of a
 * minimal Prog (12 locals, local i declared SInt/Bool/Word for i%3 = 0/1/2; the Prog's
 * optInfo has the "peep pending" bit), the repository's peepProg (libphase.a of the scratch
 * build) is run on it — nothing else — and the statement that is in the body afterwards is
 * printed in the same syntax. */
#include "axlobs.h"
#include "foam.h"
#include "of_peep.h"
#include "of_util.h"
#include "optfoam.h"
#include "store.h"
#include "sexpr.h"
#include "syme.h"
#include "strops.h"
#include "opsys.h"
#include "debug.h"
#include "drv_common.h"

/* `BValOps peepBValOpInfo[]` of of_peep.c (8 ints per row: op, arity, dual, leqr, leftOne,
 * rightOne, leftZero, rightZero); the numbers of OpNonNeg, OpNonPos, OpId in `enum bvalOp` */
extern int peepBValOpInfo[];
#define peepInfoInts peepBValOpInfo
#define ROW_INTS   8
#define OP_NonNeg  35
#define OP_NonPos  36
#define OP_Id      37

static int pos;
static int bad;

static AInt tyTag(const char *t)
{
	if (!strcmp(t, "B")) return FOAM_Bool;
	if (!strcmp(t, "C")) return FOAM_Char;
	if (!strcmp(t, "S")) return FOAM_SInt;
	if (!strcmp(t, "W")) return FOAM_Word;
	bad = 1;
	return FOAM_Word;
}

static const char *tyName(AInt t)
{
	if (t == FOAM_Bool) return "B";
	if (t == FOAM_Char) return "C";
	if (t == FOAM_SInt) return "S";
	if (t == FOAM_Word) return "W";
	return "?";
}

static Foam build(void)
{
	char *t;
	int i, argc;
	if (pos >= drv_ntok) { bad = 1; return foamNewNOp(); }
	t = drv_tok[pos++];
	if (!strcmp(t, "T")) return foamNewBool(1);
	if (!strcmp(t, "F")) return foamNewBool(0);
	if (t[0] == '#') return foamNewSInt((AInt) strtoll(t + 1, NULL, 10));
	if (t[0] == 'v') return foamNewLoc(atoi(t + 1));
	if (!strcmp(t, "call")) {
		AInt k, ty; Foam a;
		if (pos + 2 > drv_ntok) { bad = 1; return foamNewNOp(); }
		k = atoi(drv_tok[pos++]);
		ty = tyTag(drv_tok[pos++]);
		a = build();
		return foamNewCCall(ty, foamNewGlo(k), a, NULL);
	}
	if (!strcmp(t, "cast")) {
		AInt ty; Foam a;
		if (pos + 1 > drv_ntok) { bad = 1; return foamNewNOp(); }
		ty = tyTag(drv_tok[pos++]);
		a = build();
		return foamNewCast(ty, a);
	}
	for (i = FOAM_BVAL_START; i < FOAM_BVAL_LIMIT; i++)
		if (!strcmp(t, foamBValStr(i))) break;
	if (i == FOAM_BVAL_LIMIT) { bad = 1; return foamNewNOp(); }
	argc = foamBValInfo(i).argCount;
	{
		Foam f = foamNewEmpty(FOAM_BCall, argc + 1);
		int j;
		f->foamBCall.op = i;
		for (j = 0; j < argc; j++) f->foamBCall.argv[j] = build();
		return f;
	}
}

static void show(Foam f)
{
	int i;
	switch (foamTag(f)) {
	case FOAM_Bool: printf(f->foamBool.BoolData ? "T" : "F"); break;
	case FOAM_SInt: printf("#%ld", (long) f->foamSInt.SIntData); break;
	case FOAM_Loc:  printf("v%ld", (long) f->foamLoc.index); break;
	case FOAM_CCall:
		if (foamTag(f->foamCCall.op) == FOAM_Glo && foamCCallArgc(f) == 1) {
			printf("call %ld %s ", (long) f->foamCCall.op->foamGlo.index, tyName(f->foamCCall.type));
			show(f->foamCCall.argv[0]);
		}
		else printf("?ccall");
		break;
	case FOAM_Cast:
		printf("cast %s ", tyName(f->foamCast.type));
		show(f->foamCast.expr);
		break;
	case FOAM_BCall:
		printf("%s", foamBValStr(f->foamBCall.op));
		for (i = 0; i < foamBCallArgc(f); i++) { putchar(' '); show(f->foamBCall.argv[i]); }
		break;
	case FOAM_Return: printf("ret "); show(f->foamReturn.value); break;
	case FOAM_If:     printf("if "); show(f->foamIf.test); printf(" %ld", (long) f->foamIf.label); break;
	case FOAM_Select:
		printf("sel "); show(f->foamSelect.op);
		for (i = 0; i < foamSelectArgc(f); i++) printf(" %ld", (long) f->foamSelect.argv[i]);
		break;
	case FOAM_Goto:   printf("goto %ld", (long) f->foamGoto.label); break;
	case FOAM_NOp:    printf("nop"); break;
	default:          printf("?%s", foamStr(foamTag(f))); break;
	}
}

int main(int argc, char **argv)
{
	struct optInfo info;
	osInit();
	dbInit();
	sxiInit();
	while (drv_read()) {
		Foam stmt, prog, locals, body, decls[12];
		int fast, i;
		bad = 0;
		if (drv_ntok == 1 && !strcmp(drv_tok[0], "oob")) {
			/* what peepMakeUnaryOp reads as peepBValOpInfo[op].arity for the three
			 * operations whose number lies behind the table's last row */
			printf("%d %d %d", peepInfoInts[ROW_INTS * OP_NonNeg + 1] == 0,
			       peepInfoInts[ROW_INTS * OP_NonPos + 1] == 0,
			       peepInfoInts[ROW_INTS * OP_Id + 1] == 0);
			DRV_EMIT(); continue;
		}
		if (drv_ntok < 4) { printf("bad-op"); DRV_EMIT(); continue; }
		fast = atoi(drv_tok[0]);
		/* drv_tok[1]: the answer to `oob`, used by the model side only */
		pos = 3;
		if (!strcmp(drv_tok[2], "ret")) stmt = foamNewReturn(build());
		else if (!strcmp(drv_tok[2], "if")) {
			Foam c = build();
			if (pos >= drv_ntok) bad = 1;
			stmt = foamNewIf(c, bad ? 0 : atoi(drv_tok[pos++]));
		}
		else if (!strcmp(drv_tok[2], "sel")) {
			Foam c = build();
			int n = drv_ntok - pos;
			if (n < 0) { n = 0; bad = 1; }
			stmt = foamNewEmpty(FOAM_Select, n + 1);
			stmt->foamSelect.op = c;
			for (i = 0; i < n; i++) stmt->foamSelect.argv[i] = atoi(drv_tok[pos++]);
		}
		else { bad = 1; stmt = foamNewNOp(); }
		if (bad || pos != drv_ntok) { printf("bad-op"); DRV_EMIT(); continue; }

		locals = foamNewEmpty(FOAM_DDecl, 12 + 1);
		locals->foamDDecl.usage = FOAM_DDecl_Local;
		for (i = 0; i < 12; i++)
			locals->foamDDecl.argv[i] =
				foamNewDecl(i % 3 == 0 ? FOAM_SInt : i % 3 == 1 ? FOAM_Bool : FOAM_Word,
					    strCopy("l"), emptyFormatSlot);
		body = foamNewEmpty(FOAM_Seq, 1);
		body->foamSeq.argv[0] = stmt;
		prog = foamNewProg(int0, int0, FOAM_Word, int0, int0,
				   foamNewEmptyDDecl(FOAM_DDecl_Param), locals,
				   foamNewEmpty(FOAM_DFluid, 0), foamNewEmptyDEnv(), body);
		memset(&info, 0, sizeof(info));
		info.optMask = OPT_PEEP;
		foamOptInfo(prog) = &info;

		prog = peepProg(prog, fast ? true : false);

		show(prog->foamProg.body->foamSeq.argv[0]);
		foamOptInfo(prog) = 0;
		DRV_EMIT();
	}
	return 0;
}
