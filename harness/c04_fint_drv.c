/* C04 / interpreter driver: evaluates a BCall on constant operands with the repository's own
 * (static) fintEval / fintEvalBCall from fint.c of the scratch build.  The BCall node is
 * flattened with foamToBuffer (wide SInt constants go through foamSIntReduce, as in the
 * compiler) and the interpreter is pointed at that buffer.
 *   request : X a0 a1 ...   answer : v:<value> | FAULT(<signal>) | EXC (fiRaiseException)
 *   (Bool: v:<0|1>:<raw fiBool>)
 */
#define _GNU_SOURCE
#include <sys/types.h>
#include <stdio.h>
#include "fint.c"
#include <signal.h>
#include <setjmp.h>
#include "sexpr.h"
#include "store.h"
#include "drv_common.h"

static sigjmp_buf c04_jb;
static void c04_sig(int s) { siglongjmp(c04_jb, s); }

/* runtime errors (fiRaiseException): e.g. big-integer division by zero */
extern void (*fiExceptionHandler)(char *, void *);
static void c04_exc(char *msg, void *p) { (void)msg; (void)p; siglongjmp(c04_jb, 1000); }

static int find_bval(const char *name)
{
	int t;
	for (t = FOAM_BVAL_START; t < FOAM_BVAL_LIMIT; t++)
		if (!strcmp(foamBValInfo(t).str, name)) return t;
	return -1;
}

static Foam mk_arr(const char *s)
{
	size_t len = strlen(s), i;
	Foam foam = foamNewEmpty(FOAM_Arr, 1 + len);
	foam->foamArr.baseType = FOAM_Char;
	for (i = 0; i < len; i++) foam->foamArr.eltv[i] = s[i];
	return foam;
}

static Foam mk_const(int type, const char *tok)
{
	unsigned long u = strtoul(tok, NULL, 10);
	switch (type) {
	case FOAM_Bool: return foamNewBool((AInt)u);
	case FOAM_Char: return foamNewChar((AInt)u);
	case FOAM_Byte: return foamNewByte((AInt)u);
	case FOAM_HInt: return foamNewHInt((AInt)(short)u);
	case FOAM_SInt: return foamSIntReduce(foamNewSInt((AInt)u));
	case FOAM_Word: return foamNew(FOAM_Cast, 2, (AInt)FOAM_Word, foamSIntReduce(foamNewSInt((AInt)u)));
	case FOAM_SFlo: { unsigned int b = (unsigned int)u; float f; memcpy(&f, &b, 4); return foamNewSFlo(f); }
	case FOAM_DFlo: { double d; memcpy(&d, &u, 8); return foamNewDFlo(d); }
	case FOAM_BInt: return foamNewBInt(bintFrString((String)tok));
	case FOAM_Arr:  return mk_arr(strcmp(tok, "\"\"") ? tok : "");
	case FOAM_Ptr:  return u ? foamNew(FOAM_Cast, 2, (AInt)FOAM_Ptr, foamSIntReduce(foamNewSInt((AInt)u))) : foamNewNil();
	default: return 0;
	}
}

static void show(int type, DataObj r)
{
	switch (type) {
	case FOAM_Bool: printf("v:%d:%lu", r->fiBool != 0, (unsigned long)r->fiBool); break;
	case FOAM_Char: printf("v:%lu", (unsigned long)r->fiChar); break;
	case FOAM_Byte: printf("v:%lu", (unsigned long)r->fiByte); break;
	case FOAM_HInt: printf("v:%lu", (unsigned long)r->fiHInt & 0xffff); break;
	case FOAM_SInt: printf("v:%lu", (unsigned long)r->fiSInt); break;
	case FOAM_Word: printf("v:%lu", (unsigned long)r->fiWord); break;
	case FOAM_SFlo: { float f = r->fiSFlo; unsigned int b; memcpy(&b, &f, 4);
			  if (f != f) printf("v:nan"); else printf("v:%u", b); break; }
	case FOAM_DFlo: { double d = r->fiDFlo; unsigned long b; memcpy(&b, &d, 8);
			  if (d != d) printf("v:nan"); else printf("v:%lu", b); break; }
	case FOAM_BInt: printf("v:%s", bintToString((BInt)r->fiBInt)); break;
	case FOAM_Nil:  printf("v:0"); break;
	case FOAM_Ptr:  printf("v:%lu", (unsigned long)r->fiPtr); break;
	case FOAM_Arr:  printf("v:%s", (char *)r->fiArr); break;
	default: printf("other-type(%d)", type); break;
	}
}

int main(int argc, char **argv)
{
	/* only the arithmetic trap is survivable; after any other fault the heap is suspect, so the
	 * process dies and the caller restarts it on the next request */
	int sigs[] = { SIGFPE };
	unsigned k;
	Buffer buf;
	osInit();
	/* no automatic garbage collection: the driver's nodes are not reachable from compiler roots */
	stoCtl(StoCtl_GcLevel, StoCtl_GcLevel_Demand);
	dbInit();
	sxiInit();
	foamInit();
	buf = bufNew();
	fiExceptionHandler = c04_exc;
	while (drv_read()) {
		int tag, i, n, s, ty;
		Foam bcall;
		union dataObj ret;
		if (drv_ntok == 0) { printf("bad-op"); DRV_EMIT(); continue; }
		tag = find_bval(drv_tok[0]);
		if (tag < 0) { printf("unknown-builtin"); DRV_EMIT(); continue; }
		n = foamBValInfo(tag).argCount;
		if (n != drv_ntok - 1) { printf("bad-arity"); DRV_EMIT(); continue; }
		for (k = 0; k < sizeof(sigs) / sizeof(sigs[0]); k++) if (!getenv("C04_NOSIG")) signal(sigs[k], c04_sig);
		s = sigsetjmp(c04_jb, 1);
		if (s == 1000) { printf("EXC"); DRV_EMIT(); continue; }
		if (s) { printf("FAULT(%d)", s); DRV_EMIT(); continue; }
		bcall = foamNewEmpty(FOAM_BCall, 1 + n);
		bcall->foamBCall.op = tag;
		for (i = 0; i < n; i++) {
			Foam c = mk_const(foamBValInfo(tag).argTypes[i], drv_tok[1 + i]);
			if (!c) { printf("bad-arg-type"); goto done; }
			bcall->foamBCall.argv[i] = c;
		}
		bufStart(buf);
		foamToBuffer(buf, bcall);
		tape = (UByte *) bufData(buf);
		ip = 0;
		memset(&ret, 0, sizeof(ret));
		ty = fintEval(&ret);
		show(ty, &ret);
	done:
		DRV_EMIT();
	}
	return 0;
}
