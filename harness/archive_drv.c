/* C17 / archive.c driver: walks the members of an `!<arch>` archive given as a hex string
 * with the repository's arRdFormat / arFirst / arNext / arEndp (archive.c #included) and
 * prints every member met (name@data-position), the way the walk ended and the number of
 * ALDOR_E_ArBadNumber / ArTruncated diagnostics.
 *   consts
 *   A <hex|->
 */
#include "axlobs.h"
#include "archive.h"
#include "comsg.h"
#include "comsgdb.h"
#include "store.h"
#include "opsys.h"
#include "debug.h"
#include "strops.h"
#include "util.h"
#include "file.h"
#include <stdarg.h>
#include <unistd.h>
#include "drv_common.h"

static int drv_nbad;
static void drv_comsgError(AbSyn ab, Msg tag, ...) { drv_nbad++; }
#define comsgError	drv_comsgError
#include "archive.c"
#undef comsgError

static char drv_path[256];

int main(int argc, char **argv)
{
	osInit();
	dbInit();
	snprintf(drv_path, sizeof drv_path, "%s/archive-drv-%d.al", getenv("DRV_TMP") ? getenv("DRV_TMP") : "/tmp", (int) getpid());
	while (drv_read()) {
		if (drv_ntok == 1 && !strcmp(drv_tok[0], "consts")) {
			printf("arhdr=%d first=%d align=%d magic=", 16 + 12 + 6 + 6 + 8 + 10 + 2,
			       (int) arInfo(AR_Arch).hdrsz, (int) arInfo(AR_Arch).align);
			{ char *p; for (p = arstrArch; *p; p++) printf("%02x", (unsigned) (UByte) *p); }
			DRV_EMIT(); continue;
		}
		if (drv_ntok == 2 && !strcmp(drv_tok[0], "A")) {
			struct archive	AR;
			Archive		ar = &AR;
			String		name;
			FILE		*f = fopen(drv_path, "wb+");
			const char	*hex = drv_tok[1];
			size_t		n = strcmp(hex, "-") ? strlen(hex) / 2 : 0, i;
			int		count = 0;
			for (i = 0; i < n; i++) { unsigned v; sscanf(hex + 2 * i, "%2x", &v); fputc((int) v, f); }
			fflush(f); rewind(f);
			memset(ar, 0, sizeof AR);
			ar->name = fnameParse(drv_path);
			ar->file = f;
			ar->hasFile = true;
			ar->format = AR_LIMIT;
			ar->names = strCopy("");	/* as arNew does */
			drv_nbad = 0;
			arRdFormat(ar);
			if (ar->format != AR_Arch) printf("notarch");
			else {
				printf("members");
				for (name = arFirst(ar); !arEndp(ar); name = arNext(ar)) {
					if (name && *name) { char *q; putchar(' '); for (q = name; *q; q++) printf("%02x", (unsigned) (UByte) *q); }
					else printf(" ''");
					printf("@%lu", (unsigned long) arPosition(ar));
					if (++count > 100000) { printf(" ..."); break; }
				}
				printf(" bad=%d", drv_nbad);
			}
			fclose(f);
			DRV_EMIT(); continue;
		}
		printf("bad-op"); DRV_EMIT();
	}
	unlink(drv_path);
	return 0;
}
