/* shared by the C drivers: line reading, tokenising, init of the compiler's base layer */
#ifndef DRV_COMMON_H
#define DRV_COMMON_H
#include <stdio.h>
#include <stdlib.h>
#include <string.h>

#define DRV_MAXTOK 200000
static char  *drv_line = NULL;
static size_t drv_cap = 0;
static char  *drv_tok[DRV_MAXTOK];
static int    drv_ntok;

/* read one line, split on blanks; returns 0 at end of input */
static int drv_read(void)
{
	ssize_t n = getline(&drv_line, &drv_cap, stdin);
	char *p;
	if (n < 0) return 0;
	drv_ntok = 0;
	for (p = strtok(drv_line, " \t\r\n"); p && drv_ntok < DRV_MAXTOK; p = strtok(NULL, " \t\r\n"))
		drv_tok[drv_ntok++] = p;
	return 1;
}
#define DRV_EMIT() do { putchar('\n'); fflush(stdout); } while (0)
#endif
