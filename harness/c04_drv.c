/* C04 / compile-time folder driver: calls the repository's own (static) cfoldBCall from
 * of_cfold.c of the scratch build of the current tree on a BCall node whose operands are
 * constant nodes, and prints the constant it returns.
 *   request :  X a0 a1 ...      (integers: unsigned decimal of the bit pattern; floats: decimal of
 *                                the IEEE bit pattern; BInt: signed decimal; Arr: the string)
 *   answer  :  v:<value>        Bool: v:<0|1>:<raw BoolData>
 *              unfolded         cfoldBCall returned the node itself
 *              FAULT(<signal>)  the folder raised a signal on this request
 */
#include "of_cfold.c"
#include <signal.h>
#include <setjmp.h>
#include "opsys.h"
#include "sexpr.h"
#include "store.h"
#include "drv_common.h"

static sigjmp_buf c04_jb;
static void c04_sig(int s) { siglongjmp(c04_jb, s); }

static int find_bval(const char *name)
{
	int t;
	for (t = FOAM_BVAL_START; t < FOAM_BVAL_LIMIT; t++)
		if (!strcmp(foamBValInfo(t).str, name)) return t;
	return -1;
}

static Foam mk_arr(const char *s)
{
	size_t len = strlen(s), i;
	Foam foam = foamNewEmpty(FOAM_Arr, 1 + len);
	foam->foamArr.baseType = FOAM_Char;
	for (i = 0; i < len; i++) foam->foamArr.eltv[i] = s[i];
	return foam;
}

static Foam mk_const(int type, const char *tok)
{
	unsigned long u = strtoul(tok, NULL, 10);
	switch (type) {
	case FOAM_Bool: return foamNewBool((AInt)u);
	case FOAM_Char: return foamNewChar((AInt)u);
	case FOAM_Byte: return foamNewByte((AInt)u);
	case FOAM_HInt: return foamNewHInt((AInt)(short)u);
	case FOAM_SInt: return foamNewSInt((AInt)u);
	case FOAM_Word: return foamNewSInt((AInt)u);
	case FOAM_SFlo: { unsigned int b = (unsigned int)u; float f; memcpy(&f, &b, 4); return foamNewSFlo(f); }
	case FOAM_DFlo: { double d; memcpy(&d, &u, 8); return foamNewDFlo(d); }
	case FOAM_BInt: return foamNewBInt(bintFrString((String)tok));
	case FOAM_Arr:  return mk_arr(strcmp(tok, "\"\"") ? tok : "");
	case FOAM_Ptr:  return foamNewPtr((Foam)u);
	default: return 0;
	}
}

static void show(Foam r)
{
	switch (foamTag(r)) {
	case FOAM_Bool: printf("v:%d:%lu", r->foamBool.BoolData != 0, (unsigned long)r->foamBool.BoolData); break;
	case FOAM_Char: printf("v:%lu", (unsigned long)r->foamChar.CharData & 0xff); break;
	case FOAM_Byte: printf("v:%lu", (unsigned long)r->foamByte.ByteData & 0xff); break;
	case FOAM_HInt: printf("v:%lu", (unsigned long)r->foamHInt.HIntData & 0xffff); break;
	case FOAM_SInt: printf("v:%lu", (unsigned long)r->foamSInt.SIntData); break;
	case FOAM_SFlo: { float f = r->foamSFlo.SFloData; unsigned int b; memcpy(&b, &f, 4);
			  if (f != f) printf("v:nan"); else printf("v:%u", b); break; }
	case FOAM_DFlo: { double d = r->foamDFlo.DFloData; unsigned long b; memcpy(&b, &d, 8);
			  if (d != d) printf("v:nan"); else printf("v:%lu", b); break; }
	case FOAM_BInt: printf("v:%s", bintToString(r->foamBInt.BIntData)); break;
	case FOAM_Nil:  printf("v:0"); break;
	case FOAM_Ptr:  printf("v:%lu", (unsigned long)r->foamPtr.val); break;
	default: printf("other-tag(%s)", foamInfo(foamTag(r)).str); break;
	}
}

int main(int argc, char **argv)
{
	/* only the arithmetic trap is survivable; after any other fault the heap is suspect, so the
	 * process dies and the caller restarts it on the next request */
	int sigs[] = { SIGFPE };
	unsigned k;
	osInit();
	/* no automatic garbage collection: the driver's nodes are not reachable from compiler roots */
	stoCtl(StoCtl_GcLevel, StoCtl_GcLevel_Demand);
	dbInit();
	sxiInit();
	foamInit();
	cfoldFoldAll = true;
	cfoldFoldFloat = true;
	while (drv_read()) {
		int tag, i, n, s;
		Foam bcall, r;
		if (drv_ntok == 0) { printf("bad-op"); DRV_EMIT(); continue; }
		tag = find_bval(drv_tok[0]);
		if (tag < 0) { printf("unknown-builtin"); DRV_EMIT(); continue; }
		n = foamBValInfo(tag).argCount;
		if (n != drv_ntok - 1) { printf("bad-arity"); DRV_EMIT(); continue; }
		for (k = 0; k < sizeof(sigs) / sizeof(sigs[0]); k++) if (!getenv("C04_NOSIG")) signal(sigs[k], c04_sig);
		s = sigsetjmp(c04_jb, 1);
		if (s) { printf("FAULT(%d)", s); DRV_EMIT(); continue; }
		bcall = foamNewEmpty(FOAM_BCall, 1 + n);
		bcall->foamBCall.op = tag;
		for (i = 0; i < n; i++) {
			Foam c = mk_const(foamBValInfo(tag).argTypes[i], drv_tok[1 + i]);
			if (!c) { printf("bad-arg-type"); goto done; }
			bcall->foamBCall.argv[i] = c;
		}
		r = cfoldBCall(bcall);
		if (r == bcall) printf("unfolded"); else show(r);
	done:
		DRV_EMIT();
	}
	return 0;
}
