/* C12 / javacode.c driver: builds Java expression trees with the repository's javacode.c
 * (jcBinOp / jcNot / jcNegate / jcId / jcLiteralInteger, linked from the scratch build of the
 * current tree) and prints them with the real printer (jcoWrite -> jcBinOpPrint, jc0PrintWithParens).
 * request: a tree in Polish notation: <Op> <tree> <tree> | Not <tree> | Negate <tree> | <name> | <integer>
 * answer:  the printed Java text */
#include "axlgen.h"
#include "store.h"
#include "opsys.h"
#include "debug.h"
#include "buffer.h"
#include "ostream.h"
#include "java/javacode.h"
#include "java/javaobj.h"
#include "drv_common.h"

static int pos;
static struct { const char *name; JcOperation op; } ops[] = {
	{"LogAnd", JCO_OP_LogAnd}, {"LogOr", JCO_OP_LogOr}, {"And", JCO_OP_And}, {"Or", JCO_OP_Or},
	{"XOr", JCO_OP_XOr}, {"Equals", JCO_OP_Equals}, {"NEquals", JCO_OP_NEquals}, {"Plus", JCO_OP_Plus},
	{"Minus", JCO_OP_Minus}, {"Times", JCO_OP_Times}, {"Divide", JCO_OP_Divide}, {"Modulo", JCO_OP_Modulo},
	{"LT", JCO_OP_LT}, {"LE", JCO_OP_LE}, {"GT", JCO_OP_GT}, {"GE", JCO_OP_GE},
	{"ShiftUp", JCO_OP_ShiftUp}, {"ShiftDn", JCO_OP_ShiftDn}, {0, 0}
};

static JavaCode build(void)
{
	char *t;
	int i;
	if (pos >= drv_ntok) return 0;
	t = drv_tok[pos++];
	if (!strcmp(t, "Not"))    { JavaCode a = build(); return a ? jcNot(a) : 0; }
	if (!strcmp(t, "Negate")) { JavaCode a = build(); return a ? jcNegate(a) : 0; }
	for (i = 0; ops[i].name; i++)
		if (!strcmp(t, ops[i].name)) {
			JavaCode a = build(), b = build();
			return (a && b) ? jcBinOp(ops[i].op, a, b) : 0;
		}
	if ((t[0] >= '0' && t[0] <= '9') || (t[0] == '-' && t[1]))
		return jcLiteralInteger(atol(t));
	return jcId(strCopy(t));
}

int main(void)
{
	osInit();
	dbInit();
	while (drv_read()) {
		JavaCode jc;
		pos = 0;
		jc = build();
		if (!jc || pos != drv_ntok) { printf("bad-op"); DRV_EMIT(); continue; }
		{
			Buffer b = bufNew();
			OStream o = ostreamNewFrBuffer(b);
			JavaCodePContext ctxt = jcoPContextNew(o, false);
			jcoWrite(ctxt, jc);
			jcoPContextFree(ctxt);
			ostreamClose(o);
			bufAdd1(b, '\0');
			fputs(bufChars(b), stdout);
			ostreamFree(o);
			bufFree(b);
		}
		DRV_EMIT();
	}
	return 0;
}
