/* C20 / bitv.c driver: runs one operation history per input line on the repository's bitv.c
 * (linked from the scratch build of the current tree), four registers of one class.
 *   V <nbits> op op ...       (see lean/AldorVerif/Driver/Bitv.lean for the op list)
 * bitvNew leaves the words undefined: registers are cleared at creation; bitvFromInt leaves the
 * padding bits of its fresh vector undefined: the driver zeroes them; bitvResize leaves the new
 * words undefined: the driver zeroes them.  Everything else is the module's own behaviour.
 */
#include "axlgen.h"
#include "bitv.h"
#include "store.h"
#include "opsys.h"
#include "debug.h"
#include "strops.h"
#include "drv_common.h"

#define NREG 4
static BitvClass cls;
static Bitv reg[NREG];

static int parse(char *s, char *name, long *a)
{
	/* "name:A:B:C" -> name, a[]; returns number of integers or -1 */
	int n = 0, k = 0;
	char *p = s, *end;
	while (*p && *p != ':' && k < 7) name[k++] = *p++;
	name[k] = 0;
	while (*p == ':') {
		p++;
		if (*p < '0' || *p > '9' || n >= 3) return -1;
		a[n++] = strtol(p, &end, 10);
		p = end;
	}
	return *p ? -1 : n;
}

#define R(i) (a[i] >= 0 && a[i] < NREG)

int main(int argc, char **argv)
{
	osInit();
	dbInit();
	while (drv_read()) {
		int i, k;
		long nbits;
		char *end;
		if (drv_ntok < 2 || strcmp(drv_tok[0], "V")) { printf("bad-op"); DRV_EMIT(); continue; }
		nbits = strtol(drv_tok[1], &end, 10);
		if (*end || nbits < 0) { printf("bad-op"); DRV_EMIT(); continue; }
		cls = bitvClassCreate((int) nbits);
		for (k = 0; k < NREG; k++) { reg[k] = bitvNew(cls); bitvClearAll(cls, reg[k]); }
		for (i = 2; i < drv_ntok; i++) {
			char name[8];
			long a[3] = {0, 0, 0};
			int n = parse(drv_tok[i], name, a);
			long nb = (long) cls->nbits;
			if (i > 2) putchar(';');
			if (n < 0) { printf("bad-op"); continue; }
			if (!strcmp(name, "sa") && n == 1 && R(0)) { bitvSetAll(cls, reg[a[0]]); putchar('.'); }
			else if (!strcmp(name, "ca") && n == 1 && R(0)) { bitvClearAll(cls, reg[a[0]]); putchar('.'); }
			else if (!strcmp(name, "s") && n == 2 && R(0) && a[1] < nb) { bitvSet(cls, reg[a[0]], (int) a[1]); putchar('.'); }
			else if (!strcmp(name, "c") && n == 2 && R(0) && a[1] < nb) { bitvClear(cls, reg[a[0]], (int) a[1]); putchar('.'); }
			else if (!strcmp(name, "t") && n == 2 && R(0) && a[1] < nb) printf("%d", bitvTest(cls, reg[a[0]], (int) a[1]));
			else if (!strcmp(name, "cp") && n == 2 && R(0) && R(1)) { bitvCopy(cls, reg[a[0]], reg[a[1]]); putchar('.'); }
			else if (!strcmp(name, "n") && n == 2 && R(0) && R(1)) { bitvNot(cls, reg[a[0]], reg[a[1]]); putchar('.'); }
			else if (!strcmp(name, "&") && n == 3 && R(0) && R(1) && R(2)) { bitvAnd(cls, reg[a[0]], reg[a[1]], reg[a[2]]); putchar('.'); }
			else if (!strcmp(name, "|") && n == 3 && R(0) && R(1) && R(2)) { bitvOr(cls, reg[a[0]], reg[a[1]], reg[a[2]]); putchar('.'); }
			else if (!strcmp(name, "-") && n == 3 && R(0) && R(1) && R(2)) { bitvMinus(cls, reg[a[0]], reg[a[1]], reg[a[2]]); putchar('.'); }
			else if (!strcmp(name, "=") && n == 2 && R(0) && R(1)) printf("%d", (int) bitvEqual(cls, reg[a[0]], reg[a[1]]));
			else if (!strcmp(name, "mx") && n == 1 && R(0)) printf("%d", bitvMax(cls, reg[a[0]]));
			else if (!strcmp(name, "ct") && n == 1 && R(0)) printf("%d", bitvCount(cls, reg[a[0]]));
			else if (!strcmp(name, "cto") && n == 2 && R(0) && a[1] <= nb) printf("%d", bitvCountTo(cls, reg[a[0]], (int) a[1]));
			else if (!strcmp(name, "u") && n == 3 && R(0) && a[2] <= nb)
				printf("%d", bitvUnique1IndexInRange(cls, reg[a[0]], (int) a[1], (int) a[2]));
			else if (!strcmp(name, "fi") && n == 2 && R(0) && nb < 32 && a[1] < 2147483648L) {
				Bitv t = bitvFromInt(cls, (int) a[1]);
				if (cls->nwords > 0 && cls->nbits % 64 != 0)
					t[cls->nwords - 1] &= ~((~0UL) << (cls->nbits % 64));	/* undefined padding */
				bitvCopy(cls, reg[a[0]], t);
				bitvFree(t);
				putchar('.');
			}
			else if (!strcmp(name, "ti") && n == 1 && R(0) && nb < 32) printf("%d", bitvToInt(cls, reg[a[0]]));
			else if (!strcmp(name, "p") && n == 1 && R(0)) { String s = bitvToString(cls, reg[a[0]]); printf("%s", s); strFree(s); }
			else if (!strcmp(name, "w") && n == 1 && R(0)) {
				Length j;
				for (j = 0; j < cls->nwords; j++) printf("%s%lx", j ? "," : "", (unsigned long) reg[a[0]][j]);
			}
			else if (!strcmp(name, "rs") && n == 1) {
				BitvClass nc = bitvClassCreate((int) a[0]);
				for (k = 0; k < NREG; k++) {
					Bitv b = bitvResize(nc, cls, reg[k]);
					if (b != reg[k]) {
						Length j;
						for (j = cls->nwords; j < nc->nwords; j++) b[j] = 0;	/* undefined new words */
					}
					reg[k] = b;
				}
				bitvClassDestroy(cls);
				cls = nc;
				putchar('.');
			}
			else printf("bad-op");
		}
		for (k = 0; k < NREG; k++) bitvFree(reg[k]);
		bitvClassDestroy(cls);
		stoAudit();
		DRV_EMIT();
	}
	return 0;
}
