/* C11 / bigint.c + foam_i.c + dword.c driver: performs big-integer operations with the
 * repository's code (linked from the scratch build of the current tree) and prints the
 * results in the model driver's format: sign, lowercase hex magnitude, '/', representation
 * (i = immediate, b<placec> = stored). */
#include "axlgen.h"
#include "bigint.h"
#include "store.h"
#include "opsys.h"
#include "debug.h"
#include "foam_c.h"
#include <ctype.h>
#include "drv_common.h"

static int hexv(int c)
{
	if (c >= '0' && c <= '9') return c - '0';
	if (c >= 'a' && c <= 'f') return c - 'a' + 10;
	return -1;
}

/* operand token [-]hex -> BInt built with bintFrPlacev from its digit vector */
static BInt operand(const char *t, int *ok)
{
	Bool neg = 0;
	size_t n, i, nd;
	BIntS *data;
	BInt r;
	if (*t == '-') { neg = 1; t++; }
	n = strlen(t);
	if (n == 0) { *ok = 0; return bint0; }
	for (i = 0; i < n; i++) if (hexv(t[i]) < 0) { *ok = 0; return bint0; }
	nd = (n * 4 + 8 * sizeof(BIntS) - 1) / (8 * sizeof(BIntS));
	data = (BIntS *) calloc(nd + 1, sizeof(BIntS));
	for (i = 0; i < n; i++) {
		size_t bitpos = 4 * (n - 1 - i);
		data[bitpos / (8 * sizeof(BIntS))] |= ((BIntS) hexv(t[i])) << (bitpos % (8 * sizeof(BIntS)));
	}
	r = bintFrPlacev(neg, nd, data);
	free(data);
	return r;
}

static void show(BInt b)
{
	if (bintIsSmall(b)) {
		long v = bintSmall(b);
		unsigned long u = v < 0 ? -(unsigned long) v : (unsigned long) v;
		printf("%s%lx/i", v < 0 ? "-" : "", u);
	}
	else {
		long i = (long) b->placec - 1;
		int started = 0;
		if (b->isNeg) putchar('-');
		for (; i >= 0; i--) {
			if (!started) {
				if (b->placev[i] == 0) continue;
				printf("%lx", (unsigned long) b->placev[i]);
				started = 1;
			}
			else printf("%0*lx", (int) (2 * sizeof(BIntS)), (unsigned long) b->placev[i]);
		}
		if (!started) putchar('0');
		printf("/b%lu", (unsigned long) b->placec);
	}
}

static char *untok(char *t)
{
	char *p;
	for (p = t; *p; p++) if (*p == '_') *p = ' ';
	return t;
}

static unsigned long hexul(const char *t, int *ok)
{
	unsigned long u = 0;
	if (!*t) *ok = 0;
	for (; *t; t++) { int h = hexv(*t); if (h < 0) { *ok = 0; return 0; } u = (u << 4) | (unsigned long) h; }
	return u;
}

#define OP(s, n) (!strcmp(drv_tok[0], s) && drv_ntok == (n) + 1)

int main(int argc, char **argv)
{
	osInit();
	dbInit();
	while (drv_read()) {
		int ok = 1;
		BInt a, b, c, r;
		if (drv_ntok == 0) { printf("bad-op"); DRV_EMIT(); continue; }
		if (OP("consts", 0)) {
			/* probe the immediate range through the public interface */
			long k, maxi = 0, mini = 0, h, maxh = 0;
			for (k = 1; k < 8 * (long) sizeof(long) - 1; k++) {
				long v = (long) ((1UL << k) - 1);
				if (bintIsSmall(bintNew(v))) maxi = v;
				if (bintIsSmall(bintNew(-v))) mini = -v;
			}
			if (bintIsSmall(bintNew(maxi + 1))) maxi = -1;
			if (bintIsSmall(bintNew(mini - 1))) mini = 1;
			/* INT_MAX_HALF is not observable; report the largest 2^k-1 whose square is immediate */
			for (h = 1; h < 8 * (long) sizeof(long) - 1; h++) {
				long v = (long) ((1UL << h) - 1);
				BInt s = bintTimes(bintNew(v), bintNew(v));
				if (bintIsSmall(s)) maxh = v;
			}
			printf("lg=%lu radix=1", (unsigned long) (8 * sizeof(BIntS)));
			for (k = 0; k < 2 * (long) sizeof(BIntS); k++) putchar('0');
			printf(" long=%lu maximm=%lx minimm=-%lx maxhalf=%lx", (unsigned long) (8 * sizeof(long)),
			       (unsigned long) maxi, (unsigned long) -mini, (unsigned long) maxh);
		}
		else if (OP("new", 1)) { show(bintNew(strtol(drv_tok[1], NULL, 10))); }
		else if (OP("rt", 1)) {
			r = fiSIntToBInt(strtol(drv_tok[1], NULL, 10));
			printf("%ld ", (long) fiBIntToSInt((FiBInt) r)); show(r);
		}
		else if (OP("tosint", 1)) {
			a = operand(drv_tok[1], &ok);
			if (!ok) printf("bad-op"); else printf("%ld", (long) fiBIntToSInt((FiBInt) a));
		}
		else if (OP("small", 1)) {
			a = operand(drv_tok[1], &ok);
			if (!ok) printf("bad-op");
			else printf("%d %ld", (int) !!bintIsSmall(a), bintSmall(a));
		}
		else if (OP("cmp", 2)) {
			a = operand(drv_tok[1], &ok); b = operand(drv_tok[2], &ok);
			if (!ok) printf("bad-op");
			else printf("%d%d%d", (int) !!bintEQ(a, b), (int) !!bintLT(a, b), (int) !!bintGT(a, b));
		}
		else if (OP("sgn", 1)) {
			a = operand(drv_tok[1], &ok);
			if (!ok) printf("bad-op");
			else printf("%d%d%d", (int) !!bintIsZero(a), (int) !!bintIsNeg(a), (int) !!bintIsPos(a));
		}
		else if (OP("neg", 1) || OP("abs", 1)) {
			a = operand(drv_tok[1], &ok);
			if (!ok) printf("bad-op"); else show(drv_tok[0][0] == 'n' ? bintNegate(a) : bintAbs(a));
		}
		else if (OP("plus", 2) || OP("minus", 2) || OP("times", 2)) {
			a = operand(drv_tok[1], &ok); b = operand(drv_tok[2], &ok);
			if (!ok) printf("bad-op");
			else show(drv_tok[0][0] == 'p' ? bintPlus(a, b) : drv_tok[0][0] == 'm' ? bintMinus(a, b) : bintTimes(a, b));
		}
		else if (OP("self", 2)) {
			/* both arguments are the same object (the Beq(a,b) paths) */
			a = operand(drv_tok[2], &ok);
			if (!ok) printf("bad-op");
			else if (!strcmp(drv_tok[1], "plus")) show(bintPlus(a, a));
			else if (!strcmp(drv_tok[1], "minus")) show(bintMinus(a, a));
			else if (!strcmp(drv_tok[1], "times")) show(bintTimes(a, a));
			else if (!strcmp(drv_tok[1], "cmp")) printf("%d%d%d", (int) !!bintEQ(a, a), (int) !!bintLT(a, a), (int) !!bintGT(a, a));
			else if (!strcmp(drv_tok[1], "div")) {
				if (bintIsZero(a)) printf("div-by-zero");
				else { BInt q, rem; q = bintDivide(&rem, a, a); show(q); putchar(' '); show(rem); }
			}
			else printf("bad-op");
		}
		else if (OP("tplus", 3)) {
			a = operand(drv_tok[1], &ok); b = operand(drv_tok[2], &ok); c = operand(drv_tok[3], &ok);
			if (!ok) printf("bad-op"); else show((BInt) fiBIntTimesPlus((FiBInt) a, (FiBInt) b, (FiBInt) c));
		}
		else if (OP("div", 2)) {
			a = operand(drv_tok[1], &ok); b = operand(drv_tok[2], &ok);
			if (!ok) printf("bad-op");
			else if (bintIsZero(b)) printf("div-by-zero");
			else { BInt q, rem; q = bintDivide(&rem, a, b); show(q); putchar(' '); show(rem); }
		}
		else if (OP("mod", 2)) {
			a = operand(drv_tok[1], &ok); b = operand(drv_tok[2], &ok);
			if (!ok) printf("bad-op");
			else if (bintIsZero(b)) printf("div-by-zero");
			else show((BInt) fiBIntMod((FiBInt) a, (FiBInt) b));
		}
		else if (OP("gcd", 2)) {
			a = operand(drv_tok[1], &ok); b = operand(drv_tok[2], &ok);
			if (!ok) printf("bad-op"); else show((BInt) fiBIntGcd((FiBInt) a, (FiBInt) b));
		}
		else if (OP("sipow", 2)) {
			long e = strtol(drv_tok[2], NULL, 10);
			a = operand(drv_tok[1], &ok);
			if (!ok) printf("bad-op");
			else if (e < 0) printf("negative-power");
			else show((BInt) fiBIntSIPower((FiBInt) a, (FiSInt) e));
		}
		else if (OP("bipow", 2)) {
			a = operand(drv_tok[1], &ok); b = operand(drv_tok[2], &ok);
			if (!ok) printf("bad-op");
			else if (bintIsNeg(b)) printf("negative-power");
			else show((BInt) fiBIntBIPower((FiBInt) a, (FiBInt) b));
		}
		else if (OP("powmod", 3)) {
			a = operand(drv_tok[1], &ok); b = operand(drv_tok[2], &ok); c = operand(drv_tok[3], &ok);
			if (!ok) printf("bad-op");
			else if (bintIsZero(c)) printf("div-by-zero");
			else if (bintIsNeg(b) && !bintIsZero(bintMod(a, c))) printf("negative-power");
			else show((BInt) fiBIntPowerMod((FiBInt) a, (FiBInt) b, (FiBInt) c));
		}
		else if (OP("len", 1)) {
			a = operand(drv_tok[1], &ok);
			if (!ok) printf("bad-op");
			else printf("%lu %d", (unsigned long) bintLength(a), (int) !!fiBIntIsSingle((FiBInt) a));
		}
		else if (OP("bit", 2)) {
			a = operand(drv_tok[1], &ok);
			if (!ok) printf("bad-op"); else printf("%d", (int) !!bintBit(a, (Length) strtoul(drv_tok[2], NULL, 10)));
		}
		else if (OP("shift", 2)) {
			a = operand(drv_tok[1], &ok);
			if (!ok) printf("bad-op"); else show(bintShift(a, (int) strtol(drv_tok[2], NULL, 10)));
		}
		else if (OP("shrem", 2)) {
			a = operand(drv_tok[1], &ok);
			if (!ok) printf("bad-op"); else show(bintShiftRem(a, (int) strtol(drv_tok[2], NULL, 10)));
		}
		else if (OP("tos", 1)) {
			a = operand(drv_tok[1], &ok);
			if (!ok) printf("bad-op"); else printf("%s", bintToString(a));
		}
		else if (OP("frs", 1)) {
			String end, s = untok(drv_tok[1]);
			r = bintRadixScanFrString(s, &end);
			show(r); printf(" %ld", (long) (end - s));
		}
		else if (OP("scan", 1)) {
			String end, s = untok(drv_tok[1]);
			r = bintScanFrString(s, &end);
			show(r); printf(" %ld", (long) (end - s));
		}
		else if (OP("xmd", 3)) {
			unsigned long nh = hexul(drv_tok[1], &ok), nl = hexul(drv_tok[2], &ok), d = hexul(drv_tok[3], &ok);
			if (!ok) printf("bad-op");
			else if (d == 0) printf("div-by-zero");
			else printf("%lx", (unsigned long) xxModDouble(nh, nl, d));
		}
		else if (OP("ulen", 1)) {
			unsigned long u = hexul(drv_tok[1], &ok);
			if (!ok) printf("bad-op"); else printf("%lu", (unsigned long) uintLength(u));
		}
		else printf("bad-op");
		DRV_EMIT();
	}
	return 0;
}
