/* C09 / store.c collector driver.  Builds object graphs through stoAlloc with the repository's
 * store.c (linked from the scratch build of the current tree), keeps the roots in a static array
 * (stoGcMark scans the writable data segments, the C stack and the registers saved by setjmp
 * conservatively), calls stoGc() and reports which pieces survived and what they contain.
 *
 * usage: gc_drv [demand|auto]
 *   demand : stoCtl(StoCtl_GcLevel, StoCtl_GcLevel_Demand) - collections only at `G` lines (and where
 *            ALDOR_VERIF_GC forces them, when the library was built with ALDOR_VERIF_HOOKS)
 *   auto   : the default level, the allocator may also collect when it runs out of pages
 *
 * one request line is one history `H op ; op ; ...` (the store is not re-initialised between histories:
 * the roots are cleared and a collection runs); ids are allocation serial numbers starting at 0.
 * The answer is the answers of the operations joined by ` ; `.  Operations:
 *   A <code> <nwords>             allocate; the result is also put into root slot 0
 *   W <id> <i> P <tid> <off>      word i of piece id := address of word <off> of piece tid (off = -1:
 *                                 a pointer into the header of a mixed piece)
 *   W <id> <i> V <n>              word i of piece id := the integer n (< 4096, not 170 or 221)
 *   R <slot> P <tid> <off> | R <slot> V <n>     the same for a root slot
 *   G                             collect, then report      C   report without collecting
 *   L <n> <link>                  (probe) chain of n two-word pieces linked through word <link>, head in root 1
 *   N                             (probe) collect, then answer only `live=<n> changed=<n> dead=<n>`
 * answer to G/C:  `id:w,w,.. id:w,..| dead=<ids> reused=<ids> badpoison=<ids>` listing every piece that
 * is still allocated (stoIsPointer) with its words decoded against what was written:
 *   n = untouched new fill (0xAA..), <number> = integer, p<tid>+<off> = pointer, !<hex> = anything else;
 *   a run of 4 or more equal words is written `w*count`.
 *
 * Addresses of pieces are kept complemented so that the driver's own tables are not roots. */
#include "axlgen.h"
#include "store.h"
#include "opsys.h"
#include "debug.h"
#include "drv_common.h"
#include <setjmp.h>
#include <signal.h>
#include <sys/mman.h>

#define MAXB   1200000                  /* most pieces in one history */
#define NROOT  16
#define NEWW   0xAAAAAAAAAAAAAAAAUL
#define DDDW   0xDDDDDDDDDDDDDDDDUL

typedef struct { char k; int t; int off; } Shadow;   /* k: 'n' new, 'v' value (off), 'p' pointer */

Pointer gc_roots[NROOT];                 /* the roots: static data, scanned by stoGcMark */

/* The tables grow on demand and live in their own mappings: every writable mapping of the process is
 * scanned by stoGcMark at every collection, so they are kept as small as the history needs. */
static unsigned long *tab;               /* ~address of piece id */
static int     *nwords;
static char    *state;                   /* 0 live, 1 found freed, 2 overlapped by a later piece */
static Shadow **shadow;
static int     *live_ids, *deadv, *reusedv, *badv;
static int      cap;                     /* capacity of the tables */
static Shadow  *slab; static int slab_lo, slab_hi;   /* shadows of the pieces of an `L` chain */
static int     nblk;
static int     nlive;                    /* number of entries of live_ids (ids with state 0) */
static ULong   gc_bytes_seen;            /* stoBytesGc at the last survey: unchanged => nothing was reclaimed since */

static int opbase, opend;                /* token range of the operation being executed */

/* the shadow of a large piece is mapped and unmapped directly: malloc would leave tens of MB of freed
 * memory between the store's sections, which stoGcMark then scans as foreign pages at every collection */
#define SHADOW_MMAP (32 * 1024)
static Shadow *shadow_new(int n)
{
	size_t sz = sizeof(Shadow) * (size_t) n;
	if (sz >= SHADOW_MMAP) {
		void *p = mmap(0, sz, PROT_READ | PROT_WRITE, MAP_PRIVATE | MAP_ANONYMOUS, -1, 0);
		return p == MAP_FAILED ? 0 : (Shadow *) p;
	}
	return (Shadow *) malloc(sz);
}
static void shadow_free(Shadow *p, int n)
{
	size_t sz = sizeof(Shadow) * (size_t) n;
	if (!p) return;
	if (sz >= SHADOW_MMAP) munmap(p, sz); else free(p);
}

static void *map_bytes(size_t sz)
{
	void *p = mmap(0, sz ? sz : 1, PROT_READ | PROT_WRITE, MAP_PRIVATE | MAP_ANONYMOUS, -1, 0);
	if (p == MAP_FAILED) { fprintf(stderr, "gc_drv: cannot map %lu bytes\n", (unsigned long) sz); exit(3); }
	return p;
}
#define GROW(v, T) do { T *nv = (T *) map_bytes(sizeof(T) * (size_t) ncap); \
	if (v) { memcpy(nv, v, sizeof(T) * (size_t) cap); munmap(v, sizeof(T) * (size_t) cap); } v = nv; } while (0)
static void ensure_cap(int want)
{
	int ncap = cap ? cap : 8192;
	if (want <= cap) return;
	while (ncap < want) ncap *= 2;
	GROW(tab, unsigned long); GROW(nwords, int); GROW(state, char); GROW(shadow, Shadow *);
	GROW(live_ids, int); GROW(deadv, int); GROW(reusedv, int); GROW(badv, int);
	cap = ncap;
}
static void drop_tables(void)
{
	int ncap = 0;
	if (cap <= 65536) return;
#define DROP(v, T) do { munmap(v, sizeof(T) * (size_t) cap); v = 0; } while (0)
	DROP(tab, unsigned long); DROP(nwords, int); DROP(state, char); DROP(shadow, Shadow *);
	DROP(live_ids, int); DROP(deadv, int); DROP(reusedv, int); DROP(badv, int);
	cap = ncap;
	ensure_cap(8192);
}

static sigjmp_buf segv_env;
static volatile int segv_armed;
static void on_segv(int sig)
{
	if (segv_armed) siglongjmp(segv_env, 1);
	signal(sig, SIG_DFL);
	raise(sig);
}

/* stoIsPointer on an address that may be stale (pages re-used for a section header) */
static int safe_is_pointer(unsigned long a)
{
	int r;
	if (sigsetjmp(segv_env, 1)) { segv_armed = 0; return 0; }
	segv_armed = 1;
	r = stoIsPointer((Pointer) a) != 0;
	segv_armed = 0;
	return r;
}

static __attribute__((noinline)) void scrub(void)
{
	volatile char junk[1 << 16];
	unsigned i;
	for (i = 0; i < sizeof(junk); i++) junk[i] = 0;
}

static unsigned long expect(Shadow *s)
{
	if (s->k == 'n') return NEWW;
	if (s->k == 'v') return (unsigned long) s->off;
	return ~tab[s->t] + 8L * s->off;
}

static __attribute__((noinline)) int do_alloc(int code, int n)
{
	unsigned long a, lo, hi;
	int i, j, id = nblk;
	Pointer p;
	if (nblk >= MAXB || n <= 0) return -1;
	ensure_cap(nblk + 1);
	p = (Pointer) stoAlloc((unsigned) code, (ULong) n * 8);
	if (!p) return -1;
	a = (unsigned long) p;
	/* a later piece over the place of an earlier one: the earlier one has been reclaimed
	 * (possible only if a collection freed something since the last survey) */
	if (stoBytesGc != gc_bytes_seen)
	for (i = j = 0; i < nlive; i++) {
		int b = live_ids[i];
		lo = ~tab[b]; hi = lo + 8L * nwords[b];
		if (a < hi && lo < a + 8L * n) state[b] = 2;
		else live_ids[j++] = b;
	}
	else j = nlive;
	nlive = j;
	tab[id] = ~a;
	nwords[id] = n;
	state[id] = 0;
	if (slab && id >= slab_lo && id < slab_hi) shadow[id] = slab + 2 * (size_t) (id - slab_lo);
	else shadow[id] = shadow_new(n);
	if (!shadow[id]) return -1;
	for (i = 0; i < n; i++) { shadow[id][i].k = 'n'; shadow[id][i].t = 0; shadow[id][i].off = 0; }
	live_ids[nlive++] = id;
	nblk++;
	gc_roots[0] = p;
	p = 0;
	return id;
}

/* parse `P tid off` / `V n` at token k into a shadow entry; 0 on error */
static int parse_val(int k, Shadow *s)
{
	if (k + 1 >= opend) return 0;
	if (!strcmp(drv_tok[k], "V")) {
		if (k + 2 != opend) return 0;
		s->k = 'v'; s->t = 0; s->off = atoi(drv_tok[k + 1]);
		/* 0xAA and 0xDD stand for the fill patterns in the model's word space */
		return s->off >= 0 && s->off < 4096 && s->off != 0xAA && s->off != 0xDD;
	}
	if (!strcmp(drv_tok[k], "P") && k + 3 == opend) {
		s->k = 'p'; s->t = atoi(drv_tok[k + 1]); s->off = atoi(drv_tok[k + 2]);
		return s->t >= 0 && s->t < nblk && s->off >= -1 && s->off < nwords[s->t];
	}
	return 0;
}

static __attribute__((noinline)) int do_write(int id, int i, Shadow *s)
{
	unsigned long *w;
	if (id < 0 || id >= nblk || i < 0 || i >= nwords[id]) return 0;
	if (state[id]) return -1;               /* the history writes into a piece known to be gone */
	w = (unsigned long *) ~tab[id];
	w[i] = expect(s);
	shadow[id][i] = *s;
	w = 0;
	return 1;
}

static __attribute__((noinline)) void do_root(int slot, Shadow *s)
{
	gc_roots[slot] = (Pointer) expect(s);
}

static void show_ids(const char *what, int *v, int n)
{
	int i;
	printf(" %s=", what);
	for (i = 0; i < n; i++) printf("%s%d", i ? "," : "", v[i]);
}


static __attribute__((noinline)) void report(void)
{
	int i, j, k, nd = 0, nr = 0, nb = 0, first = 1;
	/* which of the pieces believed live are gone? */
	for (i = j = 0; i < nlive; i++) {
		int b = live_ids[i];
		unsigned long a = ~tab[b];
		if (safe_is_pointer(a)) { live_ids[j++] = b; continue; }
		state[b] = 1;
		deadv[nd++] = b;
		/* freed storage is washed: fxmemCleanBody/mxmemCleanBody leave only link words at the start */
		for (k = 4; k < nwords[b]; k++)
			if (((unsigned long *) a)[k] != DDDW) { badv[nb++] = b; break; }
	}
	nlive = j;
	gc_bytes_seen = stoBytesGc;
	for (i = 0; i < nblk; i++) if (state[i] == 2) { reusedv[nr++] = i; state[i] = 3; }
	for (i = 0; i < nlive; i++) {
		int b = live_ids[i];
		unsigned long *w = (unsigned long *) ~tab[b];
		printf("%s%d:", first ? "" : " ", b);
		first = 0;
		{
			/* runs of 4 or more equal words are printed as `w*count` */
			char cur[40], prev[40];
			long run = 0;
			int firstw = 1;
			prev[0] = 0;
			for (k = 0; k <= nwords[b]; k++) {
				if (k < nwords[b]) {
					Shadow *s = &shadow[b][k];
					if (w[k] != expect(s)) sprintf(cur, "!%lx", w[k] == DDDW ? 0xDDUL : w[k] == NEWW ? 0xAAUL : 1UL);
					else if (s->k == 'n') strcpy(cur, "n");
					else if (s->k == 'v') sprintf(cur, "%d", s->off);
					else sprintf(cur, "p%d%s%d", s->t, s->off < 0 ? "" : "+", s->off);
					if (run && !strcmp(cur, prev)) { run++; continue; }
				}
				if (run >= 4) { printf("%s%s*%ld", firstw ? "" : ",", prev, run); firstw = 0; }
				else for (; run > 0; run--) { printf("%s%s", firstw ? "" : ",", prev); firstw = 0; }
				strcpy(prev, cur); run = 1;
			}
		}
		w = 0;
	}
	printf(" |");
	show_ids("dead", deadv, nd);
	show_ids("reused", reusedv, nr);
	show_ids("badpoison", badv, nb);
}

/* `N`: how many pieces are still allocated, how many of those differ from what was written, how many are gone */
static __attribute__((noinline)) void count_report(void)
{
	int i, j, k, nd = 0, nchg = 0;
	for (i = j = 0; i < nlive; i++) {
		int b = live_ids[i];
		unsigned long a = ~tab[b], *w = (unsigned long *) a;
		if (!safe_is_pointer(a)) { state[b] = 1; nd++; continue; }
		live_ids[j++] = b;
		for (k = 0; k < nwords[b]; k++)
			if (w[k] != expect(&shadow[b][k])) { nchg++; break; }
		w = 0;
	}
	nlive = j;
	gc_bytes_seen = stoBytesGc;
	printf("live=%d changed=%d dead=%d", nlive, nchg, nd);
}

static __attribute__((noinline)) void do_gc(void)
{
	scrub();
	stoGc();
}

static void reset(void)
{
	int i;
	for (i = 0; i < NROOT; i++) gc_roots[i] = 0;
	for (i = 0; i < nblk; i++) {
		if (!(slab && i >= slab_lo && i < slab_hi)) shadow_free(shadow[i], nwords[i]);
		shadow[i] = 0;
	}
	if (slab) { munmap(slab, sizeof(Shadow) * 2 * (size_t) (slab_hi - slab_lo)); slab = 0; }
	drop_tables();
	nblk = nlive = 0;
	do_gc();
	gc_bytes_seen = stoBytesGc;      /* nothing is tracked yet: nothing can have been reclaimed under us */
}

int main(int argc, char **argv)
{
	StoInfoObj info;
	int c;
	osInit();
	dbInit();
	if (argc > 1 && !strcmp(argv[1], "demand"))
		stoCtl(StoCtl_GcLevel, StoCtl_GcLevel_Demand);
	/* object codes 16..31: no internal pointers (what the runtime does for BInt, Char[], ...) */
	stoAlloc(0, 8);
	for (c = 16; c < 32; c++) { info.code = c; info.hasPtrs = 0; stoRegister(&info); }
	signal(SIGSEGV, on_segv);
	signal(SIGBUS, on_segv);
	while (drv_read()) {
		int k, e, first = 1;
		if (drv_ntok < 1 || strcmp(drv_tok[0], "H")) { printf("bad-op"); DRV_EMIT(); continue; }
		reset();
		for (k = 1; k <= drv_ntok; k = e + 1) {
			Shadow s;
			char op;
			int n;
			for (e = k; e < drv_ntok && strcmp(drv_tok[e], ";"); e++) ;
			n = e - k;                      /* the operation is drv_tok[k .. e-1] */
			op = n ? drv_tok[k][0] : 0;
			if (!first) printf(" ; ");
			first = 0;
			opbase = k; opend = e;
			if (op == 'A' && n == 3) {
				int id = do_alloc(atoi(drv_tok[k + 1]) & 31, atoi(drv_tok[k + 2]));
				if (id < 0) printf("bad-op"); else printf("a");
			}
			else if (op == 'W' && n >= 5 && parse_val(k + 3, &s)) {
				int r = do_write(atoi(drv_tok[k + 1]), atoi(drv_tok[k + 2]), &s);
				printf(r > 0 ? "w" : r < 0 ? "w!dead" : "bad-op");
			}
			else if (op == 'R' && n >= 4 && atoi(drv_tok[k + 1]) >= 0 && atoi(drv_tok[k + 1]) < NROOT && parse_val(k + 2, &s)) {
				do_root(atoi(drv_tok[k + 1]), &s);
				printf("r");
			}
			else if ((op == 'G' || op == 'C') && n == 1) {
				if (op == 'G') do_gc();
				scrub();
				report();
				stoAudit();
			}
			else if (op == 'L' && n == 3) {
				/* impl-only probe: a chain of <n> two-word pieces linked through word <link>, head in root 1 */
				int i, len = atoi(drv_tok[k + 1]), link = atoi(drv_tok[k + 2]) & 1, ok = !slab && len > 0 && nblk + len <= MAXB;
				if (ok) { slab = (Shadow *) map_bytes(sizeof(Shadow) * 2 * (size_t) len); slab_lo = nblk; slab_hi = nblk + len; }
				for (i = 0; i < len && ok; i++) {
					int id = do_alloc(0, 2);
					ok = id >= 0;
					if (ok && i == 0) { s.k = 'p'; s.t = id; s.off = 0; do_root(1, &s); }
					if (ok && i > 0) { s.k = 'p'; s.t = id; s.off = 0; do_write(id - 1, link, &s); }
				}
				s.k = 'v'; s.off = 0; do_root(0, &s);
				printf(ok ? "l" : "bad-op");
			}
			else if (op == 'N' && n == 1) {
				/* impl-only probe: collect, then only count (a chain of 10^6 pieces is not listed) */
				do_gc();
				scrub();
				count_report();
				stoAudit();
			}
			else printf("bad-op");
		}
		DRV_EMIT();
	}
	return 0;
}
