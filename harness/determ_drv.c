/* C08 / determ driver: the repository's table.c, strops.c:strHash, util.c:lisort and
 * lib.c:libCodeSort/libCmpCode (lib.c is #included so that the `local` libCodeSort and the static
 * libCmpLib are reachable; everything else is linked from the scratch build of the current
 * tree).  Output format = lean/AldorVerif/Driver/Determ.lean. */
#include "lib.c"
#include "table.h"
#include "strops.h"
#include "opsys.h"
#include "debug.h"
#include "drv_common.h"

#define MAXK 4096
static Hash  KH[MAXK];	/* hash of key i */
static long  KC[MAXK];	/* equality class of key i */
static int   mode;	/* 'E' 'N' 'P' */

/* keys of modes E and N are the pointers (i+1) */
static Hash myHash(TblKey k) { return KH[(long) k - 1]; }
static Bool myEq(TblKey a, TblKey b) { return KC[(long) a - 1] == KC[(long) b - 1]; }

static TblKey keyOf(long i) { return mode == 'P' ? (TblKey) KH[i] : (TblKey) (i + 1); }
static long   ixOf(TblKey k, long nk)
{
	long i;
	if (mode != 'P') return (long) k - 1;
	for (i = 0; i < nk; i++) if ((TblKey) KH[i] == k) return i;
	return -1;
}

static void doTable(void)
{
	long nk, i, first = 1;
	int p;
	Table t;
	TableIterator it;
	static char gets[1 << 20];
	size_t gl = 0;

	if (drv_ntok < 3) { printf("bad-op"); return; }
	mode = drv_tok[1][0];
	nk = atol(drv_tok[2]);
	if (nk < 0 || nk > MAXK || drv_ntok < 3 + 2 * nk) { printf("bad-op"); return; }
	for (i = 0; i < nk; i++) KH[i] = strtoul(drv_tok[3 + i], NULL, 10);
	for (i = 0; i < nk; i++) KC[i] = atol(drv_tok[3 + nk + i]);
	t = mode == 'E' ? tblNew((TblHashFun) myHash, (TblEqFun) myEq)
	  : mode == 'N' ? tblNew((TblHashFun) myHash, (TblEqFun) 0)
	  :               tblNew((TblHashFun) 0, (TblEqFun) 0);
	gets[0] = 0;
	for (p = 3 + 2 * nk; p < drv_ntok; p++) {
		char *tok = drv_tok[p];
		long k = atol(tok + 1);
		if (k < 0 || k >= nk) { printf("bad-op"); tblFree(t); return; }
		if (tok[0] == 's') {
			char *c = strchr(tok, ':');
			tblSetElt(t, keyOf(k), (TblElt) (c ? atol(c + 1) + 1 : 1));
		}
		else if (tok[0] == 'g') {
			long e = (long) tblElt(t, keyOf(k), (TblElt) 0);
			if (gl + 32 < sizeof(gets)) {
				if (e) gl += sprintf(gets + gl, "%s%ld", gl ? "," : "", e - 1);
				else   gl += sprintf(gets + gl, "%s-", gl ? "," : "");
			}
		}
		else if (tok[0] == 'd')
			tblDrop(t, keyOf(k));
		else { printf("bad-op"); tblFree(t); return; }
	}
	printf("c=%ld b=%ld o=", (long) tblSize(t), (long) t->buckc);
	for (tblITER(it, t); tblMORE(it); tblSTEP(it)) {
		printf("%s%ld:%ld", first ? "" : ",", ixOf(tblKEY(it), nk), (long) tblELT(it) - 1);
		first = 0;
	}
	printf(" g=%s", gets);
	tblFree(t);
}

static void doHash(void)
{
	static char buf[1 << 16];
	size_t n = 0;
	char *h = drv_ntok > 1 ? drv_tok[1] : "";
	while (h[0] && h[1] && n + 1 < sizeof(buf)) {
		unsigned v;
		if (sscanf(h, "%2x", &v) != 1) { printf("bad-op"); return; }
		buf[n++] = (char) v;
		h += 2;
	}
	if (h[0]) { printf("bad-op"); return; }
	buf[n] = 0;
	printf("%lu", (unsigned long) strHash(buf));
}

static void doSort(void)
{
	long n = drv_ntok - 1, i;
	struct lib L;
	Syme *sv;
	UShort *cv;
	if (n > 60000) { printf("bad-op"); return; }
	memset(&L, 0, sizeof(L));
	sv = (Syme *) calloc(n + 1, sizeof(Syme));
	cv = (UShort *) calloc(n + 1, sizeof(UShort));
	for (i = 0; i < n; i++) {
		char *end;
		sv[i] = (Syme) calloc(1, sizeof(struct syme));
		symeHash(sv[i]) = strtoul(drv_tok[1 + i], &end, 10);
		if (*end || symeHash(sv[i]) == 0) { printf("bad-op"); return; }	/* 0 = "not yet computed" */
		cv[i] = (UShort) i;
	}
	L.symec = n; L.symev = sv; L.codev = cv;
	libCodeSort(&L);
	for (i = 0; i < n; i++) printf("%s%u", i ? " " : "", (unsigned) cv[i]);
	for (i = 0; i < n; i++) free(sv[i]);
	free(sv); free(cv);
}

int main(int argc, char **argv)
{
	osInit();
	dbInit();
	while (drv_read()) {
		if (drv_ntok == 0) printf("bad-op");
		else if (!strcmp(drv_tok[0], "T")) doTable();
		else if (!strcmp(drv_tok[0], "H")) doHash();
		else if (!strcmp(drv_tok[0], "S")) doSort();
		else printf("bad-op");
		DRV_EMIT();
	}
	return 0;
}
