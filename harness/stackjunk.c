/* C08 uninitialised-read probe (outside the repository; used through LD_PRELOAD only).
 *
 * An automatic variable that is read before it is written sees whatever the stack held.  In a
 * normal run that residue is itself a function of the earlier computation, so the defect stays
 * invisible.  This object makes the residue a function of a SEED instead:
 *   - before `main` (constructor) the stack region main is going to use is filled with a seeded
 *     pattern, and
 *   - at every call of a few libc functions the compiler uses at phase and file boundaries
 *     (times, fopen, fopen64, fclose, fflush) the DEAD part of the stack -- below the frame of
 *     the interposed function -- is filled again.  Frames entered later start from that junk.
 * If uninitialised stack data can reach an output, different seeds give different outputs.
 *   ALDOR_VERIF_STACKJUNK=<seed>[,<kbytes>]     seed 0 = fill with zero bytes; default 512 KB
 * Only dead stack is written (the region is obtained with alloca inside a non-inlined leaf), so
 * a correct program cannot observe the difference.
 *
 * LIMIT (measured): the probe sees reads of stack that nothing has written since the last fill.
 * A planted `int junk[16]; fprintf(fout, "%d", junk[5] & 1);` in emit.c:emitTheC was NOT
 * detected -- that frame region had just been used by the preceding phase, whose residue is the
 * same in every run -- while valgrind memcheck (checks/parts/determ.py: valgrind_probe) reported
 * it on every unit.  This object is the cheap, every-unit complement of the memcheck probe. */
#define _GNU_SOURCE
#include <dlfcn.h>
#include <stdio.h>
#include <stdlib.h>
#include <string.h>
#include <sys/times.h>

static unsigned long sj_seed, sj_bytes, sj_on, sj_count;

static void __attribute__((noinline)) dirty(unsigned long seed, unsigned long nbytes)
{
	volatile unsigned long *p = (volatile unsigned long *) __builtin_alloca(nbytes);
	unsigned long x = seed * 6364136223846793005UL + 1442695040888963407UL, i, n = nbytes / sizeof(*p);
	for (i = 0; i < n; i++) {
		if (seed == 0) p[i] = 0;
		else {
			x ^= x << 13; x ^= x >> 7; x ^= x << 17;	/* xorshift64 */
			p[i] = x;
		}
	}
}

static void again(void)
{
	if (sj_on) dirty(sj_seed ? sj_seed + 977 * ++sj_count : 0, sj_bytes < 262144 ? sj_bytes : 262144);
}

static void __attribute__((constructor)) stackjunk_init(void)
{
	const char *s = getenv("ALDOR_VERIF_STACKJUNK");
	unsigned long kb = 512;
	char *end;
	if (!s) return;
	sj_seed = strtoul(s, &end, 10);
	if (*end == ',') kb = strtoul(end + 1, 0, 10);
	if (kb > 6000) kb = 6000;	/* stay inside the default 8 MB stack */
	sj_bytes = kb * 1024;
	sj_on = 1;
	dirty(sj_seed, sj_bytes);
}

typedef clock_t (*times_fn)(struct tms *);
typedef FILE *(*fopen_fn)(const char *, const char *);
typedef int (*file_fn)(FILE *);
#define NEXT(name, type) static type real; if (!real) real = (type) dlsym(RTLD_NEXT, name)

clock_t times(struct tms *b)
{
	NEXT("times", times_fn);
	again();
	return real(b);
}

FILE *fopen(const char *path, const char *mode)
{
	NEXT("fopen", fopen_fn);
	again();
	return real(path, mode);
}

FILE *fopen64(const char *path, const char *mode)
{
	NEXT("fopen64", fopen_fn);
	again();
	return real(path, mode);
}

int fclose(FILE *f)
{
	NEXT("fclose", file_fn);
	again();
	return real(f);
}

int fflush(FILE *f)
{
	NEXT("fflush", file_fn);
	again();
	return real(f);
}
