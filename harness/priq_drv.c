/* C20 / priq.c driver: runs one operation history per input line on the repository's priq.c
 * (linked from the scratch build of the current tree).
 *   Q <argcGuess> op op ...
 *   ops: i:k:e priqInsert | x priqExtractMin | p priqPeekMin | n priqCount | z allocated size
 *        k priqCheck | m priqMap (pre-order) | d used slots in array order
 * Guard of the driver: priqExtractMin and priqPeekMin are not called on an empty queue (the
 * module calls bug() = abort there); the driver answers `empty`.  priqCheck is called
 * unconditionally: it returns true or calls bug() (abort -> FAULT) when the heap is out of order.
 */
#include "axlgen.h"
#include "priq.h"
#include "store.h"
#include "opsys.h"
#include "debug.h"
#include "drv_common.h"

static int mfirst;
static void mapfn(PriQKey k, PriQElt e)
{
	printf("%s%ld:%lu", mfirst ? "" : ",", (long) k, (unsigned long) e);
	mfirst = 0;
}

int main(int argc, char **argv)
{
	osInit();
	dbInit();
	while (drv_read()) {
		PriQ pq;
		int i;
		char *end;
		unsigned long guess;
		if (drv_ntok < 2 || strcmp(drv_tok[0], "Q")) { printf("bad-op"); DRV_EMIT(); continue; }
		guess = strtoul(drv_tok[1], &end, 10);
		if (*end) { printf("bad-op"); DRV_EMIT(); continue; }
		pq = priqNew((Length) guess);
		for (i = 2; i < drv_ntok; i++) {
			char *op = drv_tok[i];
			if (i > 2) putchar(';');
			if (op[0] == 'i' && op[1] == ':') {
				long k; unsigned long e;
				char *p = op + 2;
				k = strtol(p, &end, 10);
				if (end == p || *end != ':' || end[1] < '0' || end[1] > '9') { printf("bad-op"); continue; }
				p = end + 1;
				e = strtoul(p, &end, 10);
				if (*end) { printf("bad-op"); continue; }
				priqInsert(pq, (PriQKey) k, (PriQElt) e);
				putchar('.');
			}
			else if (!strcmp(op, "x")) {
				if (priqCount(pq) == 0) printf("empty");
				else {
					PriQKey k;
					PriQElt e = priqExtractMin(pq, &k);
					printf("%ld:%lu", (long) k, (unsigned long) e);
				}
			}
			else if (!strcmp(op, "p")) {
				if (priqCount(pq) == 0) printf("empty");
				else {
					PriQKey k;
					PriQElt e = priqPeekMin(pq, &k);
					printf("%ld:%lu", (long) k, (unsigned long) e);
				}
			}
			else if (!strcmp(op, "n")) printf("%lu", (unsigned long) priqCount(pq));
			else if (!strcmp(op, "z")) printf("%lu", (unsigned long) pq->size);
			else if (!strcmp(op, "k")) printf("%d", (int) priqCheck(pq));
			else if (!strcmp(op, "m")) { mfirst = 1; priqMap((PriQMapFn) mapfn, pq); }
			else if (!strcmp(op, "d")) {
				Length j;
				for (j = 0; j < pq->argc; j++)
					printf("%s%ld:%lu", j ? "," : "", (long) pq->argv[j].key, (unsigned long) pq->argv[j].entry);
			}
			else printf("bad-op");
		}
		priqFree(pq);
		stoAudit();
		DRV_EMIT();
	}
	return 0;
}
