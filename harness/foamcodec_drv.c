/* C05 / FOAM byte codec driver.  foam.c of the tree being checked is #included (so that the
 * file-static `labelFmt`, `foamTagFormat` and the FOAM_FORMAT_* / STD_FORMS macros are in
 * reach); everything else comes from the freshly built libraries.
 *
 * requests (see lean/AldorVerif/Driver/Codec.lean):
 *   consts | table | R <long> | T<lf> <tree in prefix syntax>
 */
#include "foam.c"
#include "opsys.h"
#include "debug.h"
#include "bigint.h"
#include "buffer.h"
#include "sexpr.h"
#include "symbol.h"
#include "symcoinfo.h"
#include "drv_common.h"
#include <setjmp.h>
#include <signal.h>
#include <unistd.h>
#include <fcntl.h>
#include <sys/wait.h>

static FILE *out;
static sigjmp_buf env;
static volatile int armed = 0;

static void on_signal(int sig)
{
	if (armed) siglongjmp(env, sig);
	_exit(128 + sig);
}

/* ---------------------------------------------------------------- parsed request tree */
typedef struct pnode PNode;
typedef struct parg {
	char   kind;		/* i s f d n C */
	long   ival;
	char  *sval;		/* decoded bytes (s), decimal text (n) */
	unsigned long bits;	/* f d */
	PNode *sub;
} PArg;
struct pnode {
	int   tag, argc;
	PArg *argv;
};

static int pos;

static int tagByName(const char *s)
{
	int i;
	for (i = FOAM_START; i < FOAM_LIMIT; i++)
		if (!strcmp(foamInfo(i).str, s)) return i;
	return -1;
}

static int hexv(int c)
{
	if (c >= '0' && c <= '9') return c - '0';
	if (c >= 'a' && c <= 'f') return c - 'a' + 10;
	if (c >= 'A' && c <= 'F') return c - 'A' + 10;
	return -1;
}

static PNode *parseTree(void)
{
	PNode *n;
	int i, tag, argc;
	char *e;
	if (pos + 1 >= drv_ntok) return 0;
	tag = tagByName(drv_tok[pos]);
	if (tag < 0) return 0;
	argc = (int) strtol(drv_tok[pos + 1], &e, 10);
	if (*e || argc < 0) return 0;
	pos += 2;
	n = (PNode *) malloc(sizeof(*n));
	n->tag = tag; n->argc = argc;
	n->argv = (PArg *) calloc(argc ? argc : 1, sizeof(PArg));
	for (i = 0; i < argc; i++) {
		PArg *a = &n->argv[i];
		char *t;
		if (pos >= drv_ntok) return 0;
		t = drv_tok[pos];
		switch (t[0]) {
		case 'i':
			a->kind = 'i'; a->ival = strtol(t + 1, &e, 10);
			if (*e || !t[1]) return 0;
			pos++; break;
		case 's': {
			size_t L = strlen(t + 1), k;
			if (L % 2) return 0;
			a->kind = 's'; a->sval = (char *) malloc(L / 2 + 1);
			for (k = 0; k < L / 2; k++) {
				int x = hexv(t[1 + 2 * k]), y = hexv(t[2 + 2 * k]);
				if (x < 0 || y < 0) return 0;
				a->sval[k] = (char) (x * 16 + y);
			}
			a->sval[L / 2] = 0;
			pos++; break; }
		case 'f': case 'd':
			a->kind = t[0]; a->bits = strtoul(t + 1, &e, 16);
			if (*e || !t[1]) return 0;
			pos++; break;
		case 'n':
			a->kind = 'n'; a->sval = t + 1;
			if (!t[1]) return 0;
			pos++; break;
		default:
			a->kind = 'C'; a->sub = parseTree();
			if (!a->sub) return 0;
			break;
		}
	}
	return n;
}

/* the same walk over argf as the codec's loops; returns 0 for "no letter" */
static int letterAt(const char *argf, int *fi)
{
	int af;
	if (*fi < 0) return 0;
	af = argf[*fi];
	if (af == '*') { if (*fi == 0) return 0; af = argf[--*fi]; }
	return af;
}

/* same test as `kinds` of the Lean driver */
static int kindsOK(PNode *n)
{
	const char *argf = foamInfo(n->tag).argf;
	int si, fi;
	for (fi = si = 0; si < n->argc; fi++, si++) {
		PArg *a = &n->argv[si];
		int af = letterAt(argf, &fi);
		int known = af && strchr("topDbhwXFLisfdnC", af) != 0;
		if (known) {
			if (strchr("sfdnC", af)) { if (a->kind != af) return 0; }
			else if (a->kind != 'i') return 0;
		}
		if (a->kind == 'C' && !kindsOK(a->sub)) return 0;
		if (!known || af == 'f' || af == 'd') break;
		if (af == 0) break;
	}
	return 1;
}

static BInt bintOfText(const char *s)
{
	int neg = (s[0] == '-');
	BInt b = bintFrString((String) (s + neg));
	if (neg) b = bintNegate(b);
	return b;
}

static Foam toFoam(PNode *n)
{
	Foam f = foamNewEmpty(n->tag, n->argc ? n->argc : 1);
	int i;
	f->hdr.argc = n->argc;
	for (i = 0; i < n->argc; i++) {
		PArg *a = &n->argv[i];
		switch (a->kind) {
		case 'i': foamArgv(f)[i].data = a->ival; break;
		case 's': foamArgv(f)[i].str = strCopy(a->sval); break;
		case 'f': { unsigned int u = (unsigned int) a->bits; foamArgv(f)[i].data = 0; memcpy(&foamArgv(f)[i], &u, 4); break; }
		case 'd': memcpy(&foamArgv(f)[i], &a->bits, 8); break;
		case 'n': foamArgv(f)[i].bint = bintOfText(a->sval); break;
		case 'C': foamArgv(f)[i].code = toFoam(a->sub); break;
		}
	}
	return f;
}

static void showFoam(Foam f, int first)
{
	const char *argf = foamInfo(foamTag(f)).argf;
	int si, fi, argc = foamArgc(f);
	fprintf(out, "%s%s %d", first ? "" : " ", foamInfo(foamTag(f)).str, argc);
	for (fi = si = 0; si < argc; fi++, si++) {
		int af = letterAt(argf, &fi);
		if (af == 0) fi--;
		switch (af) {
		case 's': {
			unsigned char *s = (unsigned char *) foamArgv(f)[si].str;
			fprintf(out, " s");
			for (; *s; s++) fprintf(out, "%02x", *s);
			break; }
		case 'f': { unsigned int u; memcpy(&u, &foamArgv(f)[si], 4); fprintf(out, " f%08x", u); si = argc; break; }
		case 'd': { unsigned long u; memcpy(&u, &foamArgv(f)[si], 8); fprintf(out, " d%016lx", u); si = argc; break; }
		case 'n': fprintf(out, " n%s", bintToString(foamArgv(f)[si].bint)); break;
		case 'C': showFoam(foamArgv(f)[si].code, 0); break;
		default:  fprintf(out, " i%ld", (long) foamArgv(f)[si].data); break;
		}
	}
}

/* ---------------------------------------------------------------- foamSIntReduce */
static int isSIntLeaf(Foam f) { return foamTag(f) == FOAM_SInt; }

static int showRed(Foam f, unsigned long *val)
{
	if (isSIntLeaf(f)) {
		*val = (unsigned long) f->foamSInt.SIntData;
		fprintf(out, "%lu", *val);
		return 1;
	}
	if (foamTag(f) != FOAM_BCall) return 0;
	if (foamArgc(f) == 2 && foamArgv(f)[0].data == FOAM_BVal_SIntNegate) {
		unsigned long v;
		fprintf(out, "(neg ");
		if (!showRed(foamArgv(f)[1].code, &v)) return 0;
		fprintf(out, ")");
		*val = 0UL - v;
		return 1;
	}
	if (foamArgc(f) == 3 && foamArgv(f)[0].data == FOAM_BVal_SIntOr) {
		Foam sh = foamArgv(f)[1].code, lo = foamArgv(f)[2].code;
		unsigned long v;
		if (foamTag(sh) != FOAM_BCall || foamArgc(sh) != 3 || foamArgv(sh)[0].data != FOAM_BVal_SIntShiftUp) return 0;
		if (!isSIntLeaf(foamArgv(sh)[2].code) || foamArgv(sh)[2].code->foamSInt.SIntData != 31) return 0;
		if (!isSIntLeaf(lo)) return 0;
		fprintf(out, "(so ");
		if (!showRed(foamArgv(sh)[1].code, &v)) return 0;
		fprintf(out, " %lu)", (unsigned long) lo->foamSInt.SIntData);
		*val = (v << 31) | (unsigned long) lo->foamSInt.SIntData;
		return 1;
	}
	return 0;
}

/* ---------------------------------------------------------------- main */
/* answer the request in drv_tok[]; returns 1 when this process should not serve further
 * requests (it came back from a caught SIGSEGV/SIGBUS/SIGFPE: its heap may be damaged) */
static int handle(void)
{
	int sig, retire = 0;
		if (drv_ntok == 0) { fprintf(out, "bad-op\n"); fflush(out); return 0; }
	if (!strcmp(drv_tok[0], "consts")) {
		char c = (char) 0xff;
		fprintf(out, "STD_FORMS=%d IMMED_FORMS=%d MAX_BYTE=%ld MAX_HINT=%ld SINT_BYTES=%d HINT_BYTES=%d "
			"XSFLOAT_BYTES=%d XDFLOAT_BYTES=%d FFO_ORIGIN=%d FFO_SPAN=%d FOAM_LIMIT=%d FOAM_INDEX_START=%d "
			"FOAM_INDEX_LIMIT=%d FOAM_START=%d FOAM_BVAL_START=%d FOAM_PROTO_START=%d TAG_LIMIT=%d "
			"SIZEOF_LONG=%d CHAR_SIGNED=%d O_BYTES=%d BINT_PLACE_BITS=%d SIntNegate=%d SIntShiftUp=%d SIntOr=%d",
			STD_FORMS, IMMED_FORMS, (long) MAX_BYTE, (long) MAX_HINT, SINT_BYTES, HINT_BYTES,
			XSFLOAT_BYTES, XDFLOAT_BYTES, (int) FFO_ORIGIN, (int) FFO_SPAN, (int) FOAM_LIMIT, (int) FOAM_INDEX_START,
			(int) FOAM_INDEX_LIMIT, (int) FOAM_START, (int) FOAM_BVAL_START, (int) FOAM_PROTO_START, foamTagLimit(),
			(int) sizeof(((Foam) 0)->foamSInt.SIntData), c < 0 ? 1 : 0,
#if SMALL_BVAL_TAGS
			1,
#else
			2,
#endif
			(int) (8 * sizeof(BIntS)), (int) FOAM_BVal_SIntNegate, (int) FOAM_BVal_SIntShiftUp, (int) FOAM_BVal_SIntOr);
	}
	else if (!strcmp(drv_tok[0], "table")) {
		int i;
		for (i = FOAM_START; i < FOAM_LIMIT; i++)
			fprintf(out, "%s%d:%s:%d:%s", i == FOAM_START ? "" : " ", i, foamInfo(i).str,
				(int) foamInfo(i).argc, foamInfo(i).argf);
	}
	else if (!strcmp(drv_tok[0], "names")) {
		int i;
		fprintf(out, "bval");
		for (i = FOAM_BVAL_START; i < FOAM_BVAL_LIMIT; i++) fprintf(out, " %s", foamBValInfo(i).str);
		fprintf(out, " | proto");
		for (i = FOAM_PROTO_START; i < FOAM_PROTO_LIMIT; i++) fprintf(out, " %s", foamProtoInfo(i).str);
		fprintf(out, " | ddecl");
		for (i = 0; i < FOAM_DDECL_LIMIT; i++) fprintf(out, " %s", foamDDeclInfo(i).str);
	}
	else if (!strcmp(drv_tok[0], "R") && drv_ntok == 2) {
		char *e;
		long x = strtol(drv_tok[1], &e, 10);
		unsigned long v = 0;
		if (*e) fprintf(out, "bad-op");
		else {
			Foam r = foamSIntReduce(foamNewSInt(x));
			if (!showRed(r, &v)) fprintf(out, " UNEXPECTED-SHAPE");
			fprintf(out, " = %ld", (long) v);
		}
	}
	else if (drv_tok[0][0] == 'T' && (drv_tok[0][1] == '0' || drv_tok[0][1] == '1') && !drv_tok[0][2]) {
		int lf = drv_tok[0][1] - '0';
		PNode *p;
		pos = 1;
		p = parseTree();
		if (!p || pos != drv_ntok || !kindsOK(p)) fprintf(out, "bad-op");
		else {
			Foam f = toFoam(p), g;
			Buffer buf = bufNew();
			volatile int stage = 0;
			Length n = 0, i, q;
			armed = 1;
			if ((sig = sigsetjmp(env, 1)) != 0) {
				armed = 0;
				if (stage == 0) fprintf(out, sig == SIGABRT ? "ABORT" : "CRASH(%d)", sig);
				else fprintf(out, sig == SIGABRT ? "DEC-ABORT" : "DEC-CRASH(%d)", sig);
				retire = 1;	/* left bug()/assert or a fault by longjmp: do not trust this process further */
			}
			else {
				labelFmt = lf;
				foamToBuffer(buf, f);
				n = bufPosition(buf);
				for (i = 0; i < n; i++) fprintf(out, "%02x", bufData(buf)[i]);
				fprintf(out, "|%d|", labelFmt);
				stage = 1;
				fflush(out);
				/* read back from a buffer holding exactly the bytes written */
				{
					String copy = strAlloc(n);
					Buffer rb;
					memcpy(copy, bufData(buf), n);
					rb = bufCapture(copy, n);
					labelFmt = lf;
					g = foamFrBuffer(rb);
					q = bufPosition(rb);
					showFoam(g, 1);
					fprintf(out, "|%d", labelFmt);
					if (q != n) { fprintf(out, "|left=%ld", (long) (n - q)); retire = 1; }
				}
				armed = 0;
			}
		}
	}
	else fprintf(out, "bad-op");
	fprintf(out, retire ? "\001\n" : "\n");
	fflush(out);
	return retire;
}

static int read_req(FILE *in)
{
	ssize_t n = getline(&drv_line, &drv_cap, in);
	char *p;
	if (n < 0) return 0;
	drv_ntok = 0;
	for (p = strtok(drv_line, " \t\r\n"); p && drv_ntok < DRV_MAXTOK; p = strtok(NULL, " \t\r\n"))
		drv_tok[drv_ntok++] = p;
	return 1;
}

/* The parent only relays: requests are served by a worker child forked from the pristine,
 * initialised parent; a worker that crashed (or retired after a caught fault) is replaced, so
 * one wild request cannot disturb the answers to the following ones. */
static FILE *win, *wout;
static pid_t wpid = -1;

static void spawn(void)
{
	int a[2], b[2];
	if (pipe(a) || pipe(b)) _exit(9);
	fflush(out);
	wpid = fork();
	if (wpid == 0) {
		FILE *in;
		close(a[1]); close(b[0]);
		in = fdopen(a[0], "r");
		out = fdopen(b[1], "w");
		while (read_req(in)) {
			if (handle()) _exit(0);
		}
		_exit(0);
	}
	close(a[0]); close(b[1]);
	win = fdopen(a[1], "w");
	wout = fdopen(b[0], "r");
}

int main(int argc, char **argv)
{
	int fd;
	char *line = 0, *ans = 0; size_t cap = 0, acap = 0;
	ssize_t n, m;
	/* the library prints diagnostics (bug(), comsg) on stdout: keep the answers apart */
	fflush(stdout);
	fd = dup(1);
	out = fdopen(fd, "w");
	{ int nul = open("/dev/null", O_WRONLY); if (nul >= 0) { dup2(nul, 1); close(nul); } }
	osInit();
	dbInit();
	sxiInit();
	ssymInit();
	foamInit();
	signal(SIGABRT, on_signal);
	signal(SIGSEGV, on_signal);
	signal(SIGBUS, on_signal);
	signal(SIGFPE, on_signal);
	signal(SIGPIPE, SIG_IGN);
	while ((n = getline(&line, &cap, stdin)) >= 0) {
		int st;
		if (wpid < 0) spawn();
		if (n == 0 || line[n - 1] != '\n') { fputs(line, win); fputc('\n', win); } else fputs(line, win);
		fflush(win);
		m = getline(&ans, &acap, wout);
		if (m > 0 && ans[m - 1] == '\n') {
			int retiring = (m > 1 && ans[m - 2] == '\001');
			if (retiring) { ans[m - 2] = '\n'; ans[m - 1] = 0; }
			fputs(ans, out);
			if (retiring) { waitpid(wpid, &st, 0); fclose(win); fclose(wout); wpid = -1; }
		}
		else {
			/* the worker died without completing its answer */
			if (m > 0) fputs(ans, out);
			fputs("|CHILD-DIED\n", out);
			waitpid(wpid, &st, 0); fclose(win); fclose(wout); wpid = -1;
		}
		fflush(out);
	}
	return 0;
}
