/* C14 / linear.c driver.  Linked against the scratch build of the current tree.
 *
 * requests (one per line):
 *   T                       -> the token table: tag:opener:closer:follower:hexname ...
 *   S <path>                -> include + scan + syscmd-process the file; prints the token list
 *                              the lineariser would get:  tag.line.col.hextext ...
 *   L <loop> tok ...        -> tok = tag.line.col.id ; builds that token list, runs linearize()
 *                              (with fintMode = FINT_LOOP when <loop> is 1) and prints
 *                              `tag.line.col.id ... | err=<number of diagnostics>`
 *                              (id of a synthesised token = id of the token its position was
 *                              copied from; 0 for sposNone)
 */
#include "axlobs.h"
#include "token.h"
#include "srcpos.h"
#include "sexpr.h"
#include "linear.h"
#include "scan.h"
#include "syscmd.h"
#include "include.h"
#include "srcline.h"
#include "comsg.h"
#include "fint.h"
#include "store.h"
#include "opsys.h"
#include "debug.h"
#include "symbol.h"
#include "path.h"
#include "drv_common.h"

static void hexput(const char *s)
{
	if (!s || !*s) { putchar('-'); return; }
	for (; *s; s++) printf("%02x", (unsigned char) *s);
}

static const char *tokText(Token t)
{
	switch (tokTag(t)) {
	case TK_Id: case TK_Blank:
		return symString(t->val.sym);
	case TK_Int: case TK_Float: case TK_String: case TK_PreDoc: case TK_PostDoc:
	case TK_Comment: case TK_SysCmd: case TK_Error:
		return t->val.str;
	default:
		return keyString(tokTag(t));
	}
}

static Token mkTok(int tag, long line, long col, long id)
{
	SrcPos pos = sposGet(line, col);
	Token t;
	switch (tag) {
	case TK_Id: case TK_Blank:
		t = tokNew(pos, pos, (TokenTag) tag, symIntern("x")); break;
	case TK_Int: case TK_Float: case TK_String: case TK_PreDoc: case TK_PostDoc:
	case TK_Comment: case TK_SysCmd: case TK_Error:
		t = tokNew(pos, pos, (TokenTag) tag, "s"); break;
	default:
		t = tokNew(pos, pos, (TokenTag) tag); break;
	}
	t->end = (SrcPos) id;
	return t;
}

static FILE *devnull;

/* throw the collected messages away (comsgFini reports them on osStdout) so that the message
 * store does not grow over a run and the error limit (30000 with no-emax) is never reached */
static void dropMessages(void)
{
	FILE *keep = osStdout;
	if (!devnull) return;
	osStdout = devnull;
	comsgFini();
	comsgInit();
	osStdout = keep;
}

int main(int argc, char **argv)
{
	int i;
	osInit();
	dbInit();
	obInit();
	comsgOpen();
	pathInit();
	sxiInit();
	keyInit();
	ssymInit();
	sposInit();
	comsgInit();
	/* diagnostics are counted, not shown */
	comsgSetOption("no-emax");
	comsgSetOption("0");
	devnull = fopen("/dev/null", "w");
	/* a file for the made-up positions of `L` requests, so that messages can be formatted */
	sposGrowGloLineTbl(fnameParse("drv.as"), 1, 1);
	while (drv_read()) {
		if (drv_ntok == 0) { printf("bad-op"); DRV_EMIT(); continue; }
		if (!strcmp(drv_tok[0], "T")) {
			for (i = TK_START; i < TK_LIMIT; i++) {
				printf("%s%d:%d:%d:%d:", i > TK_START ? " " : "", i, tokInfo(i).isOpener,
				       tokInfo(i).isCloser, tokInfo(i).isFollower);
				hexput(tokInfo(i).str);
			}
		}
		else if (!strcmp(drv_tok[0], "S") && drv_ntok == 2) {
			FileName  fn = fnameParse(drv_tok[1]);
			SrcLineList sll = includeFile(fn);
			TokenList tl = scan(sll), l;
			tl = scmdProcessList(tl);
			for (l = tl, i = 0; l; l = cdr(l), i++) {
				Token t = car(l);
				printf("%s%d.%ld.%ld.", i ? " " : "", (int) tokTag(t),
				       (long) sposGlobalLine(t->pos), (long) sposChar(t->pos));
				hexput(tokText(t));
			}
			if (i == 0) printf("empty");
		}
		else if (!strcmp(drv_tok[0], "L") && drv_ntok >= 2) {
			TokenList tl = 0, l;
			int e0, ok = 1;
			for (i = drv_ntok - 1; i >= 2; i--) {
				int tag; long line, col, id;
				if (sscanf(drv_tok[i], "%d.%ld.%ld.%ld", &tag, &line, &col, &id) != 4
				    || tag < TK_START || tag >= TK_LIMIT) { ok = 0; break; }
				tl = listCons(Token)(mkTok(tag, line, col, id), tl);
			}
			if (!ok) { printf("bad-op"); DRV_EMIT(); continue; }
			fintMode = atoi(drv_tok[1]) ? FINT_LOOP : FINT_DONT;
			e0 = comsgErrorCount();
			tl = linearize(tl);
			fintMode = FINT_DONT;
			for (l = tl; l; l = cdr(l)) {
				Token t = car(l);
				printf("%d.%ld.%ld.%ld ", (int) tokTag(t), (long) sposGlobalLine(t->pos),
				       (long) sposChar(t->pos), (long) t->end);
			}
			printf("| err=%d", comsgErrorCount() - e0);
			listFreeDeeply(Token)(tl, tokFree);
			if (comsgErrorCount() > 1000) dropMessages();
		}
		else printf("bad-op");
		DRV_EMIT();
	}
	return 0;
}
