/* C10 / store.c driver.  The repository's allocator is compiled INTO this translation unit
 * (#include "store.c", so that its statics -- sectFor, pgMap, fixedPieces, stoInit -- can be
 * reached) and linked against the scratch build of the current tree for everything else.
 *
 * Requests (one per line):
 *   consts                      -> the size classes and layout constants the model must agree with
 *   H <op> <op> ...             -> one history, run in a forked child on a fresh allocator
 *        a <code> <n>      allocate n bytes; the block's id is the 0-based index of this op
 *        f <id>            stoFree
 *        r <id> <n>        stoResize (the block keeps its id)
 *        c <id> <code>     stoRecode
 *        d <id>            drop the root of the block without freeing it
 *        g                 stoGc()
 * Answer: one group per op, groups separated by " ; ".  Addresses are byte offsets from the
 * allocator's heapStart at initialisation (sbrk only grows, so they are non-negative).
 *   a/r : p=<off> u=<stoSize> c=<stoCode> s=<section base>:<pages>:<F|M>:<qmSize> [keep=<n>]
 *   f/d : ok       c : c=<stoCode>
 *   g   : gc <digest> kept=<ids of dropped blocks still busy> freed=<ids reclaimed> [dead=<rooted ids lost>]
 *   after the last op: end <digest>;  digest = fl=<free list lengths> tree=<bytes in the free
 *   tree> front=<frontier piece|-> ns=<sections>
 * every group ends with audit=ok (stoAudit() returned; a failed assertion aborts the child and
 * the parent appends FAULT(..)) and mem=ok | mem=BAD(<id>@<byte>) (pattern check of live blocks).
 */
#include "store.c"
#include <sys/wait.h>
#include <unistd.h>
#include <stdint.h>

#define MAXB   4000000
#define OUTCAP (1L << 16)

/* roots: scanned by the collector (static data between etext and end) */
/* (the tables are taken with sbrk() by the child, sized for the history: brk memory outside
 * the allocator's pages is scanned by stoGcMark as static/foreign data) */
static void    **roots;
/* everything else about a block is kept in a form the collector cannot mistake for a pointer */
static uintptr_t *hidden;                /* ~address */
static unsigned char *bstate;            /* 0 none, 1 rooted, 2 dropped (unrooted, not freed) */
static unsigned long *breq, *buse;
static long      maxb;
static long      nblocks;                /* ids are < nblocks */
static long      livebytes;
static uintptr_t ref_hidden;             /* ~heapStart at initialisation */

/* the child writes its answer straight to fd 1 (flushed after every step, so that a crash
 * loses nothing); the buffer only ever holds digits, letters and punctuation */
static char out[OUTCAP]; static long outn;

static void flush_out(void)
{
	long k = 0;
	while (k < outn) {
		ssize_t w = write(1, out + k, outn - k);
		if (w <= 0) _exit(3);
		k += w;
	}
	outn = 0;
}

static void emit(const char *fmt, ...)
{
	va_list ap; int n;
	if (outn > OUTCAP - 4096) flush_out();
	va_start(ap, fmt);
	n = vsnprintf(out + outn, OUTCAP - outn, fmt, ap);
	va_end(ap);
	if (n > 0) outn += n;
}

static unsigned char pat(long id, unsigned long j)
{
	/* 0x80..0xA9: never 0xAA (new fill) nor 0xDD (free fill); words of it are not heap addresses */
	return (unsigned char) (0x80 + ((id * 29 + j * 5 + (j >> 8)) % 42));
}

static void fill(long id, unsigned char *p, unsigned long from, unsigned long to)
{
	unsigned long j;
	for (j = from; j < to; j++) p[j] = pat(id, j);
}

/* number of leading bytes of p[0..n) that carry the pattern of id */
static unsigned long match(long id, unsigned char *p, unsigned long n)
{
	unsigned long j;
	for (j = 0; j < n; j++) if (p[j] != pat(id, j)) break;
	return j;
}

static long off_of(void *p) { return (long) ((char *) p - (char *) ~ref_hidden); }

static void show_block(long id, void *p)
{
	Section *s = sectFor(p);
	emit("p=%ld u=%lu c=%u s=%ld:%d:%c:%d", off_of(p), (unsigned long) stoSize(p), stoCode(p),
	     off_of((void *) s), (int) s->pgCount, s->isFixed ? 'F' : 'M', (int) s->qmSize);
}

static int verify_one(long id)
{
	unsigned char *p = (unsigned char *) ~hidden[id];
	unsigned long k = match(id, p, buse[id]);
	if (k != buse[id]) { emit(" mem=BAD(%ld@%lu)", id, k); return 0; }
	return 1;
}

static void verify_all(void)
{
	long id;
	for (id = 0; id < nblocks; id++)
		if (bstate[id] && !verify_one(id)) return;
	emit(" mem=ok");
}

/* overwrite the dead part of the stack so that stale copies of dropped pointers do not root them */
static void __attribute__((noinline)) scrub_stack(void)
{
	volatile char pad[32768];
	unsigned i;
	for (i = 0; i < sizeof(pad); i++) pad[i] = 0;
}

static void __attribute__((noinline)) do_alloc(long id, unsigned code, unsigned long n)
{
	unsigned char *p = (unsigned char *) stoAlloc(code, n);
	if (!p) { emit("null"); return; }
	roots[id] = p; hidden[id] = ~(uintptr_t) p; bstate[id] = 1;
	breq[id] = n; buse[id] = stoSize(p); livebytes += buse[id];
	show_block(id, p);
	fill(id, p, 0, buse[id]);
}

static void __attribute__((noinline)) do_free(long id)
{
	void *p = (void *) ~hidden[id];
	livebytes -= buse[id];
	roots[id] = 0; hidden[id] = 0; bstate[id] = 0;
	stoFree(p);
	emit("ok");
}

static void __attribute__((noinline)) do_resize(long id, unsigned long n)
{
	unsigned char *p = (unsigned char *) ~hidden[id], *q;
	unsigned long ouse = buse[id], lim, keep;
	int rooted = bstate[id] == 1;
	q = (unsigned char *) stoResize(p, n);
	if (!q) { emit("null"); return; }
	if (rooted) roots[id] = q;
	hidden[id] = ~(uintptr_t) q;
	buse[id] = stoSize(q); breq[id] = n;
	livebytes += buse[id]; livebytes -= ouse;
	lim = ouse < buse[id] ? ouse : buse[id];
	keep = match(id, q, lim);
	show_block(id, q);
	emit(" keep=%lu", keep);
	fill(id, q, 0, buse[id]);
}

/* bookkeeping summary compared with the model: lengths of the fixed free lists, bytes in the
 * free tree, the frontier piece, number of sections */
static void digest(void)
{
	unsigned i; long ns = 0; Length pg;
	emit("fl=");
	for (i = 0; i < FixedSizeCount; i++) {
		long k = 0; FxMem *pc;
		for (pc = fixedPieces[i]; pc; pc = pc->next) k++;
		emit("%s%ld", i ? "," : "", k);
	}
	for (pg = 0; pg < pgMapSize; pg++) if (pgMap[pg] == PgBusyFirst) ns++;
	emit(" tree=%ld front=", stoAuditMixedSizePieces());
	if (mixedFrontier) emit("%ld", off_of((void *) mixedFrontier)); else emit("-");
	emit(" ns=%ld", ns);
}

static void __attribute__((noinline)) do_gc(void)
{
	long id; int first;
	scrub_stack();
	stoGc();
	emit("gc "); digest();
	emit(" kept=");
	for (first = 1, id = 0; id < nblocks; id++)
		if (bstate[id] == 2 && stoIsPointer((void *) ~hidden[id])) { emit("%s%ld", first ? "" : ",", id); first = 0; }
	emit(" freed=");
	for (first = 1, id = 0; id < nblocks; id++)
		if (bstate[id] == 2 && !stoIsPointer((void *) ~hidden[id])) {
			emit("%s%ld", first ? "" : ",", id); first = 0;
			livebytes -= buse[id]; bstate[id] = 0; hidden[id] = 0;
		}
	for (first = 1, id = 0; id < nblocks; id++)
		if (bstate[id] == 1 && !stoIsPointer(roots[id])) { emit("%s%ld", first ? " dead=" : ",", id); first = 0; }
}

static char *cur;
static int next_tok(char **tok)
{
	while (*cur == ' ' || *cur == '\t' || *cur == '\r' || *cur == '\n') cur++;
	if (!*cur) return 0;
	*tok = cur;
	while (*cur && *cur != ' ' && *cur != '\t' && *cur != '\r' && *cur != '\n') cur++;
	if (*cur) *cur++ = 0;
	return 1;
}
static int next_num(unsigned long *v)
{
	char *t, *e;
	if (!next_tok(&t)) return 0;
	*v = strtoul(t, &e, 10);
	return *t && !*e;
}

static int live_id(unsigned long id) { return id < (unsigned long) nblocks && bstate[id]; }

static void run_history(long nops_hint)
{
	char *t;
	long step = 0;
	int full = nops_hint <= 300;
	maxb = nops_hint + 16;
	if (maxb > MAXB) maxb = MAXB;
	{
		size_t per = sizeof(void *) + sizeof(uintptr_t) + 1 + 2 * sizeof(unsigned long);
		char *m = (char *) sbrk((maxb * per + 64) & ~(size_t) 15);
		if (m == (char *) -1) { emit("FAULT(sbrk)"); flush_out(); return; }
		m += (16 - ((uintptr_t) m & 15)) & 15;
		memset(m, 0, maxb * per);
		roots  = (void **) m;             m += maxb * sizeof(void *);
		hidden = (uintptr_t *) m;         m += maxb * sizeof(uintptr_t);
		breq   = (unsigned long *) m;     m += maxb * sizeof(unsigned long);
		buse   = (unsigned long *) m;     m += maxb * sizeof(unsigned long);
		bstate = (unsigned char *) m;
	}
	while (next_tok(&t)) {
		unsigned long a, b;
		int touched_ok = 1;
		if (step) { emit(" ; "); flush_out(); }      /* a crash is attributed to the step that began */
		if (step >= maxb) { emit("bad-op"); break; }
		nblocks = step + 1;
		if (!strcmp(t, "a")) {
			if (!next_num(&a) || !next_num(&b)) { emit("bad-op"); break; }
			do_alloc(step, (unsigned) a, b);
		}
		else if (!strcmp(t, "f")) {
			if (!next_num(&a) || !live_id(a)) { emit("bad-op"); break; }
			touched_ok = verify_one((long) a);
			do_free((long) a);
		}
		else if (!strcmp(t, "r")) {
			if (!next_num(&a) || !next_num(&b) || !live_id(a)) { emit("bad-op"); break; }
			touched_ok = verify_one((long) a);
			do_resize((long) a, b);
		}
		else if (!strcmp(t, "c")) {
			if (!next_num(&a) || !next_num(&b) || !live_id(a)) { emit("bad-op"); break; }
			stoRecode((void *) ~hidden[a], (unsigned) b);
			emit("c=%u", stoCode((void *) ~hidden[a]));
		}
		else if (!strcmp(t, "d")) {
			if (!next_num(&a) || !live_id(a)) { emit("bad-op"); break; }
			roots[a] = 0; bstate[a] = 2;
			emit("ok");
		}
		else if (!strcmp(t, "g")) {
			do_gc();
		}
		else { emit("bad-op"); break; }
		stoAudit();
		emit(" audit=ok");
		if (touched_ok) {
			if (full || livebytes <= (256L << 10) || step % 64 == 0 || !strcmp(t, "g")) verify_all();
			else emit(" mem=ok");
		}
		step++;
		flush_out();
	}
	/* final complete check */
	emit(step ? " ; end " : "end "); flush_out(); digest(); stoAudit(); emit(" audit=ok"); verify_all();
	flush_out();
}

static void show_consts(void)
{
	unsigned i;
	printf("ptr=%d fixed=", (int) sizeof(Pointer));
	for (i = 0; i < FixedSizeCount; i++) printf("%s%lu", i ? "," : "", (unsigned long) fixedSize[i]);
	printf(" fmax=%lu mq=%lu pg=%ld shead=%lu mhead=%lu qinfo=%lu fxgrp=%d mxgrp=%d codemask=%d align=%d",
	       (unsigned long) FixedSizeMax, (unsigned long) MixedSizeQuantum, (long) PgSize,
	       (unsigned long) SectionHeadSize, (unsigned long) MxMemHeadSize, (unsigned long) sizeof(QmInfo),
	       (int) FixedSizePgGroup, (int) MixedSizePgGroup, (int) QmCodeMask, (int) alignof(MostAlignedType));
}

int main(int argc, char **argv)
{
	char *line = NULL; size_t cap = 0; ssize_t n;
	osInit();
	dbInit();
	if (!stoIsInit) stoInit();
	stoCtl(StoCtl_GcLevel, StoCtl_GcLevel_Demand);
	ref_hidden = ~(uintptr_t) heapStart;
	while ((n = getline(&line, &cap, stdin)) >= 0) {
		char *t;
		cur = line;
		if (!next_tok(&t)) { printf("bad-op\n"); fflush(stdout); continue; }
		if (!strcmp(t, "consts")) { show_consts(); printf("\n"); fflush(stdout); continue; }
		if (strcmp(t, "H")) { printf("bad-op\n"); fflush(stdout); continue; }
		{
			pid_t pid; int st = 0;
			long hint = (long) (n / 2);          /* an op has at least 2 characters */
			outn = 0;
			fflush(stdout);
			pid = fork();
			if (pid == 0) {
				/* the line buffer came from malloc (brk area, scanned as dynamic data):
				 * it contains only digits and letters */
				run_history(hint);
				_exit(0);
			}
			if (pid < 0) { printf("FAULT(fork)\n"); fflush(stdout); continue; }
			waitpid(pid, &st, 0);
			if (WIFSIGNALED(st)) printf("FAULT(sig=%d)", WTERMSIG(st));
			else if (WIFEXITED(st) && WEXITSTATUS(st)) printf("FAULT(exit=%d)", WEXITSTATUS(st));
			printf("\n");
			fflush(stdout);
		}
	}
	return 0;
}
