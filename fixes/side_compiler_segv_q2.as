#include "aldor"
#include "aldorio"
import from MachineInteger , Integer , Boolean , String , Array ( Boolean ) , Array ( Integer ) , List ( Boolean ) , List ( MachineInteger ) , Array ( MachineInteger ) , List ( String ) , Array ( String ) , List ( Integer ) ;
define Ex1Type : Category == with { val : ( ) -> Boolean } ;
Ex1 ( pv : Boolean ) : Ex1Type == add { val ( ) : Boolean == pv } ;
g3 : Array ( Boolean ) := ( [ ( false and true ) ] @ Array ( Boolean ) ) ;
g4 : Boolean := ( if ( ( 726096825697472026640604 @ Integer ) ~= ( - ( 3 @ Integer ) ) ) then ( true or true ) else ( if true then true else false ) ) ;
c6 : Integer == ( ( ( 9223372036854775808 @ Integer ) - ( 18446744073709551616 @ Integer ) ) mod ( 5 @ Integer ) ) ;
f7 ( x8 : MachineInteger , x9 : Boolean ) : String == {
    try {
    } catch E12 in {
        E12 has Ex1Type => {
            for x13 in ( 1 @ MachineInteger ) .. ( 4 @ MachineInteger ) repeat {
                stdout << c6 << ( " - " @ String ) << ( g3 ( ( x8 mod ( # g3 ) ) ) ) << ( " " @ String ) << ( ( "a" @ String ) + ( "{" @ String ) ) << newline ;
            } ;
            stdout << ( new ( ( 5 @ MachineInteger ) , g4 ) @ Array ( Boolean ) ) << ( "|" @ String ) << ( [ ( "Y{b Y" @ String ) ] @ Array ( String ) ) << newline ;
        } ;
    } ;
    try {
        ( ( "q_"uote" @ String ) + ( "{" @ String ) ) ;
    } catch E15 in {
        never ;
    } ;
} ;
f7 ( x16 : Boolean ) : Integer == c6 ;
f7 ( x17 : String ) : String == {
    try {
        ( "}" @ String ) ;
    } catch E18 in {
        never ;
    } ;
} ;
m25 ( a26 , a27 ) ==> ( ( - ( 17 @ MachineInteger ) ) <= ( if false then ( 4294967297 @ MachineInteger ) else ( - ( 2147483648 @ MachineInteger ) ) ) ) ;
m28 ( a29 , a30 ) ==> ( ( if false then ( "" @ String ) else ( "c0; .,}0" @ String ) ) + ( ( "0" @ String ) + ( "\" @ String ) ) ) ;
f48 ( x49 : Integer , x50 : List ( Integer ) , x51 : Boolean ) : ( Boolean ) -> Integer == {
    v54 : String := ( "" @ String ) ;
    try {
        stdout << ( [ ( "a{1Z;.X;" @ String ) ] @ List ( String ) ) << ( "," @ String ) << ( [ v54 , ( "%d" @ String ) , v54 ] @ Array ( String ) ) << newline ;
    } catch E56 in {
        true => {
            if true then {
                stdout << ( [ ( 12884901889 @ MachineInteger ) , ( - ( 14 @ MachineInteger ) ) , ( - ( 17 @ MachineInteger ) ) ] @ List ( MachineInteger ) ) << ( " " @ String ) << ( if g4 then ( empty @ List ( String ) ) else ( [ ( "it's" @ String ) , ( "( [ {" @ String ) , ( "c._"YXY" @ String ) ] @ List ( String ) ) ) << ( "|" @ String ) << ( ( min @ MachineInteger ) :: Integer ) ;
                stdout << ( [ g4 , x51 ] @ Array ( Boolean ) ) << ( "|" @ String ) << reverse ( ( [ ( 5 @ MachineInteger ) , ( 18 @ MachineInteger ) , ( 16 @ MachineInteger ) ] @ List ( MachineInteger ) ) ) << rest ( cons ( v54 , ( [ ( "Z.{.{" @ String ) , ( "a;b" @ String ) ] @ List ( String ) ) ) ) << newline ;
            } ;
        } ;
        stdout << ( " {99ZX9" @ String ) << ( if x51 then ( "tab?" @ String ) else ( "%d" @ String ) ) << newline ;
    } ;
    ( ( x57 : Boolean ) : Integer +-> { ( f7 ( true ) @ Integer ) } ) ;
} ;
g62 : String := ( "_".1-0a}" @ String ) ;
f77 ( ) : ( ) == {
    free g62 ;
    g3 ( ( ( # ( "Y{a1{." @ String ) ) mod ( # g3 ) ) ) := m25 ( c6 , c6 ) ;
    g62 := ( try ( ( if g4 then throw Ex1 ( false ) ) ; ( "}__b9__Z__" @ String ) ) catch E81 in { true => ( "hello world" @ String ) ; never } ) ;
    stdout << ( [ ( 2147483648 @ MachineInteger ) , ( 16 @ MachineInteger ) , ( - ( 3 @ MachineInteger ) ) ] @ List ( MachineInteger ) ) << ( [ false , true , g4 , false ] @ Array ( Boolean ) ) << newline ;
} ;
