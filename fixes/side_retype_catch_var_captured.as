#include "aldor"
#include "aldorio"
import from MachineInteger, String;
define ExType: Category == with { val: () -> MachineInteger };
Ex(pv: MachineInteger): ExType == add { val(): MachineInteger == pv };
f(n: MachineInteger): MachineInteger == {
	try {
		if n > 0 then throw Ex(n);
		0
	} catch E in {
		E has ExType => {
			g: () -> MachineInteger := (): MachineInteger +-> val()$E + 1;
			g()
		}
		never
	}
}
stdout << f 0 << " " << f 41 << newline;
