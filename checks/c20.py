"""C20 — containers and the boolean normal form behave as their models.
Lean: Model/*.lean, Props/C20*.lean.  Tie: hand models + correspondence (H): harness/*_drv.c
linked with the scratch build of /repo's current tree vs the compiled Lean driver."""
from vlib import common
from checks.parts import dnf, table, btree, priq, bitv

PARTS = [dnf, table, btree, priq, bitv]

def run(ctx):
    common.run_parts(ctx, PARTS)

def replay(ctx, path):
    return common.show_replay(path)
