"""C05 — saved intermediate forms and separate compilation lose nothing.
Lean: Model/Foam/Codec.lean (+ generated Gen/FoamInfo.lean), Props/C05.lean.
Tie: T (translate/foaminfo.py regenerates the instruction table from the tree being checked) +
hand model + correspondence (H): harness/foamcodec_drv.c vs the compiled Lean driver; end-to-end
sub-check of whole programs through the .ao / .fm / .al routes in checks/parts/codec.py."""
from vlib import common
from checks.parts import codec

PARTS = [codec]

def run(ctx):
    # the table must be regenerated before the Lean build that run_parts starts
    if not codec.pre_build(ctx):
        return
    common.run_parts(ctx, PARTS)

def replay(ctx, path):
    return common.show_replay(path)
