"""C10 — the storage manager never hands out or reclaims live memory.
Lean: Model/Store.lean, Lemmas/Store.lean, Props/C10.lean.  Tie: hand model + correspondence (H):
harness/store_drv.c (#includes the scratch tree's store.c) vs the compiled Lean driver; the page
layer and the marker are recorded inputs of the model."""
from vlib import common
from checks.parts import store

PARTS = [store]

def run(ctx):
    common.run_parts(ctx, PARTS)

def replay(ctx, path):
    return common.show_replay(path)
