"""C13 — interactive evaluation equals batch evaluation.
Lean: Model/Repl.lean (scanIsContinued statement by statement; abstract session), Props/C13.lean.
Tie: correspondence (H) for scanIsContinued (harness/scancont_drv.c vs the Lean driver) and an
end-to-end search (-Gloop vs -Ginterp, with erroneous forms interleaved) for the session."""
from vlib import common
from checks.parts import replcont, replsearch

PARTS = [replcont, replsearch]

def run(ctx):
    common.run_parts(ctx, PARTS)

def replay(ctx, path):
    return common.show_replay(path)
