"""C17 — damaged library files are refused, never silently used.
Lean: Model/LibHdr.lean, Model/Archive.lean, Props/C17.lean.  Tie: hand models + correspondence
(harness/libhdr_drv.c, harness/archive_drv.c) and an end-to-end damage sweep on the compiler
built from /repo's current tree."""
from vlib import common
from checks.parts import libhdr

PARTS = [libhdr]

def run(ctx):
    common.run_parts(ctx, PARTS)

def replay(ctx, path):
    return common.show_replay(path)
