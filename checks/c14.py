"""C14 — parsing does not depend on layout.
Lean: Model/Linear.lean, Props/C14.lean.  Tie: hand model of linear.c + correspondence (H):
harness/linear_drv.c linked with the scratch build of /repo's current tree vs the compiled Lean
driver, on scanned layout variants of source programs and on random token lists; end to end:
the compiler's own `-WTr+li` token list and `-Fap` parse tree across the layout variants."""
from vlib import common
from checks.parts import linear

PARTS = [linear]

def run(ctx):
    common.run_parts(ctx, PARTS)

def replay(ctx, path):
    return common.show_replay(path)
