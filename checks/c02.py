"""C02 — optimisation settings never change program behaviour.
Lean: Model/Peep.lean, Model/PeepTable.lean, Model/OptControl.lean, Gen/OptControl.lean and
Gen/PeepTable.lean (regenerated from optfoam.c / of_peep.c by translate/optcontrol.py and
translate/peeptable.py before the Lean build: parts/peep.py prepare_src), Lemmas/Peep.lean,
Props/C02.lean.  Tie: regenerated tables (T) for optControl[] and the peephole tables, hand model
+ correspondence (H) for of_peep.c (harness/optdrv.c vs the compiled Lean driver); everything else
(inliner, cprop, cse, flow, emerge, ...) by the end-to-end search only (parts/optsearch.py)."""
from vlib import common
from checks.parts import peep, optsearch

PARTS = [peep, optsearch]

def run(ctx):
    common.run_parts(ctx, PARTS)

def replay(ctx, path):
    """prints the replay file and runs it again on a scratch build of the current tree"""
    import json
    rep = json.load(open(path))
    print(json.dumps({k: v for k, v in rep.items() if k != "replay"}, indent=1))
    r = rep.get("replay", {})
    kind = r.get("kind")
    if kind == "opt-changes-behaviour":
        return optsearch.replay(common.Build(), r)
    if kind in ("impl-violates-property", "impl-fault", "impl-hangs") and "line" in r:
        return peep.replay(common.Build(), r)
    return common.show_replay(path)
