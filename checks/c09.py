"""C09 — garbage collection never changes what a program computes.
Lean: Model/Gc.lean, Lemmas/Gc.lean, Lemmas/GcSim.lean, Props/C09.lean.  Tie: hand model + correspondence (H):
harness/gc_drv.c linked with the scratch build of /repo's current tree vs the compiled Lean driver;
search: forced-collection schedule sweep (hook ALDOR_VERIF_GC in store.c) on corpus/gc programs, both routes."""
from vlib import common
from checks.parts import gc

PARTS = [gc]

def run(ctx):
    common.run_parts(ctx, PARTS, hooks=True)

def replay(ctx, path):
    return common.show_replay(path)
