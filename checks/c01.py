"""C01 — Programs produce the result the language defines.

Lean: Model/MiniAldor/*.lean (abstract syntax, type checker, fuelled reference evaluator, renderer,
`OrderIndependent`), Props/C01.lean (fuel monotonicity, determinism, layout irrelevance of the
rendered token stream, argument-order irrelevance on the expression fragment, type soundness on
the fragment).  The property itself — "the compiled program prints exactly what the reference
evaluator says" — is an implementation-versus-model agreement and is decided by the
correspondence below: programs generated from the typed abstract grammar (vlib/miniald.py), the
expected stdout/exit class from the compiled Lean driver, the real compiler on two routes
(-Ginterp, native executable through C), braced and #pile renderings under random layouts."""
import collections, json, os, sys, time
from vlib import common, miniald as M

THEOREMS = [("AldorVerif.Props.C01", "AldorVerif.MiniAldor." + t) for t in (
    "eval_fuel_mono", "evalWith_fuel_mono", "evalProg_fuel_mono", "eval_deterministic",
    "lex_render", "render_layout_irrelevant", "arg_order_irrelevant_partial", "counts_irrelevant",
    "type_soundness_partial", "overload_unique", "macro_expansion_sound")]
BUILD_TARGETS = ["AldorVerif.Props.C01"]

# the features C01 names -> evaluator rules that witness them (sum must reach the threshold)
NAMED = collections.OrderedDict([
    ("machine-integers", ["miArith", "miDiv", "miCmp"]), ("machine-integer-wrap", ["miWrap"]),
    ("big-integers", ["intArith", "intDiv"]), ("big-integers-beyond-a-word", ["intBig"]),
    ("booleans", ["boolOp"]), ("strings", ["strOp", "strCmp"]),
    ("lists", ["listLit", "listOp", "listIndex"]), ("arrays", ["arrLit", "arrNew", "arrIndex", "arrSet"]),
    ("records", ["recLit", "recField", "recSet"]), ("unions", ["uniLit", "uniCase", "uniGet"]),
    ("union-branch-assignment", ["uniSet"]), ("unions-with-branches-of-one-type", ["static:union-same-type-branches"]),
    ("closures", ["cloMake"]), ("closure-application", ["cloApply"]),
    ("generators", ["yield"]), ("while-loops", ["whileIter"]), ("for-loops", ["forRangeIter", "forInIter"]),
    ("break", ["brk"]), ("iterate", ["iter"]), ("early-exit", ["seqExit"]), ("early-return", ["retEarly"]),
    ("exceptions-thrown", ["throw"]), ("exceptions-caught", ["catchNamed", "catchAll"]), ("finally", ["finallyRun"]),
    ("overloading", ["callOverloaded"]), ("macros", ["static:mcall"]),
    ("parametrised-domains", ["domCall"]), ("category-defaults", ["catDefault"]),
    ("dead-stores-with-effects", ["static:deadstore"]), ("handlers-that-throw", ["static:handler-throws"]),
    ("try-with-finally", ["static:finally"]), ("exception-values", ["exnVal"]),
])
THRESHOLD = 5

FEATURE_PRIORITY = ["try", "exnval", "throw", "dcall", "self", "cat", "dom", "mcall", "macro", "generate", "forgen", "yield",
                    "lam", "app", "uni", "case", "uget", "rec", "field", "setfield", "arr", "arrnew", "setidx", "index",
                    "list", "forin", "for", "while", "break", "iterate", "ret", "exit", "overload", "call", "if", "seq",
                    "assign", "strlit", "int", "mi", "bool", "print"]

def top_feature(prog):
    fs = set(M.features_of(prog))
    for f in FEATURE_PRIORITY:
        if f in fs:
            return f
    return "none"

def kind_of(m, run):
    got = M.observed_class(run)
    if got == "compile-failed":
        txt = (run.get("stdout", "") + run.get("stderr", "") + str(run.get("compile_out", "")))
        if "Program fault" in txt or "Compiler bug" in txt:
            return "compiler-crash"
        return "compile-rejected"
    if got.startswith("fault") or got == "timeout":
        return "runtime-" + got.split(":")[0]
    if got != M.exit_class(m["exit"]):
        return "exit-class"
    return "stdout"

def layouts_for(rng, n):
    return [{"indent": rng.randint(1, 8), "tabs": rng.random() < 0.3,
             "seed": 0 if rng.random() < 0.2 else rng.randint(1, 10**6)} for _ in range(n)]

LEVELS = ("-Q2", "-Q3", "-Q5")
RUN_TIMEOUT = 120        # one compile+run; a hang must not stall the tier
HANG_MIN_SIG = "c01|opt-level|compiler-hang|add-most-negative-constant"

def split_route(route):
    """"interp-Q2" -> ("interp", ["-Q2"])"""
    if "-Q" in route:
        r, q = route.split("-Q", 1)
        return r, ["-Q" + q]
    return route, []

def run_one(build, source, route, timeout=RUN_TIMEOUT):
    r, opts = split_route(route)
    return M.compile_and_run(build, source, r, opts=opts, timeout=timeout)

def run_batch(build, res, routes, forms, extra=()):
    """run every accepted program on every route; forms[i][route] picks braced/piled.
    `extra`: (program index, route-with-level) pairs run in addition (optimisation levels)"""
    jobs = []
    for i, r in enumerate(res):
        if r["ok"]:
            for route in routes:
                jobs.append((i, route, forms[i][route]))
    for i, route in extra:
        if res[i]["ok"]:
            jobs.append((i, route, forms[i][split_route(route)[0]]))
    outs = M.run_many([(run_one, (build, res[i][form], route), {}) for i, route, form in jobs])
    return jobs, outs

def shrink_disagreement(build, prog, route, form, kind, layout, budget):
    tmo = 30 if kind.startswith("runtime-timeout") else 90
    def pred(cands):
        rs = M.model(cands, layout=layout)
        idx = [k for k, r in enumerate(rs) if r["ok"]]
        outs = M.run_many([(run_one, (build, rs[k][form], route), {"timeout": tmo}) for k in idx])
        ok = [False] * len(cands)
        for k, o in zip(idx, outs):
            good, _ = M.agrees(rs[k], o)
            ok[k] = (not good) and kind_of(rs[k], o) == kind
        return ok
    log = []
    small = M.shrink(prog, pred, budget=budget, log=log)
    return small, log

def load_corpus():
    d = os.path.join(common.VERIF, "corpus", "miniald")
    out = []
    if os.path.isdir(d):
        for f in sorted(os.listdir(d)):
            if f.endswith(".json"):
                e = json.load(open(os.path.join(d, f)))
                e["file"] = f
                out.append(e)
    return out

def harness_error(ctx, msg):
    """the check itself cannot do its job (degenerate generator, model defect): not a statement about
    the compiler, so no VIOLATION line; evidence is written and the exit status is 2"""
    ctx.notes.append("HARNESS-ERROR: " + msg)
    ctx.write_evidence()
    print("HARNESS-ERROR property=%s %s" % (ctx.prop, msg[:1500]), flush=True)
    sys.exit(2)

def run(ctx):
    t0 = time.time()
    quick = ctx.tier == "quick"
    build = common.Build()
    ctx.cov["repo_build_s"] = round(build.wall, 1)
    proved = ctx.prove(BUILD_TARGETS, THEOREMS)
    ctx.trusted.append("Layer A (MiniAldor) is the language definition used as oracle: Model/MiniAldor/{Syntax,Value,Eval,"
                       "Expand,Typecheck,Effects,Render,Lex}.lean; reader Driver/MiniAldor.lean; generator vlib/miniald.py")
    ctx.assumptions.append("C01 proper (compiled output = reference evaluator) is decided by correspondence on generated "
                           "programs, not by a theorem: the compiler pipeline is not modelled (DESIGN.md §4 C01)")
    if not os.path.exists(common.lean_driver()):
        common.report_proof_failure(ctx, "Lean driver missing")
        return
    rng = ctx.rng
    routes = ["interp", "c"]
    stats = collections.Counter()
    rules = collections.Counter()
    feats = collections.Counter()
    rejects = collections.Counter()

    # ---- corpus: minimised past failures first (known defects are expected to disagree)
    corpus = load_corpus()
    if corpus:
        ast_ix = [i for i, e in enumerate(corpus) if "prog" in e]
        mres = M.model([corpus[i]["prog"] for i in ast_ix], lenient=True)
        cres = [None] * len(corpus)
        for i, r in zip(ast_ix, mres):
            cres[i] = r
        for i, e in enumerate(corpus):
            if "source" in e:       # a form the renderer does not produce: source and expectation are given
                cres[i] = {"ok": True, "stdout": e["expected_stdout"], "exit": e.get("expected_exit", "ok"),
                           "braced": e["source"], "piled": e["source"], "reject": ""}
        jobs = []
        for i, e in enumerate(corpus):
            if cres[i]["ok"]:
                for r in e.get("routes", routes):
                    jobs.append((i, r + "".join(e.get("opts", [])), e.get("form", "braced")))
        outs = M.run_many([(run_one, (build, cres[i][form], route), {"timeout": corpus[i].get("timeout", RUN_TIMEOUT)})
                           for i, route, form in jobs])
        seen = set()
        for (i, route, form), o in zip(jobs, outs):
            e = corpus[i]
            good, why = M.agrees(cres[i], o)
            stats["corpus_runs"] += 1
            if not good:
                stats["corpus_disagree"] += 1
                sig = "c01|corpus|%s" % e["name"]
                if sig not in seen:
                    seen.add(sig)
                    ctx.finding(sig, "%s [%s route: %s]" % (e.get("what", e["name"]), route, why),
                                {"kind": "corpus", "name": e["name"], "route": route, "source": cres[i][form],
                                 "expected": {"stdout": cres[i]["stdout"], "exit": cres[i]["exit"]},
                                 "got": {"rc": o["rc"], "stdout": o["stdout"][-2000:], "stderr": o["stderr"][-2000:]},
                                 "command": o["cmd"]})
        for i, e in enumerate(corpus):
            if not cres[i]["ok"]:
                stats["corpus_rejected_by_model"] += 1
                ctx.notes.append("corpus %s rejected by the model: %s" % (e["file"], cres[i]["reject"]))

    # ---- generated programs
    n = int(os.environ.get("VERIF_C01_N", "0")) or (120 if quick else 3000)
    chunk = 120 if quick else 300
    shrunk = 0
    max_shrink = 3 if quick else 10
    done = 0
    while done < n:
        k = min(chunk, n - done)
        progs = M.generate(rng, k, features=list(M.ALL_FEATURES) + ["error", "uncaught"])
        lays = layouts_for(rng, k)
        res = M.model(progs, layout=lays)
        forms = [{r: ("piled" if rng.random() < 0.5 else "braced") for r in routes} for _ in progs]
        for p, r in zip(progs, res):
            stats["generated"] += 1
            if r["ok"]:
                stats["accepted"] += 1
                for key, v in r["rules"].items():
                    rules[key] += v
                for f in r["features"]:
                    feats[f] += 1
                rules["static:mcall"] += json.dumps(p).count('"mcall"')
                for key, v in M.static_counts(p).items():
                    rules["static:" + key] += v
                    if v:
                        rules["programs-with:" + key] += 1
            else:
                rejects[r["reject"].split(":")[0] if r["reject"].startswith(("type", "undefined", "parse")) else r["reject"][:40]] += 1
                if r["reject"].startswith(("stuck", "parse", "driver", "model-order", "renderer")):
                    # the generator or the model is wrong: a harness error, never a VIOLATION of C01
                    harness_error(ctx, "model/generator defect: %s on %s" % (r["reject"], json.dumps(p)[:600]))
        # a rotating subset also at higher optimisation levels (interpreter route: cheap); the expected
        # output is the same, a difference is a violation of C01 at that level
        okix = [i for i, r in enumerate(res) if r["ok"]]
        nlev = min(len(okix), max(36, len(okix) // 8) if quick else max(36, len(okix) // 5))
        extra = []
        for i in rng.sample(okix, nlev):
            extra.append((i, "interp-Q2"))
            extra.append((i, "interp" + rng.choice(LEVELS[1:])))
        jobs, outs = run_batch(build, res, routes, forms, extra)
        agreed = collections.Counter()
        for (i, route, form), o in zip(jobs, outs):
            good, why = M.agrees(res[i], o)
            stats["runs"] += 1
            if good:
                stats["agree_" + route] += 1
                if route in routes:
                    agreed[i] += 1
                continue
            stats["disagree_" + route] += 1
            kind = kind_of(res[i], o)
            prog, src, exp, got = progs[i], res[i][form], res[i], o
            note = ""
            if shrunk < max_shrink:
                shrunk += 1
                small, log = shrink_disagreement(build, progs[i], route, form, kind, lays[i], 150 if quick else 500)
                rs = M.model([small], layout=lays[i])[0]
                if rs["ok"]:
                    o2 = run_one(build, rs[form], route)
                    if not M.agrees(rs, o2)[0]:
                        prog, src, exp, got, note = small, rs[form], rs, o2, log[0]
            sig = "c01|%s|%s|%s" % (route, kind, top_feature(prog))
            if kind == "runtime-timeout" and split_route(route)[1] and \
                    (M.most_negative_operand(prog) or M.most_negative_operand(progs[i])):
                # cause-aware: the compiler (not the program) does not finish: `a + K` / `a - K` with K folded
                # to -2^63 sends the peep-hole pass into an endless rewrite at -Q2 and above (the default
                # level compiles the same source at once); one signature for every level
                kind = "compiler-hang"
                sig = HANG_MIN_SIG
                why += "; the source adds or subtracts a constant folded to -2^63 (peep-hole pass, of_peep.c peepPositive)"
            ctx.finding(sig, "route %s, %s rendering: %s (%s)" % (route, form, why, kind),
                        {"kind": kind, "route": route, "form": form, "source": src, "ast": prog,
                         "expected": {"stdout": exp["stdout"], "exit": exp["exit"]},
                         "got": {"rc": got["rc"], "stdout": got["stdout"][-3000:], "stderr": got["stderr"][-3000:],
                                 "compile_out": str(got.get("compile_out", ""))[-2000:]},
                         "command": got["cmd"] + "   (in a fresh directory holding the source as p.as" + ("; then ./p" if route == "c" else "") + ")",
                         "level": (split_route(route)[1] or ["default"])[0],
                         "shrink": note})
        stats["agreed_on_both"] += sum(1 for i, r in enumerate(res) if r["ok"] and agreed[i] == len(routes))
        if done == 0 and res:
            for i, r in enumerate(res[:40]):
                if r["ok"]:
                    ctx.sample({"program_size": r.get("size"), "expected_stdout": r["stdout"][:200], "exit": r["exit"],
                                "features": [f for f in r["features"] if ":" not in f][:25]}, limit=4)
        done += k
    ctx.cov["c01"] = dict(stats)
    ctx.cov["c01_rejects"] = dict(rejects)
    ctx.cov["c01_rules"] = dict(sorted(rules.items()))
    ctx.cov["c01_features"] = dict(sorted(feats.items()))
    ctx.cov["evaluations"] += stats["runs"] + stats["corpus_runs"]
    ctx.cov["distinct_nontrivial"] += stats["accepted"]
    ctx.cov["rule"] = ("programs drawn from the typed abstract grammar (size, depth, feature mix per seed), expected "
                       "outcome from the Lean reference evaluator, compared with -Ginterp and the native executable; "
                       "evaluations = process runs, distinct_nontrivial = programs accepted by the model")
    named = {name: sum(rules.get(r, 0) for r in rs) for name, rs in NAMED.items()}
    ctx.cov["c01_named_features"] = named
    weak = [name for name, v in named.items() if v < THRESHOLD]
    if weak:
        # generator degenerate: a harness error, not a violation of the property
        harness_error(ctx, "generator degenerate: named features fired fewer than %d times: %s" % (THRESHOLD, weak))
    if stats["accepted"] * 2 < stats["generated"]:
        harness_error(ctx, "generator degenerate: the model accepts fewer than half of the generated programs: %s" % dict(rejects))
    if not proved:
        common.report_proof_failure(ctx, "Lean obligations of C01")
    ctx.cov["c01_wall_s"] = round(time.time() - t0, 1)

def replay(ctx, path):
    return common.show_replay(path)
