"""part `srcpos` (C15): srcpos.c + the line bookkeeping of include.c vs Model/SrcPos.lean.
Tie: hand model + correspondence (H) through harness/srcpos_drv.c (which #includes srcpos.c and
runs the real includeFile on materialised files), plus an end-to-end sub-check (`e2e`) that
compiles small faulty programs with the scratch-built compiler and compares the reported
file / line / column with the shift-by-k prediction."""
import os, re, shutil, concurrent.futures
from vlib import common
from vlib.common import VERIF

NAME = "srcpos"
BUILD_TARGETS = ["AldorVerif.Props.C15", "AldorVerif.Props.C15Report"]
SOURCES = ["srcpos.c", "srcpos.h", "include.c", "srcline.c", "srcline.h", "comsg.c", "util.c"]
MODELLED = ("srcpos.c: SPOS_* field macros, sposSet sposNone sposTop sposEnd sposGet sposOffset sposEqual sposMin "
            "sposMax sposIsMacroExpanded sposMacroExpanded sposCmp sposIsSpecial sposGlobalLine sposChar sposInit "
            "sposNew sposGrowGloLineTbl sposFile sposLine; include.c: line/serial/fileState bookkeeping of "
            "includeFile inclFile inclLine inclHandleLine inclHandleInclude SysCmdLine (real includer run on "
            "materialised files); scan.c: scTokPos = sposOffset(linePos, char) "
            "; comsg.c: comsgFini/comsgReportFile/comsgReportLine = reverse, lisort (util.c) by sposCmp, runs "
            "of one GLOBAL line, consecutive-same-text filter (real comsgFini driven at includer-made positions) "
            "(not: sposTableTo/FrBuffer sposLineText sposGLine spstack*, #if evaluation, assertions, printing)")
THEOREMS = [("AldorVerif.Props.C15", "AldorVerif.SrcPos." + t) for t in (
    "pack_roundtrip", "column_carry", "column_carry_witness", "sposSet_unmasked", "column_exact_partial",
    "column_exact_statement_refuted", "sposCmp_lex", "file_line_of_gline", "incl_decode_partial",
    "incl_decode_statement_refuted", "stale_false_flat", "include_attribution", "include_attribution_return", "hash_line_renumber",
    "blank_insertion_shift", "token_decode", "include_attribution_carry_statement_refuted")] + [
    ("AldorVerif.Props.C15Report", "AldorVerif.ComsgReport." + t) for t in (
    "report_shows_every_distinct_message_under_its_own_file", "report_shows_distinct_message_itself")]

# what the property's quantifier covers
MAXCOL = 20001            # line lengths up to 20000 characters, columns are 1-based
KSHIFTS = [0, 1, 7, 255, 256, 16383, 16384, 65535, 65536, 70000]
M64 = (1 << 64) - 1

# ------------------------------------------------------------------ independent oracle
class Widths:
    """field layout as printed by the implementation (`consts`)"""
    def __init__(self, s):
        d = dict(x.split("=") for x in s.split())
        self.raw = s
        self.stk, self.mac, self.cno, self.lno = (int(d[k]) for k in ("stk", "mac", "cno", "lno"))
        self.cnoshift, self.lnoshift, self.ulong = int(d["cnoshift"]), int(d["lnoshift"]), int(d["ulong"])
        self.end = int(d["end"], 16)

def book(events):
    """independent bookkeeping: (file, line) of every source line of an includer event list, the
    total number of physical lines, and for each source line the index of the event making it"""
    assert events[0] == "open"
    stack = [[events[1], 0]]
    out, idx, serial = [], [], 0
    i = 2
    while i < len(events) and stack:
        e = events[i]
        top = stack[-1]
        if e in ("line", "ifz", "endif"):
            top[1] += 1; serial += 1; out.append((top[0], top[1])); idx.append(i); i += 1
        elif e == "lines":
            n = int(events[i + 1])
            for _ in range(n):
                top[1] += 1; serial += 1; out.append((top[0], top[1])); idx.append(i)
            i += 2
        elif e == "skip":
            top[1] += 1; serial += 1; i += 1
        elif e == "hl":
            serial += 1
            top[1] = int(events[i + 1]) - 1
            if events[i + 2] != "-": top[0] = events[i + 2]
            i += 3
        elif e == "inc":
            top[1] += 1; serial += 1; out.append((top[0], top[1])); idx.append(i)
            stack.append([events[i + 1], 0]); i += 2
        elif e == "close":
            stack.pop(); i += 1
        else:
            raise ValueError(e)
    return out, serial, idx

def parse_marks(ans):
    """`g:file:line:char ... T..[..] total=n` -> ([(g,file,line,char)], table, total)"""
    toks = ans.split(" ")
    marks = []
    j = 0
    while j < len(toks) and not toks[j].startswith("T"):
        g, f, l, c = toks[j].split(":")
        marks.append((int(g), f, int(l), int(c))); j += 1
    rest = " ".join(toks[j:])
    m = re.match(r"(T\d+/\d+\[.*\]) total=(-?\d+)$", rest)
    return marks, m.group(1), int(m.group(2))

def split_errs(toks):
    """`open f ev ... err d id prio ...` -> (events without err, [(mark index, d, id, prio)])"""
    ev, errs, nmark, i = [toks[0], toks[1]], [], 0, 2
    while i < len(toks):
        e = toks[i]
        if e == "err":
            if nmark > 0: errs.append((nmark - 1, int(toks[i + 1]), toks[i + 2], int(toks[i + 3])))
            i += 4; continue
        n = {"lines": 2, "hl": 3, "inc": 2}.get(e, 1)
        if e in ("line", "ifz", "endif", "inc"): nmark += 1
        elif e == "lines": nmark += int(toks[i + 1])
        ev += toks[i:i + n]; i += n
    return ev, errs

def report_oracle(toks):
    """what the report must look like: every message under the header of its own file and line
    (one block per source line that has messages, in reading order), inside a block ordered by
    column then generation, a message left out only when its text repeats the one before it"""
    ev, errs = split_errs(toks)
    marks, _, _ = book(ev)
    order = sorted(range(len(errs)), key=lambda j: (errs[j][3], j))
    msgs = []
    for j in order:
        mk, d, ident, _ = errs[j]
        if mk < len(marks):
            msgs.append((mk, 1 + d, len(msgs) + 1, "m" + ident))
    out, n = [], 0
    for mk in sorted({m[0] for m in msgs}):
        f, l = marks[mk]
        out.append("H:%s:%d" % (f, l))
        last = ""
        for (_, c, ser, tx) in sorted([m for m in msgs if m[0] == mk], key=lambda m: (m[1], m[2])):
            if tx != last:
                out.append("M:%d:%d:%d:%s" % (l, c, ser, tx)); n += 1
            last = tx
        # (position order is (line, column); generation order breaks ties)
    return " ".join(out + ["n=%d" % n])

def gen_report_file(rng, names, depth, budget, phys_named):
    """events of one file for an R request: never a same-name situation, renumbered lines exist"""
    ev, phys, named = [], 0, phys_named
    for _ in range(rng.randint(1, 6)):
        if budget[0] <= 0: break
        budget[0] -= 1
        r = rng.random()
        if r < 0.55:
            ev.append("line"); phys += 1
            if rng.random() < 0.6:
                for _ in range(rng.choice((1, 1, 1, 2, 3))):
                    ev += ["err", str(rng.choice((0, 0, 5, 5, 6, 14, 40))), rng.choice("aabcx"), str(rng.randint(0, 9))]
        elif r < 0.65:
            n = rng.randint(0, 4); ev += ["lines", str(n)]; phys += n
        elif r < 0.72:
            k = rng.randint(0, 2); ev += ["ifz"] + ["skip"] * k + ["endif"]; phys += k + 2
        elif r < 0.86:
            if rng.random() < 0.5:
                ev += ["hl", str(rng.randint(1, 12)), rng.choice(("g%d.as", "h%d.as")) % depth]; named = True
            else:
                ev += ["hl", str(rng.randint(1, 12) if named else rng.randint(1, phys + 2)), "-"]
            phys += 1
        elif depth < 2:
            names[0] += 1
            f = "f%d.as" % names[0]
            ev += ["inc", f]
            if rng.random() < 0.3:          # a message on the #include line itself
                ev += ["err", "0", rng.choice("ab"), str(rng.randint(0, 9))]
            ev += gen_report_file(rng, names, depth + 1, budget, False) + ["close"]; phys += 1
    return ev

# ------------------------------------------------------------------ generators
def boundary_values(w):
    vals = {0, 1, 2, 3, 5}
    for k in (w.mac, w.cno, w.cno + 1, w.lnoshift, 16, 31, 32, w.lno - 1, w.lno, w.lno + 1, 62, 63, 64):
        for d in (-2, -1, 0, 1):
            v = (1 << k) + d
            if 0 <= v <= M64: vals.add(v)
    return sorted(vals)

def gen_file(rng, names, depth, maxdepth, budget, myname, parent):
    """events of one file body (without the closing `close`)"""
    ev = []
    n = rng.randint(0, 6)
    for _ in range(n):
        if budget[0] <= 0: break
        budget[0] -= 1
        r = rng.random()
        if r < 0.45:
            ev.append("line")
        elif r < 0.55:
            ev += ["lines", str(rng.choice((0, 1, 2, 3, 7, 17)))]
        elif r < 0.67:
            ev += ["ifz"] + ["skip"] * rng.randint(0, 3) + ["endif"]
        elif r < 0.82:
            nm = rng.random()
            if nm < 0.3: f = "-"
            elif nm < 0.80: f = rng.choice(("g.as", "h.as", "gen/y.as"))
            elif nm < 0.90: f = myname
            else: f = parent or myname
            ev += ["hl", str(rng.choice((1, 2, 10, 500, 16384, 65536, 70000, rng.randint(1, 100000)))), f]
        elif depth < maxdepth:
            names[0] += 1
            f = "f%d.as" % names[0]
            ev += ["inc", f] + gen_file(rng, names, depth + 1, maxdepth, budget, f, myname) + ["close"]
        else:
            ev.append("line")
    return ev

def insert_at(events, pos, k):
    return events[:pos] + (["lines", str(k)] if k else []) + events[pos:]

def event_starts(events):
    """token indexes at which an event starts (legal insertion points), after `open f`"""
    pts, i, inactive = [], 2, False
    while i < len(events):
        if not inactive: pts.append(i)       # lines put into an inactive #if section are not source lines
        if events[i] == "ifz": inactive = True
        if events[i] == "endif": inactive = False
        i += {"lines": 2, "hl": 3, "inc": 2}.get(events[i], 1)
    pts.append(len(events))
    return pts

def shift_flags(events, pos):
    """for the source lines made by events[pos:], is the line one of the file instance that is
    being read at `pos`, not yet renumbered by #line (depth tracking; independent of the model)"""
    flags = []
    d = 0          # None = closed or renumbered
    i = pos
    while i < len(events):
        e = events[i]
        if e in ("line", "ifz", "endif"): flags.append(d == 0); i += 1
        elif e == "lines": flags += [d == 0] * int(events[i + 1]); i += 2
        elif e == "skip": i += 1
        elif e == "hl":
            if d == 0: d = None
            i += 3
        elif e == "inc":
            flags.append(d == 0)
            if d is not None: d += 1
            i += 2
        elif e == "close":
            if d == 0: d = None
            elif d is not None: d -= 1
            i += 1
    return flags

def gen_requests(ctx, w):
    rng = ctx.rng
    thorough = ctx.tier == "thorough"
    lines, meta = [], []
    def add(l, **m):
        lines.append(l); meta.append(m)
    add("consts", kind="consts")
    corp = os.path.join(VERIF, "corpus", "srcpos")
    if os.path.isdir(corp):
        for f in sorted(os.listdir(corp)):
            for l in open(os.path.join(corp, f)):
                l = l.strip()
                if l and not l.startswith("#"):
                    if l.startswith("I "):
                        add(l, kind="I", events=l.split()[1:], corpus=True)
                    elif l.startswith("R "):
                        add(l, kind="R", toks=l.split()[1:], corpus=True)
                    else:
                        add(l, kind=l.split()[0], corpus=True)
    ncorpus = len(lines)
    bv = boundary_values(w)
    cols = sorted({0, 1, 2, 79, 80, 637, 17021, MAXCOL - 1, MAXCOL, MAXCOL + 1} |
                  {(1 << w.cno) + d for d in (-2, -1, 0, 1, 2)} | {(1 << (w.cno + 1)) + d for d in (-1, 0, 1)})
    lns = sorted(set(KSHIFTS) | {2, 3, 4, 1000} | {k + d for k in KSHIFTS for d in (1, 2, 3)})
    # pack: every boundary line x a few columns, every boundary column x a few lines
    for l in bv + lns:
        for c in (0, 1, 5, (1 << w.cno) - 1, 1 << w.cno, MAXCOL):
            add("pack %d %d" % (l, c), kind="pack")
    for c in sorted(set(bv) | set(cols)):
        for l in (0, 1, 3, 4, 70003, (1 << w.lno) - 2, (1 << w.lno) - 1):
            add("pack %d %d" % (l, c), kind="pack")
    # offset: the scanner's use (line position has column 1)
    deltas = sorted({0, 1, 2, 5, 636, 16381, 16382, 16383, 16384, 16385, 17020, 19999, 20000, 20001, 32766, 32767, 32768,
                     65535, 65536, (1 << 31) - 1, -1, -2, -16384, -(1 << 31)})
    for l in lns[:] + [(1 << w.lno) - 2, (1 << w.lno) - 1, 1 << 31]:
        for d in deltas:
            add("offset %d 1 %d" % (l, d), kind="offset")
    for c in cols:
        for d in (-c - 1, -c, -1, 0, 1, (1 << w.cno) - c - 1, (1 << w.cno) - c, MAXCOL - c):
            if -(1 << 31) <= d < (1 << 31):
                add("%s 3 %d %d" % (rng.choice(("offset", "mac")), c, d), kind="offset")
    for _ in range(4000 if not thorough else 60000):
        l = rng.choice(lns + bv[:20]) if rng.random() < 0.7 else rng.randint(0, 1 << rng.randint(1, 50))
        c = rng.choice(cols) if rng.random() < 0.5 else rng.randint(0, 1 << rng.randint(1, 16))
        d = rng.choice(deltas) if rng.random() < 0.5 else rng.randint(-40000, 40000)
        add("%s %d %d %d" % (rng.choice(("offset", "offset", "mac")), l, c, d), kind="offset")
    # cmp / special
    pts = [(l, c) for l in (0, 1, 2, 3, 16384, 65536, 70000, (1 << w.lno) - 1) for c in (0, 1, 2, (1 << w.cno) - 1, 1 << w.cno)]
    for a in pts:
        for b in pts:
            add("cmp %d %d %d %d" % (a + b), kind="cmp")
    for l in bv:
        for c in (0, 1, (1 << w.cno) - 1, 1 << w.cno):
            add("special %d %d" % (l, c), kind="special")
    # histories: disciplined (derived from includer event lists, with token offsets) ...
    def history_from(events, offs):
        st = [[events[1], 0]]; serial = 0; ops = []; intended = []
        i = 2
        while i < len(events) and st:
            e = events[i]; top = st[-1]
            if e in ("line", "ifz", "endif", "inc"):
                top[1] += 1; serial += 1
                ops.append("new %s %d %d 1" % (top[0], top[1] & M64, serial)); intended.append((top[0], top[1], 1))
                if offs and rng.random() < 0.4:
                    d = rng.choice(offs)
                    ops.append("off %d" % d); intended.append((top[0], top[1], 1 + d))
                if e == "inc": st.append([events[i + 1], 0]); i += 1
                i += 1
            elif e == "lines":
                for _ in range(int(events[i + 1])):
                    top[1] += 1; serial += 1
                    ops.append("new %s %d %d 1" % (top[0], top[1] & M64, serial)); intended.append((top[0], top[1], 1))
                i += 2
            elif e == "skip": top[1] += 1; serial += 1; i += 1
            elif e == "hl":
                serial += 1; top[1] = int(events[i + 1]) - 1
                if events[i + 2] != "-": top[0] = events[i + 2]
                ops.append("grow %s %d %d" % (top[0], top[1] & M64, serial)); i += 3
            elif e == "close": st.pop(); i += 1
        return "H " + " ; ".join(ops), intended
    nh = 600 if not thorough else 6000
    for _ in range(nh):
        names = [0]
        ev = ["open", "a.as"] + gen_file(rng, names, 0, 3, [rng.randint(3, 25)], "a.as", None)
        h, intended = history_from(ev, rng.choice(([], [0, 5, 78], [16382, 16383, 17020, 20000])))
        if len(h) > 2:
            add(h, kind="H", intended=intended)
    # ... and wild ones (no discipline at all: only model = implementation is compared)
    for _ in range(nh):
        ops = []
        for _ in range(rng.randint(1, 12)):
            r = rng.random()
            g = rng.choice(bv) if rng.random() < 0.3 else rng.randint(0, 40)
            fl = rng.choice(bv) if rng.random() < 0.2 else rng.randint(0, 90000)
            c = rng.choice(cols) if rng.random() < 0.4 else rng.randint(0, 5)
            f = rng.choice(("a.as", "b.as", "c.as", "-")) if r < 0.9 else "a.as"
            if r < 0.5: ops.append("new %s %d %d %d" % (f, fl, g, c))
            elif r < 0.65 and f != "-": ops.append("grow %s %d %d" % (f, fl, g))
            elif r < 0.85: ops.append("pos %d %d" % (g, c))
            else: ops.append("off %d" % rng.choice(deltas))
        add("H " + " ; ".join(ops), kind="Hwild")
    # includer runs: random trees, and shift families (same events with k lines inserted)
    ni = 500 if not thorough else 5000
    fam = 0
    for t in range(ni):
        names = [0]
        ev = ["open", "a.as"] + gen_file(rng, names, 0, 3, [rng.randint(2, 30)], "a.as", None)
        add("I " + " ".join(ev), kind="I", events=ev)
        if t % 4 == 0:
            pts = event_starts(ev)
            pos = rng.choice(pts)
            ks = [1, 7, 255, 256] if t % 16 else KSHIFTS
            if fam >= (2 if not thorough else 40):
                ks = [k for k in ks if k < 16383]
            if any(k >= 16383 for k in ks): fam += 1
            for k in ks:
                ev2 = insert_at(ev, pos, k)
                add("I " + " ".join(ev2), kind="I", events=ev2, base=ev, pos=pos, k=k)
    # the three canonical shapes with every k
    shapes = [
        (["open", "a.as", "line", "line", "line", "ifz", "skip", "endif", "line"], 4),
        (["open", "a.as", "line", "inc", "inc.as", "line", "line", "close", "line", "line"], 5),
        (["open", "a.as", "line", "hl", "500", "f.as", "line", "line", "hl", "7", "-", "line"], 6),
        (["open", "a.as", "line", "inc", "b.as", "line", "inc", "c.as", "line", "close", "line", "close", "line"], 5),
    ]
    for si, (ev, pos) in enumerate(shapes):
        add("I " + " ".join(ev), kind="I", events=ev)
        for k in KSHIFTS[1:]:
            if si == 3 and not thorough and k > 16384: continue
            ev2 = insert_at(ev, pos, k)
            add("I " + " ".join(ev2), kind="I", events=ev2, base=ev, pos=pos, k=k)
    # the report (real comsgFini) on messages at includer-made positions
    import itertools
    def addR(ev):
        add("R " + " ".join(ev), kind="R", toks=ev)
    # boundaries of an include: a message just before the #include, on the included file's first
    # and last line, and on the line after; every generation order; identical and different texts
    for texts in (("a", "a", "a", "a"), ("a", "b", "c", "d"), ("a", "a", "b", "b")):
        for mid in (0, 1, 3):
            for perm in itertools.permutations(range(4)):
                ev = ["open", "a.as", "line", "err", "5", texts[0], str(perm[0]), "inc", "inc.as",
                      "line", "err", "5", texts[1], str(perm[1])] + ["line"] * mid + \
                     ["line", "err", "5", texts[2], str(perm[2]), "close", "line", "err", "5", texts[3], str(perm[3])]
                addR(ev)
    # local line numbers that coincide across files / across a #line: sweep k blank lines
    for k in range(0, 9):
        for tx in (("a", "a"), ("a", "b")):
            for pr in ((0, 1), (1, 0)):
                addR(["open", "a.as", "line", "inc", "inc.as", "lines", str(k), "line", "err", "6", tx[0], str(pr[0]), "close",
                      "lines", "2", "line", "err", "6", tx[1], str(pr[1])])
                addR(["open", "a.as", "lines", str(k), "line", "err", "6", tx[0], str(pr[0]), "hl", "4", "g.as",
                      "line", "err", "6", tx[1], str(pr[1])])
                addR(["open", "a.as", "inc", "i1.as", "lines", str(k), "line", "err", "6", tx[0], str(pr[0]), "close",
                      "inc", "i2.as", "lines", "3", "line", "err", "6", tx[1], str(pr[1]), "close",
                      "hl", "4", "-", "line", "err", "6", tx[0], "2"])
    for _ in range(700 if not thorough else 7000):
        names = [0]
        ev = ["open", "a.as"] + gen_report_file(rng, names, 0, [rng.randint(3, 14)], False)
        if "err" in ev:
            addR(ev)
            if rng.random() < 0.5:
                # the same with k lines in front of one of the message lines
                idx = [i for i, t in enumerate(ev) if t == "err" and ev[i - 1] == "line"]
                if idx:
                    at = rng.choice(idx) - 1
                    for k in range(1, 9):
                        addR(ev[:at] + ["lines", str(k)] + ev[at:])
    return lines, meta, ncorpus

# ------------------------------------------------------------------ property on one answer
def check_answer(w, ln, m, ans, answers_by_line):
    """executable property on an implementation answer.
    returns (ok, why, cls): cls = 'carry' when the only thing wrong is a column >= 2^cno inside
    the quantifier's range, 'stale' is decided by the caller from the model's tags"""
    toks = ln.split()
    kind = toks[0]
    CN = 1 << w.cno
    LN = 1 << w.lno
    if kind == "consts":
        ok = (w.stk + w.mac + w.cno + w.lno == w.ulong and w.cnoshift == w.mac and w.lnoshift == w.mac + w.cno
              and (1 << w.lno) > 70000 + 1000)
        return ok, "field widths do not tile the word / line field too narrow for 70000 lines: " + ans, None
    if kind == "pack":
        l, c = int(toks[1]), int(toks[2])
        h, gl, ch, mac = ans.split()
        if l < LN and c < CN:
            return (int(gl) == l and int(ch) == c and mac == "0"), "decoded (%s,%s) flag %s, packed (%d,%d)" % (gl, ch, mac, l, c), None
        if l < LN and c <= MAXCOL:
            good = int(gl) == l and int(ch) == c
            return good, "column %d of line %d decodes to line %s column %s" % (c, l, gl, ch), "carry"
        return True, "", None
    if kind in ("offset", "mac"):
        l, c, d = int(toks[1]), int(toks[2]), int(toks[3])
        h, gl, ch, mac = ans.split()
        want_mac = "1" if kind == "mac" else "0"
        if l < LN - 1 and c < CN and 0 <= c + d <= MAXCOL:
            good = int(gl) == l and int(ch) == c + d and mac == want_mac
            cls = "carry" if c + d >= CN and mac == want_mac else None
            return good, "token %d characters after column %d of line %d decodes to line %s column %s flag %s" % (d, c, l, gl, ch, mac), cls
        return True, "", None
    if kind == "cmp":
        l1, c1, l2, c2 = (int(x) for x in toks[1:5])
        if max(l1, l2) < LN and max(c1, c2) < CN:
            want = (l1, c1) < (l2, c2) and -1 or ((l1, c1) > (l2, c2) and 1 or 0)
            r = ans.split()
            p, q = (l1 << w.lnoshift) | (c1 << w.cnoshift), (l2 << w.lnoshift) | (c2 << w.cnoshift)
            good = (int(r[0]) == want and r[1] == ("1" if want == 0 else "0")
                    and int(r[2], 16) == (p if want < 0 else q) and int(r[3], 16) == (p if want > 0 else q))
            return good, "sposCmp/Equal/Min/Max %s, lexicographic order says %d" % (ans, want), None
        return True, "", None
    if kind == "special":
        l, c = int(toks[1]), int(toks[2])
        if l < LN and c < CN:
            return (ans == ("1" if l in (0, LN - 1) else "0")), "sposIsSpecial = %s for line %d" % (ans, l), None
        return True, "", None
    if kind == "H" and "intended" in m:
        # final decoding of every position against the intended (file, line, column)
        parts = ans.split(" ")
        # the table contains blanks: the final positions are the last len(intended) tokens
        fin = parts[-len(m["intended"]):] if m["intended"] else []
        cls = None
        for tok, (f, l, c) in zip(fin, m["intended"]):
            hx, g, ff, ll, cc = tok.split(":")
            if (ff, int(ll), int(cc)) != (f, l & M64, c):
                only_carry = c >= CN
                return False, "position %s decodes to %s:%s:%s, intended %s:%d:%d" % (hx, ff, ll, cc, f, l, c), ("carry" if only_carry and c <= MAXCOL else None)
        return True, "", None
    if kind == "R":
        want = report_oracle(m["toks"])
        if ans != want:
            return False, "report is not `every message under its own file/line header`: expected %s" % want[:600], None
        return True, "", None
    if kind == "I":
        ev = m["events"]
        exp, serial, _ = book(ev)
        marks, table, total = parse_marks(ans)
        if total != serial:
            return False, "includer counted %d lines, the files have %d" % (total, serial), None
        if len(marks) != len(exp):
            return False, "%d source lines, expected %d" % (len(marks), len(exp)), None
        for j, ((g, f, l, c), (ef, el)) in enumerate(zip(marks, exp)):
            if (f, l, c) != (ef, el & M64, 1):
                return False, "source line %d (global %d) decodes to %s:%d:%d, it is %s:%d:1" % (j, g, f, l, c, ef, el), None
        if "base" in m:
            # the shift-by-k relation between the two implementation answers
            bans = answers_by_line.get("I " + " ".join(m["base"]))
            if bans and not bans.startswith(("FAULT", "SKIPPED", "MISSING")):
                bm, _, _ = parse_marks(bans)
                k, pos = m["k"], m["pos"]
                P = len(book(m["base"][:pos])[0])
                flags = shift_flags(m["base"], pos)
                A = [(f, l, c) for (_, f, l, c) in bm]
                B = [(f, l, c) for (_, f, l, c) in marks]
                want = A[:P] + B[P:P + k] + [((f, (l + k) & M64, c) if fl else (f, l, c)) for (f, l, c), fl in zip(A[P:], flags)]
                blanks_ok = all(B[P + i][0] == B[P][0] and B[P + i][1] == (B[P][1] + i) & M64 and B[P + i][2] == 1 for i in range(k))
                if B != want or not blanks_ok:
                    return False, "inserting %d lines at event %d does not shift the decoded lines by exactly %d" % (k, pos, k), None
        return True, "", None
    return True, "", None

# ------------------------------------------------------------------ main
def run_part(ctx, build):
    exe = build.cc_driver("srcpos_drv", os.path.join(VERIF, "harness", "srcpos_drv.c"))
    env = {"TMPDIR": build.top}
    c0 = common.run_impl_lines(exe, ["consts"], env=env)
    try:
        w = Widths(c0[0])
    except Exception:
        ctx.finding("srcpos|fault", "srcpos driver cannot report the field widths: %r" % (c0[:1],),
                    {"kind": "impl-fault", "driver": "harness/srcpos_drv.c", "line": "consts", "impl": c0[:1]})
        return {}
    lines, meta, ncorpus = gen_requests(ctx, w)
    c = common.run_impl_lines(exe, lines, env=env)
    mo, tags = common.split_model(common.run_model("srcpos", "\n".join(lines) + "\n"))
    assert len(mo) == len(lines), (len(mo), len(lines))
    stats = {"lines": len(lines), "corpus": ncorpus, "mismatch": 0, "prop_checked": 0, "carry_hits": 0, "stale_hits": 0,
             "faults": 0, "shift_pairs": 0, "consts": c0[0],
             "kinds": {}}
    by_line = {}
    for k, ln in enumerate(lines):
        if meta[k].get("kind") == "I" and k < len(c):
            by_line[ln] = c[k]
    seen = set()
    for k, ln in enumerate(lines):
        co = c[k] if k < len(c) else "MISSING"
        m = meta[k]
        stats["kinds"][m["kind"]] = stats["kinds"].get(m["kind"], 0) + 1
        short = ln if len(ln) < 300 else ln[:300] + " ..."
        seen.add(co if len(co) < 200 else hash(co))
        if co.startswith("FAULT") or co in ("MISSING", "SKIPPED"):
            stats["faults"] += 1
            ctx.finding("srcpos|fault", "srcpos.c/include.c faults (%s) on: %s" % (co, short),
                        {"kind": "impl-fault", "driver": "harness/srcpos_drv.c", "line": ln, "impl": co, "model": mo[k][:2000]})
            continue
        try:
            ok, why, cls = check_answer(w, ln, m, co, by_line)
        except Exception as e:
            ok, why, cls = False, "unparsable driver output %r (%s)" % (co[:200], e), None
        stats["prop_checked"] += 1
        if "base" in m: stats["shift_pairs"] += 1
        replay = {"line": ln if len(ln) < 4000 else ln[:4000] + " ...", "impl": co[:2000], "model": mo[k][:2000], "why": why,
                  "replay_cmd": "echo '<line>' | <srcpos_drv built by ./check C15>"}
        if co != mo[k]:
            stats["mismatch"] += 1
            if not ok:
                replay["kind"] = "impl-violates-property"
                stats["wrong"] = stats.get("wrong", 0) + 1
                if stats["wrong"] > 12: continue          # enough replays of one defect; all are counted
                ctx.finding("srcpos|%s|%s" % (m["kind"], short[:120]), "srcpos/include result for `%s` is wrong: %s (model: %s)"
                            % (short, why, mo[k][:300]), replay)
            else:
                ctx.corr_broken.append((NAME, short, co[:300], mo[k][:300]))
        elif not ok:
            if cls == "carry":
                stats["carry_hits"] += 1
                replay["kind"] = "impl-violates-property"
                ctx.finding("srcpos|column-carry",
                            "a column >= 2^%d is not representable: sposSet does not mask and sposOffset adds across the "
                            "field boundary, so the excess is carried into the global line number (wrong line, possibly "
                            "wrong file), e.g. `%s` -> %s: %s" % (w.cno, short, co[:200], why), replay)
            elif "stale=1" in tags[k] or "nogrow-stale" in tags[k]:
                stats["stale_hits"] += 1
                replay["kind"] = "impl-violates-property"
                ctx.finding("srcpos|same-name-stale",
                            "sposNew adds no table entry when the file name equals the last entry's name, although the "
                            "numbering differs (a #line naming the including file inside an included file, or an "
                            "#include of the file a #line just named): later lines decode to wrong numbers, e.g. `%s`: %s"
                            % (short, why), replay)
            else:
                replay["kind"] = "inconsistent"
                ctx.violation("srcpos|model-and-impl-wrong|" + short[:120],
                              "implementation and model agree on `%s` but %s, outside the recorded exceptions "
                              "(contradicts the C15 theorems: model/driver defect)" % (short, why), replay)
        if k % 700 == 11:
            ctx.sample({"module": "srcpos", "request": short, "impl": co[:200], "model": mo[k][:200], "tags": tags[k]})
    stats["tags"] = common.tag_hist(tags)
    stats["distinct_results"] = len(seen)
    e2e_stats = e2e(ctx, build, w)
    stats["e2e"] = e2e_stats
    ctx.cov["srcpos"] = stats
    ctx.cov["evaluations"] += len(lines) + e2e_stats.get("compiles", 0)
    ctx.cov["distinct_nontrivial"] += len(seen)
    return stats

# ------------------------------------------------------------------ end to end
PROGRAMS = {
    "undef-name":   ['x := undefinedName + 1;'],
    "syntax-plus":  ['import from Integer;', 'f(a: Integer): Integer == a + ;'],
    "paren":        ['import from Integer;', 'y := (1 + 2;', 'z := 3;'],
    "type":         ['import from Integer;', 'import from String;', 's: String := 1;'],
    "two-lines":    ['import from Integer;', 'a := noSuchThing;', '', 'b := 2;', '   c := alsoMissing(b);'],
    "in-function":  ['import from Integer;', 'f(n: Integer): Integer == {', '    n + missingVar', '}', 'g := f("x");'],
    "if-else":      ['import from Integer;', 'if true then 1 else;'],
    "operator":     ['import from Integer;', 'local q: Integer := 5;', 'q := q +* 2;'],
    "tab-indent":   ['import from Integer;', '\tt := undefinedWithTab;'],
    "exports":      ['import from Integer;', 'D: with { foo: % -> % } == add { bar(x: %): % == x }'],
    "string-lit":   ['import from Integer;', 'r := 1;', 'r := "str";', 'u := r + missing2;'],
    "in-loop":      ['import from Integer;', 'for i in 1..3 repeat {', '  k := i * undefinedInLoop;', '}'],
}
E2E_K = [1, 7, 256, 16384, 70000]

HDR = re.compile(r'^"([^"]*)", line (\d+): ?(.*)$')
MSG = re.compile(r'^\[L(\d+) C(\d+)\] #(\d+) \(([A-Za-z ]+)\) (.*)$')

def parse_diag(text):
    """-> list of (file, line, col, severity, message text incl. continuation lines, header line no)"""
    out = []
    curfile, hdrline = None, None
    last = None
    for ln in text.split("\n"):
        h = HDR.match(ln)
        if h:
            curfile, hdrline = h.group(1), int(h.group(2)); last = None
            continue
        g = MSG.match(ln)
        if g:
            last = [curfile, int(g.group(1)), int(g.group(2)), g.group(4), g.group(5), hdrline]
            out.append(last)
            continue
        if re.match(r"^\s*[.^]+\s*$", ln) or not ln.strip():
            if not ln.strip(): pass
            continue
        if last is not None:
            last[4] += "\n" + ln.rstrip()
    return [tuple(x) for x in out]

def filler(k):
    return ["" if i % 2 else "-- filler %d" % i for i in range(k)]

def compile_case(build, top, files):
    d = common.scratch("aldor-verif-c15-")
    for name, content in files.items():
        with open(os.path.join(d, name), "w") as f:
            f.write(content)
    R = common.ALDOR_TOP
    cmd = [build.aldor, "-Nfile=" + os.path.join(build.src, "aldor.conf"), "-Y" + os.path.join(build.comp, "lib", "libfoam", "al"),
           "-I" + os.path.join(R, "lib", "aldor", "include"), "-Y" + os.path.join(R, "lib", "aldor", "src"), "-laldor",
           "-Ginterp", top]
    rc, out, err = common.run(cmd, cwd=d, timeout=120)
    shutil.rmtree(d, ignore_errors=True)
    return rc, out + err

def e2e(ctx, build, w):
    rng = ctx.rng
    thorough = ctx.tier == "thorough"
    CN = 1 << w.cno
    cases = []     # (id, mode, k, top, files, expect-fn, base id)
    def J(lines): return "\n".join(lines) + "\n"
    for name, body in PROGRAMS.items():
        # the faulty text starts at line 2 of a.as; fillers are inserted before body line `at`
        at = rng.randint(0, max(0, len(body) - 1))
        cases.append((name, "base", 0, "a.as", {"a.as": J(['#include "aldor"'] + body)}, None))
        ks = E2E_K
        for k in ks:
            shifted = body[:at] + filler(k) + body[at:]
            cases.append((name, "same", k, "a.as", {"a.as": J(['#include "aldor"'] + shifted)},
                          (lambda L, k=k, at=at: ("a.as", L + k if L >= 2 + at else L))))
            cases.append((name, "include", k, "a.as",
                          {"a.as": J(['#include "aldor"', '#include "inc.as"']), "inc.as": J(filler(k) + body)},
                          (lambda L, k=k: ("inc.as", L - 1 + k))))
            n = rng.choice((2, 500, 16384, 65536))
            cases.append((name, "hashline", k, "a.as",
                          {"a.as": J(['#include "aldor"', '#line %d "f.as"' % n] + filler(k) + body),
                           "f.as": J([""] * (n - 1) + filler(k) + body)},
                          (lambda L, k=k, n=n: ("f.as", n + k + L - 2))))
    # long lines: the fault lies beyond column 2^cno
    pad = " " * (CN + 616)
    cases.append(("long-line", "base", 0, "a.as", {"a.as": J(['#include "aldor"', '', 'x := undefinedName;', 'y := 1;'])}, None))
    cases.append(("long-line", "long-same", 0, "a.as", {"a.as": J(['#include "aldor"', '', pad + 'x := undefinedName;', 'y := 1;'])},
                  (lambda L: ("a.as", L)), len(pad)))
    cases.append(("long-line-inc", "base", 0, "a.as", {"a.as": J(['#include "aldor"', 'x := undefinedName;', 'yy := otherUndefined;'])}, None))
    cases.append(("long-line-inc", "long-include", 0, "a.as",
                  {"a.as": J(['#include "aldor"', '#include "inc.as"', 'yy := otherUndefined;']), "inc.as": J([pad + 'x := undefinedName;'])},
                  (lambda L: ("inc.as", 1) if L == 2 else ("a.as", L)), len(pad)))
    # same-name confusion
    cases.append(("same-name", "base", 0, "a.as", {"a.as": J(['#include "aldor"', 'z := 1;', '', '', 'y := otherUndefined;'])}, None))
    cases.append(("same-name", "stale", 0, "a.as",
                  {"a.as": J(['#include "aldor"', '#include "inc.as"', '', '', 'y := otherUndefined;']),
                   "inc.as": J(['#line 7 "a.as"', 'z := 1;'])},
                  (lambda L: ("a.as", 7 if L == 2 else L))))
    multi = multi_cases()
    results = {}
    def work(cs):
        return cs, compile_case(build, cs[3], cs[4])
    with concurrent.futures.ThreadPoolExecutor(max_workers=max(2, min(common.NCPU, 12))) as ex:
        for cs, (rc, out) in ex.map(work, cases):
            results[(cs[0], cs[1], cs[2])] = (rc, out, cs)
        mres = {}
        for cs, (rc, out) in ex.map(work, multi):
            mres[(cs[0], cs[1], cs[2])] = (rc, out, cs)
    st = {"compiles": len(cases), "compared": 0, "diagnostics": 0, "carry": 0, "stale": 0, "mismatch": 0, "base_without_errors": 0}
    for (name, mode, k), (rc, out, cs) in sorted(results.items(), key=lambda x: (x[0][0], x[0][1], x[0][2])):
        if mode == "base":
            if not parse_diag(out):
                st["base_without_errors"] += 1
                ctx.violation("srcpos|e2e-no-diagnostics|" + name, "the faulty program `%s` produces no diagnostic (rc=%s): %s" % (name, rc, out[-400:]),
                              {"kind": "e2e", "program": cs[4], "output": out[-2000:]}, found_input=False)
            continue
        brc, bout, bcs = results[(name, "base", 0)]
        base = parse_diag(bout)
        got = parse_diag(out)
        exp = []
        for (f, L, C, sev, msg, hl) in base:
            ef, el = cs[5](L)
            extra = cs[6] if len(cs) > 6 and L == (2 if mode == "long-include" else 3) else 0     # only the padded line
            exp.append((ef, el, C + extra, sev, msg))
        gotn = [(f, L, C, sev, msg) for (f, L, C, sev, msg, hl) in got]
        hdr_ok = all(hl == L for (f, L, C, sev, msg, hl) in got if hl is not None) if not mode.startswith("long") and mode != "stale" else True
        st["compared"] += 1; st["diagnostics"] += len(got)
        same = sorted(exp, key=repr) == sorted(gotn, key=repr) and brc == rc and hdr_ok
        if same:
            continue
        what = ("%s/%s k=%d: reported %s (exit %s), the shift-by-k prediction from the unshifted compile is %s (exit %s)"
                % (name, mode, k, sorted(gotn, key=repr)[:4], rc, sorted(exp, key=repr)[:4], brc))
        replay = {"kind": "e2e", "mode": mode, "k": k, "program": name,
                  "files": {n: (c if len(c) < 3000 else c[:1200] + "\n...[%d bytes]...\n" % len(c) + c[-1200:]) for n, c in cs[4].items()},
                  "observed": out[-3000:], "predicted": [list(x) for x in exp], "unshifted_output": bout[-3000:],
                  "cmd": "aldor -Nfile=<src>/aldor.conf -Y<comp>/lib/libfoam/al -I/repo/aldor/lib/aldor/include -Y/repo/aldor/lib/aldor/src -laldor -Ginterp a.as"}
        if mode.startswith("long"):
            st["carry"] += 1
            ctx.finding("srcpos|column-carry", "end to end: a fault at column %d (>= 2^%d) is reported at the wrong place: %s" % (cs[6] + 6, w.cno, what), replay)
        elif mode == "stale":
            st["stale"] += 1
            ctx.finding("srcpos|same-name-stale", "end to end: after an included file whose `#line` names the including file, "
                        "the including file's lines are misnumbered: " + what, replay)
        else:
            st["mismatch"] += 1
            ctx.finding("srcpos|e2e-shift|%s|%s" % (mode, name), "end to end: " + what, replay)
    check_multi(ctx, mres, st)
    return st

# ---- several faulty constructs spread over the main file, included files and #line regions ----
PRE = ['#include "aldor"', 'import from Integer, String;']

def constructs(variant):
    """four one-line faulty constructs; `identical`: four type errors with one message text at one
    column; `distinct`: four different undefined names; `mixed`: both, one with two messages"""
    U = lambda i: "v%d := miss%d;" % (i, i)
    S = lambda i: "s%d: String := 1;" % i
    if variant == "identical": return [S(1), S(2), S(3), S(4)]
    if variant == "distinct":  return [U(1), U(2), U(3), U(4)]
    return [S(1), "w2 := miss2 + missToo;", S(3), U(4)]

def layouts(k, c):
    """name -> (files, placements {construct index: (file, line)}); k blank/comment lines are put in
    front of one construct; for some k in 0..8 two constructs that follow each other in the report
    get the same file-local line number in different files (or across a #line)"""
    B = lambda n: filler(n)
    L = {}
    L["inc-then-main"] = ({"a.as": PRE + ['#include "inc.as"', "", "", c[1]], "inc.as": B(k) + [c[0]]},
                          {0: ("inc.as", k + 1), 1: ("a.as", 6)})
    L["main-then-inc"] = ({"a.as": PRE + B(k) + [c[0], '#include "inc.as"'], "inc.as": ["", "", "", "", c[1]]},
                          {0: ("a.as", 3 + k), 1: ("inc.as", 5)})
    L["two-includes"] = ({"a.as": PRE + ['#include "i1.as"', '#include "i2.as"'], "i1.as": B(k) + [c[0]], "i2.as": B(3) + [c[1]]},
                         {0: ("i1.as", k + 1), 1: ("i2.as", 4)})
    L["hashline"] = ({"a.as": PRE + B(k) + [c[0], '#line 6 "f.as"', c[1]], "f.as": [""] * 5 + [c[1]]},
                     {0: ("a.as", 3 + k), 1: ("f.as", 6)})
    L["inc-main-hashline"] = ({"a.as": PRE + ['#include "inc.as"'] + B(k) + [c[2], '#line 7 "f.as"', c[3]],
                               "inc.as": ["", c[0], "", "", c[1]], "f.as": [""] * 6 + [c[3]]},
                              {0: ("inc.as", 2), 1: ("inc.as", 5), 2: ("a.as", 4 + k), 3: ("f.as", 7)})
    L["boundaries"] = ({"a.as": PRE + [c[0], '#include "inc.as"', c[3]], "inc.as": [c[1]] + B(k) + [c[2]]},
                       {0: ("a.as", 3), 1: ("inc.as", 1), 2: ("inc.as", 2 + k), 3: ("a.as", 5)})
    return L

def multi_cases():
    J = lambda ls: "\n".join(ls) + "\n"
    cases = []
    for variant in ("identical", "distinct", "mixed"):
        c = constructs(variant)
        cases.append(("multi-" + variant, "flat", 0, "a.as", {"a.as": J(PRE + c)}, None))
        for k in range(0, 9):
            for lname, (files, place) in layouts(k, c).items():
                cases.append(("multi-" + variant, lname, k, "a.as", {n: J(ls) for n, ls in files.items()}, place))
    return cases

def check_multi(ctx, mres, st):
    st.update({"multi_compiles": len(mres), "multi_compared": 0, "multi_diagnostics": 0, "multi_mismatch": 0, "coincidences": 0})
    for (name, lname, k), (rc, out, cs) in sorted(mres.items()):
        if lname == "flat": continue
        frc, fout, _ = mres[(name, "flat", 0)]
        flat = parse_diag(fout)            # construct i stands on line 3 + i of the flat program
        if not flat:
            ctx.violation("srcpos|e2e-no-diagnostics|" + name, "the flat multi-fault program produces no diagnostic: " + fout[-300:],
                          {"kind": "e2e", "output": fout[-2000:]}, found_input=False)
            return
        place = cs[5]
        exp = []
        for (f, L, C, sev, msg, hl) in flat:
            if L - 3 in place:
                pf, pl = place[L - 3]
                exp.append((pf, pl, pl, C, sev, msg))        # header file, header line, [L, C], text
        got = [(f, hl, L, C, sev, msg) for (f, L, C, sev, msg, hl) in parse_diag(out)]
        st["multi_compared"] += 1; st["multi_diagnostics"] += len(got)
        locs = sorted(place.values())
        if len({l for _, l in locs}) < len(locs): st["coincidences"] += 1
        if sorted(exp, key=repr) == sorted(got, key=repr):
            continue
        st["multi_mismatch"] += 1
        ctx.finding("srcpos|e2e-report|%s|%s" % (lname, name),
                    "end to end, %s/%s k=%d: %d diagnostics reported %s, predicted (each under the header of its own file and "
                    "line, text and column as in the flat program) %d: %s" % (name, lname, k, len(got), sorted(got, key=repr)[:5], len(exp), sorted(exp, key=repr)[:5]),
                    {"kind": "e2e", "layout": lname, "k": k, "program": name, "files": cs[4], "observed": out[-3000:],
                     "predicted": [list(x) for x in exp], "flat_output": fout[-3000:]})
