"""part `btree` (C20): btree.c vs Model/BTree.lean.  Tie: hand model + correspondence (H).

One request line = one history of operations on one tree (`H t=<t> ; op ; op ; ...`), answered by
harness/btree_drv.c (the repository's btree.c with malloc-based node callbacks) and by the Lean
model driver.  Structural stream: `dump` prints the whole tree shape, so shapes are compared;
observable stream: answers of the searches and deletions.  The python oracle is an independent
sorted multimap (sorted key list + entries per key) and an independent B-tree shape checker; it
judges the *implementation's* answers."""
import bisect, hashlib, itertools, math, os, re
from vlib import common
from vlib.common import VERIF

NAME = "btree"
BUILD_TARGETS = ["AldorVerif.Props.C20BTree"]
SOURCES = ["btree.c", "btree.h"]
MODELLED = ("btree.c: btreeNewX btreeInsertX btreeSplitChild btreeDeleteX btreeDelete0 btreeUnsplitChild "
            "btreeRotateDown btreeRotateUp btreeSearchEQ btreeSearchGE btreeSearchMin btreeSearchMax btreeCheck "
            "btreeCheck0 (not: btreeNMap btreePrint; btreeFreeX only through the driver's leak count; the "
            "non-X entry points only pass the store.c allocator)")
THEOREMS = [("AldorVerif.Props.C20BTree", "AldorVerif.BTree." + t) for t in (
    "btree_refines_sorted_multimap", "searchGE_least", "btree_check_holds", "search_min_max",
    "inv_implies_check", "insert_spec", "delete_spec", "delete0_spec", "insertNonFull_spec")]

REQUIRED_TAGS = ["root-split", "split-leaf", "split-interior", "split-go-left", "split-go-right", "ins-dup",
                 "del-leaf", "del-pred", "del-succ", "del-merge-hit", "rotate-left-leaf", "rotate-right-leaf",
                 "rotate-left-interior", "rotate-right-interior", "merge", "merge-last", "merge-leaf",
                 "merge-interior", "root-collapse", "eq-hit", "eq-miss", "ge-exact", "ge-above", "ge-none",
                 "check:0", "check:-5", "check:-7", "check:-8", "check:-9"]   # -3 -4 -6 never reach the caller

# ------------------------------------------------------------------ independent oracle
class Multimap:
    """sorted multimap: ascending list of keys (with repetitions) + entries per key"""
    def __init__(self):
        self.keys = []
        self.ents = {}
    def add(self, k, e):
        bisect.insort(self.keys, k)
        self.ents.setdefault(k, []).append(e)
    def has(self, k):
        return k in self.ents
    def remove(self, k, e):
        l = self.ents[k]
        l.remove(e)
        if not l:
            del self.ents[k]
        del self.keys[bisect.bisect_left(self.keys, k)]
    def ge(self, k):
        i = bisect.bisect_left(self.keys, k)
        return self.keys[i] if i < len(self.keys) else None
    def pairs(self):
        return sorted((k, e) for k, l in self.ents.items() for e in l)

TOK = re.compile(r"[()\[\]]|\d+:\d+")

def parse_dump(s):
    """-> nested: ('L', [(k,e)...]) | ('N', [(k,e)...], [kids]) ; raises on malformed text"""
    toks = TOK.findall(s)
    if "".join(toks) != s.replace(" ", ""):
        raise ValueError("unexpected characters in dump")
    pos = 0
    def kv(tk):
        a, b = tk.split(":"); return (int(a), int(b))
    def node():
        nonlocal pos
        tk = toks[pos]; pos += 1
        if tk == "[":
            kvs = []
            while toks[pos] != "]":
                kvs.append(kv(toks[pos])); pos += 1
            pos += 1
            return ("L", kvs)
        if tk == "(":
            kids = [node()]; kvs = []
            while toks[pos] != ")":
                kvs.append(kv(toks[pos])); pos += 1
                kids.append(node())
            pos += 1
            return ("N", kvs, kids)
        raise ValueError("bad token " + tk)
    n = node()
    if pos != len(toks):
        raise ValueError("trailing text in dump")
    return n

def shape_check(tree, t):
    """B-tree properties of a parsed dump: (why-or-None, in-order pairs, node count, height)"""
    inorder = []; count = [0]; depths = set(); why = []
    def walk(n, d, root):
        count[0] += 1
        kvs = n[1]
        if len(kvs) > 2 * t - 1: why.append("node with %d > 2t-1 keys" % len(kvs))
        if not root and len(kvs) < t - 1: why.append("non-root node with %d < t-1 keys" % len(kvs))
        if n[0] == "L":
            depths.add(d); inorder.extend(kvs)
        else:
            if root and len(kvs) == 0: why.append("interior root without keys")
            kids = n[2]
            for i, c in enumerate(kids):
                walk(c, d + 1, False)
                if i < len(kvs): inorder.append(kvs[i])
    walk(tree, 0, True)
    if len(depths) != 1: why.append("leaves at depths %s" % sorted(depths))
    ks = [k for k, _ in inorder]
    if any(ks[i] > ks[i + 1] for i in range(len(ks) - 1)): why.append("keys not ascending in order")
    return ("; ".join(why[:3]) or None), inorder, count[0], (min(depths) if depths else 0)

def judge(t, ops, answers):
    """evaluate the ordered-multimap property on the implementation's answers.
    Returns (index of first bad op or None, why)."""
    mm = Multimap()
    last_nodes = None          # node count of the last dump if nothing changed since
    corrupt = False            # a rekey happened: the multimap oracle no longer applies
    last_order_ok = None       # after a rekey: does the last dump ascend in order?
    if len(answers) != len(ops):
        return min(len(answers), len(ops)), "%d answers for %d operations" % (len(answers), len(ops))
    for j, (op, a) in enumerate(zip(ops, answers)):
        o = op[0]
        if o == "rekey":
            k = int(op[1])
            if corrupt:
                continue
            if a != ("ok" if mm.has(k) else "absent"): return j, "rekey of %s key answered %r" % ("a present" if mm.has(k) else "an absent", a)
            if mm.has(k): corrupt = True; last_order_ok = None
            continue
        if corrupt:
            # only dump and check are judged: btreeCheck must accept exactly the ordered trees
            # (key counts and depths are untouched by rekey)
            if o == "dump":
                try:
                    tree = parse_dump(a)
                except Exception as ex:
                    return j, "unparsable dump (%s)" % ex
                why, inorder, cnt, h = shape_check(tree, t)
                last_order_ok = why is None
                if why and "ascending" not in why: return j, "tree shape after rekey: " + why
            elif o == "check" and last_order_ok is not None:
                if (a == "0") != last_order_ok:
                    return j, "btreeCheck = %s on a tree whose keys %s in order" % (a, "ascend" if last_order_ok else "do not ascend")
            continue
        if o == "ins":
            if a != "+": return j, "ins answered %r" % a
            mm.add(int(op[1]), int(op[2])); last_nodes = None
        elif o in ("del", "delq"):
            k = int(op[1])
            if not mm.has(k):
                if a != "absent": return j, "key %d is absent, answer %r" % (k, a)
                continue
            if o == "delq":
                if a != "-": return j, "delq of a present key answered %r" % a
                es = set(mm.ents[k])
                if len(es) != 1: return j, "generator defect: delq with distinct entries"
                mm.remove(k, mm.ents[k][0])
            else:
                if not re.fullmatch(r"-\d+", a): return j, "del of present key %d answered %r" % (k, a)
                e = int(a[1:])
                if e not in mm.ents[k]: return j, "del %d returned entry %d, not stored under that key (%s)" % (k, e, mm.ents[k][:5])
                mm.remove(k, e)
            last_nodes = None
        elif o in ("eq", "ge", "min", "max"):
            if o == "eq": want = int(op[1]) if mm.has(int(op[1])) else None
            elif o == "ge": want = mm.ge(int(op[1]))
            elif o == "min": want = mm.keys[0] if mm.keys else None
            else: want = mm.keys[-1] if mm.keys else None
            if want is None:
                if a != "none": return j, "%s answered %r, expected none" % (" ".join(op), a)
            else:
                m = re.fullmatch(r"(\d+):(\d+)", a)
                if not m: return j, "%s answered %r, expected key %d" % (" ".join(op), a, want)
                k, e = int(m.group(1)), int(m.group(2))
                if k != want: return j, "%s answered key %d, expected %d" % (" ".join(op), k, want)
                if e not in mm.ents[k]: return j, "%s answered entry %d not stored under key %d" % (" ".join(op), e, k)
        elif o == "check":
            if a != "0": return j, "btreeCheck = %s on a tree built by insert/delete" % a
        elif o == "dump":
            try:
                tree = parse_dump(a)
            except Exception as ex:
                return j, "unparsable dump (%s)" % ex
            why, inorder, cnt, h = shape_check(tree, t)
            if why: return j, "tree shape: " + why
            if sorted(inorder) != mm.pairs(): return j, "contents differ from the multimap (%d pairs vs %d)" % (len(inorder), len(mm.keys))
            last_nodes = cnt
        elif o == "nodes":
            if not a.isdigit(): return j, "nodes answered %r" % a
            if last_nodes is not None and int(a) != last_nodes:
                return j, "%s live nodes, the tree has %d (leak or early free)" % (a, last_nodes)
        elif o == "size":
            if a != str(len(mm.keys)): return j, "size %s, expected %d" % (a, len(mm.keys))
        elif o == "height":
            n = len(mm.keys)
            if not a.isdigit(): return j, "height answered %r" % a
            if n >= 1 and t ** int(a) > (n + 1) / 2.0 + 1e-9: return j, "height %s exceeds log_t((n+1)/2), n=%d" % (a, n)
            if n == 0 and a != "0": return j, "height %s of an empty tree" % a
    return None, ""

# ------------------------------------------------------------------ generators
class Gen:
    """history builder that tracks the keys present (to aim deletions and searches)"""
    def __init__(self, rng, t, entry_mode):
        self.rng, self.t, self.mode = rng, t, entry_mode
        self.ops = []; self.present = []; self.serial = 0
    def ent(self, k):
        if self.mode == "func": return k * 7 + 1
        self.serial += 1; return self.serial
    def ins(self, k):
        self.ops.append(("ins", str(k), str(self.ent(k)))); bisect.insort(self.present, k)
    def dele(self, k, quiet=False):
        self.ops.append(("delq" if quiet and self.mode == "func" else "del", str(k)))
        i = bisect.bisect_left(self.present, k)
        if i < len(self.present) and self.present[i] == k: del self.present[i]
    def q(self, *op): self.ops.append(tuple(str(x) for x in op))
    def probe(self, full=True):
        self.q("check")
        if full: self.q("dump"); self.q("nodes")
    def searches(self, krange):
        r = self.rng
        k = r.choice(self.present) if self.present and r.random() < 0.6 else r.randint(0, krange + 2)
        self.q(r.choice(("eq", "ge", "ge")), k)
        if r.random() < 0.2: self.q(r.choice(("min", "max", "size", "height")))
    def line(self):
        return "H t=%d ; " % self.t + " ; ".join(" ".join(op) for op in self.ops)

def hist_perm(t, ins_order, del_order):
    g = Gen(None, t, "serial")
    for k in ins_order: g.ins(k); g.probe()
    for k in del_order: g.dele(k); g.probe()
    g.q("min"); g.q("max")
    return g

def hist_random(rng, t, nops, profile, dump_every, entry_mode):
    g = Gen(rng, t, entry_mode)
    krange = {"dense": max(4, nops // 8), "dups": max(3, nops // 40), "sparse": 10 ** 9}.get(profile, max(8, nops))
    def newkey():
        return rng.randint(0, krange)
    n = 0
    phase_len = max(10, nops // rng.choice((2, 3, 5, 8)))
    grow = True
    seq = 0
    while n < nops:
        if profile in ("asc", "desc", "asc-desc", "pyramid"):
            # monotone fill, then drain in a chosen order
            m = max(1, min(nops - n, nops // 2))
            ks = list(range(m))
            if profile == "desc": ks.reverse()
            if profile == "pyramid": ks = [x // 2 if x % 2 == 0 else m - 1 - x // 2 for x in range(m)]
            for k in ks:
                g.ins(k); n += 1
                if n % dump_every == 0: g.probe(n % (dump_every * 4) == 0 or nops <= 400)
                if rng.random() < 0.1: g.searches(m)
            order = list(range(m))
            how = rng.choice(("asc", "desc", "rand", "middle"))
            if profile == "asc-desc": how = "desc"
            if how == "desc": order.reverse()
            elif how == "rand": rng.shuffle(order)
            elif how == "middle": order.sort(key=lambda x: abs(x - m // 2))
            for k in order[: rng.choice((m, m, m * 3 // 4, m // 2))]:
                g.dele(k, quiet=rng.random() < 0.3); n += 1
                if n % dump_every == 0: g.probe(n % (dump_every * 4) == 0 or nops <= 400)
                if rng.random() < 0.1: g.searches(m)
            g.probe()
            continue
        seq += 1
        if seq % phase_len == 0: grow = not grow
        p_ins = 0.75 if grow else 0.25
        r = rng.random()
        if r < 0.12:
            g.searches(krange if krange < 10 ** 8 else 10 ** 9)
        elif rng.random() < p_ins or not g.present:
            g.ins(newkey())
        else:
            if rng.random() < 0.08: g.dele(newkey())            # maybe absent
            else: g.dele(rng.choice(g.present), quiet=rng.random() < 0.3)
        n += 1
        if n % dump_every == 0: g.probe(n % (dump_every * 4) == 0 or nops <= 400)
    # drain completely half of the time: root collapses down to an empty leaf
    if rng.random() < 0.5:
        ks = list(g.present); rng.shuffle(ks)
        for i, k in enumerate(ks):
            g.dele(k)
            if i % dump_every == 0: g.probe(nops <= 400)
        g.q("min"); g.q("max"); g.q("ge", 0); g.q("height")
    g.probe()
    return g

def hist_corrupt(rng, t):
    """build a tree, then overwrite keys in place (as store.c does when it reuses an entry) and ask
    btreeCheck: order-preserving and order-breaking new keys, in leaves and interior nodes"""
    g = Gen(rng, t, "serial")
    n = rng.randint(1, 12 * t)
    keys = [10 * x for x in rng.sample(range(1, 4 * n + 2), n)]
    for k in keys: g.ins(k)
    if rng.random() < 0.3:
        for k in rng.sample(keys, len(keys) // 3): g.dele(k)
    g.probe()
    for _ in range(rng.randint(1, 3)):
        if not g.present: break
        k = rng.choice(g.present)
        r = rng.random()
        if r < 0.35: k2 = k + rng.randint(-9, 9)                      # stays between its neighbours
        elif r < 0.6: k2 = k + rng.choice((-10, 10, -11, 11))           # touches / passes a neighbour
        elif r < 0.8: k2 = rng.choice(g.present) + rng.randint(-1, 1)
        else: k2 = rng.choice((0, 10 ** 9, rng.randint(0, 50 * n)))
        g.q("rekey", k, max(0, k2)); g.q("dump"); g.q("check")
        g.q("eq", max(0, k2)); g.q("ge", k)
    return g

def gen_lines(ctx):
    rng = ctx.rng
    thorough = ctx.tier == "thorough"
    hs = []
    # exhaustive: every insertion order x every deletion order of n keys, t = 2 (and t = 3)
    nmax = 5 if thorough else 4
    for n in range(1, nmax + 1):
        for io in itertools.permutations(range(1, n + 1)):
            for do in itertools.permutations(range(1, n + 1)):
                hs.append(hist_perm(2, io, do))
    # duplicates, exhaustive: every word over {1,2} of length <= 6 inserted, then deleted key by key
    for n in range(1, 7 if not thorough else 9):
        for w in itertools.product((1, 2), repeat=n):
            for first in (1, 2):
                g = Gen(None, 2, "serial")
                for k in w: g.ins(k)
                g.probe()
                for k in sorted(w, key=lambda x: (x != first)):
                    g.dele(k); g.q("eq", 1); g.q("eq", 2); g.q("ge", 2); g.probe()
                hs.append(g)
    nexh = len(hs)
    # sampled permutations of 5..9 keys
    for _ in range(3000 if not thorough else 20000):
        n = rng.randint(5, 9)
        io = list(range(1, n + 1)); do = list(io); rng.shuffle(io); rng.shuffle(do)
        hs.append(hist_perm(rng.choice((2, 2, 3)), io, do))
    profiles = ("mix", "dense", "dups", "sparse", "asc", "desc", "asc-desc", "pyramid")
    # short histories with a probe after every operation
    for _ in range(500 if not thorough else 3000):
        t = rng.choice((2, 2, 3, 3, 4, 16))
        hs.append(hist_random(rng, t, rng.randint(20, 120 if t < 16 else 400), rng.choice(profiles), 1,
                              rng.choice(("serial", "func"))))
    for _ in range(1500 if not thorough else 20000):
        hs.append(hist_corrupt(rng, rng.choice((2, 2, 3, 4, 16))))
    # medium histories
    for _ in range(80 if not thorough else 400):
        t = rng.choice((2, 3, 16))
        hs.append(hist_random(rng, t, rng.randint(500, 3000), rng.choice(profiles), rng.choice((7, 31, 64)),
                              rng.choice(("serial", "func"))))
    # every t with every profile once, long enough for three levels at t = 16
    for t in (2, 3, 16):
        for p in profiles:
            hs.append(hist_random(rng, t, 2500 if not thorough else 20000, p, 50 if not thorough else 500,
                                  "serial" if p != "dups" else "func"))
    if thorough:
        for t in (2, 3, 16):
            for p in ("mix", "dups", "asc", "dense"):
                hs.append(hist_random(rng, t, 100000, p, 5000, "serial"))
    return hs, nexh

def load_corpus():
    out = []
    corp = os.path.join(VERIF, "corpus", "btree")
    if os.path.isdir(corp):
        for f in sorted(os.listdir(corp)):
            for l in open(os.path.join(corp, f)):
                l = l.strip()
                if l and not l.startswith("#"):
                    out.append(l)
    return out

def parse_line(ln):
    parts = [p.split() for p in ln.split(";")]
    t = int(parts[0][1][2:])
    return t, [tuple(p) for p in parts[1:] if p]

def run_part(ctx, build):
    exe = build.cc_driver("btree_drv", os.path.join(VERIF, "harness", "btree_drv.c"))
    corpus = load_corpus()
    hs, nexh = gen_lines(ctx)
    lines = corpus + [g.line() for g in hs]
    c = common.run_impl_lines(exe, lines, timeout=1800)
    m, tags = common.split_model(common.run_model("btree", "\n".join(lines) + "\n"))
    assert len(m) == len(lines), (len(m), len(lines))
    stats = {"lines": len(lines), "corpus": len(corpus), "exhaustive": nexh, "operations": 0, "mismatch": 0,
             "faults": 0, "dumps_compared": 0, "longest_history": 0, "distinct_results": 0}
    hist = {}
    for tg in tags:
        for x in tg.split():
            n, _, cnt = x.partition("=")
            hist[n] = hist.get(n, 0) + int(cnt or 1)
    seen = set()
    reported = 0
    for k, ln in enumerate(lines):
        co = c[k] if k < len(c) else "MISSING"
        mo = m[k]
        t, ops = parse_line(ln)
        stats["operations"] += len(ops)
        stats["longest_history"] = max(stats["longest_history"], len(ops))
        if co.startswith("FAULT") or co in ("MISSING", "SKIPPED"):
            stats["faults"] += 1
            # find how far the model gets: the fault is in the prefix the C driver did not answer
            if reported < 5:
                reported += 1
                ctx.finding("btree|fault", "btree.c faults (%s) on a history of %d operations, t=%d" % (co, len(ops), t),
                            {"kind": "impl-fault", "driver": "harness/btree_drv.c", "line": ln[:200000], "impl": co,
                             "replay_cmd": "echo '<line>' | <btree_drv built by ./check C20>"})
            continue
        ca = co.split(";")
        stats["dumps_compared"] += sum(1 for op in ops if op[0] == "dump")
        seen.add(hashlib.sha1(co.encode()).digest()[:8])
        bad, why = judge(t, ops, ca)
        if co != mo:
            stats["mismatch"] += 1
            ma = mo.split(";")
            first = next((j for j in range(min(len(ca), len(ma))) if ca[j] != ma[j]), min(len(ca), len(ma)))
            prefix = "H t=%d ; " % t + " ; ".join(" ".join(op) for op in ops[: first + 1])
            if bad is not None:
                if reported < 5:
                    reported += 1
                    cut = "H t=%d ; " % t + " ; ".join(" ".join(op) for op in ops[: bad + 1])
                    ctx.finding("btree|multimap|" + hashlib.sha1(cut.encode()).hexdigest()[:12],
                                "btree.c does not behave as an ordered multimap: operation %d `%s` of a history with t=%d: %s (implementation %r, model %r)"
                                % (bad, " ".join(ops[bad]) if bad < len(ops) else "?", t, why,
                                   ca[bad][:120] if bad < len(ca) else None, ma[bad][:120] if bad < len(ma) else None),
                                {"kind": "impl-violates-property", "line": cut[:400000], "why": why, "op_index": bad,
                                 "impl": ca[bad][:2000] if bad < len(ca) else None,
                                 "model": ma[bad][:2000] if bad < len(ma) else None,
                                 "replay_cmd": "echo '<line>' | <btree_drv built by ./check C20>"})
            else:
                ctx.corr_broken.append(("btree", prefix[:20000], (ca[first] if first < len(ca) else "")[:2000],
                                        (ma[first] if first < len(ma) else "")[:2000]))
        elif bad is not None:
            ctx.violation("btree|model-and-impl-wrong|" + hashlib.sha1(ln.encode()).hexdigest()[:12],
                          "implementation and model agree but the multimap oracle rejects operation %d `%s` (t=%d): %s "
                          "(contradicts btree_refines_sorted_multimap: model/driver/oracle defect)"
                          % (bad, " ".join(ops[bad]) if bad < len(ops) else "?", t, why),
                          {"kind": "inconsistent", "line": ln[:400000], "why": why})
        if k % 400 == 7:
            ctx.sample({"module": "btree", "request": ln[:300], "impl": co[:300], "model": mo[:300], "tags": tags[k][:300]})
    stats["distinct_results"] = len(seen)
    stats["tags"] = dict(sorted(hist.items()))
    stats["missing_tags"] = [x for x in REQUIRED_TAGS if not hist.get(x)]
    ctx.cov["btree"] = stats
    ctx.cov["evaluations"] += stats["operations"]
    ctx.cov["distinct_nontrivial"] += len(seen)
    return stats
