"""part `scancat` (C07): a deterministic catalogue of inputs that are INVALID BY CONSTRUCTION, each with
the expected verdict ">= 1 (Error) line and a non-zero exit status", and of near-miss VALID twins that
must compile cleanly.  Runs every time, before the random search of part `scanfuzz`.

  1. conditional inclusion: Model/IfState.lean (the includer's if-state machine) against the compiler's
     `-WTr+in` line dumps and messages on generated directive sequences (exhaustive to length 3, then
     random), and catalogue items for every place where the end of the file can fall;
  2. one violating program for every diagnostic that abcheck.c, syscmd.c, linear.c and include.c can
     raise (Gen/Diagnostics.lean, regenerated from the sources by translate/diagsites.py; the catalogue's
     own list of targets is regenerated into Gen/Catalogue.lean; `diagnostic_sites_catalogued` is the
     obligation that every site has an entry), varied over the position of the offending element.

A catalogue item that loses its diagnostic is the finding `scanfuzz|silent-accept|<item id>`; a twin that
is rejected is `scanfuzz|valid-rejected|<item id>`; an item whose diagnostic is replaced by a different
one still satisfies C07 and is reported as a broken correspondence (the recorded verdict is the model)."""
import concurrent.futures as cf
import itertools, os, re, time
from vlib import common
from vlib.common import VERIF
from checks.parts import scanfuzz

NAME = "scancat"
BUILD_TARGETS = ["AldorVerif.Props.C07"]
SOURCES = ["include.c", "abcheck.c", "syscmd.c", "linear.c", "comsgdb.msg"]
MODELLED = ("include.c: IfState, INCLUDING, inclLine's end-of-file test, inclFileContents, inclHandleIf/Elseif/Else/Endif/"
            "Assert/Unassert for the lines of one file (Model/IfState.lean); the diagnostics of abcheck.c, syscmd.c, "
            "linear.c, include.c are enumerated (Gen/Diagnostics.lean), not modelled: each has catalogue items with a recorded verdict")
THEOREMS = [("AldorVerif.Props.C07", "AldorVerif.C07." + t) for t in (
    "eof_errors_equal_open_ifs", "eof_in_open_if_is_error", "balanced_has_no_eof_error", "stray_directive_is_error",
    "diagnostic_sites_catalogued")]

MI = "MachineInteger"
HDR = '#include "aldor"\nimport from MachineInteger;\n'

class Item:
    __slots__ = ("id", "text", "expect", "lib", "target", "msg", "files", "note")
    def __init__(self, id, text, expect="error", lib="aldor", target=None, msg=None, files=None, note=""):
        self.id, self.expect, self.lib, self.target, self.msg, self.files, self.note = id, expect, lib, target, msg, files, note
        self.text = text.encode("latin-1") if isinstance(text, str) else text

AB = "abcheck.c"

def _items():
    I = []
    def bad(id, body, target=None, msg=None, hdr=HDR, lib="aldor", files=None, note=""):
        m = (target[2] if target else None) if msg is None else msg      # msg=False: no particular message expected
        I.append(Item(id, hdr + body, "error", lib, target, m, files, note))
    def ok(id, body, hdr=HDR, lib="aldor", files=None):
        I.append(Item(id, hdr + body, "clean", lib, None, None, files))
    def t(fn, m):
        return (AB, fn, m)

    # ---------------------------------------------------------------- duplicate parameter names
    for n in range(2, 6):
        names = ["p%d" % k for k in range(n)]
        sig = lambda ns: ", ".join("%s: %s" % (x, MI) for x in ns)
        ok("params-n%d-distinct" % n, "f(%s): %s == p0;\n" % (sig(names), MI))
        for i, j in itertools.combinations(range(n), 2):
            ns = list(names); ns[j] = ns[i]
            bad("params-dup-n%d-%d-%d" % (n, i, j), "f(%s): %s == p0;\n" % (sig(ns), MI), t("abCheckLambda", "ALDOR_E_ChkBadParamsDups"))
    for i, j in itertools.combinations(range(3), 2):
        ns = ["p0", "p1", "p2"]; ns[j] = ns[i]
        bad("params-dup-lambda-%d-%d" % (i, j), "g := (%s): %s +-> p0;\n" % (", ".join("%s: %s" % (x, MI) for x in ns), MI),
            t("abCheckLambda", "ALDOR_E_ChkBadParamsDups"))
    ok("params-lambda-distinct", "g := (p0: %s, p1: %s): %s +-> p0;\n" % (MI, MI, MI))
    # ---------------------------------------------------------------- duplicate record / union fields
    for kind in ("Record", "Union"):
        for n in range(2, 5):
            names = ["s%d" % k for k in range(n)]
            ok("%s-n%d-distinct" % (kind.lower(), n), "R == %s(%s);\n" % (kind, ", ".join("%s: %s" % (x, MI) for x in names)))
            for i, j in itertools.combinations(range(n), 2):
                ns = list(names); ns[j] = ns[i]
                bad("%s-dup-n%d-%d-%d" % (kind.lower(), n, i, j), "R == %s(%s);\n" % (kind, ", ".join("%s: %s" % (x, MI) for x in ns)),
                    t("abCheckApply", "ALDOR_E_ChkBadRecordOrUnion"))
    ok("record-same-selector-different-type", "import from String;\nR == Record(s0: %s, s0: String);\n" % MI)   # pairs differ: allowed by design
    bad("enumeration-dup", "E == Enumeration(a, b, a);\n", None, None, note="duplicate enumeration item")
    ok("enumeration-distinct", "E == Enumeration(a, b, c);\n")
    # ---------------------------------------------------------------- assignments, declarations, definitions
    ok("assign-plain", "a: %s := 1;\n" % MI)
    bad("assign-lhs-literal", '"s" := 1;\n', t("abCheckAssign", "ALDOR_E_ChkBadAssign"))
    bad("assign-lhs-nested-comma", "(a, (b, c): %s) := (1, 2, 3);\n" % MI, t("abCheckAssign", "ALDOR_E_ChkBadAssign"))
    bad("assign-lhs-literal-second", 'a: %s := 1;\n(a, "s") := (1, 2);\n' % MI, t("abCheckAssign", "ALDOR_E_ChkBadAssign"))
    bad("declare-lhs-apply", "f(x): %s;\n" % MI, t("abCheckDeclare", "ALDOR_E_ChkBadDeclare"))
    bad("declare-lhs-apply-second", "(a, f(x)): %s;\n" % MI, t("abCheckDeclare", "ALDOR_E_ChkBadDeclare"))
    ok("declare-plain", "a: %s;\n" % MI)
    bad("define-lhs-literal", '"s" == 1;\n', t("abCheckDefine", "ALDOR_E_ChkBadDefine"))
    bad("define-lhs-nested-comma", "(a, (b, c): %s) == (1, 2, 3);\n" % MI, t("abCheckDefine", "ALDOR_E_ChkBadDefine"))
    ok("define-plain", "a: %s == 1;\n" % MI)
    bad("builtin-nondeclaration", "import { f: %s -> %s; 1 } from Builtin;\n" % (MI, MI), t("abCheckBuiltin", "ALDOR_E_ChkBadForm"))
    bad("builtin-nondeclaration-first", "import { 1; f: %s -> %s } from Builtin;\n" % (MI, MI), t("abCheckBuiltin", "ALDOR_E_ChkBadForm"))
    # ---------------------------------------------------------------- export / extend / import
    bad("export-bad-destination", "export { f: %s -> %s } to D;\n" % (MI, MI), t("abCheckExport", "ALDOR_E_ChkBadForm"))
    bad("export-bad-what", "export (a := 1) to Builtin;\n", t("abCheckExport", "ALDOR_E_ChkBadForm"))
    bad("export-bad-source", 'export { f: %s -> %s } from "s";\n' % (MI, MI), t("abCheckExport", "ALDOR_E_ChkBadForm"))
    bad("export-no-declaration", "export f;\n", t("abCheckOneDefine", "ALDOR_E_ChkBadForm"))
    bad("export-no-declaration-first", "export { g; f: %s -> %s };\n" % (MI, MI), t("abCheckOneDefine", "ALDOR_E_ChkBadForm"))
    bad("export-no-declaration-last", "export { f: %s -> %s; g };\n" % (MI, MI), t("abCheckOneDefine", "ALDOR_E_ChkBadForm"))
    bad("export-java-without-package", "export { f: %s -> %s } to Foreign Java;\n" % (MI, MI), t("abCheckForeignExport", "ALDOR_E_ChkMustExportJavaToPackage"))
    bad("extend-without-definition", "extend D;\n", t("abCheckExtendDeclare", "ALDOR_E_ChkBadForm"))
    bad("extend-without-definition-second", "extend { E: with == add; D }\n", t("abCheckExtendDeclare", "ALDOR_E_ChkBadForm"))
    bad("extend-literal", 'extend "s" == add;\n', t("abCheckExtendDeclare", "ALDOR_E_ChkBadForm"))
    bad("extend-number", "extend 1 == add;\n", None, None, note="crashes the unchanged compiler")
    bad("extend-application", "extend f(x) == add;\n", None, None, note="crashes the unchanged compiler")
    bad("export-string-to-foreign", 'export "s" to Foreign C;\n', None, None, note="aborts the unchanged compiler")
    bad("import-without-from", "import { f: %s -> %s };\n" % (MI, MI), t("abCheckImport", "ALDOR_E_ExplicitMsg"), "ALDOR_E_ChkBadForm")
    bad("import-from-literal", 'import from "s";\n', t("abCheckImport", "ALDOR_E_ChkBadForm"))
    ok("import-plain", "import from String;\n")
    bad("foreign-import-nondeclaration", "import { f: %s -> %s; x := 2 } from Foreign C;\n" % (MI, MI), t("abCheckForeignImport", "ALDOR_E_ChkBadForm"))
    bad("foreign-import-nondeclaration-first", "import { x := 2; f: %s -> %s } from Foreign C;\n" % (MI, MI), t("abCheckForeignImport", "ALDOR_E_ChkBadForm"))
    bad("foreign-import-literal", 'import "s" from Foreign C;\n', t("abCheckForeignImport", "ALDOR_E_ChkBadForm"))
    ok("foreign-import-plain", "import { f: %s -> %s } from Foreign C;\n" % (MI, MI))
    # ---------------------------------------------------------------- fluid / free / local
    bad("fluid-literal", 'fluid "s";\n', t("abCheckFluidComma", "ALDOR_E_ChkBadForm"))
    bad("fluid-literal-second", 'fluid { a; "s" }\n', t("abCheckFluidComma", "ALDOR_E_ChkBadForm"))
    bad("fluid-nested-comma", "fluid (a, (b, c): %s);\n" % MI, t("abCheckFluidDeclare", "ALDOR_E_ChkBadForm"))
    bad("fluid-declare-apply", "fluid f(x): %s;\n" % MI, t("abCheckFluidDeclare", "ALDOR_E_ChkBadForm"))
    for kw in ("free", "local"):
        bad("%s-expression" % kw, "%s 1+2;\n" % kw, t("abCheckLOF", "ALDOR_E_ChkBadForm"))
        bad("%s-expression-second" % kw, "%s { a; 1+2 };\n" % kw, t("abCheckLOF", "ALDOR_E_ChkBadForm"))
        bad("%s-comma-literal" % kw, '%s (a, "s");\n' % kw, t("abCheckLOFComma", "ALDOR_E_ChkBadForm"))
        bad("%s-comma-literal-first" % kw, '%s ("s", a);\n' % kw, t("abCheckLOFComma", "ALDOR_E_ChkBadForm"))
        bad("%s-nested-comma" % kw, "%s (a, (b, c): %s);\n" % (kw, MI), t("abCheckLOFDeclare", "ALDOR_E_ChkBadForm"))
        bad("%s-declare-apply" % kw, "%s f(x): %s;\n" % (kw, MI), t("abCheckLOFDeclare", "ALDOR_E_ChkBadForm"))
    ok("local-plain", "f(): %s == { local a: %s := 1; a }\n" % (MI, MI))
    # ---------------------------------------------------------------- for, select, where, add, with
    bad("for-application", "for f(x) in 1..3 repeat 1;\n", t("abCheckFor0", "ALDOR_E_ChkBadFor"))
    bad("for-nested-comma", "for (a, (b, c): %s) in 1..3 repeat 1;\n" % MI, t("abCheckFor0", "ALDOR_E_ChkBadFor"))
    bad("for-literal", 'for "s" in 1..3 repeat 1;\n', t("abCheckFor0", "ALDOR_E_ChkBadFor"))
    ok("for-plain", "s: %s := 0;\nfor i in 1..3 repeat s := s + i;\n" % MI)
    bad("select-not-a-sequence", "select 1 in a;\n", t("abCheckSelect", "ALDOR_E_ChkSelectSeq"))
    for k, body in enumerate(("1 => a; b; 2 => c", "1 => a; 2 => c; b; 3 => d", "b; 1 => a; c; 2 => d")):
        bad("select-exit-after-statement-%d" % k, "select 1 in { %s }\n" % body, t("abCheckSelect", "ALDOR_E_ChkSelectExits"))
    bad("where-exit-first", "x := (1 where { a => 2; b := 3 });\n", t("abCheckWhere", "ALDOR_E_ChkBadForm"))
    bad("where-exit-last", "x := (1 where { b := 3; a => 2 });\n", t("abCheckWhere", "ALDOR_E_ChkBadForm"))
    ok("where-plain", "x: %s := (b where { b: %s := 3 });\n" % (MI, MI))
    for k, body in enumerate(("a => 1; x: %s == 1" % MI, "x: %s == 1; a => 1; y: %s == 2" % (MI, MI), "x: %s == 1; a => 1" % MI)):
        bad("add-exit-%s" % ("first", "middle", "last")[k], "D: with == add { %s }\n" % body, t("abCheckAdd", "ALDOR_E_ChkBadForm"))
    ok("add-plain", "D: with { x: %s } == add { x: %s == 1 }\n" % (MI, MI))
    for k, body in enumerate(('"s"', 'f: %s; "s"' % MI, '"s"; f: %s' % MI, "x := 1", 'if %s has with then "s"' % MI)):
        bad("with-improper-form-%d" % k, "MyCat: Category == with { %s };\n" % body, t("abCheckWithin", "ALDOR_E_ChkBadForm"))
    bad("with-declare-comma", "MyCat: Category == with { (a, b): %s };\n" % MI, t("abCheckWithinDeclare", "ALDOR_E_ChkBadForm"))
    bad("with-declare-apply", "MyCat: Category == with { f(x): %s };\n" % MI, t("abCheckWithinDeclare", "ALDOR_E_ChkBadForm"))
    ok("with-plain", "MyCat: Category == with { f: %s; g: %s -> %s };\n" % (MI, MI, MI))
    # ---------------------------------------------------------------- single forms
    bad("label-not-identifier", '@"s" x;\n', t("abCheck", "ALDOR_E_ChkBadLabel"))
    bad("macro-lambda-unapplied", "macro f(x) == x;\ny := f;\n", t("abCheck", "ALDOR_E_ChkBadMLambda"))
    ok("macro-lambda-applied", "macro f(x) == x;\ny: %s := f(1);\n" % MI)
    bad("qualify-literal", 'x := "s"$%s;\n' % MI, t("abCheck", "ALDOR_E_ChkBadQualification"))
    ok("qualify-plain", "x: %s := 1$%s;\n" % (MI, MI))
    bad("ref-literal", 'x := ref "s";\n', t("abCheckReference", "ALDOR_E_ChkBadForm"))
    bad("ref-computed-operator", "x := ref (f g)(a);\n", t("abCheckReference", "ALDOR_E_ChkBadForm"))
    bad("lambda-parameter-untyped", "f := x +-> x;\n", t("abCheckParamDefine", "ALDOR_E_ChkBadParams"))
    bad("lambda-parameter-untyped-second", "f := (x: %s, y): %s +-> x;\n" % (MI, MI), t("abCheckParamDefine", "ALDOR_E_ChkBadParams"))
    bad("lambda-parameter-literal", 'f := (x: %s, "s"): %s +-> x;\n' % (MI, MI), t("abCheckParamDefine", "ALDOR_E_ChkBadParams"))
    # raised elsewhere (scobind, tinfer): the coordinator's examples
    bad("function-without-return-type", "f(x: %s) == x;\n" % MI, None, None)
    bad("return-outside-function", "return 1;\n", None, None)
    bad("yield-outside-generate", "x: %s := 1;\nyield x;\n" % MI, None, None)
    bad("break-outside-loop", "break;\n", None, None)
    bad("break-in-function-outside-loop", "f(): %s == { break; 1 }\n" % MI, None, None)
    bad("iterate-outside-loop", "iterate;\n", None, None, note="accepted by the unchanged compiler")
    bad("iterate-in-function-outside-loop", "f(): %s == { iterate; 1 }\n" % MI, None, None)
    ok("break-inside-loop", "for i in 1..3 repeat { break }\n")
    ok("iterate-inside-loop", "for i in 1..3 repeat { iterate }\n")
    ok("return-inside-loop-in-function", "f(): %s == { for i in 1..3 repeat { return 2 }; 1 }\n" % MI)
    ok("default-outside-category", "default x: %s;\n" % MI)
    ok("default-inside-category", "MyCat: Category == with { f: % -> %; default { f(x: %): % == x } };\n")
    # ---------------------------------------------------------------- system commands (syscmd.c)
    SC = "syscmd.c"
    bad("library-without-arguments", "#library\n", (SC, "scmdProcessOrCheck", "ALDOR_E_SysCmdBad"))
    bad("library-without-file", "#library X\n", (SC, "scmdProcessOrCheck", "ALDOR_E_SysCmdBad"))
    bad("library-after-code", "x: %s := 1;\n#library\n" % MI, (SC, "scmdProcessOrCheck", "ALDOR_E_SysCmdBad"))
    bad("libraryDir-without-argument", "#libraryDir\n", (SC, "scmdProcessOrCheck", "ALDOR_E_SysCmdBad"))
    bad("error-directive", "#error this is wrong\n", (SC, "scmdProcessOrCheck", "ALDOR_E_ExplicitMsg"), " this is wrong")
    bad("error-directive-last-line-no-newline", "x: %s := 1;\n#error this is wrong" % MI, (SC, "scmdProcessOrCheck", "ALDOR_E_ExplicitMsg"), " this is wrong")
    bad("error-directive-without-text", "#error\n", (SC, "scmdProcessOrCheck", "ALDOR_E_ExplicitMsg"), False,
        note="counted but not printed by the unchanged compiler (recorded finding)")
    bad("library-file-missing", '#library X "nonexistent.al"\n', (SC, "scmdHandleLibrary", "ALDOR_F_CantOpen"), None,
        note="only warnings in the unchanged compiler")
    ok("unknown-directive-is-a-warning", "#bogus\n")
    ok("empty-directive", "#\nx: %s := 1;\n" % MI)
    # ---------------------------------------------------------------- linearizer (linear.c)
    LN = ("linear.c", "serrorUnbalanced", "ALDOR_E_LinUnbalanced")
    bad("endpile-without-pile", "#endpile\n", LN)
    bad("endpile-twice", "#pile\nx: %s := 1\n#endpile\n#endpile\n" % MI, LN)
    bad("brace-open-at-eof", "f(): %s == {\n  1\n" % MI, LN)
    bad("brace-open-at-eof-in-pile", "#pile\nf(): %s == {\n  1\n" % MI, LN)
    bad("brace-close-stray", "x: %s := 1 };\n" % MI, LN)
    bad("brace-close-stray-in-pile", "#pile\nf(): %s ==\n  1 }\n" % MI, LN)
    bad("brace-around-pile", "{\n#pile\n}\n#endpile\n", LN)
    bad("endpile-inside-brace", "#pile\nx: %s := {\n#endpile\n}\n" % MI, LN)
    ok("pile-closed", "#pile\nf(): %s ==\n  1\n#endpile\n;x: %s := f();\n" % (MI, MI))
    ok("pile-open-to-eof", "#pile\nf(): %s ==\n  1\n" % MI)
    ok("pile-twice-closed-once", "#pile\n#pile\nx: %s := 1\n#endpile\n" % MI)
    ok("brace-balanced", "f(): %s == {\n  1\n}\n" % MI)
    bad("pile-bad-indentation", "#pile\nf(): %s ==\n    a: %s := 1\n  a\n" % (MI, MI), None, None)
    # ---------------------------------------------------------------- unbalanced brackets of each kind
    for k, (o, c) in enumerate((("(", ")"), ("[", "]"), ("{", "}"), ("(|", "|)"), ("[|", "|]"), ("{|", "|}"))):
        nm = ("paren", "bracket", "brace", "bar-paren", "bar-bracket", "bar-brace")[k]
        bad("unbalanced-open-%s" % nm, "x: %s := %s1;\n" % (MI, o), None, None)
        bad("unbalanced-close-%s" % nm, "x: %s := 1%s;\n" % (MI, c), None, None)
        bad("unbalanced-mismatch-%s" % nm, "x: %s := %s1%s;\n" % (MI, o, ")" if c != ")" else "]"), None, None)
    ok("balanced-paren", "x: %s := (1);\n" % MI)
    ok("balanced-bracket", "x: List %s := [1];\n" % MI)
    ok("balanced-brace", "x: %s := {1};\n" % MI)
    bad("string-never-closed", 'import from String;\nx: String := "abc;\n', None, None)
    bad("bad-character", "x: %s := \x01 1;\n" % MI, None, None)
    bad("nul-then-junk", "x: %s := 1;\0 junk (((\n" % MI, ("include.c", "inclLine", "ALDOR_E_ScanBadChar"))
    # ---------------------------------------------------------------- macro expansion (macex.c, abnorm.c)
    MX = "macex.c"
    BADARGC = (MX, "macApply", "ALDOR_E_MacBadArgc")
    for n in (1, 2, 3):
        ps = ["a%d" % k for k in range(n)]
        mdef = "macro m(%s) == %s;\n" % (", ".join(ps), " + ".join(ps))
        vals = [str(k + 1) for k in range(n)]
        ok("macro-n%d-called-with-%d" % (n, n), mdef + "x: %s := m(%s);\n" % (MI, ", ".join(vals)))
        bad("macro-n%d-called-with-0" % n, mdef + "x: %s := m();\n" % MI, BADARGC)
        for k in range(1, n):
            bad("macro-n%d-called-with-%d" % (n, k), mdef + "x: %s := m(%s);\n" % (MI, ", ".join(vals[:k])), BADARGC)
        # one surplus argument at every position, and two at the end
        for pos in range(n + 1):
            a = list(vals); a.insert(pos, "junk")
            bad("macro-n%d-surplus-at-%d" % (n, pos), mdef + "x: %s := m(%s);\n" % (MI, ", ".join(a)), BADARGC)
        bad("macro-n%d-two-surplus-last" % n, mdef + "x: %s := m(%s, junk, 1 2 3);\n" % (MI, ", ".join(vals)), BADARGC)
    def domain(fbody, gbody):
        return ("D: with { f: % -> MI; g: MI -> % } == add { Rep == MI; f(c: %): MI == FBODY; g(i: MI): % == GBODY }\n"
                .replace("MI", MI).replace("FBODY", fbody).replace("GBODY", gbody))
    ok("rep-per-one-argument", domain("rep c", "per i"))
    ok("rep-per-one-argument-parenthesised", domain("rep(c)", "per(i)"))
    for nm, good, var, other in (("rep", "per i", "c", 0), ("per", "rep c", "i", 1)):
        for label, args in (("no-argument", ""), ("two-arguments", "%s, %s" % (var, var)), ("surplus-first", "junk, %s" % var),
                            ("surplus-last", "%s, junk" % var), ("three-arguments", "%s, %s, 1 2 3" % (var, var))):
            call = "%s(%s)" % (nm, args)
            bad("%s-%s" % (nm, label), domain(*((call, good) if other == 0 else (good, call))), BADARGC)
    bad("macro-circular-self", "macro m == m;\nx := m;\n", (MX, "macId", "ALDOR_E_MacInfinite"))
    bad("macro-circular-pair", "macro a == b;\nmacro b == a;\nx := a;\n", (MX, "macId", "ALDOR_E_MacInfinite"))
    bad("macro-circular-triple-last", "macro a == b;\nmacro b == c;\nmacro c == a;\nx := c;\n", (MX, "macId", "ALDOR_E_MacInfinite"))
    ok("macro-chain", "macro a == b;\nmacro b == 1;\nx: %s := a;\n" % MI)
    bad("macro-definee-literal", 'macro "s" == 3;\n', (MX, "macMDefine", "ALDOR_E_MacBadDefn"))
    bad("macro-parameter-literal", 'macro f("s") == 2;\n', (MX, "macMLambda", "ALDOR_E_MacBadParam"))
    bad("macro-parameter-literal-second", 'macro f(a, "s") == a;\n', (MX, "macMLambda", "ALDOR_E_MacBadParam"))
    bad("macro-parameter-expression", "macro 1+2 == 3;\n", (MX, "macMLambda", "ALDOR_E_MacBadParam"))
    bad("macro-parameter-declared", "macro f(x: %s) == x;\ny: %s := f(1);\n" % (MI, MI), (MX, "macMLambda", "ALDOR_E_MacBadParamDecl"))
    bad("macro-parameter-declared-second", "macro f(a, x: %s) == x;\n" % MI, (MX, "macMLambda", "ALDOR_E_MacBadParamDecl"))
    AN = "abnorm.c"
    bad("macro-with-return-type", "macro f(x): %s == x;\n" % MI, (AN, "abnMDefine", "ALDOR_E_NormMacDecl"))
    bad("macro-curried-with-return-type", "macro g(a)(b): %s == a;\n" % MI, (AN, "abnMDefine", "ALDOR_E_NormMacDecl"))
    bad("macro-body-not-a-definition", "macro a := 1;\n", (AN, "abnMacro", "ALDOR_E_NormMacBadBody"))
    bad("macro-body-not-a-definition-second", "macro { a == 1; 2 }\n", (AN, "abnMacro", "ALDOR_E_NormMacBadBody"))
    bad("macro-body-not-a-definition-first", "macro { 2; a == 1 }\n", (AN, "abnMacro", "ALDOR_E_NormMacBadBody"))
    bad("macro-import-unknown-library", "macro import { a } from NoSuchLib;\n", (AN, "abnMacImport", "ALDOR_E_NormMacDecl"))
    bad("macro-import-from-expression", "macro import a from 1+2;\n", (AN, "abnMacImport", "ALDOR_E_NormMacDecl"))
    bad("macro-export-not-a-definition", "macro export a;\n", (AN, "abnMacExport", "ALDOR_E_NormMacDecl"))
    ok("macro-sequence", "macro { a == 1; b == 2 }\nx: %s := a + b;\n" % MI)
    # ---------------------------------------------------------------- scanner (scan.c) and parser (parseby.c)
    SCN = "scan.c"
    for k, lit in enumerate(("1r0", "0r1", "37r1", "100r1")):
        bad("radix-out-of-range-%d" % k, "x: %s := %s;\n" % (MI, lit), (SCN, "scanNumber", "ALDOR_E_ScanBadRadix"))
    ok("radix-2", "x: %s := 2r101;\n" % MI)
    ok("radix-36", "x: %s := 36rZ;\n" % MI)
    bad("radix-followed-by-sign", "x: %s := 2r+1;\n" % MI, (SCN, "scanNumber", "ALDOR_E_ScanBadAftRad"))
    bad("radix-without-digits", "x: %s := 16r.e1;\n" % MI, (SCN, "scanNumber", "ALDOR_E_ScanNoDigits"))
    bad("exponent-without-digits", "x := 1e+x;\n", (SCN, "scanNumber", "ALDOR_E_ScanBadExpon"))
    bad("exponent-without-digits-float", "x := 1.5e-y;\n", (SCN, "scanNumber", "ALDOR_E_ScanBadExpon"))
    ok("float-with-exponent", "import from DoubleFloat;\nx: DoubleFloat := 1.5e3;\n")
    bad("string-open-first-statement", 'import from String;\ns: String := "abc\nx: %s := 1;\n' % MI, (SCN, "scanString", "ALDOR_E_ScanOpenString"))
    bad("string-open-last-line-no-newline", 'import from String;\ns: String := "abc', None, None)
    bad("string-open-after-escaped-quote", 'import from String;\ns: String := "ab_";\n', None, None)
    ok("string-with-escaped-quote", 'import from String;\ns: String := "ab_"c";\n')
    for k, ch in enumerate(("\x01", "\x7f", "\xe9", "\xff")):
        bad("bad-character-%d-first" % k, ch + "x: %s := 1;\n" % MI, (SCN, "scanError", "ALDOR_E_ScanBadChar"))
        bad("bad-character-%d-last" % k, "x: %s := 1; %s\n" % (MI, ch), (SCN, "scanError", "ALDOR_E_ScanBadChar"), False)
        bad("bad-character-%d-middle" % k, "x: %s := %s 1;\n" % (MI, ch), (SCN, "scanError", "ALDOR_E_ScanBadChar"), False)
    ok("escaped-high-byte-is-an-identifier", "_\xe9: %s := 1;\n" % MI)
    PB = "parseby.c"
    bad("syntax-error-plain", "export { f: %s -> %s } from D to Foreign C;\n" % (MI, MI), (PB, "yyerrorfn", "ALDOR_E_SyntaxError"))
    bad("syntax-error-with-scanner-text", "x: %s := 37r1;\n" % MI, (PB, "yyerrorfn", "ALDOR_E_SyntaxFullError"), "ALDOR_E_ScanBadRadix")
    bad("syntax-error-no-recovery", "x: %s := 1 );\n" % MI, (PB, "yyerrorfn", "ALDOR_E_SyntaxNoRecovery"))
    bad("syntax-error-parser-stack", "x: %s := %s1%s;\n" % (MI, "(" * 12000, ")" * 12000), (PB, "yyerrorfn", "ALDOR_E_SyntaxErrorHuh"), "memory exhausted")
    ok("deep-but-fine", "x: %s := %s1%s;\n" % (MI, "(" * 3000, ")" * 3000))
    # ---------------------------------------------------------------- NUL bytes at every class of position
    NULT = ("include.c", "inclLine", "ALDOR_E_ScanBadChar")
    stmt = "x: %s := 1;\n" % MI
    bad("nul-first-byte-of-file", "\0" + HDR + stmt, NULT, hdr="")
    bad("nul-on-include-line", '#include "aldor"\0\nimport from MachineInteger;\n' + stmt, NULT, hdr="")
    bad("nul-last-byte-of-file", stmt + "\0", NULT)
    bad("nul-on-a-line-of-its-own", "\0\n" + stmt, NULT)
    bad("nul-last-line-with-newline", stmt + "\0\n", NULT)
    bad("nul-in-code", "x: %s :=\0 1;\n" % MI, NULT)
    bad("nul-in-comment", "-- comment \0 here\n" + stmt, NULT)
    bad("nul-in-trailing-comment", "x: %s := 1; -- c\0\n" % MI, NULT)
    bad("nul-in-doc-comment", "+++ doc \0\ny: %s == 2;\n" % MI, NULT)
    bad("nul-in-string", 'import from String;\ns: String := "a\0b";\n', NULT)
    bad("nul-on-pile-line", "#pile\0\n" + "x: %s := 1\n" % MI, NULT)
    bad("nul-on-assert-line", "#assert Yes\0\n" + stmt, NULT)
    bad("nul-on-if-line-taken", "#assert Yes\n#if\0 Yes\n" + stmt + "#endif\n", NULT)
    bad("nul-on-if-line-taken-end", "#assert Yes\n#if Yes\0\n" + stmt + "#endif\n", NULT)
    bad("nul-on-endif-line-taken", "#assert Yes\n#if Yes\n" + stmt + "#endif\0\n", NULT)
    bad("nul-on-else-line-after-taken", "#assert Yes\n#if Yes\n" + stmt + "#else\0\nskipped (((\n#endif\n", NULT)
    bad("nul-in-taken-branch", "#assert Yes\n#if Yes\nx: %s := 1;\0\n#endif\n" % MI, NULT)
    # inside a skipped region a NUL is not reported (480556e reports it `if INCLUDING(ifState)`)
    ok("nul-in-skipped-text", "#if No\nskipped \0 (((\n#endif\n" + stmt)
    ok("nul-on-nested-if-in-skipped-region", "#if No\n#if\0 Yes\n#endif\n#endif\n" + stmt)
    ok("nul-in-skipped-else-part", "#assert Yes\n#if Yes\n" + stmt + "#else\nskipped \0\n#endif\n")
    # the directive that ends or switches a skipped region takes effect although it carries a NUL
    bad("nul-on-endif-line-ending-skipped-region", "#if No\nskipped (((\n#endif\0\n" + stmt, NULT,
        note="not INCLUDING when the line is read: accepted by the compiler as committed in 480556e")
    bad("nul-on-else-line-ending-skipped-region", "#if No\nskipped (((\n#else\0\n" + stmt + "#endif\n", NULT,
        note="not INCLUDING when the line is read: accepted by the compiler as committed in 480556e")
    bad("nul-on-elseif-line-ending-skipped-region", "#assert Yes\n#if No\nskipped (((\n#elseif\0 Yes\n" + stmt + "#endif\n", NULT,
        note="not INCLUDING when the line is read: accepted by the compiler as committed in 480556e")
    # ---------------------------------------------------------------- comment / escape interplay
    wrong = "y: %s := undefinedThing;\n" % MI
    right = "y: %s := 2;\n" % MI
    for k, tail in enumerate(("--_", "--_ ", "--_ \t ", "-- c_", "-- c _", "-- c __", "++_", "++_  ", "++ d_", "++ d _ ")):
        bad("comment-escape-%d-next-line-wrong" % k, "x: %s := 1; %s\n" % (MI, tail) + wrong, None, "ALDOR_E_TinNoMeaningForId")
        ok("comment-escape-%d-next-line-fine" % k, "x: %s := 1; %s\n" % (MI, tail) + right)
    for k, tail in enumerate(("+++_", "+++_  ", "+++ d_", "+++ d _ ")):
        bad("predoc-escape-%d-next-line-wrong" % k, tail + "\ny: %s == undefinedThing;\n" % MI, None, "ALDOR_E_TinNoMeaningForId")
        ok("predoc-escape-%d-next-line-fine" % k, tail + "\ny: %s == 2;\n" % MI)
    bad("comment-escape-only-line-next-line-wrong", "--_\n" + wrong, None, "ALDOR_E_TinNoMeaningForId")
    bad("comment-escape-next-line-syntax-error", "x: %s := 1; --_\n)\n" % MI, None, None)
    bad("comment-escape-after-continued-statement", "x: %s := 1 + _\n  2; --_\n" % MI + wrong, None, "ALDOR_E_TinNoMeaningForId")
    ok("comment-escape-after-continued-statement-fine", "x: %s := 1 + _\n  2; --_\n" % MI + right)
    # ---------------------------------------------------------------- includer (include.c): conditional inclusion
    IC = "include.c"
    base = "x: %s := 1;\n" % MI
    def ifs(depth, where):
        """an `#if` nest `depth` deep that is never closed; the end of the file falls in `where`"""
        pre = "#assert Yes\n"
        body = ""
        for d in range(depth - 1):
            body += "#if Yes\n"
        if where == "taken":     body += "#if Yes\n" + base
        elif where == "skipped": body += "#if No\nthis is skipped (((\n"
        elif where == "else":    body += "#if No\nskipped (((\n#else\n" + base
        elif where == "else-skipped": body += "#if Yes\n" + base + "#else\nskipped (((\n"
        elif where == "elseif":  body += "#if No\nskipped (((\n#elseif Yes\n" + base
        elif where == "elseif-skipped": body += "#if Yes\n" + base + "#elseif Yes\nskipped (((\n"
        return pre + body
    for depth in (1, 2, 3):
        for where in ("taken", "skipped", "else", "else-skipped", "elseif", "elseif-skipped"):
            for nl in (True, False):
                txt = ifs(depth, where)
                if not nl: txt = txt[:-1]
                bad("if-open-d%d-%s%s" % (depth, where, "" if nl else "-no-newline"), txt, (IC, "inclLine", "ALDOR_E_InclIfEof"))
            closed = ifs(depth, where) + "#endif\n" * depth
            ok("if-closed-d%d-%s" % (depth, where), closed)
            bad("if-closed-once-too-few-d%d-%s" % (depth, where), ifs(depth, where) + "#endif\n" * (depth - 1) + base,
                (IC, "inclLine", "ALDOR_E_InclIfEof")) if depth > 1 else None
    bad("else-without-if", base + "#else\n" + base, (IC, "inclHandleElse", "ALDOR_E_InclUnbalElse"))
    bad("else-without-if-first-line", "#else\n", (IC, "inclHandleElse", "ALDOR_E_InclUnbalElse"), hdr="")
    bad("elseif-without-if", base + "#elseif Yes\n" + base, (IC, "inclHandleElseif", "ALDOR_E_InclUnbalElseif"))
    bad("endif-without-if", base + "#endif\n" + base, (IC, "inclHandleEndif", "ALDOR_E_InclUnbalEndif"))
    bad("endif-without-if-last-line-no-newline", base + "#endif", (IC, "inclHandleEndif", "ALDOR_E_InclUnbalEndif"))
    bad("endif-once-too-many", "#assert Yes\n#if Yes\n" + base + "#endif\n#endif\n", (IC, "inclHandleEndif", "ALDOR_E_InclUnbalEndif"))
    bad("else-twice", "#assert Yes\n#if Yes\n" + base + "#else\nskipped (((\n#else\ny: %s := 2;\n#endif\n" % MI, None, None,
        note="a second #else toggles the state again: accepted by the unchanged compiler")
    bad("elseif-after-else", "#assert Yes\n#if No\nskipped (((\n#else\n" + base + "#elseif Yes\nskipped2 (((\n#endif\n", None, None,
        note="accepted by the unchanged compiler")
    bad("if-open-in-included-file", '#include "g.as"\n' + base, (IC, "inclLine", "ALDOR_E_InclIfEof"), files={"g.as": b"#assert Yes\n#if Yes\ny: MachineInteger := 2;\n"})
    bad("if-open-in-included-file-skipped", '#include "g.as"\n' + base, (IC, "inclLine", "ALDOR_E_InclIfEof"), files={"g.as": b"#if No\nskipped (((\n"})
    ok("if-closed-in-included-file", '#include "g.as"\n' + base, files={"g.as": b"#assert Yes\n#if Yes\ny: MachineInteger := 2;\n#endif\n"})
    bad("endif-in-included-file-for-outer-if", "#assert Yes\n#if Yes\n#include \"g.as\"\n" + base, None, None, files={"g.as": b"#endif\n"})
    bad("include-file-missing", '#include "nonexistent-file"\n' + base, (IC, "inclFile", "ALDOR_F_CantOpen"))
    bad("reinclude-cycle", '#reinclude "g.as"\n' + base, (IC, "inclFile", "ALDOR_E_InclInfinite"), files={"g.as": b'#reinclude "h.as"\n', "h.as": b'#reinclude "g.as"\n'})
    bad("reinclude-self", '#reinclude "f.as"\n' + base, (IC, "inclFile", "ALDOR_E_InclInfinite"))
    ok("include-cycle-is-include-once", '#include "g.as"\n' + base, files={"g.as": b'#include "h.as"\n', "h.as": b'#include "g.as"\n'})
    bad("include-without-argument", "#include\n" + base, (IC, "#define botchSysCmd", "ALDOR_E_SysCmdBad"))
    bad("if-without-argument", "#if\n" + base + "#endif\n", (IC, "#define botchSysCmd", "ALDOR_E_SysCmdBad"))
    bad("assert-without-argument", "#assert\n" + base, (IC, "#define botchSysCmd", "ALDOR_E_SysCmdBad"))
    bad("line-without-number", "#line x\n" + base, (IC, "#define botchSysCmd", "ALDOR_E_SysCmdBad"))
    bad("includeDir-without-argument", "#includeDir\n" + base, (IC, "#define botchSysCmd", "ALDOR_E_SysCmdBad"))
    return [i for i in I if i is not None]

ITEMS = _items()

# diagnostic sites for which no program reaching them was found (with the reason); they count as catalogued
UNREACHED = [
    (AB, "abCheck", "ALDOR_E_ChkBadGoto", "the grammar only accepts an identifier after `goto` (`goto \"s\"`, `goto 1+2` are syntax errors)"),
    (AB, "abCheck", "ALDOR_E_ChkBadMacro", "macro definitions are removed by the macro expander before abCheck runs"),
    (AB, "abCheckDDefine", "ALDOR_E_ChkBadForm", "`define` with a non-definition body (`define x;`, `define { a == 1; b }`) does not build an AB_DDefine with that body"),
    (AB, "abCheckLambda", "ALDOR_E_ChkMissingRetType", "rtype is never a null pointer (an absent type is AB_Nothing); scobindLambda reports the missing type"),
    (AB, "abCheckParam", "ALDOR_E_ChkBadParams", "the parser always wraps the parameters in a comma node"),
    (AB, "abCheckFor0_old", "ALDOR_E_ChkBadFor", "dead code: the function is not called"),
    ("syscmd.c", "scmdProcessOrCheck", "ALDOR_E_SysCmdBad", None),      # reached (library); listed for includeDir, which include.c handles first
    ("linear.c", "serrorUnbalanced", "ALDOR_F_Bug", "serrorUnbalanced is only called with the four pile/brace tokens"),
    ("macex.c", "macApply", "ALDOR_E_MacBadArg", "compiled out: macex.c has `#undef MacDeclArgs`"),
    ("abnorm.c", "abnMLambda", "ALDOR_E_NormMacDecl", "`(a): T +->* b` reaches abCheckParamDefine as an ordinary lambda; no AB_MLambda with a declared parameter list was obtained"),
    ("parseby.c", "yyerrorfn", "ALDOR_F_SyntaxOverflow", "bison reports its stack limit as \"memory exhausted\", never as \"yacc stack overflow\": it arrives as ALDOR_E_SyntaxErrorHuh (catalogued)"),
]
UNREACHED = [u for u in UNREACHED if u[3]]

def targets():
    seen, out = set(), []
    for it in ITEMS:
        if it.target and it.target not in seen:
            seen.add(it.target); out.append(it.target + (True,))
    for f, fn, m, why in UNREACHED:
        if (f, fn, m) not in seen:
            seen.add((f, fn, m)); out.append((f, fn, m, False))
    return out

# ======================================================================================
# Gen files
# ======================================================================================

def _load(name):
    import importlib.util
    spec = importlib.util.spec_from_file_location(name, os.path.join(VERIF, "translate", name + ".py"))
    m = importlib.util.module_from_spec(spec)
    spec.loader.exec_module(m)
    return m

_PREPARED = {}

def prepare_src(src_dir=None):
    src = src_dir or common.SRC
    ds = _load("diagsites")
    sites, ch1 = ds.generate(src, os.path.join(common.LEAN, "AldorVerif", "Gen", "Diagnostics.lean"))
    L = ["/- GENERATED by checks/parts/scancat.py from its catalogue -- do not edit.",
         "   The diagnostic sites (file, function, message) for which the C07 catalogue has at least one violating",
         "   program (`reached := true`) or a recorded reason why no program can reach them. -/",
         "namespace AldorVerif.Gen.Catalogue", "",
         "structure Target where", "  file : String", "  func : String", "  msg : String", "  reached : Bool", "  deriving DecidableEq, Repr", "",
         "def targets : List Target := ["]
    ts = targets()
    for i, (f, fn, m, r) in enumerate(ts):
        L.append('  { file := "%s", func := "%s", msg := "%s", reached := %s }%s' % (f, fn, m, "true" if r else "false", "," if i + 1 < len(ts) else ""))
    L += ["]", "", "end AldorVerif.Gen.Catalogue", ""]
    text = "\n".join(L)
    p = os.path.join(common.LEAN, "AldorVerif", "Gen", "Catalogue.lean")
    old = open(p).read() if os.path.exists(p) else None
    if old != text:
        with open(p, "w") as h:
            h.write(text)
    _PREPARED.update({"diagnostic_sites": len(sites), "catalogue_targets": len(ts), "changed": ch1 or old != text})
    return sites

# ======================================================================================
# message texts
# ======================================================================================

def msg_regex(src, name):
    """the text of a message of comsgdb.msg as a regular expression (%s, %d -> .*)"""
    t = open(os.path.join(src, "comsgdb.msg"), errors="replace").read()
    m = re.search(r"^%s\s+\"((?:[^\"\\]|\\.)*)\"" % re.escape(name), t, re.M)
    if not m:
        return None
    s = m.group(1).replace('\\"', '"').replace("\\n", "\n")
    parts = re.split(r"%[sdc]|%l?[du]", s)
    return ".*".join(re.escape(x) for x in parts)

# ======================================================================================
# conditional inclusion: model against the compiler
# ======================================================================================

ALPH = ["if1", "if2", "ei1", "ei2", "el", "en", "t", "as1", "as2", "un1"]
TEXT = {"if1": "#if P1", "if2": "#if P2", "ei1": "#elseif P1", "ei2": "#elseif P2", "el": "#else", "en": "#endif",
        "as1": "#assert P1", "as2": "#assert P2", "un1": "#unassert P1"}

def if_sequences(rng, thorough):
    seqs = []
    for n in (1, 2, 3):
        seqs += [list(s) for s in itertools.product(ALPH, repeat=n)]
    for _ in range(1500 if not thorough else 20000):
        n = rng.randint(4, 12)
        seqs.append([rng.choice(ALPH if rng.random() < 0.7 else ["if1", "if2", "en", "el", "t"]) for _ in range(n)])
    return seqs

def render_if(seq, newline):
    lines, req, k = [], [], 0
    for s in seq:
        if s == "t":
            k += 1
            lines.append("-- t%d" % k); req.append("t%d" % k)
        else:
            lines.append(TEXT[s]); req.append(s)
    text = "\n".join(lines) + ("\n" if newline else "")
    return text.encode(), "I " + " ".join(req)

def run_incl_dump(runner, text):
    d = getattr(scanfuzz._tl, "dir", None)
    if d is None:
        d = scanfuzz._tl.dir = runner.newdir()
    with open(os.path.join(d, "f.as"), "wb") as h:
        h.write(text)
    import subprocess
    cmd = [runner.aldor, "-Nfile=" + os.path.join(runner.src, "aldor.conf"), "-M", "no-emax", "-WTr+in", "f.as"]      # (the model has no error cap: 10 errors would end the run with status 1)
    try:
        p = subprocess.run(cmd, cwd=d, stdin=subprocess.DEVNULL, stdout=subprocess.PIPE, stderr=subprocess.STDOUT, timeout=scanfuzz.TIMEOUT)
    except subprocess.TimeoutExpired:
        return "TIMEOUT", b""
    return p.returncode, p.stdout

def if_correspondence(ctx, runner, pool, msgs):
    thorough = ctx.tier == "thorough"
    import random
    seqs = if_sequences(random.Random(ctx.seed * 7919 + 7), thorough)     # own stream: the search part keeps its own
    jobs = []
    for i, s in enumerate(seqs):
        jobs.append(render_if(s, True))
        if i % 3 == 0:
            jobs.append(render_if(s, False))
    model, tags = common.split_model(common.run_model("scan", "\n".join(r for _, r in jobs) + "\n"))
    impl = list(pool.map(lambda j: run_incl_dump(runner, j[0]), jobs))
    stats = {"sequences": len(jobs), "mismatch": 0, "open_at_eof": 0, "stray_endif": 0, "balanced": 0}
    kinds = [("EOF", msgs["ALDOR_E_InclIfEof"]), ("UELSE", msgs["ALDOR_E_InclUnbalElse"]),
             ("UELSEIF", msgs["ALDOR_E_InclUnbalElseif"]), ("UENDIF", msgs["ALDOR_E_InclUnbalEndif"])]
    for (text, req), (rc, out), mo, tg in zip(jobs, impl, model, tags):
        o = out.decode("latin-1")
        lines = re.findall(r"line \d+: -- (t\d+)\b", o.split("*** Result of include:")[-1].split("]\n\n")[0]) if "*** Result of include:" in o else []
        got = {k: len(re.findall(r"\((?:Error)\) " + rx, o)) for k, rx in kinds}
        mev = mo.split()
        want_lines = [e[1:] for e in mev if e.startswith("L")]
        want = {k: mev.count(k) for k, _ in kinds}
        depth = tg.split("=")[1] if "=" in tg else "?"
        if depth == "stray-endif": stats["stray_endif"] += 1
        elif depth == "0": stats["balanced"] += 1
        else: stats["open_at_eof"] += 1
        nerr = len(scanfuzz.ERR_RE.findall(out))
        honest = isinstance(rc, int) and (rc != 0) == (nerr > 0)
        # the executable property on the implementation's own output
        if depth not in ("0", "stray-endif", "?") and (got["EOF"] == 0 or rc == 0):
            ctx.finding("scanfuzz|silent-accept|if-open-at-end-of-file",
                        "an `#if` is still open at the end of the file (depth %s) but the compiler %s: %r" % (
                            depth, "exits 0" if rc == 0 else "prints no end-of-file error", text),
                        {"kind": "impl-violates-property", "input_hex": text.hex(), "command": "aldor -Nfile=<src>/aldor.conf -M no-emax -WTr+in f.as",
                         "model": mo, "output_tail": o[-400:]})
            continue
        if not honest:
            ctx.finding("scanfuzz|exit-dishonest|directive-sequence", "exit status %s with %d (Error) lines on %r" % (rc, nerr, text),
                        {"kind": "impl-violates-property", "input_hex": text.hex()})
            continue
        # identical messages at one position are printed once (comsg): all end-of-file errors of a nest sit
        # on the last line; every one of them is counted in the exit status
        got_cmp = dict(got, EOF=min(got["EOF"], 1)); want_cmp = dict(want, EOF=min(want["EOF"], 1))
        if want_lines != [l[1:] for l in lines] or want_cmp != got_cmp or rc != min(sum(want.values()), 255):
            stats["mismatch"] += 1
            ctx.corr_broken.append((NAME, req + "  (%r)" % (text,), "lines %s errors %s exit %s" % (lines, got, rc), "lines %s errors %s exit %s" % (want_lines, want, min(sum(want.values()), 255))))
    return stats

# ======================================================================================
# the part
# ======================================================================================

def run_part(ctx, build):
    t0 = time.time()
    runner = scanfuzz.Runner(build)
    pool = cf.ThreadPoolExecutor(max_workers=common.NCPU)
    names = sorted({it.msg for it in ITEMS if it.msg and it.msg.startswith("ALDOR_")} |
                   {"ALDOR_E_InclIfEof", "ALDOR_E_InclUnbalElse", "ALDOR_E_InclUnbalElseif", "ALDOR_E_InclUnbalEndif"})
    msgs = {n: msg_regex(runner.src, n) for n in names}
    stats = {"translator": dict(_PREPARED)}
    ctx.trusted.append("translator translate/diagsites.py sha256 %s (function/message scan of the C text)" %
                       common.sha256_file(os.path.join(VERIF, "translate", "diagsites.py"))[:16])
    stats["if_correspondence"] = if_correspondence(ctx, runner, pool, msgs)
    t1 = time.time()
    # ---- the catalogue ------------------------------------------------------------------------------------
    def go(it):
        rc, out, wall = runner.compile(it.text, it.lib, ("-M", "no-emax"), it.files)
        return rc, out
    res = list(pool.map(go, ITEMS))
    # a timeout under load proves nothing: once more, alone
    for k, (it, (rc, out)) in enumerate(zip(ITEMS, res)):
        if rc == "TIMEOUT":
            res[k] = runner.compile(it.text, it.lib, ("-M", "no-emax"), it.files, limit=3 * scanfuzz.TIMEOUT)[:2]
    verdicts = {"error": 0, "clean": 0, "silent-accept": 0, "valid-rejected": 0, "crash": 0, "other-diagnostic": 0}
    table = []
    for it, (rc, out) in zip(ITEMS, res):
        cls = scanfuzz.classify(rc, out, False)
        nerr = len(scanfuzz.ERR_RE.findall(out))
        o = out.decode("latin-1")
        cmd = "cd <empty dir>; write the input to f.as%s; timeout 10 %s" % (
            "".join(" and %r to %s" % (v, k) for k, v in (it.files or {}).items()),
            " ".join(a.replace(build.top, "<scratch build>") for a in runner.argv(it.lib, ("-M", "no-emax"))))
        replay = {"kind": "catalogue", "item": it.id, "expected": it.expect, "input_hex": it.text.hex(), "input_repr": repr(it.text)[:400],
                  "command": cmd, "exit_status": rc, "output_tail": o[-600:], "target": it.target, "note": it.note}
        verdict = None
        if cls in scanfuzz.FAULTY or cls in ("timeout", "storage-error"):
            # a crash on a catalogue item: same classes and signatures as the search
            c = scanfuzz.Case(it.text, it.lib, ("-M", "no-emax"), "catalogue:" + it.id, None, it.files)
            sig = scanfuzz.sig_for(runner, c, cls, out)
            verdict = "crash"
            ctx.finding(sig, "%s: %s on the catalogue item %s: %r" % (cls, sig.split("|", 2)[-1], it.id, it.text[-120:]), replay)
        elif cls in ("exit-nonzero-no-error", "exit-zero-with-error"):
            # dishonest exit status: the classes (and signatures) of the search
            c = scanfuzz.Case(it.text, it.lib, ("-M", "no-emax"), "catalogue:" + it.id, None, it.files)
            sig = scanfuzz.sig_for(runner, c, cls, out)
            verdict = "silent-accept" if it.expect == "error" else "valid-rejected"
            ctx.finding(sig, "%s on the catalogue item %s (exit %s, %d (Error) lines): %r" % (cls, it.id, rc, nerr, it.text[-120:]), replay)
        elif it.expect == "error":
            if rc == 0 or nerr == 0:
                verdict = "silent-accept"
                ctx.finding("scanfuzz|silent-accept|" + it.id,
                            "the catalogue item %s is invalid by construction (%s) but the compiler %s: %r" % (
                                it.id, it.note or (it.target[2] if it.target else "see the item"),
                                "exits 0 without an (Error) line" if rc == 0 and nerr == 0 else
                                "exits 0 although it printed an error" if rc == 0 else "exits %s without an (Error) line" % rc, it.text[-160:]), replay)
            else:
                verdict = "error"
                rx = msgs.get(it.msg) if it.msg and it.msg.startswith("ALDOR_") else (re.escape(it.msg) if it.msg else None)
                if rx and not re.search(r"\((?:Fatal )?Error\) [^\n]*" + rx, o):
                    verdict = "other-diagnostic"
                    ctx.corr_broken.append((NAME, "catalogue item %s (%r)" % (it.id, it.text[-100:]),
                                            "diagnostics: " + " | ".join(l.strip()[:90] for l in o.split("\n") if "(Error)" in l or "(Fatal Error)" in l)[:300],
                                            "expected %s" % it.msg))
        else:
            if rc != 0 or nerr > 0:
                verdict = "valid-rejected"
                ctx.finding("scanfuzz|valid-rejected|" + it.id, "the catalogue item %s is a valid near miss but the compiler rejects it (exit %s): %s" % (
                    it.id, rc, " | ".join(l.strip()[:100] for l in o.split("\n") if "(Error)" in l)[:300]), replay)
            else:
                verdict = "clean"
        verdicts[verdict] += 1
        table.append({"item": it.id, "expected": it.expect, "verdict": verdict, "exit": rc, "errors": nerr,
                      "target": "/".join(it.target) if it.target else ""})
    pool.shutdown()
    stats.update({"items": len(ITEMS), "verdicts": verdicts, "walls": {"if_correspondence": round(t1 - t0, 1), "catalogue": round(time.time() - t1, 1)},
                  "table": table})
    ctx.cov["scancat"] = stats
    ctx.cov["evaluations"] += len(ITEMS) + stats["if_correspondence"]["sequences"]
    ctx.cov["distinct_nontrivial"] += len({(t["verdict"], t["exit"]) for t in table})
    for it in ITEMS[::max(1, len(ITEMS) // 4)]:
        ctx.sample({"module": "scancat", "item": it.id, "expected": it.expect})
    return stats
