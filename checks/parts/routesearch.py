"""part `routesearch` (C03): end-to-end search, no Lean obligations of its own.

programs x optimisation level in {0,1,2,3,5,9} x {interp from source, interp from saved .ao, C executable}:
the three routes must give identical standard output and the same success/failure class.

PROGRAMS  corpus/routes/*.as      minimised past failures of this search (run first; an optional first-lines
                                  comment `-- levels: 0 1` restricts the levels a reproducer is run at)
          corpus/programs/*.as    the shared deterministic corpus (routes_*.as stress what differs between the
                                  routes: word width and wrap, shifts, char/byte conversions, big-integer and
                                  float text, recursion, closures, generators, exceptions, multiple values,
                                  records of records, arrays of arrays)
          vlib.miniald            generated programs, also compared with the model's expected output
                                  (skipped silently when the module is absent: generated = 0)

One compilation `-Q<n> -Fao -Fx` gives both the saved .ao (then `-Ginterp prog.ao` in a fresh directory) and
the executable; `-Q<n> -Ginterp prog.as` is the third route.  What the compiler itself prints while compiling
(warnings, on stdout) precedes the program's output on the interp-from-source route only; it is removed when it
is exactly the text the separate compilation printed.

A difference is shrunk by deleting balanced blocks and lines while the same difference persists, then reported
with ctx.finding.  Signatures name the CAUSE where it is positively identified:
  `routes|interp-bug:<text>|<which>`           the interpreter's own `Compiler bug...Bug: <text>` abort
  `routes|exit|halt|stdout:interp-backtrace`   the call stack the interpreter prints on stdout at a halt (the
                                               signature part `exitclass` uses for the same defect)
  `routes|c-nonfinite-float-constant|<which>`  only the C route fails to compile, its C compiler saying `nan`/`inf` undeclared
  `routes|c-negative-zero-constant|<which>`    bit-pattern output differing only in the sign of a zero on the C route
  `routes|float-bits|<which>|<what>|<classes>` any other difference in a generated float-constant program (floatgen family)
  `routes|c-signed-overflow-ub|<which>`        only the executable stands apart AND compiling the same generated
                                               C with `-fwrapv` added makes it agree with the interpreter: gcc has
                                               exploited signed overflow in the C of a wrapping FOAM integer builtin
otherwise `routes|<program>|Q<level>|<which routes differ>` for the pinned and corpus files (stable names) and
`routes|generated|<which>|<what>|<classes>|<sha8 of the minimised source>` for generated programs (their index
is not stable across seeds, so it never appears in a signature)."""
import hashlib, os, re, shutil, time, concurrent.futures as cf
from vlib import common, aldor
from vlib.common import VERIF

NAME = "routesearch"
BUILD_TARGETS = []
THEOREMS = []
SOURCES = ["fint.c", "fintphase.c", "genc.c", "foam_c.c", "foam_i.c", "emit.c"]
MODELLED = "(search only: fint.c evaluator loop and genc.c emitter are compared end to end, not modelled)"

QS = (0, 1, 2, 3, 5, 9)
ROUTES = ("interp", "ao-interp", "c")
BT = re.compile(r"(?:#\d+ +(?:0x)?[0-9a-f]+ in <[^>\n]*> at unit \[[^\]\n]*\]\n|\(Unknown current prog\)\n)+(?:\.\.\.\n)?")
RM = re.compile(r"#\d+ \(Warning\) Removing file `[^'\n]*'\.\n")
BUG = re.compile(r"Compiler bug\.\.\.Bug: ([^\n]*)")


def norm_bug(t):
    t = re.sub(r"\([^)]*\)", "", t)                 # (<name> in [unit])
    t = re.sub(r"\b(?:0x)?[0-9a-f]{6,}\b", "", t)
    t = re.sub(r"fintStmt: \w+", "fintStmt:", t)     # the tag name is a misread operand byte
    return re.sub(r"\s+", " ", t).strip(" .")


# ------------------------------------------------------------------------------ running
def _res(rc, out, err, crc=0, cout=""):
    return {"rc": rc, "stdout": out, "stderr": err, "compile_rc": crc, "compile_out": cout}


def run_ao_c(build, text, q, timeout):
    """one compilation for the saved-.ao route and the C route"""
    r = aldor.compile(build, {"prog.as": text}, ["-Q%d" % q, "-Fao", "-Fx"] + aldor.c_opts(build) + ["prog.as"],
                      timeout=timeout, keep=True)
    try:
        exe = os.path.join(r["dir"], "prog")
        ao = r["outputs"].get("prog.ao")
        if r["rc"] == "TIMEOUT":
            # the compilation itself ran out of time (the -Q9 optimiser on a large program): same class on every
            # route that has to compile, not a refusal to compile
            t = _res("TIMEOUT", "", "", "TIMEOUT", r["stdout"] + r["stderr"])
            return dict(t), dict(t), r["stdout"]
        if r["rc"] != 0 or ao is None or not os.path.exists(exe):
            # fall back to the separate compilations so that each route is judged on its own
            return (aldor.run_source(build, text, route="ao-interp", opts=["-Q%d" % q], timeout=timeout),
                    aldor.run_source(build, text, route="c", opts=["-Q%d" % q], timeout=timeout), r["stdout"])
        rc, out, err = common.run([exe], cwd=r["dir"], timeout=timeout)
        c = _res(rc, out, err, 0, r["stdout"] + r["stderr"])
    finally:
        shutil.rmtree(r["top"], ignore_errors=True)
    r2 = aldor.compile(build, {"prog.ao": ao}, ["-Ginterp", "prog.ao"], timeout=timeout)
    return _res(r2["rc"], r2["stdout"], r2["stderr"], 0, r["stdout"] + r["stderr"]), c, r["stdout"]


def run_c_with(build, text, q, timeout, ccflag):
    """the C route once more, with one more option handed to the C compiler through unicl (-Wopts=...)"""
    co = [(c + " -Wopts=" + ccflag) if c.startswith("-Cargs=") else c for c in aldor.c_opts(build)]
    r = aldor.compile(build, {"prog.as": text}, ["-Q%d" % q, "-Fx"] + co + ["prog.as"], timeout=timeout, keep=True)
    try:
        exe = os.path.join(r["dir"], "prog")
        if r["rc"] != 0 or not os.path.exists(exe):
            return _res(None, "", "", r["rc"], r["stdout"] + r["stderr"])
        rc, out, err = common.run([exe], cwd=r["dir"], timeout=timeout)
        return _res(rc, out, err, 0, r["stdout"] + r["stderr"])
    finally:
        shutil.rmtree(r["top"], ignore_errors=True)


def probe_cause(build, text, q, res, d, timeout):
    """positively identify a cause by an experiment or an unmistakable symptom; returns a cause name or None"""
    crc = res["c"].get("rc")
    if d["which"] == "interp+ao-interp!=c" and d["what"] == "stdout" and set(d["classes"].values()) == {"fail"} and \
            isinstance(crc, int) and crc < 0 and "Program fault (" in res["interp"]["out"] and \
            res["interp"]["out"].startswith(res["c"]["out"]):
        # the program dies of a hardware fault on every route: the compiler process reports it on stdout, the
        # executable is killed and loses its buffered output — the listed difference part `exitclass` models
        return "exit|fault|stdout:compiler-message+stdout:fault"
    if d["which"] == "interp+ao-interp!=c" and klass(res["c"]) == "nocompile" and klass(res["interp"]) != "nocompile" and \
            re.search(r"error: [^\n]*\b(nan|inf)\b[^\n]* undeclared", res["c"].get("compile_out") or ""):
        return "c-nonfinite-float-constant"       # a folded inf/NaN written into the C as the text `inf` / `nan`
    if d["which"] == "interp+ao-interp!=c" and d["what"] == "stdout":
        la, lc = res["interp"]["out"].split("\n"), res["c"]["out"].split("\n")
        if len(la) == len(lc):
            dl = [(x, y) for x, y in zip(la, lc) if x != y]
            zero = re.compile(r"(.*) ([TF]) (-127|-1023) 0")
            if dl and all(zero.fullmatch(x) and zero.fullmatch(y) and zero.fullmatch(x).group(1, 3) == zero.fullmatch(y).group(1, 3)
                          for x, y in dl):
                return "c-negative-zero-constant"     # bit patterns (float-bits programs) differing only in the sign of a zero
    if d["which"] == "interp+ao-interp!=c" and not d["bug"] and not d["only_backtrace"] and klass(res["c"]) != "nocompile":
        try:
            w = run_c_with(build, text, q, timeout, "-fwrapv")
        except Exception:       # noqa
            return None
        if klass(w) == klass(res["interp"]) and w["stdout"] == res["interp"]["out"] and \
                (w["stdout"] != res["c"]["out"] or klass(w) != klass(res["c"])):
            return "c-signed-overflow-ub"
    return None


def run_interp(build, text, q, timeout):
    return aldor.run_source(build, text, route="interp", opts=["-Q%d" % q], timeout=timeout)


def run_unit(build, text, q, timeout):
    """all three routes of one (program, level); returns {route: result} with `out` = program output"""
    with cf.ThreadPoolExecutor(max_workers=2) as ex:
        fa = ex.submit(run_ao_c, build, text, q, timeout)
        fb = ex.submit(run_interp, build, text, q, timeout)
        ao, c, cmsg = fa.result()
        it = fb.result()
    return finish_unit(it, ao, c, cmsg)


def finish_unit(it, ao, c, cmsg):
    res = {"interp": dict(it), "ao-interp": dict(ao), "c": dict(c)}
    for k, r in res.items():
        r["out"] = r["stdout"]
    # compile-time diagnostics precede the program's output when interpreting from source
    o = res["interp"]["stdout"]
    if cmsg and ao.get("rc") is not None and o.startswith(cmsg):
        res["interp"]["out"] = o[len(cmsg):]
        res["interp"]["compile_msgs"] = cmsg
    return res


def klass(r):
    rc = r.get("rc")
    if rc is None: return "nocompile"
    if rc == "TIMEOUT": return "timeout"
    return "ok" if rc == 0 else "fail"


def interp_compile_failed(r):
    """-Ginterp prog.as with compile errors: the compiler never starts the program"""
    return r.get("rc") not in (0, None, "TIMEOUT") and "(Error)" in r["stdout"] and '", line ' in r["stdout"] and \
        "Program fault" not in r["stdout"] and "Compiler bug" not in r["stdout"]


def compiler_crashed_everywhere(res):
    """the compiler itself faulted or hit a `Compiler bug` while COMPILING (before any program output): with
    -Ginterp prog.as that is exit 1 with the message on stdout, with -Fao/-Fx a failed compilation printing the very
    same message — the same outcome on every route (a compiler defect, but not a difference between routes)"""
    it, ao, c = res["interp"], res["ao-interp"], res["c"]
    if klass(ao) != "nocompile" or klass(c) != "nocompile" or klass(it) != "fail":
        return False
    msg = RM.sub("", it["stdout"]).strip()
    if not msg and isinstance(it.get("rc"), int) and it["rc"] < 0:
        # killed by a signal before it wrote anything (a stack overflow leaves the fault handler no room to
        # report): the same on every route when the two compilations die of the same signal, silently too
        return all(r.get("compile_rc") == it["rc"] and not RM.sub("", (r.get("compile_out") or "")).strip() for r in (ao, c))
    if not msg or not ("Program fault" in msg or "Compiler bug" in msg):
        return False
    return all(RM.sub("", (r.get("compile_out") or "")).strip() == msg for r in (ao, c))


def difference(res):
    """None when the three routes agree, else a descriptor (dict) of the difference"""
    it, ao, c = res["interp"], res["ao-interp"], res["c"]
    ks = {k: klass(r) for k, r in res.items()}
    if interp_compile_failed(it) and ks["ao-interp"] == "nocompile" and ks["c"] == "nocompile":
        return None                                   # rejected by the compiler on every route
    if ks["interp"] == ks["ao-interp"] == ks["c"] and ks["c"] in ("nocompile", "timeout"):
        return None
    if compiler_crashed_everywhere(res):
        return None
    if len(set(ks.values())) == 1 and it["out"] == ao["out"] == c["out"]:
        return None
    # which routes stand apart (by class, then by output)
    key = {k: (ks[k], res[k]["out"]) for k in ROUTES}
    if key["interp"] == key["ao-interp"]: which = "interp+ao-interp!=c"
    elif key["interp"] == key["c"]: which = "ao-interp!=interp+c"
    elif key["ao-interp"] == key["c"]: which = "interp!=ao-interp+c"
    else:
        # the two interpreter runs may differ from each other only in what is known to vary
        a, b = (BT.sub("<BT>\n", RM.sub("", res[k]["out"])) for k in ("interp", "ao-interp"))
        which = "interp+ao-interp!=c" if (a == b and ks["interp"] == ks["ao-interp"]) else "all-differ"
    what = []
    if len(set(ks.values())) > 1: what.append("class")
    if not (it["out"] == ao["out"] == c["out"]): what.append("stdout")
    bug = None
    for k in ROUTES:
        m = BUG.search(res[k]["stdout"] + (res[k].get("compile_out") or ""))
        if m:
            bug = norm_bug(m.group(1)); break
    only_bt = False
    if "class" not in what:
        outs = {k: BT.sub("", RM.sub("", res[k]["out"])) for k in ROUTES}
        only_bt = outs["interp"] == outs["ao-interp"] == outs["c"] and any(BT.search(res[k]["out"]) for k in ROUTES)
    return {"which": which, "what": "+".join(what), "classes": ks, "bug": bug, "only_backtrace": only_bt}


def same_difference(d1, d2):
    return d2 is not None and d1["which"] == d2["which"] and d1["what"] == d2["what"] and d1["bug"] == d2["bug"] \
        and d1["only_backtrace"] == d2["only_backtrace"] and d1["classes"] == d2["classes"]


def signature(name, q, d, origin="corpus", cause=None, small=None):
    if d["only_backtrace"]:
        return "routes|exit|halt|stdout:interp-backtrace"
    if d["bug"]:
        return "routes|interp-bug:%s|%s" % (d["bug"], d["which"])
    if cause and cause.startswith("exit|"):
        return "routes|" + cause
    if cause:
        return "routes|%s|%s" % (cause, d["which"])
    if origin == "floatgen":
        return "routes|float-bits|%s|%s|%s" % (d["which"], d["what"], "/".join(d["classes"][k] for k in ROUTES))
    if origin == "generated":
        h = hashlib.sha256((small or "").encode("utf-8", "replace")).hexdigest()[:8]
        return "routes|generated|%s|%s|%s|%s" % (d["which"], d["what"], "/".join(d["classes"][k] for k in ROUTES), h)
    return "routes|%s|Q%d|%s" % (name, q, d["which"])


# ------------------------------------------------------------------------------ shrinking
def shrink(build, text, q, d, timeout, budget, seconds):
    """delete balanced blocks (longest first; a single line is a block too) while the same difference persists;
    bounded by a number of runs and by wall time (a -Q9 compilation of a large program can take a minute)"""
    lines = text.split("\n")
    used = 0
    t_end = time.time() + seconds
    def keep(ls):
        nonlocal used
        if used >= budget or time.time() > t_end: return False
        used += 1
        try:
            res = run_unit(build, "\n".join(ls), q, timeout)
        except Exception:
            return False
        if any(klass(r) == "nocompile" for r in res.values()) and "nocompile" not in d["classes"].values():
            return False
        if interp_compile_failed(res["interp"]) and d["classes"]["interp"] != "fail":
            return False
        return same_difference(d, difference(res))
    def delta(l):
        return l.count("{") - l.count("}")
    def blocks(ls):
        """balanced line ranges (a definition or compound statement with everything inside), longest first"""
        out = []
        for i in range(len(ls)):
            if ls[i].startswith("#include") or ls[i].startswith("#pile"): continue
            dd = 0
            for j in range(i, len(ls)):
                dd += delta(ls[j])
                if dd < 0: break
                if dd == 0:
                    out.append((i, j)); break
        return sorted(out, key=lambda r: -(r[1] - r[0]))
    changed = True
    while changed and used < budget and time.time() < t_end:
        changed = False
        for i, j in blocks(lines):
            if used >= budget or time.time() > t_end: break
            cand = lines[:i] + lines[j + 1:]
            if keep(cand):
                lines = cand; changed = True
                break
    return "\n".join(lines), used


# ------------------------------------------------------------------------------ programs
def levels_directive(text):
    for l in text.split("\n")[:5]:
        m = re.match(r"--\s*levels:\s*([0-9 ,]+)", l)
        if m:
            return tuple(int(x) for x in re.findall(r"\d+", m.group(1)))
    return None


def load_dir(d):
    out = []
    if os.path.isdir(d):
        for f in sorted(os.listdir(d)):
            if f.endswith(".as"):
                out.append((f, open(os.path.join(d, f), errors="replace").read()))
    return out


def generated(ctx, n):
    try:
        from vlib import miniald
        progs = miniald.generate(ctx.rng, n)
        models = miniald.model(progs)
        out = []
        for i, m in enumerate(models):
            src = m.get("braced")
            if not src: continue
            out.append(("gen%03d" % i, src, m))
        return out, None
    except ImportError:
        return [], None
    except Exception as e:                                  # noqa: a half-built generator must not stop the search
        return [], "miniald present but unusable: %r" % (e,)


def commands(build, q):
    b = " ".join(aldor.base_cmd(build))
    copts = " ".join("'%s'" % x if " " in x else x for x in aldor.c_opts(build))
    return {"interp": ["%s -Q%d -Ginterp prog.as" % (b, q)],
            "ao-interp+c": ["%s -Q%d -Fao -Fx %s prog.as" % (b, q, copts), "./prog",
                            "(fresh directory holding only prog.ao) %s -Ginterp prog.ao" % b]}


# ------------------------------------------------------------------------------ float-constant family
# Programs whose whole output is the BIT PATTERN of single and double floats (Machine's dissemble: sign, exponent,
# fraction bytes — never the decimal float printer): literals and constant expressions that the optimiser folds
# from -Q2 on and that the C route then has to write into the generated C as text.  The values need all 9 (resp. 17)
# significant decimal digits, so one digit less in that text, a dropped sign of -0.0, a non-finite value written
# as `inf`, or a C compiler flag that re-associates arithmetic shows up as a 1-ulp difference.
FLOAT_HEAD = """#include "aldor"
#include "aldorio"
import from MachineInteger, SingleFloat, DoubleFloat, String;
-- dissemble leaves the bytes above the fraction unset: keep the 3 (resp. 7) fraction bytes only
bs(tag: String, x: SingleFloat): () == {
	import from Machine;
	(s, e, m) := dissemble(x::SFlo);
	stdout << tag << " " << (s::Boolean) << " " << (e::MachineInteger) << " " << (((m pretend SInt)::MachineInteger) /\\ 16777215) << newline;
}
bd(tag: String, x: DoubleFloat): () == {
	import from Machine;
	(s, e, m1, m2) := dissemble(x::DFlo);
	stdout << tag << " " << (s::Boolean) << " " << (e::MachineInteger) << " " << (((m1 pretend SInt)::MachineInteger) /\\ 72057594037927935) << newline;
}
"""

def _f32(x):
    import struct
    return struct.unpack("f", struct.pack("f", x))[0]

def _lit32(rng, lo, hi):
    """a float32 in [lo, hi) whose shortest faithful decimal has 9 digits, as that decimal"""
    for _ in range(400):
        x = _f32(rng.uniform(lo, hi))
        if lo <= x < hi and _f32(float("%.8g" % x)) != x:
            return "%.9g" % x
    return "%.9g" % _f32(rng.uniform(lo, hi))

def _lit64(rng, lo, hi):
    for _ in range(400):
        x = rng.uniform(lo, hi)
        if float("%.16g" % x) != x:
            return "%.17g" % x
    return "%.17g" % rng.uniform(lo, hi)

def _aldor_lit(t):
    """Aldor float literals need a digit on both sides of the point; negative ones are written with unary minus"""
    neg = t.startswith("-")
    t = t.lstrip("-")
    if "e" in t:
        m, e = t.split("e")
        if "." not in m: m += ".0"
        t = "%se%d" % (m, int(e))
    elif "." not in t:
        t += ".0"
    return ("(- %s)" % t) if neg else t

RANGES = ((0.1, 0.125), (1000.0, 1024.0), (10.0, 16.0), (1.0e6, 1048576.0), (1.0, 2.0), (0.0078125, 0.01), (65536.0, 99999.0))

def float_const_program(rng, n_each=16, doubles=True, singles=True):
    L = [FLOAT_HEAD]
    k = 0
    def emit(kind, expr):
        nonlocal k
        L.append('%s("%s%d", %s);' % ("bs" if kind == "s" else "bd", kind, k, expr)); k += 1
    short = lambda: _aldor_lit("%g" % (rng.randint(1, 99) / rng.choice((10.0, 100.0, 8.0, 3.0 * 10))))
    for kind, lit, on in (("s", _lit32, singles), ("d", _lit64, doubles)):
        if not on: continue
        for i in range(n_each):
            lo, hi = RANGES[(i + rng.randint(0, 6)) % len(RANGES)]
            r = rng.random()
            a = _aldor_lit(lit(rng, lo, hi))
            if r < 0.40: emit(kind, a)
            elif r < 0.50: emit(kind, "(- %s)" % a)
            elif r < 0.62: emit(kind, "%s * %s" % (short(), short()))
            elif r < 0.74: emit(kind, "%s / %s" % (short(), short()))
            elif r < 0.84: emit(kind, "%s + %s" % (a, short()))
            elif r < 0.92: emit(kind, "%s - %s" % (a, _aldor_lit(lit(rng, lo, hi))))
            else: emit(kind, "(%s * %s) / %s" % (short(), a, short()))
        # near powers of two, extremes, subnormals, conversions (signed zeros and non-finite constants have their own
        # pinned reproducers, corpus/routes/float_const_text.as and float_neg_zero.as: a C file that does not compile
        # would hide every digit of this one)
        if kind == "s":
            for e in ("1.00000012", "0.99999994", "2.00000024", "16777217.0", "0.50000006", "3.40282347e38", "1.17549435e-38",
                      "1.0e-40", "1.4e-45", "7.0e-46", "0.0",
                      "single(%s)" % _aldor_lit(_lit64(rng, 0.1, 0.125)), "single(%s)" % _aldor_lit(_lit64(rng, 1000.0, 1024.0)),
                      "single(1.0e-46)", "single(3.4028234e38)"):
                emit("s", e)
        else:
            for e in ("1.0000000000000002", "0.99999999999999989", "4503599627370497.0", "9007199254740993.0",
                      "1.7976931348623157e308", "2.2250738585072014e-308", "1.0e-310", "4.9e-324", "2.0e-324", "0.0",
                      "(%s)::DoubleFloat" % _aldor_lit(_lit32(rng, 0.1, 0.125)), "(%s)::DoubleFloat" % _aldor_lit(_lit32(rng, 1000.0, 1024.0))):
                emit("d", e)
    return "\n".join(L) + "\n"


# ------------------------------------------------------------------------------ the part
def plan(ctx, pinned, corpus, gen, fgen=()):
    """[(name, text, q, origin, model)] in the order the results are examined"""
    thorough = ctx.tier == "thorough"
    units = []
    for name, text in pinned:
        lv = levels_directive(text) or QS
        for q in lv:
            units.append((name, text, q, "pinned", None))
    extra = (1, 3, 5, 9)
    for i, (name, text) in enumerate(corpus):
        if thorough:
            lv = QS
        elif name.startswith("routes_"):
            # the programs written to stress the routes: -Q0, -Q2 and two of the other levels, rotating with program
            # and seed, so that each run covers every level and five seeds cover every (program, level)
            a = extra[(i + ctx.seed) % 4]; b = extra[(i + ctx.seed + 1 + (i // 4) % 3) % 4]
            lv = tuple(sorted({0, 2, a, b}))
        else:
            # the rest of the shared corpus (other builders' programs): one unoptimised and one optimised level per
            # run, rotating; a third of them also at a high level
            lv = {(0, 1)[(i + ctx.seed) % 2], (2, 3)[(i // 2 + ctx.seed) % 2]}
            if (i + ctx.seed) % 3 == 0: lv.add((5, 9)[(i // 3 + ctx.seed) % 2])
            lv = tuple(sorted(lv))
        for q in lv:
            units.append((name, text, q, "corpus", None))
    for i, (name, text, m) in enumerate(gen):
        lv = QS if thorough else tuple(sorted({(0, 1)[(i + ctx.seed) % 2], (2, 3, 5, 9)[(i + ctx.seed) % 4]}))
        for q in lv:
            units.append((name, text, q, "generated", m))
    for i, (name, text) in enumerate(fgen):
        # folded constants only exist from -Q2 on; -Q0 is the unfolded reference
        lv = QS if thorough else tuple(sorted({0, 2, extra[(i + ctx.seed) % 4], extra[(i + ctx.seed + 2) % 4]}))
        for q in lv:
            units.append((name, text, q, "floatgen", None))
    return units


def memory_limited(build, kb):
    """a view of the build whose compiler runs under `ulimit -v`: at the top levels the inliner can make the
    compiler grow to 20-40 GB within the time limit (seen in the thorough tier: the kernel's out-of-memory killer
    then picks arbitrary processes); under the limit the compiler dies of SIGSEGV, silently and identically on
    every route, which `compiler_crashed_everywhere` recognises"""
    import copy, shlex, stat
    w = os.path.join(build.top, "aldor-mem%d.sh" % kb)
    if not os.path.exists(w):
        with open(w, "w") as f:
            f.write("#!/bin/sh\nulimit -S -v %d\nexec %s \"$@\"\n" % (kb, shlex.quote(build.aldor)))
        os.chmod(w, os.stat(w).st_mode | stat.S_IXUSR | stat.S_IXGRP | stat.S_IXOTH)
    lb = copy.copy(build)
    lb.aldor = w
    return lb


def run_part(ctx, build):
    if not getattr(build, "libfoam_dir", None):
        build.build_runtime()
    build = memory_limited(build, 8 * 1024 * 1024)
    thorough = ctx.tier == "thorough"
    timeout = 300 if thorough else 100
    # (the thorough tier's plan - every program at every level on three routes - takes several hours on 16 cores;
    # it starts work for 45 minutes, pinned reproducers first, then level by level, and counts what it left out)
    budget_s = float(os.environ.get("VERIF_ROUTES_BUDGET", "2700" if thorough else "230"))
    pinned = load_dir(os.path.join(VERIF, "corpus", "routes"))
    corpus = load_dir(os.path.join(VERIF, "corpus", "programs"))
    gen, gen_note = generated(ctx, 200 if thorough else 24)
    nf = 8 if thorough else 2
    fgen = [("floatgen%02d" % i, float_const_program(ctx.rng, 12 if i % 2 else 16, doubles=(i % 3 != 1), singles=(i % 3 != 2)))
            for i in range(nf)]
    units = plan(ctx, pinned, corpus, gen, fgen)
    stats = {"pinned": len(pinned), "corpus": len(corpus), "generated": len(gen), "floatgen": len(fgen), "units": len(units), "run": 0,
             "skipped_budget": 0, "agree": 0, "differ": 0, "nocompile_all": 0, "timeout_all": 0, "timeout_retried": 0,
             "levels": {}, "classes": {}, "model_compared": 0, "model_differs": 0, "shrink_runs": 0,
             "compile_msgs_stripped": 0, "causes": {}, "compiler_crash_all": 0}
    if gen_note:
        ctx.notes.append(gen_note)
    t0 = time.time()
    results = [None] * len(units)
    def work(i):
        if budget_s is not None and time.time() - t0 > budget_s and units[i][3] != "pinned":
            return i, "skipped"
        name, text, q, origin, m = units[i]
        try:
            return i, run_unit(build, text, q, timeout)
        except Exception as e:          # noqa
            return i, e
    # pinned reproducers first, then level by level: when the time budget of the quick tier runs out on a loaded
    # machine it is the expensive high levels of the last programs that are left out (counted in skipped_budget)
    order = sorted(range(len(units)), key=lambda i: (units[i][3] != "pinned", units[i][2]))
    with cf.ThreadPoolExecutor(max_workers=max(2, common.NCPU // 2)) as ex:
        for i, r in ex.map(work, order):
            results[i] = r
    # a time limit hit on some routes only is first of all a sign of a loaded machine (the -Fao -Fx compilation also
    # runs the C compiler and the linker): such a unit is run once more, alone, with three times the limit, and
    # only what that second run shows is judged (a route that really hangs still hangs)
    unit_timeout = {}
    for i in order:
        r = results[i]
        if isinstance(r, dict):
            kk = {klass(r[k]) for k in ROUTES}
            if "timeout" in kk and len(kk) > 1:
                stats["timeout_retried"] = stats.get("timeout_retried", 0) + 1
                unit_timeout[i] = timeout * 3
                try:
                    results[i] = run_unit(build, units[i][1], units[i][2], unit_timeout[i])
                except Exception as e:          # noqa
                    results[i] = e
    seen = set()
    reported = set()
    for i, (name, text, q, origin, m) in enumerate(units):
        res = results[i]
        if res == "skipped":
            stats["skipped_budget"] += 1; continue
        if isinstance(res, Exception):
            raise res
        stats["run"] += 1
        stats["levels"]["Q%d" % q] = stats["levels"].get("Q%d" % q, 0) + 1
        ks = "/".join(klass(res[k]) for k in ROUTES)
        stats["classes"][ks] = stats["classes"].get(ks, 0) + 1
        if "compile_msgs" in res["interp"]: stats["compile_msgs_stripped"] += 1
        seen.add((name, res["c"]["out"]))
        d = difference(res)
        if d is None:
            stats["agree"] += 1
            if ks.startswith("nocompile") or interp_compile_failed(res["interp"]): stats["nocompile_all"] += 1
            if compiler_crashed_everywhere(res):
                stats["compiler_crash_all"] += 1
                ctx.notes.append("compiler crashed while compiling %s at -Q%d on every route: %s" % (
                    name if origin != "generated" else "a generated program", q, res["interp"]["stdout"][:80].strip()))
            if ks.startswith("timeout"): stats["timeout_all"] += 1
            if m is not None and m.get("ok") and klass(res["c"]) in ("ok", "fail"):
                stats["model_compared"] += 1
                exp_out = m.get("stdout")
                exp_cls = m.get("exit")
                got_cls = klass(res["c"])
                try:
                    from vlib import miniald
                    okm, why = miniald.agrees(m, {"rc": res["c"]["rc"], "stdout": res["c"]["out"], "stderr": res["c"]["stderr"],
                                                  "compile_rc": 0})
                except Exception:       # noqa: older miniald without agrees(): compare output and coarse class
                    want = "ok" if exp_cls in (None, "", "ok", 0, "0") else "fail"
                    okm, why = (exp_out is None or exp_out == res["c"]["out"]) and want == got_cls, "stdout or exit class"
                if not okm:
                    stats["model_differs"] += 1
                    ctx.corr_broken.append((NAME, "%s -Q%d (generated program; all three routes agree; %s)\n%s" % (name, q, why, text),
                                            "%s %r" % (got_cls, res["c"]["out"][:300]), "%s %r" % (exp_cls, (exp_out or "")[:300])))
            if len(ctx.cov["samples"]) < 14 and q in (2, 9) and origin != "pinned":
                ctx.sample({"module": NAME, "program": name, "level": q, "classes": ks,
                            "stdout_lines": res["c"]["out"].count("\n")}, limit=14)
            continue
        stats["differ"] += 1
        cause = None
        sig = signature(name, q, d, origin)
        if not (d["only_backtrace"] or d["bug"]):
            cause = probe_cause(build, text, q, res, d, unit_timeout.get(i, timeout))
            if cause:
                stats["causes"][cause] = stats["causes"].get(cause, 0) + 1
                sig = signature(name, q, d, origin, cause)
        if sig in reported:
            continue
        small, used = text, 0
        if not ctx._listed(sig) and "timeout" not in d["classes"].values():      # (every run of a hanging route costs the whole limit)
            small, used = shrink(build, text, q, d, unit_timeout.get(i, timeout), 600 if thorough else 150, 1500 if thorough else 150)
            stats["shrink_runs"] += used
            if origin == "generated" and not (cause or d["bug"] or d["only_backtrace"]):
                sig = signature(name, q, d, origin, None, small)
        if sig in reported:
            continue
        reported.add(sig)
        outs = {k: {"rc": res[k]["rc"], "stdout": res[k]["stdout"][:4000], "stderr": res[k]["stderr"][:2000],
                    "class": klass(res[k])} for k in ROUTES}
        la, lc = res["interp"]["out"].split("\n"), res["c"]["out"].split("\n")
        fd = next((n for n in range(max(len(la), len(lc))) if (la[n] if n < len(la) else None) != (lc[n] if n < len(lc) else None)), None)
        fdtxt = "" if fd is None else "; first differing line %d: interp %r, c %r" % (
            fd + 1, la[fd][:80] if fd < len(la) else None, lc[fd][:80] if fd < len(lc) else None)
        what = ("%s at -Q%d: %s differ in %s (classes interp/ao-interp/c = %s)%s; interp stdout %r, c stdout %r"
                % (name, q, d["which"], d["what"], ks, (" — interpreter aborts with `%s`" % d["bug"]) if d["bug"] else "",
                   res["interp"]["out"][:160], res["c"]["out"][:160])) + fdtxt
        if cause == "c-signed-overflow-ub":
            what += " — the executable agrees with the interpreter once its C is compiled with -fwrapv (signed overflow exploited by the C compiler)"
        ctx.finding(sig, what, {"kind": "routes-disagree", "program": name, "origin": origin, "level": q,
                                "difference": d, "cause": cause, "source": small, "original_source": text if small != text else None,
                                "commands": commands(build, q), "outputs": outs, "shrink_runs": used})
    stats["wall_s"] = round(time.time() - t0, 1)
    stats["distinct_results"] = len(seen)
    ctx.cov[NAME] = stats
    ctx.cov["evaluations"] += stats["run"] * 3
    ctx.cov["distinct_nontrivial"] += len(seen)
    return stats
