"""part `scanfuzz` (C07): the compiler is total on arbitrary source text and reports honestly.

Three pieces:
  1. correspondence of Model/Scan.lean (dispatch of scanTokenCases, scanWord, the escape
     rule of scAdvance) with the scratch-built compiler's `-WTrt+sc` token dumps on generated
     one-line sources covering every first byte 0..255 with and without the escape character
     (a crash of the compiler is the answer FAULT);
  2. deterministic probes of the exit status (1 ... 1000 errors under `-M no-emax`) compared with
     Model/Exit.lean;
  3. the fuzz search: random bytes, token-level mutants of ~40 seed sources, structure bombs
     (20 000-character lines, nesting depth 5 000), directive soups.  Every run is classified;
     faults get a signature from the top non-libc frames (gdb), every failing input is
     minimised (delta debugging) before it is reported through ctx.finding."""
import concurrent.futures as cf
import hashlib, os, re, shutil, subprocess, threading, time
from vlib import common
from vlib.common import VERIF

NAME = "scanfuzz"
BUILD_TARGETS = ["AldorVerif.Props.C07"]
SOURCES = ["scan.c", "token.c", "token.h", "include.c", "syscmd.c", "linear.c", "comsg.c", "axlcomp.c", "main.c"]
MODELLED = ("scan.c: scanTokenCases (dispatch) scanWord scAdvance/scAdvance1 scSkipSpace scanString scanComment scanDoc "
            "scanError scanNewLine scanSpecial (scanNumber: dispatch only); token.c: keyInit keyTag keyLongest over the "
            "generated keyword table; main.c/axlcomp.c: exit status = compFilesLoop's error total as the OS truncates it "
            "(not modelled: parser, macro expander, type checker, back end: covered by the search only)")
THEOREMS = [("AldorVerif.Props.C07", "AldorVerif.C07." + t) for t in (
    "keytag_index_safe", "keytag_index_safe_of_lookup", "old_keylookup_out_of_range",
    "unescaped_word_start_ascii", "keylongest_index_safe", "keyinit_stores_in_range", "char_index_sites_covered",
    "ctype_index_in_glibc_range", "exit_honest", "exit_honest_of_clamp", "exit_status_saturates", "exit_honest_files",
    "old_exit_wraps")]

TIMEOUT = 10
FUZZ_BUDGET_S = {"quick": 100, "thorough": 3600}        # wall-clock budget of the random part of the search
MINIMISE_BUDGET_S = {"quick": 45, "thorough": 600}
CORR_BUDGET_S = {"quick": 45, "thorough": 900}
ERR_RE = re.compile(rb"\((?:Error|Fatal Error)\)")
WARN_RE = re.compile(rb"\((?:Warning|Remark|Note[^)]*)\)")

# ======================================================================================
# running the compiler
# ======================================================================================

class Runner:
    def __init__(self, build):
        self.aldor = build.aldor
        self.src = build.src
        R = common.ALDOR_TOP
        base = ["-Nfile=" + os.path.join(self.src, "aldor.conf"), "-Y" + os.path.join(R, "aldor/lib/libfoam/al")]
        self.flags = {
            "aldor": base + ["-I" + os.path.join(R, "lib/aldor/include"), "-Y" + os.path.join(R, "lib/aldor/src"), "-laldor"],
            "foamlib": base + ["-Y" + os.path.join(R, "aldor/lib/libfoamlib/al"),
                               "-I" + os.path.join(R, "aldor/lib/libfoamlib/al"), "-lAxlLib=foamlib"],
        }
        self.root = common.scratch("aldor-verif-fuzz-")
        self.n = 0
        self.lock = threading.Lock()
        self.syms = None

    def argv(self, lib, extra, fname="f.as"):
        return [self.aldor] + self.flags[lib] + list(extra) + ["-Fao", fname]

    def newdir(self):
        with self.lock:
            self.n += 1
            n = self.n
        d = os.path.join(self.root, "r%07d" % n)
        os.makedirs(d)
        return d

    def compile(self, data, lib="aldor", extra=(), files=None, keep=False, limit=TIMEOUT):
        """-> (rc, output bytes, wall).  rc: int exit status, -N killed by signal N, 'TIMEOUT'"""
        d = self.newdir()
        with open(os.path.join(d, "f.as"), "wb") as h:
            h.write(data)
        for name, content in (files or {}).items():
            with open(os.path.join(d, name), "wb") as h:
                h.write(content)
        cmd = ["sh", "-c", LIMITS + "exec timeout -s KILL %d \"$@\"" % limit, "sh"] + self.argv(lib, extra)
        t0 = time.time()
        try:
            p = subprocess.run(cmd, cwd=d, stdin=subprocess.DEVNULL, stdout=subprocess.PIPE, stderr=subprocess.STDOUT,
                               timeout=limit + 10)
            rc, out = p.returncode, p.stdout
        except subprocess.TimeoutExpired as ex:
            rc, out = "TIMEOUT", ex.stdout or b""
        wall = time.time() - t0
        if rc in (124, 137, -9) and wall >= limit - 0.5:
            rc = "TIMEOUT"
        elif isinstance(rc, int) and rc > 128 and rc - 128 in (4, 6, 7, 8, 11):
            rc = -(rc - 128)           # `timeout` reports a child killed by a signal as 128+sig
        if not keep:
            shutil.rmtree(d, ignore_errors=True)
        return rc, out[:200000], wall

    # ---- gdb ---------------------------------------------------------------------------
    def symbols(self):
        if self.syms is None:
            rc, out, err = common.run(["nm", "--defined-only", self.aldor])
            self.syms = {l.split()[-1] for l in out.split("\n") if l.strip()}
        return self.syms

    def frames(self, data, lib, extra, files=None, mode="fault"):
        """stack of the faulting compile (mode fault), of the first fatal message (mode fatal: breakpoints
        on comsgFatal and compStoreError) or of a hanging compile (mode hang: interrupted after 6 s):
        list of function names, innermost first, only functions of the compiler itself"""
        syms = self.symbols()
        for attempt in range(3 if mode in ("fault", "hang") else 1):
            d = self.newdir()
            with open(os.path.join(d, "f.as"), "wb") as h:
                h.write(data)
            for name, content in (files or {}).items():
                with open(os.path.join(d, name), "wb") as h:
                    h.write(content)
            gdb = ["gdb", "-nx", "-batch", "-iex", "set debuginfod enabled off", "-iex", "set style enabled off",
                   "-iex", "set pagination off"]
            if attempt > 0:
                # some faults depend on the address space layout (out-of-range reads of static data)
                gdb += ["-ex", "set disable-randomization off"]
            if mode == "fatal":
                gdb += ["-ex", "break comsgFatal", "-ex", "break compStoreError"]
            if mode == "exit":
                gdb += ["-ex", "set breakpoint pending on", "-ex", "break exit", "-ex", "break _exit"]
            gdb += ["-ex", "run", "-ex", "bt 120", "--args"] + self.argv(lib, extra)
            lim = "ulimit -c 0; ulimit -f 400000; ulimit -v 8000000; "
            if mode == "hang":
                cmd = ["sh", "-c", lim + "exec timeout -s INT %d \"$@\"" % (8 + 6 * attempt), "sh"] + gdb
            else:
                cmd = ["sh", "-c", lim + "exec timeout -s KILL 40 \"$@\"", "sh"] + gdb
            try:
                p = subprocess.run(cmd, cwd=d, stdin=subprocess.DEVNULL, stdout=subprocess.PIPE, stderr=subprocess.STDOUT, timeout=60)
                out = p.stdout.decode("latin-1")
            except subprocess.TimeoutExpired as ex:
                out = (ex.stdout or b"").decode("latin-1")
            shutil.rmtree(d, ignore_errors=True)
            fr = []
            for m in re.finditer(r"^#(\d+)\s+(?:0x[0-9a-f]+ in )?([A-Za-z_][\w.]*) \(", out, re.M):
                if m.group(2) in syms:
                    fr.append(m.group(2))
            sig = re.search(r"Program received signal (\w+)", out)
            if mode == "hang" and any(f.startswith("comp") for f in fr):
                break
            if mode not in ("fault", "hang") or (mode == "fault" and sig and sig.group(1) != "SIGINT" and fr):
                break
        return fr, (sig.group(1) if sig else None)

LIMITS = "ulimit -c 0; ulimit -f 400000; ulimit -v 2000000; "
GENERIC_FRAMES = {"bug", "bugBadCase", "bugUnimpl", "_do_assert", "compSignalHandler", "exitFailure", "exit", "abort",
                  "comsgFatal", "comsgVFatal", "compStoreError", "stoError"}

def frame_signature(fr):
    """top 3 frames; for a runaway recursion the set of functions of the cycle instead"""
    fr = [f for f in fr if f not in GENERIC_FRAMES]
    if not fr:
        return "no-frames"
    body = fr[8:]
    if len(body) >= 60:
        cnt = {}
        for f in body:
            cnt[f] = cnt.get(f, 0) + 1
        cyc = sorted(f for f, c in cnt.items() if c >= 5)
        if cyc and sum(cnt[f] for f in cyc) >= 0.8 * len(body):
            return "recursion:" + "+".join(cyc[:6])
    return "<".join(fr[:3])

def phase_signature(fr):
    """for hangs and storage exhaustion the innermost frames are wherever the run happened to be
    stopped; the stable part is the compiler phase and the function it called"""
    for i, f in enumerate(fr):
        if f.startswith("compPhase") or f in ("compFileFront", "compFileMiddle", "compFileBack", "compSourceFile", "compFilesLoop"):
            return (fr[i - 1] + "<" if i > 0 else "") + f
    return "<".join(fr[-3:]) if fr else "no-frames"

# ======================================================================================
# classification
# ======================================================================================

FAULTY = ("signal", "fault", "bug", "compbug", "assert", "storage-fault")

def classify(rc, out, invalid=False):
    """-> class name or None"""
    if rc == "TIMEOUT":
        return "timeout"
    # the messages are matched where the compiler prints them (start of a line or after the message
    # header), not inside an echoed source line
    if re.search(rb"^Assertion failed, file ", out, re.M):
        return "assert"
    if re.search(rb"(?:^|\.\.\.)Bug: ", out, re.M):
        return "bug"
    if re.search(rb"\(Fatal Error\) Compiler bug", out):
        return "compbug"
    if re.search(rb"(?:^|\(Error\) )Program fault \(", out, re.M):
        return "fault"
    if re.search(rb"\(Fatal Error\) Storage allocation error \(out of memory\)", out):
        return "storage-error"          # with `timeout`: the class `runaway`
    if re.search(rb"\(Fatal Error\) Storage allocation error", out):
        return "storage-fault"          # bad free / use of non-allocated space: the store is corrupted
    if isinstance(rc, int) and rc < 0:
        return "signal"
    nerr = len(ERR_RE.findall(out))
    if rc != 0 and nerr == 0:
        return "exit-nonzero-no-error"
    if rc == 0 and nerr > 0:
        return "exit-zero-with-error"
    if rc == 0 and invalid:
        return "silent-accept"
    return None

def normalise_msg(s):
    s = re.sub(r"0x[0-9a-fA-F]+", "0x?", s)
    s = re.sub(r"\d+", "N", s)
    return s.strip()[:80]

def detail_line(cls, out):
    """a stable discriminator taken from the output, for the classes where a stack is not available"""
    t = out.decode("latin-1")
    if cls == "assert":
        m = re.search(r"Assertion failed, file \"([^\"]+)\" line \d+: (.*)", t)
        return ("%s:%s" % (os.path.basename(m.group(1)), normalise_msg(m.group(2)))) if m else "?"
    if cls == "bug":
        m = re.search(r"Bug: (.*)", t)
        return normalise_msg(m.group(1)) if m else "?"
    if cls == "compbug":
        m = re.search(r"Compiler bug[:.]* *(.*)", t)
        return normalise_msg(m.group(1)) if m else "?"
    if cls == "exit-nonzero-no-error":
        ls = [l for l in t.split("\n") if l.strip()]
        return normalise_msg(ls[-1]) if ls else "no-output"
    return ""

# ======================================================================================
# input generators
# ======================================================================================

class Case:
    __slots__ = ("data", "lib", "extra", "kind", "invalid", "files", "regen", "rc", "out", "cls", "wall")
    def __init__(self, data, lib="aldor", extra=(), kind="", invalid=None, files=None, regen=None):
        self.data, self.lib, self.extra, self.kind = data, lib, tuple(extra), kind
        self.invalid = invalid          # None, or the reason it is invalid by construction
        self.files = files
        self.regen = regen              # (shape name, depth) for structure bombs
        self.rc = self.out = self.cls = None
        self.wall = 0.0

TOK_RE = re.compile(rb'''
   (?P<nl>\n)
 | (?P<ws>[ \t]+)
 | (?P<dir>(?<![^\n])\#[^\n]*)
 | (?P<com>--[^\n]*|\+\+[^\n]*)
 | (?P<str>"(?:_.|[^"_\n])*"?)
 | (?P<word>(?:[A-Za-z%?]|_.)(?:[A-Za-z0-9%!?]|_.)*)
 | (?P<num>[0-9][0-9A-Za-z]*(?:\.[0-9]+)?)
 | (?P<op>:=|::|==>|==|=>|->\*|->|<-|\+->\*|\+->|\+-|\.\.|<=|>=|<<|>>|~=|\^=|\*\*|/\\|\\/|\[\||\|\]|\(\||\|\)|\{\||\|\}|\|\||.)
''', re.X | re.S)

def tokenize(data):
    return [(m.lastgroup, m.group(0)) for m in TOK_RE.finditer(data)]

POOL = [b"if", b"then", b"else", b"for", b"in", b"repeat", b"while", b"where", b"with", b"add", b"==", b"==>", b":=", b":",
        b"::", b"=>", b"->", b"+->", b"(", b")", b"{", b"}", b"[", b"]", b"(|", b"|)", b"[|", b"|]", b"{|", b"|}", b",", b";", b".", b"..", b"$", b"@",
        b"#", b"'", b"`", b"&", b"|", b"||", b"~", b"^", b"+", b"-", b"*", b"/", b"\\", b"/\\", b"\\/", b"<", b">", b"<<", b">>", b"%", b"?",
        b"?x", b"x", b"y", b"Foo", b"0", b"1", b"42", b"16rFF", b"1.5", b"1e", b"2.", b".5", b"37r1", b"1r", b"\"s\"", b"\"", b"--", b"++", b"+++",
        b"_", b"__", b"_ ", b"_\n", b"_(", b"default", b"define", b"macro", b"import", b"from", b"inline", b"export", b"extend", b"local",
        b"free", b"fluid", b"return", b"yield", b"generate", b"try", b"catch", b"finally", b"throw", b"but", b"always", b"never", b"break",
        b"iterate", b"goto", b"select", b"case", b"of", b"or", b"and", b"not", b"has", b"pretend", b"rem", b"quo", b"mod", b"exquo", b"by",
        b"to", b"is", b"isnt", b"do", b"delay", b"fix", b"let", b"ref", b"rule", b"assert", b"except", b"Category", b"Type", b"Record",
        b"Join", b"Tuple", b"\n", b"\n    ", b"\n\t", b" ", b"  "]
BADBYTES = [0x01, 0x02, 0x07, 0x08, 0x0b, 0x0c, 0x0e, 0x1b, 0x1f, 0x7f, 0x80, 0x85, 0x9c, 0xa0, 0xc3, 0xe9, 0xfe, 0xff]
OPEN, CLOSE = [b"(", b"{", b"[", b"(|", b"[|", b"{|"], [b")", b"}", b"]", b"|)", b"|]", b"|}"]

def safe_boundaries(toks):
    """token indices i such that inserting text before toks[i] lands outside strings, comments,
    directive lines and escape sequences (needed for the `invalid by construction` claims)"""
    ok = []
    line_has_comment = False
    for i, (k, t) in enumerate(toks):
        if k == "nl":
            line_has_comment = False
            continue
        if k in ("com", "dir"):
            line_has_comment = True
            continue
        if line_has_comment:
            continue
        if i > 0 and (toks[i - 1][1].endswith(b"_") or toks[i - 1][0] in ("dir",)):
            continue
        if i > 0 and toks[i - 1][0] == "str" and not (len(toks[i - 1][1]) >= 2 and toks[i - 1][1].endswith(b'"')):
            continue
        if i > 0 and toks[i - 1][0] in ("word", "num", "op") and k in ("word", "num", "op"):
            # would glue into neighbouring tokens; still outside strings, fine
            pass
        ok.append(i)
    return ok

def join(toks):
    return b"".join(t for _, t in toks)

def mutate(rng, seed_toks, has_if, piled):
    """apply 1..4 stacked token-level mutations -> (bytes, kind, invalid reason or None)"""
    toks = list(seed_toks)
    kinds = []
    invalid = None
    nm = rng.choice((1, 1, 1, 2, 2, 3, 4))
    for _ in range(nm):
        if not toks:
            break
        op = rng.choice(("delete", "delete-run", "dup", "swap", "insert", "insert", "unbalance", "unbalance", "pile", "openstring",
                         "highbyte", "highbyte", "nul", "escape", "truncate", "ctrl", "replace", "dupline", "delline", "join-lines"))
        n = len(toks)
        i = rng.randrange(n)
        if op == "delete":
            del toks[i]
        elif op == "delete-run":
            del toks[i:i + rng.randint(2, 12)]
        elif op == "dup":
            k = rng.randint(1, 5)
            toks[i:i] = toks[i:i + k]
        elif op == "swap":
            j = rng.randrange(n)
            toks[i], toks[j] = toks[j], toks[i]
        elif op == "insert":
            toks.insert(i, ("ins", rng.choice(POOL)))
        elif op == "replace":
            toks[i] = ("ins", rng.choice(POOL))
        elif op == "unbalance":
            sb = safe_boundaries(toks)
            how = rng.random()
            if how < 0.5 and sb:
                j = rng.choice(sb)
                which = rng.choice(OPEN[:3] + CLOSE[:3])
                toks.insert(j, ("ins", which))
                if not has_if and not invalid and len(kinds) == 0:
                    invalid = "unmatched `%s` inserted outside strings and comments" % which.decode()
            else:
                br = [j for j, (k, t) in enumerate(toks) if k == "op" and t in OPEN + CLOSE]
                if br:
                    del toks[rng.choice(br)]
        elif op == "pile":
            how = rng.random()
            if how < 0.3 and not piled:
                toks.insert(0, ("dir", b"#pile\n"))
            else:
                nls = [j for j, (k, t) in enumerate(toks) if k == "nl"]
                for j in rng.sample(nls, min(len(nls), rng.randint(1, 4))):
                    ind = rng.choice((b" ", b"  ", b"\t", b"        ", b" \t ", b"", b"\t\t\t\t\t\t\t\t\t\t"))
                    if j + 1 < len(toks) and toks[j + 1][0] == "ws":
                        toks[j + 1] = ("ws", ind)
                    else:
                        toks.insert(j + 1, ("ws", ind))
        elif op == "openstring":
            strs = [j for j, (k, t) in enumerate(toks) if k == "str" and len(t) >= 2 and t.endswith(b'"')]
            if strs and rng.random() < 0.7:
                j = rng.choice(strs)
                toks[j] = ("str", toks[j][1][:-1])
            else:
                sb = safe_boundaries(toks)
                if sb:
                    j = rng.choice(sb)
                    # an opening quote at the end of a line: nothing can close it
                    e = j
                    while e < len(toks) and toks[e][0] != "nl":
                        e += 1
                    if all(b'"' not in t for _, t in toks[j:e]):
                        toks.insert(e, ("ins", b' "abc'))
                        if not has_if and not invalid and len(kinds) == 0:
                            invalid = "string opened at the end of a line and never closed"
        elif op == "highbyte":
            b = bytes([rng.choice(BADBYTES[10:])]) * rng.choice((1, 1, 2, 3))
            how = rng.random()
            if how < 0.4:
                sb = safe_boundaries(toks)
                if sb:
                    toks.insert(rng.choice(sb), ("ins", b))
                    if not has_if and not invalid and len(kinds) == 0:
                        invalid = "byte 0x%02x inserted outside strings, comments and escapes" % b[0]
            elif how < 0.7:
                toks.insert(i, ("ins", b"_" + b))
            else:
                k, t = toks[i]
                p = rng.randrange(len(t) + 1)
                toks[i] = (k, t[:p] + b + t[p:])
        elif op == "ctrl":
            b = bytes([rng.choice(BADBYTES[:10])])
            sb = safe_boundaries(toks)
            if sb and rng.random() < 0.6:
                toks.insert(rng.choice(sb), ("ins", b))
                if not has_if and not invalid and len(kinds) == 0 and b[0] not in (0x0b, 0x0c):
                    invalid = "control byte 0x%02x inserted outside strings, comments and escapes" % b[0]
            else:
                k, t = toks[i]
                p = rng.randrange(len(t) + 1)
                toks[i] = (k, t[:p] + b + t[p:])
        elif op == "nul":
            sb = safe_boundaries(toks)
            if sb and rng.random() < 0.6:
                toks.insert(rng.choice(sb), ("ins", b"\0"))
                if not has_if and not invalid and len(kinds) == 0:
                    invalid = "NUL byte inserted outside strings and comments"
            else:
                k, t = toks[i]
                p = rng.randrange(len(t) + 1)
                toks[i] = (k, t[:p] + b"\0" + t[p:])
        elif op == "escape":
            toks.insert(i, ("ins", rng.choice((b"_", b"__", b"_\n", b"_ ", b"_\t_", b"_\"", b"_\0"))))
        elif op == "truncate":
            data = join(toks)
            cut = rng.randrange(len(data) + 1)
            toks = tokenize(data[:cut])
        elif op == "dupline":
            lines = join(toks).split(b"\n")
            j = rng.randrange(len(lines))
            lines[j:j] = [lines[j]] * rng.choice((1, 2, 50))
            toks = tokenize(b"\n".join(lines))
        elif op == "delline":
            lines = join(toks).split(b"\n")
            del lines[rng.randrange(len(lines))]
            toks = tokenize(b"\n".join(lines))
        elif op == "join-lines":
            nls = [j for j, (k, t) in enumerate(toks) if k == "nl"]
            if nls:
                del toks[rng.choice(nls)]
        kinds.append(op)
    if len(kinds) != 1:
        invalid = None      # the claim is made for single mutations of a seed only
    return join(toks), "+".join(kinds), invalid

# ---- structure bombs: (name, function depth -> bytes, invalid?) ----------------------------
def _bomb_shapes():
    S = []
    def add(name, f, invalid=None):
        S.append((name, f, invalid))
    hdr = b""
    add("paren", lambda n: b"x := " + b"(" * n + b"1" + b")" * n + b";\n")
    add("paren-open", lambda n: b"x := " + b"(" * n + b"1;\n", "unclosed `(`")
    add("paren-close", lambda n: b"x := 1" + b")" * n + b";\n", "unmatched `)`")
    add("brace", lambda n: b"f(): () == " + b"{" * n + b" " + b"}" * n + b"\n")
    add("brace-open", lambda n: b"f(): () == " + b"{" * n + b"\n", "unclosed `{`")
    add("brace-close", lambda n: b"}" * n + b"\n", "unmatched `}`")
    add("brack", lambda n: b"x := " + b"[" * n + b"1" + b"]" * n + b";\n")
    add("brack-open", lambda n: b"x := " + b"[" * n + b"\n", "unclosed `[`")
    add("mixed", lambda n: b"x := " + b"([{" * (n // 3) + b"1" + b"}])" * (n // 3) + b";\n")
    add("bparen", lambda n: b"x := " + b"(|" * n + b"1" + b"|)" * n + b";\n")
    add("call", lambda n: b"x := " + b"f(" * n + b"1" + b")" * n + b";\n")
    add("apply", lambda n: b"x := " + b"f " * n + b"1;\n")
    add("dot", lambda n: b"x := a" + b".b" * n + b";\n")
    add("plus", lambda n: b"x := 1" + b"+1" * n + b";\n")
    add("minus-prefix", lambda n: b"x := " + b"-" * 1 + b" -" * n + b"1;\n")
    add("not", lambda n: b"x := " + b"not " * n + b"true;\n")
    add("ifthen", lambda n: b"x := " + b"if a then " * n + b"1;\n")
    add("ifelse", lambda n: b"x := " + b"if a then 1 else " * n + b"1;\n")
    add("where", lambda n: b"x := 1" + b" where a := 1" * n + b";\n")
    add("arrow", lambda n: b"f: " + b"A -> " * n + b"A;\n")
    add("lambda", lambda n: b"f := " + b"(x: A): A +-> " * n + b"x;\n")
    add("assign", lambda n: b"a := " * n + b"1;\n")
    add("define", lambda n: b"a == " * n + b"1;\n")
    add("colon", lambda n: b"x" + b": A" * n + b";\n")
    add("dollar", lambda n: b"x := a" + b"$A" * n + b";\n")
    add("comma", lambda n: b"x := (1" + b",1" * n + b");\n")
    add("semis", lambda n: b"f(): () == { " + b"1;" * n + b" }\n")
    add("exit", lambda n: b"f(): A == { " + b"a => " * n + b"1 }\n")
    add("hat", lambda n: b"x := 2" + b"^2" * n + b";\n")
    add("quote", lambda n: b"x := " + b"'" * n + b"a;\n")
    add("with", lambda n: b"D: " + b"with { " * n + b"}" * n + b" == add;\n")
    add("add", lambda n: b"D: with == " + b"add { " * n + b"}" * n + b";\n")
    add("repeat", lambda n: b"for i in l repeat " * n + b"1;\n")
    add("pile-stairs", lambda n: b"#pile\nf(): () ==\n" + b"".join(b" " * (i + 1) + b"if a then\n" for i in range(n)) + b" " * (n + 1) + b"1\n")
    add("pile-zigzag", lambda n: b"#pile\nf(): () ==\n" + b"".join(b" " * (1 + (i % 2) * 3) + b"a := 1\n" for i in range(n)))
    add("pile-unindent", lambda n: b"#pile\n" + b"".join(b" " * (60 - i % 60) + b"a\n" for i in range(n)))
    add("pile-deep-indent", lambda n: b"#pile\nf(): () ==\n" + b"".join(b" " * (i + 1) + b"a :=\n" for i in range(min(n, 1500))) + b" " * 1600 + b"1\n")
    add("lines", lambda n: b"a := 1;\n" * n)
    add("errors", lambda n: b"".join(b"x%d := \x01;\n" % i for i in range(n)), "bad characters")
    add("macro-nest", lambda n: b"".join(b"macro m%d == m%d;\n" % (i + 1, i) for i in range(n)) + b"macro m0 == 1;\nx := m%d;\n" % n)
    add("macro-self", lambda n: b"macro m == (m, m);\nx := m;\n" + b"-- pad\n" * (n % 3))
    add("include-self", lambda n: b"#include \"f.as\"\n" + b"-- pad\n" * (n % 3))
    add("if-nest", lambda n: b"#assert A\n" + b"#if A\n" * n + b"x := 1;\n" + b"#endif\n" * n)
    add("if-open", lambda n: b"#assert A\n" + b"#if A\n" * n + b"x := 1;\n", "#if without #endif")
    add("endif-only", lambda n: b"#endif\n" * n, "#endif without #if")
    add("escape-chain", lambda n: b"x := a" + b"_\n" * n + b"b;\n")
    add("escape-word", lambda n: b"x := " + b"_+" * n + b";\n")
    # long lines
    add("long-ident", lambda n: b"x := " + b"a" * n + b";\n")
    add("long-string", lambda n: b"x := \"" + b"a" * n + b"\";\n")
    add("long-open-string", lambda n: b"x := \"" + b"a" * n + b"\n", "unterminated string")
    add("long-comment", lambda n: b"x := 1; --" + b"c" * n + b"\n")
    add("long-doc", lambda n: b"+++" + b"d" * n + b"\nx: A == 1;\n")
    add("long-int", lambda n: b"x := " + b"9" * n + b";\n")
    add("long-float", lambda n: b"x := 1." + b"9" * n + b"e" + b"9" * 30 + b";\n")
    add("long-radix", lambda n: b"x := 36r" + b"Z" * n + b";\n")
    add("long-spaces", lambda n: b"x :=" + b" " * n + b"1;\n")
    add("long-tabs", lambda n: b"x :=" + b"\t" * n + b"1;\n")
    add("long-indent", lambda n: b"#pile\nf(): () ==\n" + b" " * n + b"a\n" + b" " * (n - 1) + b"b\n")
    add("long-ops", lambda n: b"x := " + b"+" * n + b";\n", "operators only")
    add("long-tokens", lambda n: b"x := f(" + b"a, " * (n // 3) + b"a);\n")
    add("long-highbytes", lambda n: b"x := " + b"\xe9" * n + b";\n", "bytes >= 0x80")
    add("long-escapes", lambda n: b"x := " + b"_" * n + b";\n")
    add("long-directive", lambda n: b"#include \"" + b"a" * n + b"\"\n", "include of a file that does not exist")
    add("long-assert", lambda n: b"#assert " + b"A" * n + b"\nx := 1;\n")
    add("long-error-line", lambda n: b"x := " + b"a " * (n // 2) + b"\x01;\n", "bad character")
    add("no-final-newline", lambda n: b"x := " + b"a" * n)
    return S

BOMBS = _bomb_shapes()
BOMB_BY_NAME = {n: (f, inv) for n, f, inv in BOMBS}
BOMB_DEPTHS = {"default": (5000, 20000), "errors": (1, 9, 255, 256, 257, 300, 512, 1000), "lines": (5000, 50000),
               "pile-stairs": (300, 1500), "pile-zigzag": (5000,), "pile-unindent": (300, 5000), "pile-deep-indent": (300, 1500),
               "macro-self": (1,), "include-self": (1,), "macro-nest": (300, 5000),
               "if-nest": (5000,), "if-open": (5000,), "endif-only": (5000,)}

DIRECTIVES = [b"include", b"reinclude", b"includeDir", b"assert", b"unassert", b"if", b"elseif", b"else", b"endif", b"line",
              b"pile", b"endpile", b"library", b"libraryDir", b"error", b"int", b"syntax", b"macro", b"quit", b"", b"bogus", b"IF", b"iff"]
DIR_ARGS = [b"", b" A", b" B", b" A B", b" \"f.as\"", b" \"g.as\"", b" \"nonexistent\"", b" \"\"", b" \"", b" aldor", b" \"aldor\"", b" 12", b" 12 \"f.as\"",
            b" -1", b" 99999999999999999999", b" X \"libaldor.al\"", b" X \"f.as\"", b" X", b" \".\"", b" \"/\"", b" \"/dev/null\"", b" \"/dev/zero\"" if False else b" \"/dev/null\"",
            b" A=B", b" (", b" \xe9", b" \0", b" _", b" --c", b"\t\tA", b" " * 300 + b"A", b" " + b"A" * 3000]
CODE_LINES = [b"x := 1;", b"import from MachineInteger;", b"f(a: A): A == a;", b"{", b"}", b"(", b")", b"    y := 2", b"\tz := 3", b"", b"-- c", b"+++ d",
              b"\"open", b"x := _", b"macro m == 1;", b"if a then", b"else b"]

def directive_soup(rng):
    n = rng.choice((1, 2, 3, 5, 8, 15, 40))
    lines = []
    if rng.random() < 0.5:
        lines.append(b"#include \"aldor\"")
    claim = None
    for _ in range(n):
        r = rng.random()
        if r < 0.7:
            ind = rng.choice((b"", b"", b"", b" ", b"\t", b"    "))
            lines.append(ind + b"#" + rng.choice((b"", b"", b" ", b"  ")) + rng.choice(DIRECTIVES) + rng.choice(DIR_ARGS))
        else:
            lines.append(rng.choice(CODE_LINES))
    data = b"\n".join(lines) + (b"\n" if rng.random() < 0.9 else b"")
    files = {"g.as": rng.choice((b"y := 2;\n", b"#include \"f.as\"\n", b"#include \"g.as\"\n", b"#endif\n", b"#if A\n", b"#pile\n a\n  b\n", b"\xe9\0", b""))}
    return data, files

def token_soup(rng):
    n = rng.choice((3, 8, 20, 60, 200, 400))
    sep = rng.choice((b" ", b" ", b"", b"\n"))
    hdr = b"#pile\n" if rng.random() < 0.25 else b""
    return hdr + sep.join(rng.choice(POOL) for _ in range(n)) + b"\n"

def random_bytes(rng, n, mode):
    if mode == "uniform":
        return bytes(rng.getrandbits(8) for _ in range(n))
    if mode == "no-nul":
        return bytes(rng.randrange(1, 256) for _ in range(n))
    if mode == "ascii":
        return bytes(rng.choice(b"\t\n !\"#$%&'()*+,-./0123456789:;<=>?@ABCXYZ[\\]^_`abcxyz{|}~ ") for _ in range(n))
    if mode == "lines":     # mostly printable with newlines, some high bytes
        out = bytearray()
        for _ in range(n):
            r = rng.random()
            out.append(10 if r < 0.05 else rng.randrange(128, 256) if r < 0.10 else rng.randrange(1, 32) if r < 0.12 else rng.randrange(32, 127))
        return bytes(out)
    raise ValueError(mode)

def load_seeds():
    seeds = []
    tdir = os.path.join(common.COMP, "test")
    for f in sorted(os.listdir(tdir)) if os.path.isdir(tdir) else []:
        if f.endswith(".as"):
            seeds.append(("test/" + f, open(os.path.join(tdir, f), "rb").read(), "foamlib"))
    cdir = os.path.join(VERIF, "corpus", "scanfuzz")
    for f in sorted(os.listdir(cdir)) if os.path.isdir(cdir) else []:
        if f.endswith(".as"):
            seeds.append(("corpus/" + f, open(os.path.join(cdir, f), "rb").read(), "aldor"))
    return seeds

def generate_cases(rng, thorough):
    """half of the random inputs of the quick tier come from a fixed generator seed, so that every run
    meets the same recorded findings (known_findings.json); the other half (and 95 % of the thorough
    tier) is drawn from the run's seed"""
    import random as _random
    cases = []
    seeds = load_seeds()
    fixed = _random.Random(20260930)
    fixed_cases, rng_cases = [], []
    _random_cases(fixed, 1, seeds, fixed_cases)
    _random_cases(rng, 1 if not thorough else 19, seeds, rng_cases)
    for name, data, lib in seeds:
        cases.append(Case(data, lib, (), "seed:" + name))
    # C'. reproducers of recorded findings: corpus/scanfuzz/repro/NAME.as, NAME.cmd (lib and extra flags),
    #     NAME.d/ (further files of the compile directory)
    rdir = os.path.join(VERIF, "corpus", "scanfuzz", "repro")
    for f in sorted(os.listdir(rdir)) if os.path.isdir(rdir) else []:
        if f.endswith(".as"):
            stem = os.path.join(rdir, f[:-3])
            meta = open(stem + ".cmd").read().split() if os.path.exists(stem + ".cmd") else ["aldor"]
            files = None
            if os.path.isdir(stem + ".d"):
                files = {g: open(os.path.join(stem + ".d", g), "rb").read() for g in sorted(os.listdir(stem + ".d"))}
            inv = open(stem + ".invalid").read().strip() if os.path.exists(stem + ".invalid") else None
            cases.append(Case(open(stem + ".as", "rb").read(), meta[0], tuple(meta[1:]), "repro:" + f, inv, files=files))
    # D. structure bombs
    for name, f, inv in BOMBS:
        for depth in BOMB_DEPTHS.get(name, BOMB_DEPTHS["default"]):
            ex = ("-M", "no-emax") if name == "errors" else ()
            cases.append(Case(f(depth), "aldor", ex, "bomb:%s:%d" % (name, depth), inv, regen=(name, depth)))
    # order of execution: recorded reproducers, seeds and bombs first; then the two random streams interleaved
    # (so that a time budget cuts both alike)
    k = max(1, len(rng_cases) // max(1, len(fixed_cases)))
    it_f, it_r = iter(fixed_cases), iter(rng_cases)
    mixed = []
    while True:
        chunk = [c for _, c in zip(range(200), it_f)] + [c for _, c in zip(range(200 * k), it_r)]
        if not chunk:
            break
        mixed += chunk
    return cases, mixed, len(seeds)

def _random_cases(rng, mult, seeds, cases):
    emax = lambda: (("-M", "no-emax") if rng.random() < 0.4 else ())
    # A. random bytes
    for n in (1, 2, 3, 5, 8, 16, 32, 64, 128, 256, 512, 1000, 3000, 10000):
        for mode, k in (("uniform", 6), ("no-nul", 6), ("ascii", 5), ("lines", 5)):
            for _ in range(k * mult):
                cases.append(Case(random_bytes(rng, n, mode), "aldor", emax(), "random-%s-%d" % (mode, n)))
    # B. token soups
    for _ in range(350 * mult):
        cases.append(Case(token_soup(rng), "aldor", emax(), "token-soup"))
    # C. mutants of the seeds
    for name, data, lib in seeds:
        toks = tokenize(data)
        has_if = b"#if" in data
        piled = b"#pile" in data
        for _ in range(45 * mult):
            d, kind, inv = mutate(rng, toks, has_if, piled)
            cases.append(Case(d, lib, emax(), "mutant:%s:%s" % (name, kind), inv))
    # E. directive soups
    for _ in range(350 * mult):
        d, files = directive_soup(rng)
        cases.append(Case(d, "aldor", emax(), "directive-soup", files=files))

# ======================================================================================
# minimisation
# ======================================================================================

def ddmin(units, test, budget):
    """classic delta debugging over a list of byte chunks; `test(list)` -> True when the failure
    is still there; budget = [remaining number of tests]"""
    n = 2
    while len(units) >= 2 and budget[0] > 0:
        chunk = max(1, len(units) // n)
        subsets = [units[i:i + chunk] for i in range(0, len(units), chunk)]
        reduced = False
        # try complements first for large inputs (removes a chunk), then subsets
        for i in range(len(subsets)):
            if budget[0] <= 0:
                break
            comp = [u for j, s in enumerate(subsets) if j != i for u in s]
            budget[0] -= 1
            if comp and test(comp):
                units = comp
                n = max(n - 1, 2)
                reduced = True
                break
        if not reduced:
            for s in subsets:
                if budget[0] <= 0:
                    break
                if len(s) < len(units):
                    budget[0] -= 1
                    if test(s):
                        units = s
                        n = 2
                        reduced = True
                        break
        if not reduced:
            if n >= len(units):
                break
            n = min(len(units), n * 2)
    return units

def minimise(case, still_fails, budget_tests):
    """lines, then tokens, then bytes"""
    budget = [budget_tests]
    data = case.data
    if case.regen and case.regen[0] in BOMB_BY_NAME:
        f = BOMB_BY_NAME[case.regen[0]][0]
        lo, hi = 1, case.regen[1]       # fails at hi
        while lo < hi and budget[0] > 0:
            mid = (lo + hi) // 2
            budget[0] -= 1
            if still_fails(f(mid)):
                hi = mid
            else:
                lo = mid + 1
        return f(hi), "%s depth %d (smallest failing depth found by bisection)" % (case.regen[0], hi)
    lines = data.split(b"\n")
    lines = [l + b"\n" for l in lines[:-1]] + ([lines[-1]] if lines[-1] else [])
    if len(lines) > 1:
        lines = ddmin(lines, lambda u: still_fails(b"".join(u)), budget)
    data = b"".join(lines)
    if budget[0] > 0 and len(data) > 1:
        toks = [t for _, t in tokenize(data)]
        if 1 < len(toks) < len(data):
            toks = ddmin(toks, lambda u: still_fails(b"".join(u)), budget)
            data = b"".join(toks)
    if budget[0] > 0 and 1 < len(data) <= 400:
        bs = [bytes([b]) for b in data]
        bs = ddmin(bs, lambda u: still_fails(b"".join(u)), budget)
        data = b"".join(bs)
    return data, "delta debugging on lines, tokens, bytes (%d tests)" % (budget_tests - budget[0])

# ======================================================================================
# correspondence of the scan model
# ======================================================================================

def scan_lines(rng, thorough, kws=()):
    """small source texts: every first byte with and without the escape character in several
    contexts, plus random short texts over a scanner-relevant alphabet"""
    reqs = []
    followers = [b"", b"a", b"1", b"-", b"+", b".", b".5", b" ", b"_", b"_a", b"\"", b"=", b"!x", b"\n", b"\nq"]
    for b in range(256):
        c = bytes([b])
        for f in (followers if thorough else [b""] + rng.sample(followers[1:], 5)):
            reqs.append(b"z " + c + f + b"\n")        # token after a blank
            reqs.append(b"z _" + c + f + b"\n")       # escaped
        reqs.append(c + b"q\n")                       # first character of the text
        reqs.append(b"_" + c + b"q\n")
        reqs.append(b"  " + c + b"q\n")               # first character after the indentation
        reqs.append(b"  _" + c + b"q\n")
        reqs.append(b"\n" + c + b"q\n")               # first character of the second line
        reqs.append(b"\n  _" + c + b"q\n")
        reqs.append(b"ab" + c + b"cd\n")               # inside a word
        reqs.append(b"ab_" + c + b"cd\n")
        reqs.append(b"\"s" + c + b"t\" z\n")          # inside a string
        reqs.append(b"\"s_" + c + b"t\" z\n")
        reqs.append(b"z --" + c + b"k\n")              # inside a comment
        reqs.append(b"z ++_" + c + b"k\n")
        reqs.append(b"+++" + c + b"k\n")                # pre-doc
        reqs.append(b"( " + c + c + b" )\n")
        reqs.append(b"z " + c)                         # last line without newline
        reqs.append(b"z _" + c)
    kws = [k for k in kws if k and b"\n" not in k and not k.startswith(b"#")]
    for k in kws:                                      # every row of tokInfoTable
        reqs += [b"z " + k + b" q\n", b"z _" + k + b" q\n", k + b"\n", b"z" + k + b"q\n", b"z " + k + k + b"\n", b"z " + k + b"x\n",
                 b"z " + k[:-1] + b" " + k[-1:] + b"\n", b"z " + k + b".5\n", b"z " + k + b"_\n.5\n"]
    # comment / escape interplay: the escape character is not interpreted inside a comment, the next line is scanned
    for tail in (b"--_", b"--_ ", b"--_ \t", b"-- c_", b"-- c _ ", b"-- c__", b"++_", b"++_  ", b"++ d_", b"++ d _ "):
        reqs += [b"z " + tail + b"\nq w\n", tail + b"\nq\n", b"z _\n " + tail + b"\n_q\n"]
    for tail in (b"+++_", b"+++_  ", b"+++ d_", b"+++ d _ "):
        reqs += [tail + b"\nq w\n", b"z\n" + tail + b"\n_q\n"]
    ncore_raw = len(reqs)                              # what follows is random and runs under a time budget
    for _ in range(600 if not thorough else 6000):
        reqs.append(b" ".join(rng.choice(kws) if rng.random() < 0.8 else rng.choice((b"_", b"x", b"\"s\"", b".5", b"\n", b"_\n")) for _ in range(rng.randint(1, 6))) + b"\n")
    alphabet = b"ab?%!_ \t\"-+.=:()1z\n|" + bytes([0xe9, 0x80, 0x01, 0x7f])
    for _ in range(3000 if not thorough else 40000):
        n = rng.choice((1, 2, 3, 4, 6, 9, 14))
        reqs.append(bytes(rng.choice(alphabet) for _ in range(n)) + (b"\n" if rng.random() < 0.8 else b""))
    out, seen, ncore = [], set(), 0
    for i, r in enumerate(reqs):
        if i == ncore_raw:
            ncore = len(out)
        r = r.replace(b"\0", b" ")                    # the includer cuts lines at NUL: outside the model
        # a line whose first non-blank character is # is a system command: outside the model
        r = b"\n".join((b"z" + l) if l.lstrip(b" \t").startswith(b"#") else l for l in r.split(b"\n"))
        if r and r not in seen:
            seen.add(r); out.append(r)
    return out, (ncore or len(out))

def load_chartables():
    import importlib.util
    spec = importlib.util.spec_from_file_location("chartables", os.path.join(VERIF, "translate", "chartables.py"))
    m = importlib.util.module_from_spec(spec)
    spec.loader.exec_module(m)
    return m

def prepare_src(src_dir=None):
    """translator part: regenerate lean/AldorVerif/Gen/CharIndex.lean from the tree under check (called
    by common.run_parts before the Lean build; nothing is cached between runs)"""
    ct = load_chartables()
    sites, changed = ct.generate(src_dir or common.SRC, os.path.join(common.LEAN, "AldorVerif", "Gen", "CharIndex.lean"))
    _PREPARED.update({"sites": len(sites), "changed": changed, "src": src_dir or common.SRC})
    return sites, changed

_PREPARED = {}

def msg_text(name, src=None):
    t = open(os.path.join(src or common.SRC, "comsgdb.msg"), errors="replace").read()
    m = re.search(r"^%s\s+\"((?:[^\"\\]|\\.)*)\"" % name, t, re.M)
    return m.group(1).encode("latin-1") if m else b"?"

def render_model(ans, kwstr, msgs):
    """the model's symbolic token list in the format of toklistPrint; -> (bytes, complete?)"""
    items = []
    complete = True
    for t in ans.split():
        if t == "NUM":
            complete = False; break
        k, _, h = t.partition(":")
        v = bytes.fromhex(h) if k in "IBSCPQ" and h else b""
        if k in ("I", "B"): items.append(v)
        elif k == "K": items.append(b"|" + kwstr[int(h)] + b"|")
        elif k == "S": items.append(b"\"" + v + b"\"")
        elif k == "C": items.append(b"--" + v)
        elif k == "P": items.append(b"+++" + v)
        elif k == "Q": items.append(b"++" + v)
        elif k == "N": items.append(b"<NL>\n")
        elif k == "E": items.append(b"<Error: " + msgs["bad"] + b"> ")
        elif k == "O": items.append(b"<Error: " + msgs["open"] + b"> ")
        else: raise ValueError(t)
    body = b"[" + b", ".join(items)
    return (body + b"]\n", True) if complete else (body + (b", " if items else b""), False)

def run_scan_dump(runner, text):
    """the implementation's answer: FAULT, or the output after `*** Result of scan:`"""
    d = getattr(_tl, "dir", None)
    if d is None:
        d = _tl.dir = runner.newdir()       # one directory per worker thread: -WTrt+sc writes no files
    with open(os.path.join(d, "f.as"), "wb") as h:
        h.write(text)
    cmd = [runner.aldor, "-Nfile=" + os.path.join(runner.src, "aldor.conf"), "-WTrt+sc", "f.as"]
    try:
        p = subprocess.run(cmd, cwd=d, stdin=subprocess.DEVNULL, stdout=subprocess.PIPE, stderr=subprocess.STDOUT, timeout=TIMEOUT)
    except subprocess.TimeoutExpired:
        return "TIMEOUT"
    out = p.stdout
    if b"Program fault" in out or p.returncode < 0 or p.returncode > 128:
        return "FAULT"
    i = out.find(b"*** Result of scan:\n")
    if i < 0:
        return "NODUMP rc=%s %r" % (p.returncode, out[:120])
    return out[i + len(b"*** Result of scan:\n"):]

_tl = threading.local()
KEYIX_SIG = "scanfuzz|fault|keyTag<scanWord<scanTokenCases"

def correspondence(ctx, runner, pool):
    ct = load_chartables()
    rows, enum, _ = ct.token_table(runner.src)
    kwstr = {enum["TK_START"] + i: st for i, (_, st, _) in enumerate(rows)}
    msgs = {"bad": msg_text("ALDOR_E_ScanBadChar", runner.src), "open": msg_text("ALDOR_E_ScanOpenString", runner.src)}
    reqs, ncore = scan_lines(ctx.rng, ctx.tier == "thorough", list(kwstr.values()))
    t0 = time.time()
    impl = list(pool.map(lambda r: run_scan_dump(runner, r), reqs[:ncore]))
    budget_s = CORR_BUDGET_S["thorough" if ctx.tier == "thorough" else "quick"]
    for i in range(ncore, len(reqs), 1000):          # the random texts: as many as the time budget allows
        if time.time() - t0 > budget_s:
            break
        impl += list(pool.map(lambda r: run_scan_dump(runner, r), reqs[i:i + 1000]))
    nskipped = len(reqs) - len(impl)
    reqs = reqs[:len(impl)]
    text = "\n".join("S " + r.hex() for r in reqs) + "\n"
    model, tags = common.split_model(common.run_model("scan", text))
    assert len(model) == len(reqs), (len(model), len(reqs))
    stats = {"lines": len(reqs), "core_lines": ncore, "random_lines_skipped_for_time": nskipped, "mismatch": 0,
             "impl_faults": 0, "model_oob": 0, "prefix_only": 0}
    cmd = "write the bytes to f.as; aldor -Nfile=<src>/aldor.conf -WTrt+sc f.as"
    for r, co, mo in zip(reqs, impl, model):
        mfault = mo.split()[-1:] == ["FAULT"]
        if mfault: stats["model_oob"] += 1
        if co == "FAULT": stats["impl_faults"] += 1
        if mfault or co == "FAULT":
            if mfault and co == "FAULT":
                ctx.finding(KEYIX_SIG, "the escape character followed by a byte >= 0x80 starts a word whose first char subscripts "
                            "keyIx[128] with a negative value (model: out of range) and the compiler faults, e.g. on %r" % (r,),
                            {"kind": "impl-violates-property", "input_hex": r.hex(), "command": cmd, "model": mo})
            elif mfault:
                # the out-of-range read happened not to crash in this run: the answers differ only in
                # what undefined behaviour produced; the property is violated all the same
                ctx.finding(KEYIX_SIG, "keyIx[] is read out of range (model) on %r although this run of the compiler survived it" % (r,),
                            {"kind": "impl-violates-property", "input_hex": r.hex(), "command": cmd, "model": mo,
                             "impl": co[:200].decode("latin-1") if isinstance(co, bytes) else co})
            elif mo.split()[-1:] == ["NUM"]:
                stats["fault_beyond_model"] = stats.get("fault_beyond_model", 0) + 1   # the model stopped at scanNumber
            else:
                stats["mismatch"] += 1
                ctx.finding("scanfuzz|scan-fault-not-in-model", "the compiler faults while scanning %r; the scan model predicts %s" % (r, mo),
                            {"kind": "impl-violates-property", "input_hex": r.hex(), "command": cmd, "model": mo})
            continue
        exp, complete = render_model(mo, kwstr, msgs)
        if not complete: stats["prefix_only"] += 1
        if isinstance(co, bytes) and co.startswith(exp):
            continue
        stats["mismatch"] += 1
        ctx.corr_broken.append((NAME, "S " + r.hex() + "  (%r)" % (r,), co[:200].decode("latin-1") if isinstance(co, bytes) else co,
                                exp.decode("latin-1") + "   [" + mo + "]"))
    stats["tags"] = common.tag_hist(tags)
    return stats

# ======================================================================================
# the part
# ======================================================================================

def sig_for(runner, case, cls, out, data=None):
    data = case.data if data is None else data
    if cls in FAULTY:
        fr, signame = runner.frames(data, case.lib, case.extra, case.files, "fatal" if cls in ("compbug", "storage-fault") else "fault")
        fs = frame_signature(fr) if fr else "no-repro-under-gdb"
        det = detail_line(cls, out)
        return "scanfuzz|%s|%s%s" % (cls, fs, ("|" + det) if det else "")
    # a compile that does not end within the time limit and one that exhausts the 2 GB address space
    # limit are the same finding (which bound is hit first depends on the machine): `runaway`
    if cls == "timeout":
        fr, signame = runner.frames(data, case.lib, case.extra, case.files, "hang")
        return "scanfuzz|runaway|%s" % phase_signature(fr)
    if cls == "storage-error":
        # under gdb no address-space limit is set: interrupt the growing process like a hanging one
        fr, signame = runner.frames(data, case.lib, case.extra, case.files, "hang")
        return "scanfuzz|runaway|%s" % phase_signature(fr)
    if cls == "exit-nonzero-no-error":
        fr, signame = runner.frames(data, case.lib, case.extra, case.files, "exit")
        fr = [f for f in fr if f not in GENERIC_FRAMES and f not in ("main", "compCmd", "compFilesLoop", "osExit", "_start")]
        return "scanfuzz|exit-nonzero-no-error|" + ("<".join(fr[:3]) if fr else "error-counted-but-no-(Error)-line-printed")
    if cls == "exit-zero-with-error":
        n = len(ERR_RE.findall(out))
        return "scanfuzz|exit-zero-with-error|" + ("error-count-multiple-of-256" if n % 256 == 0 else "error-count-not-multiple-of-256")
    if cls == "silent-accept":
        return "scanfuzz|silent-accept|" + re.sub(r"0x[0-9a-f]+|`[^`]*`", "", case.invalid or "?").strip().replace(" ", "-")[:60]
    return "scanfuzz|%s" % cls

def run_part(ctx, build):
    t_start = time.time()
    thorough = ctx.tier == "thorough"
    runner = Runner(build)
    pool = cf.ThreadPoolExecutor(max_workers=common.NCPU)
    stats = {"translator": dict(_PREPARED)}
    ctx.trusted.append("translator translate/chartables.py sha256 %s (clang-14 JSON AST)" %
                       common.sha256_file(os.path.join(VERIF, "translate", "chartables.py"))[:16])
    # ---- 1. correspondence of the scan model -------------------------------------------
    stats["scan_correspondence"] = correspondence(ctx, runner, pool)
    t_corr = time.time()
    # ---- 2 + 3. fuzz ---------------------------------------------------------------------
    first, randoms, nseeds = generate_cases(ctx.rng, thorough)
    def go(c):
        c.rc, c.out, c.wall = runner.compile(c.data, c.lib, c.extra, c.files)
        c.cls = classify(c.rc, c.out, bool(c.invalid))
        return c
    list(pool.map(go, first))
    # the random streams run in chunks under a wall-clock budget (a loaded machine explores less, it does
    # not run longer); the reproducers, seeds and bombs above always run
    budget_s = FUZZ_BUDGET_S["thorough" if thorough else "quick"]
    cases, skipped = list(first), 0
    for i in range(0, len(randoms), 400):
        if time.time() - t_corr > budget_s:
            skipped = len(randoms) - i
            break
        chunk = randoms[i:i + 400]
        list(pool.map(go, chunk))
        cases += chunk
    # a timeout under 16-fold parallel load proves nothing: run those again (each distinct input once, four at a
    # time) with at least three times the limit; only the ones that still do not finish are hangs
    slow = [c for c in cases if c.cls == "timeout"]
    try:
        load = os.getloadavg()[0] / common.NCPU
    except OSError:
        load = 1.0
    relimit = int(min(120, TIMEOUT * max(3.0, 1.5 * load)))      # a busy machine gets proportionally more time
    def again(c):
        return runner.compile(c.data, c.lib, c.extra, c.files, limit=relimit)
    distinct = {}
    for c in slow:
        distinct.setdefault((c.data, c.lib, c.extra, tuple(sorted((c.files or {}).items()))), []).append(c)
    reps = [cs[0] for cs in distinct.values()]
    with cf.ThreadPoolExecutor(max_workers=4) as p2:
        for cs, (rc, out, wall) in zip(distinct.values(), p2.map(again, reps)):
            if rc != "TIMEOUT":
                for c in cs:
                    c.rc, c.out, c.wall = rc, out, wall
                    c.cls = classify(rc, out, bool(c.invalid))
    n_slow_ok = sum(1 for c in slow if c.cls != "timeout")
    # exit status: Model/Exit.lean against the runs with a known number of errors (the `errors` bombs)
    ex = [c for c in cases if c.kind.startswith("bomb:errors:") and isinstance(c.rc, int) and c.rc >= 0]
    ns = [len(ERR_RE.findall(c.out)) for c in ex]
    mo, xt = common.split_model(common.run_model("scan", "".join("X %d\n" % n for n in ns))) if ex else ([], [])
    for c, n, m in zip(ex, ns, mo):
        if str(c.rc) != m and (c.rc != 0) == (n > 0):
            # (a status that is dishonest is a finding of its own class below)
            ctx.corr_broken.append((NAME, "X %d  (%s, %d errors printed)" % (n, c.kind, n), str(c.rc), m))
    stats["exit_correspondence"] = {"runs": len(ex), "errors": ns, "status": [c.rc for c in ex], "model": mo}
    t_fuzz = time.time()
    by_cls = {}
    kinds = {}
    for c in cases:
        by_cls[c.cls or "ok"] = by_cls.get(c.cls or "ok", 0) + 1
        k = c.kind.split(":")[0]
        kinds[k] = kinds.get(k, 0) + 1
    failing = [c for c in cases if c.cls]
    # exit status honesty on everything that ran to completion
    dishonest = sum(1 for c in cases if isinstance(c.rc, int) and c.rc >= 0 and c.cls is None
                    and (c.rc != 0) != (len(ERR_RE.findall(c.out)) > 0))
    # ---- signatures -------------------------------------------------------------------------
    failing.sort(key=lambda c: len(c.data))
    cap = 100000 if thorough else 500
    # always keep at least a few of every (class, kind family)
    chosen, per = [], {}
    for c in failing:
        key = (c.cls, c.kind.split(":")[0], c.kind.split(":")[-1] if c.kind.startswith("bomb") else "")
        per[key] = per.get(key, 0) + 1
        if len(chosen) < cap or per[key] <= 3:
            chosen.append(c)
    keyof = lambda c: (c.cls, c.data, c.lib, c.extra, tuple(sorted((c.files or {}).items())), c.invalid)
    uniq = {}
    for c in chosen:
        uniq.setdefault(keyof(c), c)
    usig = dict(zip(uniq.keys(), pool.map(lambda c: sig_for(runner, c, c.cls, c.out), uniq.values())))
    sigs = [usig[keyof(c)] for c in chosen]
    t_sig = time.time()
    groups = {}
    for c, s in zip(chosen, sigs):
        groups.setdefault(s, []).append(c)
    # ---- minimise one representative per signature ------------------------------------------
    budget_tests = 400 if thorough else 90
    deadline = time.time() + MINIMISE_BUDGET_S["thorough" if thorough else "quick"]
    def minimise_group(item):
        sig, cs = item
        c = cs[0]                                   # smallest input of the group
        cls = c.cls
        if ctx._listed(sig) is not None:
            # a recorded finding: its minimised reproducer is in corpus/scanfuzz/repro already
            return sig, c, c.data, "not minimised again (recorded finding)"
        cheap = cls not in FAULTY and cls != "timeout"
        def still(d):
            if time.time() > deadline:
                return False                        # out of time: keep what has been reached
            rc, out, _ = runner.compile(d, c.lib, c.extra, c.files)
            if classify(rc, out, bool(c.invalid)) != cls:
                return False
            if cls == "silent-accept":
                # keep the reason of invalidity alive: never remove the offending byte
                return minimal_invalid_ok(c, d)
            return sig_for(runner, c, cls, out, d) == sig
        if cls in ("timeout", "storage-error"):
            return sig, c, c.data, "not minimised (each test costs a full timeout)"
        try:
            d, how = minimise(c, still, budget_tests if not cheap else budget_tests * 3)
        except Exception as e:       # never lose a finding because minimisation failed
            d, how = c.data, "minimisation failed: %r" % (e,)
        return sig, c, d, how
    results = list(pool.map(minimise_group, sorted(groups.items())))
    t_min = time.time()
    table = []
    for sig, c, d, how in results:
        n = len(groups[sig])
        cmd = "cd <empty dir>; write the input to f.as%s; timeout 10 %s" % (
            "".join(" and %r to %s" % (v, k) for k, v in (c.files or {}).items()),
            " ".join(a.replace(build.top, "<scratch build>") for a in runner.argv(c.lib, c.extra)))
        replay = {"kind": "fuzz", "class": c.cls, "count_this_run": n, "generator": c.kind, "minimised_by": how,
                  "command": cmd, "exit_status": c.rc, "output_tail": c.out[-600:].decode("latin-1")}
        if len(d) <= 3000:
            replay["input_hex"] = d.hex()
            replay["input_repr"] = repr(d)[:400]
        else:
            h = hashlib.sha256(d).hexdigest()[:12]
            replay["input_file"] = os.path.join(VERIF, "replays", "scanfuzz-%s.as" % h)
            replay["input_repr"] = repr(d[:120]) + "... (%d bytes)" % len(d)
        what = "%s: %s on %s input (%d bytes after minimisation, %d hit(s) this run): %s" % (
            c.cls, sig.split("|", 2)[-1], c.kind.split(":")[0], len(d), n, repr(d)[:160])
        new = ctx.finding(sig, what, replay)
        if new and "input_file" in replay:
            os.makedirs(os.path.dirname(replay["input_file"]), exist_ok=True)
            with open(replay["input_file"], "wb") as h:
                h.write(d)
        table.append({"signature": sig, "count": n, "minimal_len": len(d), "minimal": repr(d)[:200], "lib": c.lib,
                      "extra": list(c.extra), "files": {k: v.hex() for k, v in (c.files or {}).items()},
                      "minimal_hex": d.hex() if len(d) <= 20000 else None, "generator": c.kind})
    pool.shutdown()
    stats.update({"runs": len(cases), "seeds": nseeds, "classes": by_cls, "generators": kinds, "failing": len(failing),
                  "signature_checked": len(chosen), "signatures": len(groups), "exit_status_dishonest_unclassified": dishonest,
                  "random_inputs_skipped_for_time": skipped, "timeouts_that_finished_when_run_alone": n_slow_ok, "rerun_limit_s": relimit,
                  "walls": {"correspondence": round(t_corr - t_start, 1), "fuzz": round(t_fuzz - t_corr, 1),
                            "signatures": round(t_sig - t_fuzz, 1), "minimise": round(t_min - t_sig, 1)},
                  "slowest_run_s": round(max(c.wall for c in cases), 2), "table": table})
    ctx.cov["scanfuzz"] = stats
    ctx.cov["evaluations"] += len(cases) + stats["scan_correspondence"]["lines"]
    ctx.cov["distinct_nontrivial"] += len(groups) + len({c.rc for c in cases})
    for c in cases[:: max(1, len(cases) // 6)]:
        ctx.sample({"module": "scanfuzz", "generator": c.kind, "bytes": len(c.data), "exit": c.rc, "class": c.cls or "ok"})
    return stats

def minimal_invalid_ok(c, d):
    """for silent-accept findings the reduced input must still be invalid for the same reason"""
    why = c.invalid or ""
    if "NUL" in why:
        return b"\0" in d
    m = re.search(r"0x([0-9a-f]{2})", why)
    if m:
        return bytes([int(m.group(1), 16)]) in d
    return False     # other reasons (bracket balance, ...) are not preserved by byte removal: keep the original
