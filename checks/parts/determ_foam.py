"""FOAM text (`-Ffm`) canonicalisation used by checks/parts/determ.py for the batched axis.

The one KNOWN batched-vs-separate difference (known_findings.json, C08 determ|*|batched|units) is:
the file-level lexical format -- the `DDecl LocalEnv` the file-level program's `(DEnv F ...)`
names first -- has its `Decl` lines in another order, and every reference `(Lex k n name)` whose
level k resolves to that format (the enclosing program's DEnv[k] == F), and every `(EElt F ...)`,
carries the permuted index n.  Nothing else.

canon(text) removes exactly that degree of freedom: the Decls of format F are put into a canonical
order (stable sort by their printed text) and the indices are renumbered accordingly.  Two units
that differ only by the known cause have equal canonical forms; anything that is left is RESIDUAL.
`classify(a, b)` names the part of the unit where two canonical forms first differ.
"""

def parse(text):
    """S-expression reader: lists, "strings" (with backslash escapes), atoms."""
    pos = 0
    n = len(text)
    stack = [[]]
    while pos < n:
        c = text[pos]
        if c in " \t\r\n":
            pos += 1
        elif c == "(":
            stack.append([])
            pos += 1
        elif c == ")":
            if len(stack) < 2:
                raise ValueError("unbalanced ) at %d" % pos)
            done = stack.pop()
            stack[-1].append(done)
            pos += 1
        elif c == '"':
            j = pos + 1
            while j < n and text[j] != '"':
                j += 2 if text[j] == "\\" else 1
            stack[-1].append(text[pos:j + 1])
            pos = j + 1
        elif c == "|":
            j = text.index("|", pos + 1)
            stack[-1].append(text[pos:j + 1])
            pos = j + 1
        else:
            j = pos
            while j < n and text[j] not in " \t\r\n()":
                j += 1
            stack[-1].append(text[pos:j])
            pos = j
    if len(stack) != 1:
        raise ValueError("unbalanced (")
    return stack[0]

def show(x):
    if isinstance(x, list):
        return "(" + " ".join(show(y) for y in x) + ")"
    return x

def _head(x):
    return x[0] if isinstance(x, list) and x and isinstance(x[0], str) else None

def unit_parts(tree):
    """(formats list, defs list) of a parsed .fm"""
    unit = next(t for t in tree if _head(t) == "Unit")
    dfmt = next(t for t in unit[1:] if _head(t) == "DFmt")
    ddef = next(t for t in unit[1:] if _head(t) == "DDef")
    return dfmt[1:], ddef[1:]

def prog_env(prog):
    for x in prog:
        if _head(x) == "DEnv":
            return [int(v) for v in x[1:]]
    return []

def file_level_format(defs):
    for d in defs:
        if _head(d) == "Def" and len(d) >= 3 and _head(d[2]) == "Prog":
            env = prog_env(d[2])
            return env[0] if env else None
    return None

def canon_tree(tree):
    """returns (canonical tree, info)"""
    fmts, defs = unit_parts(tree)
    F = file_level_format(defs)
    info = {"format": F, "moved": 0, "renumbered": 0}
    if F is None or F >= len(fmts):
        return tree, info
    fmt = fmts[F]
    # (DDecl LocalEnv decl...) ; keep the usage tag, permute the decls
    k0 = 2 if len(fmt) > 1 and isinstance(fmt[1], str) else 1
    decls = fmt[k0:]
    order = sorted(range(len(decls)), key=lambda i: (show(decls[i]), i))
    newidx = {old: new for new, old in enumerate(order)}
    info["moved"] = sum(1 for o, nw in newidx.items() if o != nw)
    fmt[k0:] = [decls[i] for i in order]

    def walk(x, env):
        if not isinstance(x, list):
            return
        h = _head(x)
        if h == "Prog":
            env = prog_env(x)
        if h == "Lex" and len(x) >= 3:
            try:
                lev, ix = int(x[1]), int(x[2])
            except ValueError:
                lev = ix = None
            if lev is not None and lev < len(env) and env[lev] == F and ix in newidx:
                if newidx[ix] != ix:
                    info["renumbered"] += 1
                x[2] = str(newidx[ix])
        elif h == "EElt" and len(x) >= 5:
            # (EElt format ref level index)
            try:
                if int(x[1]) == F and int(x[4]) in newidx:
                    x[4] = str(newidx[int(x[4])])
            except ValueError:
                pass
        for y in x:
            walk(y, env)
    for d in defs:
        walk(d, [])
    return tree, info

def canon(text):
    """canonical text of a .fm file; (None, reason) when it cannot be parsed"""
    try:
        tree, info = canon_tree(parse(text))
    except Exception as e:
        return None, {"error": "%s: %s" % (type(e).__name__, e)}
    return "\n".join(show(t) for t in tree), info

def classify(text_a, text_b):
    """where two .fm texts differ AFTER canonicalisation: a sorted list of categories
    (`globals`, `constants`, `file-level-format`, `formats`, `code:<n programs>`) or [] when they
    are equal up to the known permutation"""
    try:
        ta, _ = canon_tree(parse(text_a))
        tb, _ = canon_tree(parse(text_b))
        fa, da = unit_parts(ta)
        fb, db = unit_parts(tb)
    except Exception as e:
        return ["unparsable(%s)" % type(e).__name__]
    cats = []
    Fa, Fb = file_level_format(da), file_level_format(db)
    if len(fa) != len(fb):
        cats.append("formats")
    for i, (x, y) in enumerate(zip(fa, fb)):
        if show(x) != show(y):
            tag = x[1] if len(x) > 1 and isinstance(x[1], str) else ""
            if tag == "Globals": cats.append("globals")
            elif tag == "Consts": cats.append("constants")
            elif i == Fa or i == Fb: cats.append("file-level-format")
            else: cats.append("formats")
    nprog = sum(1 for x, y in zip(da, db) if show(x) != show(y)) + abs(len(da) - len(db))
    if nprog:
        cats.append("code")
    return sorted(set(cats))
