"""part `store` (C10): store.c vs Model/Store.lean.  Tie: hand model + correspondence (H).

The C driver (harness/store_drv.c, which #includes the tree's store.c) runs every history on a
fresh allocator in a forked child, audits the allocator and checks the byte patterns of all live
blocks after every step.  Two things are judged:
 * the executable property on the IMPLEMENTATION's output alone (python oracle, no model):
   alignment, usable >= requested, live blocks pairwise disjoint and inside their section,
   contents intact (mem=ok), resize keeps the common prefix, rooted blocks survive collection,
   stoAudit() passes after every step;
 * implementation = model (offsets, sizes, codes, sections, free-list/free-tree digests), the
   model being fed the inputs it does not model: the pages the page layer granted and the set
   of unrooted blocks the conservative marker let die.
"""
import bisect, itertools, os, re
from vlib import common
from vlib.common import VERIF

NAME = "store"
BUILD_TARGETS = ["AldorVerif.Props.C10"]
SOURCES = ["store.c", "store.h", "btree.c", "memclim.c", "opsys.c", "os_unix.c"]
MODELLED = ("store.c: stoAlloc stoFree stoResize stoRecode stoSize stoCode piecesGetFixed pieceGetMixed "
            "piecePutMixed mxmemSplit mxmemMerge mxmemLink mxmemUnlink sectPrepare sectQmCount "
            "stoGcSweep stoGcSweepFixed stoGcSweepMixed, constants fixedSize[] FixedSizeMax MixedSizeQuantum "
            "PgSize SectionHeadSize MxMemHeadSize "
            "(inputs, not modelled: pagesGet/pgMap/osAlloc page layer, stoGcMark, B-tree node layout "
            "(abstracted as an ordered map, see C20 btree), byte contents; exercised by the oracle only: "
            "stoAudit, newFill/freeFill, memcpy of stoResize)")
THEOREMS = [("AldorVerif.Props.C10", "AldorVerif.Store." + t) for t in (
    "inv_init", "inv_step", "inv_history", "live_pairwise_disjoint", "live_inside_section",
    "history_live_disjoint", "alloc_aligned", "alloc_size_ge", "alloc_disjoint_from_live",
    "free_only_that_block", "recode_live", "resize_prefix_partial", "sweep_keeps_survivors")]

FIXED = [8, 16, 24, 32, 48, 64, 80, 96, 128, 160, 192, 256]
FMAX, MQ, PG, MHEAD = 256, 256, 4096, 32
EXPECT_CONSTS = ("ptr=8 fixed=8,16,24,32,48,64,80,96,128,160,192,256 fmax=256 mq=256 pg=4096 shead=46 mhead=32 "
                 "qinfo=1 fxgrp=1 mxgrp=2 codemask=31 align=8")

# ------------------------------------------------------------------ generators
def boundary_sizes():
    s = set()
    for f in FIXED:
        s.update((f - 1, f, f + 1))
    for k in (2, 3, 4, 5, 8, 15, 16, 17, 31, 32, 33, 40):          # piece = k quanta
        s.update((k * MQ - MHEAD - 1, k * MQ - MHEAD, k * MQ - MHEAD + 1))
    s.update((PG - MHEAD, PG, PG + 1, 2 * PG - 300, 2 * PG, 3 * PG + 17, 20000, 70000, 200000))
    s.discard(0)
    return sorted(s)

BOUNDARY = boundary_sizes()

def rand_size(rng, profile):
    r = rng.random()
    if profile == "fixed":
        if r < 0.5: return rng.choice([x for x in BOUNDARY if x <= FMAX + 1])
        return rng.randint(1, FMAX)
    if profile == "mixed":
        if r < 0.4: return rng.choice([x for x in BOUNDARY if x > FMAX])
        if r < 0.9: return rng.randint(FMAX + 1, 6000)
        return rng.randint(6000, 120000)
    if r < 0.35: return rng.choice(BOUNDARY)
    if r < 0.65: return rng.randint(1, FMAX)
    if r < 0.95: return rng.randint(FMAX + 1, 5000)
    return rng.randint(5000, 150000)

def gen_random(rng, steps, profile, maxlive=150):
    ops = []
    rooted = []
    w = {"any":   dict(a=45, f=28, r=14, c=4, d=6, g=3),
         "fixed": dict(a=48, f=30, r=12, c=3, d=5, g=2),
         "mixed": dict(a=42, f=28, r=18, c=3, d=6, g=3),
         "gc":    dict(a=45, f=10, r=8, c=2, d=25, g=10)}[profile if profile in ("fixed", "mixed", "gc") else "any"]
    kinds = list(w)
    for j in range(steps):
        ww = dict(w)
        if not rooted:
            ww.update(f=0, r=0, c=0, d=0)
        if len(rooted) > maxlive:
            ww["a"] = 5
        k = rng.choices(kinds, [ww[x] for x in kinds])[0]
        if k == "a":
            ops.append("a %d %d" % (rng.choice((0, 1, 7, 31, 32, 77)), rand_size(rng, "any" if profile == "gc" else profile)))
            rooted.append(j)
        elif k == "f":
            i = rooted.pop(rng.randrange(len(rooted)) if rng.random() < 0.7 else -1)
            ops.append("f %d" % i)
        elif k == "r":
            i = rng.choice(rooted)
            ops.append("r %d %d" % (i, rand_size(rng, "any" if profile == "gc" else profile)))
        elif k == "c":
            ops.append("c %d %d" % (rng.choice(rooted), rng.randint(0, 40)))
        elif k == "d":
            i = rooted.pop(rng.randrange(len(rooted)))
            ops.append("d %d" % i)
        else:
            ops.append("g")
    return "H " + " ".join(ops)

def gen_exhaustive(sizes, length, resize_sizes=None):
    """every valid history of exactly `length` ops over: a(size), f(oldest), f(newest), r(newest,size),
    d(newest), g; the first op is an allocation"""
    resize_sizes = sizes if resize_sizes is None else resize_sizes
    out = []
    def rec(ops, rooted, j):
        if j == length:
            out.append("H " + " ".join(ops)); return
        for s in sizes:
            rec(ops + ["a 0 %d" % s], rooted + [j], j + 1)
        if rooted:
            rec(ops + ["f %d" % rooted[0]], rooted[1:], j + 1)
            if len(rooted) > 1:
                rec(ops + ["f %d" % rooted[-1]], rooted[:-1], j + 1)
            for s in resize_sizes:
                rec(ops + ["r %d %d" % (rooted[-1], s)], rooted, j + 1)
            rec(ops + ["d %d" % rooted[-1]], rooted[:-1], j + 1)
            if j + 1 < length or True:
                rec(ops + ["g"], rooted, j + 1)
    rec([], [], 0)
    return out

def gen_sequences(rng):
    """directed histories: fill and empty each class, the fixed/mixed boundary, best fit, merges"""
    out = []
    for f in FIXED:                                   # exhaust one section of the class, then one more
        nq = (PG - 46) // (f + 1)
        ops = ["a 1 %d" % f] * (nq + 2)
        ids = list(range(nq + 2))
        rng.shuffle(ids)
        ops += ["f %d" % i for i in ids[: nq // 2]]
        ops += ["a 2 %d" % max(1, f - 1)] * (nq // 2 + 3)
        ops += ["g"]
        out.append("H " + " ".join(ops))
    # order of the same-size lists of the free tree (mxmemLink walk): free non-adjacent equal pieces
    # in every order, then take them back
    for perm in itertools.permutations((1, 3, 5, 7)):
        out.append("H " + " ".join(["a 0 300"] * 9 + ["f %d" % i for i in perm] + ["a 0 300"] * 4))
    for perm in itertools.permutations((1, 3, 5)):
        out.append("H " + " ".join(["a 0 300"] * 7 + ["d %d" % i for i in perm] + ["g"] + ["a 0 300"] * 3))
    # best fit / split / merge in one mixed section
    out.append("H a 0 300 a 0 300 a 0 1000 a 0 300 a 0 2000 a 0 300 f 2 f 4 a 0 280 a 0 900 a 0 1900 f 1 f 3 f 0 a 0 3000 g")
    out.append("H a 0 257 a 0 257 a 0 257 a 0 257 a 0 257 f 1 f 3 f 2 a 0 1200 f 0 f 4 g a 0 257")
    out.append("H a 0 70000 a 0 300 f 0 a 0 60000 a 0 9000 d 1 g a 0 70000 r 7 100 r 7 300000 g")
    return out

# ------------------------------------------------------------------ parsing
KV = re.compile(r"(\w+)=(\S*)")

def parse_group(g):
    d = dict(KV.findall(g))
    d["_raw"] = g
    return d

def strip_impl(g):
    """what the model predicts: drop the verdict fields and the recorded marker input"""
    g = re.sub(r" (audit=ok|mem=ok|mem=BAD\S*)", "", g)
    g = re.sub(r" kept=\S* freed=\S*( dead=\S*)?", "", g)
    g = re.sub(r" FAULT\(.*$", "", g)
    return g.strip()

def ids_of(s):
    return [int(x) for x in s.split(",") if x != ""]

class Live:
    """live blocks of one history, by start address"""
    def __init__(self):
        self.starts = []; self.by_start = {}; self.by_id = {}
    def add(self, i, p, u, n, sect):
        k = bisect.bisect_left(self.starts, p)
        why = None
        if k < len(self.starts):
            q = self.starts[k]
            if q < p + max(u, 1):
                why = "overlaps live block %s" % (self.by_start[q],)
        if k > 0:
            q = self.starts[k - 1]
            if q + max(self.by_start[q][2], 1) > p:
                why = "overlaps live block %s" % (self.by_start[q],)
        self.starts.insert(k, p)
        self.by_start[p] = (i, p, u, n, sect)
        self.by_id[i] = p
        return why
    def remove(self, i):
        p = self.by_id.pop(i)
        self.starts.pop(bisect.bisect_left(self.starts, p))
        return self.by_start.pop(p)

def oracle_and_model_line(req, impl_line):
    """evaluate the executable property on the implementation's answer to `req`; returns
    (problems [(step, signature-kind, text)], model request line, number of groups usable, stats)"""
    toks = req.split()[1:]
    groups = impl_line.split(" ; ") if impl_line else []
    probs = []
    mtoks = ["H"]
    live = Live()
    rooted = set(); dropped = set()
    j = 0; t = 0
    nsteps = 0
    st = {"alloc": 0, "free": 0, "resize": 0, "recode": 0, "drop": 0, "gc": 0, "gc_freed": 0, "gc_kept": 0,
          "moved": 0, "fixed": 0, "mixed": 0, "multipage": 0}
    def bad(kind, text):
        probs.append((j, kind, text))
    while t < len(toks):
        op = toks[t]
        if j >= len(groups):
            bad("fault", "no answer for step %d (%s)" % (j, impl_line[-120:])); break
        g = groups[j]; d = parse_group(g)
        if "FAULT" in g:
            bad("fault", "step %d (%s): %s" % (j, op, g[-160:])); break
        if "bad-op" in g or g.startswith("null"):
            bad("driver", "step %d: %s" % (j, g)); break
        if d.get("audit") != "ok":
            bad("audit", "stoAudit did not pass at step %d: %s" % (j, g)); break
        if d.get("mem") != "ok":
            bad("mem", "contents of a live block changed at step %d (%s): %s" % (j, op, g))
        if op == "a" or op == "r":
            if op == "a":
                code, n = int(toks[t + 1]), int(toks[t + 2]); i = j; t += 3; st["alloc"] += 1
                old = None
            else:
                i, n = int(toks[t + 1]), int(toks[t + 2]); t += 3; st["resize"] += 1
                old = live.remove(i)
            p, u = int(d["p"]), int(d["u"])
            sb, sp, sk, sq = d["s"].split(":")
            sb, sp, sq = int(sb), int(sp), int(sq)
            if p % 8 != 0: bad("align", "step %d: block at %d is not pointer aligned" % (j, p))
            if u < n: bad("size", "step %d: usable %d < requested %d" % (j, u, n))
            if not (sb <= p and p + u <= sb + sp * PG): bad("section", "step %d: block [%d,%d) leaves its section %s" % (j, p, p + u, d["s"]))
            why = live.add(i, p, u, n, d["s"])
            if why: bad("overlap", "step %d: new block id %d [%d,%d) %s" % (j, i, p, p + u, why))
            if op == "a":
                rooted.add(i)
                if int(d["c"]) != code % 32: bad("code", "step %d: code %s after stoAlloc(%d)" % (j, d["c"], code))
                mtoks += ["a", str(code), str(n), str(sb)]
            else:
                keep = int(d.get("keep", -1))
                need = min(old[3], n)
                if keep < need: bad("prefix", "step %d: resize kept %d bytes, common prefix is %d" % (j, keep, need))
                if p != old[1]: st["moved"] += 1
                mtoks += ["r", str(i), str(n), str(sb)]
            st["fixed" if sk == "F" else "mixed"] += 1
            if sp > 2: st["multipage"] += 1
        elif op == "f":
            i = int(toks[t + 1]); t += 2; st["free"] += 1
            live.remove(i); rooted.discard(i); dropped.discard(i)
            mtoks += ["f", str(i)]
        elif op == "c":
            i, code = int(toks[t + 1]), int(toks[t + 2]); t += 3; st["recode"] += 1
            if int(d["c"]) != code % 32: bad("code", "step %d: code %s after stoRecode(%d)" % (j, d["c"], code))
            mtoks += ["c", str(i), str(code)]
        elif op == "d":
            i = int(toks[t + 1]); t += 2; st["drop"] += 1
            rooted.discard(i); dropped.add(i)
            mtoks += ["d", str(i)]
        elif op == "g":
            t += 1; st["gc"] += 1
            if "dead" in d: bad("gc-lost-root", "step %d: collection reclaimed rooted block(s) %s" % (j, d["dead"]))
            freed = ids_of(d.get("freed", "")); kept = ids_of(d.get("kept", ""))
            st["gc_freed"] += len(freed); st["gc_kept"] += len(kept)
            for i in freed:
                if i not in dropped: bad("gc-lost-root", "step %d: collection reclaimed block %d that was not dropped" % (j, i))
                else:
                    dropped.discard(i); live.remove(i)
            mtoks += ["g", ",".join(map(str, freed)) or "-"]
        else:
            bad("driver", "unknown op " + op); break
        j += 1
        nsteps += 1
    else:
        # end group
        if j < len(groups):
            g = groups[j]; d = parse_group(g)
            if "FAULT" in g: bad("fault", "final audit: " + g[-160:])
            elif d.get("audit") != "ok": bad("audit", "final stoAudit did not pass: " + g)
            elif d.get("mem") != "ok": bad("mem", "contents of a live block changed (final check): " + g)
        else:
            bad("fault", "no final answer (%s)" % impl_line[-120:])
    return probs, " ".join(mtoks), nsteps, st

def prefix_request(req, nsteps):
    """the first nsteps ops of a history request"""
    toks = req.split()[1:]
    out = ["H"]; t = 0; j = 0
    ar = {"a": 3, "f": 2, "r": 3, "c": 3, "d": 2, "g": 1}
    while t < len(toks) and j < nsteps:
        k = ar.get(toks[t], 1)
        out += toks[t:t + k]; t += k; j += 1
    return " ".join(out)

def run_impl_parallel(exe, reqs, workers, timeout):
    """histories are independent (each runs in its own forked child): spread them over a few
    driver processes, longest first"""
    from concurrent.futures import ThreadPoolExecutor
    order = sorted(range(len(reqs)), key=lambda k: -len(reqs[k]))
    buckets = [[] for _ in range(workers)]
    load = [0] * workers
    for k in order:
        b = load.index(min(load))
        buckets[b].append(k); load[b] += len(reqs[k]) + 400
    out = [None] * len(reqs)
    def work(b):
        res = common.run_impl_lines(exe, [reqs[k] for k in buckets[b]], timeout=timeout)
        for k, r in zip(buckets[b], res + ["MISSING"] * (len(buckets[b]) - len(res))):
            out[k] = r
    with ThreadPoolExecutor(max_workers=workers) as ex:
        list(ex.map(work, [b for b in range(workers) if buckets[b]]))
    return out

# ------------------------------------------------------------------ the part
def run_part(ctx, build):
    exe = build.cc_driver("store_drv", os.path.join(VERIF, "harness", "store_drv.c"))
    rng = ctx.rng
    thorough = ctx.tier == "thorough"
    stats = {"histories": 0, "steps": 0, "corpus": 0, "exhaustive": 0, "random_steps": 0, "mismatch": 0,
             "property_failures": 0, "faults": 0, "ops": {}, "tags": {}, "longest": 0}

    # constants first: the model's constants must be the ones compiled into store.c
    c = common.run_impl_lines(exe, ["consts"])
    m, _ = common.split_model(common.run_model("store", "consts\n"))
    if c[0] != m[0]:
        ctx.corr_broken.append((NAME, "consts", c[0], m[0]))
    reqs = []
    corp = os.path.join(VERIF, "corpus", "store")
    if os.path.isdir(corp):
        for f in sorted(os.listdir(corp)):
            reqs += [l.strip() for l in open(os.path.join(corp, f)) if l.strip() and not l.startswith("#")]
    stats["corpus"] = len(reqs)
    reqs += gen_sequences(rng)
    six = [8, 200, 256, 257, 600, 9000]
    ex = gen_exhaustive(six, 4)
    if thorough:
        ex += gen_exhaustive(six, 5)
        ex += gen_exhaustive([200, 257, 9000], 6, resize_sizes=[600])
    for L in (1, 2, 3):
        ex += gen_exhaustive(six, L)
    stats["exhaustive"] = len(ex)
    reqs += ex
    nr0 = len(reqs)
    if thorough:
        plan = [(100000, "any"), (50000, "mixed"), (30000, "fixed"), (8000, "gc")] + [(5000, p) for p in ("any", "mixed", "fixed", "gc")] * 3
        plan += [(300, p) for p in ("any", "mixed", "fixed", "gc")] * 100
    else:
        plan = [(2000, "any"), (2000, "mixed"), (2000, "fixed"), (2000, "gc")] + [(200, p) for p in ("any", "mixed", "fixed", "gc")] * 15
    for steps, prof in plan:
        reqs.append(gen_random(rng, steps, prof))
        stats["random_steps"] += steps

    impl = run_impl_parallel(exe, reqs, max(1, min(6, common.NCPU // 2)), 7200)
    mreqs = []; judged = []
    for k, req in enumerate(reqs):
        il = impl[k] if k < len(impl) else "MISSING"
        if il.startswith("FAULT") or il in ("MISSING", "SKIPPED"):
            il = " FAULT(driver:%s)" % il
        probs, mline, nsteps, st = oracle_and_model_line(req, il)
        for kk, v in st.items():
            stats["ops"][kk] = stats["ops"].get(kk, 0) + v
        mreqs.append(mline); judged.append((probs, nsteps, il))
        stats["steps"] += nsteps
        stats["longest"] = max(stats["longest"], nsteps)
    mo, tags = common.split_model(common.run_model("store", "\n".join(mreqs) + "\n"))
    assert len(mo) == len(reqs), (len(mo), len(reqs))
    stats["tags"] = common.tag_hist(tags)
    seen = set()
    failures = []
    for k, req in enumerate(reqs):
        probs, nsteps, il = judged[k]
        stats["histories"] += 1
        igroups = [strip_impl(g) for g in il.split(" ; ")]
        mgroups = mo[k].split(" ; ")
        complete = not any(kind in ("fault", "driver", "audit") for _, kind, _ in probs)
        ncmp = nsteps + (1 if complete else 0)          # the `end` digest only for complete runs
        first_diff = None
        for j in range(ncmp):
            a = igroups[j] if j < len(igroups) else "MISSING"
            b = mgroups[j] if j < len(mgroups) else "MISSING"
            if a != b:
                first_diff = (j, a, b); break
        for g in igroups[:ncmp]:
            seen.add(g)
        if probs:
            stats["property_failures"] += 1
            j, kind, text = probs[0]
            if kind == "fault": stats["faults"] += 1
            failures.append((kind, len(prefix_request(req, j + 1)), k, first_diff))
        elif first_diff:
            stats["mismatch"] += 1
            j, a, b = first_diff
            ctx.corr_broken.append((NAME, prefix_request(req, j + 1)[-600:] + "  [step %d]" % j, a, b))
        if k % 997 == 5 or (k >= nr0 and k < nr0 + 2):
            ctx.sample({"module": "store", "request": req[:300], "impl": il[:400], "model": mo[k][:300], "tags": tags[k][:200]})
    # report the shortest failing histories (at most 3 per kind of failure)
    failures.sort()
    per_kind = {}
    for kind, _, k, first_diff in failures:
        if per_kind.get(kind, 0) >= 3:
            continue
        per_kind[kind] = per_kind.get(kind, 0) + 1
        probs, nsteps, il = judged[k]
        j, kind, text = probs[0]
        short = prefix_request(reqs[k], j + 1)
        nk = sum(1 for f in failures if f[0] == kind)
        ctx.finding("store|%s|%s" % (kind, short if len(short) < 200 else short[:80] + "…" + str(len(short))),
                    "store.c violates the allocator property (%d histories fail this way): %s" % (nk, text),
                    {"kind": "impl-violates-property", "driver": "harness/store_drv.c", "request": short[:200000],
                     "problems": [p[2] for p in probs[:5]], "impl": il[-2000:],
                     "model_differs_at": first_diff, "histories_failing_this_way": nk,
                     "replay_cmd": "echo '<request>' | <store_drv built by ./check C10>"})
    stats["distinct_answers"] = len(seen)
    ctx.cov["store"] = stats
    ctx.cov["evaluations"] += stats["steps"]
    ctx.cov["distinct_nontrivial"] += len(seen)
    return stats
