"""part `bigint` (C11): bigint.c + foam_i.c (BInt part) + dword.c (xxModDouble) vs Model/BigInt.lean.
Tie: hand model + correspondence (H).  The python side also checks every answer of the
implementation against Python's own integers (the executable form of C11)."""
import math, os
from vlib import common
from vlib.common import VERIF

NAME = "bigint"
BUILD_TARGETS = ["AldorVerif.Props.C11"]
SOURCES = ["bigint.c", "bigint.h", "foam_i.c", "dword.c", "foam_c.c", "foam_c.h", "cport.h"]
MODELLED = ("bigint.c: uintLength intLength uintBit intBit xintStoreI xintStore xintCopyInI xintImmedIfCan bintNew "
            "bintFrPlacev bintIsSmall bintSmall bintIsNeg/IsZero/IsPos bintEQ bintLT bintGT bintAbs bintNegate bintPlus "
            "bintMinus bintTimes bintDivide bintMod bintModi bintToULong bintLength bintBit bintShift bintShiftRem "
            "iintPlus iintMinus iintTimes iintTimesS iintTimesPlusS iintDivideS iintDivide iintShift bintToString/"
            "bintIntoString bintFrString/bintRadixScanFrString bintScanFrString; foam_i.c: fiBIntGcd fiBIntSIPower "
            "fiBIntBIPower fiBIntPowerMod fiBIntMod/Rem/Quo/Divide fiBIntTimesPlus fiBIntIsSingle fiSIntToBInt "
            "fiBIntToSInt; foam_c.c: fiSIntLength; dword.c: xxTimesDouble xxModDouble "
            "(not: printing to FILE, bintFrPlacevS/ToPlacevS, xintNeeds, float conversions, allocation sizes)")
_T = ["negate_val", "abs_val", "eq_iff", "lt_iff", "gt_iff", "plus_val", "minus_val", "times_val", "new_small",
      "toSInt_val", "small_val", "bit_val", "length_val", "shift_val", "divide_spec", "divide_recompose", "mod_val",
      "gcd_val", "sipower_val", "bipower_val", "powermod_val",
      "shiftRem_statement_refuted", "toString_repr", "frString_toString", "radixScan_val", "scan_val"]
THEOREMS = [("AldorVerif.Props.C11", "AldorVerif.BigInt." + t) for t in _T]

B = 1 << 32
MAXI = (1 << 62) - 1
M64 = (1 << 64) - 1

# ------------------------------------------------------------------ helpers
def hx(v):
    return ("-" if v < 0 else "") + "%x" % abs(v)

def parse_b(s):
    """'-1f/b2' -> (value, rep)"""
    val, rep = s.split("/")
    neg = val.startswith("-")
    v = int(val[1:] if neg else val, 16)
    return (-v if neg else v), rep

def rep_of(v):
    """representation a normalised result must have"""
    if abs(v) <= MAXI:
        return "i"
    return "b%d" % ((abs(v).bit_length() + 31) // 32)

def tdiv(a, b):
    q = abs(a) // abs(b)
    return -q if (a < 0) != (b < 0) else q

def tmod(a, b):
    return a - tdiv(a, b) * b

def sgn(v):
    return -1 if v < 0 else (1 if v > 0 else 0)

def wrap64(v):
    v &= M64
    return v - (1 << 64) if v >> 63 else v

def length_c(v):
    return max(1, abs(v).bit_length())

# ------------------------------------------------------------------ operand classes
def boundary_values(maxpow=200, step=1):
    out = set()
    for k in range(0, maxpow + 1, step):
        for d in (-2, -1, 0, 1, 2):
            out.add((1 << k) + d)
    return sorted(out)

def pattern_values():
    out = set()
    for n in (1, 2, 3, 4, 5, 7, 8):
        out.add((1 << (32 * n)) - 1)                 # all ones
        out.add(1 << (32 * n - 1))                   # single high bit
        out.add(int("a" * (8 * n), 16))
        out.add(int("5" * (8 * n), 16))
        out.add(int("ffffffff00000000" * n, 16))
        out.add(int("00000000ffffffff" * n, 16))
        out.add(int("80000000" * n, 16))
        out.add(int("7fffffff" * n, 16))
        out.add(int("00000001" * n, 16))
    for v in (MAXI - 1, MAXI, MAXI + 1, MAXI + 2, (1 << 63) - 1, 1 << 63, (1 << 63) + 1, (1 << 64) - 1, 1 << 64,
              (1 << 31) - 1, 1 << 31, (1 << 32) - 1, 1 << 32, (1 << 32) + 1, (1 << 61), (1 << 61) - 1, 0, 1, 2, 3, 10):
        out.add(v)
    return sorted(out)

SPECIAL_DIGITS = (0, 1, 2, 0x7fffffff, 0x80000000, 0x80000001, 0xfffffffe, 0xffffffff, 0x55555555, 0xaaaaaaaa, 0x20000000)

def rand_value(rng, maxbits=4000):
    r = rng.random()
    if r < 0.25:
        bits = rng.randint(1, 70)
    elif r < 0.6:
        bits = rng.randint(1, 300)
    else:
        bits = rng.randint(1, maxbits)
    if rng.random() < 0.35:
        # digit-structured: special digits mixed with random ones
        nd = (bits + 31) // 32
        v = 0
        for _ in range(nd):
            d = rng.choice(SPECIAL_DIGITS) if rng.random() < 0.7 else rng.getrandbits(32)
            v = (v << 32) | d
        v &= (1 << bits) - 1
    else:
        v = rng.getrandbits(bits)
        if rng.random() < 0.5:
            v |= 1 << (bits - 1)
    if rng.random() < 0.1:
        v = (1 << bits) + rng.choice((-2, -1, 0, 1, 2))
    return v

def signed(rng, v):
    return -v if rng.random() < 0.5 else v

def knuth_operands(rng):
    """(u, v) pairs aimed at the rare branches of Algorithm D: add-back (second divisor digit 0, u = Q*v - small),
    uj0 == v1, two corrections of qhat"""
    n = rng.randint(3, 6)
    kind = rng.random()
    v1 = rng.choice((1, 2, 0x20000000, 0x7fffffff, 0x80000000, 0x80000001, 0xffffffff, rng.randrange(1, B)))
    if kind < 0.6:
        lows = [rng.choice((1, 2, 3, B - 1, rng.randrange(1, B)))] + [rng.choice((0, rng.randrange(B))) for _ in range(n - 3)]
        digs = lows + [rng.choice((0, 0, 0, 1, 2))] + [v1]
    else:
        digs = [rng.choice(SPECIAL_DIGITS + (rng.randrange(B),)) for _ in range(n - 1)] + [v1]
    v = sum(d << (32 * i) for i, d in enumerate(digs))
    m = rng.randint(0, 4)
    qd = [rng.choice((1, 2, 3, 0x7fffffff, 0x80000000, 0xfffffffe, 0xffffffff, rng.randrange(1, B))) for _ in range(m + 1)]
    Q = sum(d << (32 * i) for i, d in enumerate(qd))
    r = rng.random()
    if r < 0.5:
        u = Q * v - rng.choice((1, 1, 2, 3, rng.randrange(1, B)))
    elif r < 0.8:
        u = Q * v + rng.randrange(0, v)
    else:
        u = Q * v + v - rng.choice((1, 2, 3))
    return max(u, 0), v

DIGCH = "0123456789ABCDEFGHIJKLMNOPQRSTUVWXYZ"
def to_radix(v, radix):
    if v == 0:
        return "0"
    s = ""
    while v:
        s = DIGCH[v % radix] + s
        v //= radix
    return s

# ------------------------------------------------------------------ request generation
def gen_requests(rng, tier):
    L = []
    th = tier == "thorough"
    bv = boundary_values(200, 1)
    pv = pattern_values()
    allspecial = sorted(set(bv + pv))
    L.append("consts")
    # ---- unary operations on every boundary and pattern value, both signs
    for v in allspecial:
        for s in (1, -1):
            x = hx(s * v)
            for op in ("neg", "abs", "len", "tos", "tosint", "small", "sgn"):
                L.append("%s %s" % (op, x))
    # ---- machine integer round trips
    mi = set()
    for k in range(0, 64):
        for d in (-2, -1, 0, 1, 2):
            for s in (1, -1):
                v = s * ((1 << k) + d)
                if -(1 << 63) <= v < (1 << 63):
                    mi.add(v)
    mi |= {-(1 << 63), (1 << 63) - 1, MAXI, -MAXI, MAXI + 1, -MAXI - 1}
    for v in sorted(mi):
        L.append("rt %d" % v)
        L.append("new %d" % v)
    for _ in range(400 if not th else 20000):
        L.append("rt %d" % wrap64(rng.getrandbits(rng.randint(1, 64)) * rng.choice((1, -1))))
    # ---- binary operations: boundary pairs
    def pick_special():
        return rng.choice(allspecial) * rng.choice((1, -1))
    nb = 2500 if not th else 100000
    for _ in range(nb):
        a, b = pick_special(), pick_special()
        op = rng.choice(("plus", "minus", "times", "cmp", "div", "mod", "gcd"))
        L.append("%s %s %s" % (op, hx(a), hx(b)))
    # neighbours: a and a+δ (borrow/normalisation, equal lengths)
    for _ in range(1200 if not th else 40000):
        a = pick_special() if rng.random() < 0.5 else signed(rng, rand_value(rng, 400))
        b = a + rng.choice((-2, -1, 0, 1, 2)) if rng.random() < 0.7 else -a + rng.choice((-1, 0, 1))
        op = rng.choice(("plus", "minus", "cmp", "div", "mod", "times", "gcd"))
        L.append("%s %s %s" % (op, hx(a), hx(b)))
    # ---- random operands up to 4000 bits, all sign combinations
    nr = 4000 if not th else 200000
    for _ in range(nr):
        a, b = signed(rng, rand_value(rng)), signed(rng, rand_value(rng))
        op = rng.choice(("plus", "minus", "times", "cmp", "div", "div", "mod", "mod"))
        L.append("%s %s %s" % (op, hx(a), hx(b)))
    for _ in range(300 if not th else 10000):
        a, b = signed(rng, rand_value(rng, 1500)), signed(rng, rand_value(rng, 1500))
        L.append("gcd %s %s" % (hx(a), hx(b)))
        if rng.random() < 0.3:
            g = rand_value(rng, 200)
            L.append("gcd %s %s" % (hx(a * g), hx(b * g)))
    # same object twice
    for _ in range(300 if not th else 5000):
        a = pick_special() if rng.random() < 0.5 else signed(rng, rand_value(rng, 600))
        L.append("self %s %s" % (rng.choice(("plus", "minus", "times", "cmp", "div")), hx(a)))
    # ---- division: crafted for Algorithm D's rare branches
    for _ in range(3000 if not th else 100000):
        u, v = knuth_operands(rng)
        if v == 0:
            continue
        L.append("%s %s %s" % (rng.choice(("div", "div", "div", "mod")), hx(signed(rng, u)), hx(signed(rng, v))))
    # divisors of one digit, of two digits below 2^63 (bintModi's long branch), and immediate ones
    for _ in range(1500 if not th else 50000):
        a = signed(rng, rand_value(rng, 2000))
        r = rng.random()
        if r < 0.4:
            b = rng.choice((1, 2, 3, 10, 1000000000, B - 1, B - 2, 0x80000000, 0x7fffffff, rng.randrange(1, B)))
        elif r < 0.8:
            b = rng.choice((B, B + 1, MAXI, MAXI + 1, MAXI + 2, (1 << 63) - 1, (1 << 62) + 1, (1 << 63) - (1 << 20),
                            rng.randrange(B, 1 << 63), rng.randrange(1 << 62, 1 << 63)))
        else:
            b = rng.choice((1 << 63, (1 << 63) + 1, (1 << 64) - 1, 1 << 64, rng.randrange(1 << 63, 1 << 65)))
        L.append("%s %s %s" % (rng.choice(("div", "mod", "mod")), hx(a), hx(signed(rng, b))))
    for _ in range(400 if not th else 20000):
        d = rng.choice((1, 2, B - 1, B, B + 1, (1 << 63) - 1, 1 << 63, M64, rng.randrange(1, B), rng.randrange(B, 1 << 64),
                        rng.randrange(1 << 62, 1 << 64), (1 << 62) + 1, (1 << 32) + rng.randrange(100)))
        nh = rng.choice((0, 1, d - 1 if d > 1 else 0, rng.getrandbits(64), rng.getrandbits(rng.randint(1, 64))))
        nl = rng.choice((0, M64, rng.getrandbits(64)))
        L.append("xmd %x %x %x" % (nh, nl, d))
    # ---- shifts, bits, lengths
    for _ in range(3000 if not th else 100000):
        a = pick_special() if rng.random() < 0.4 else signed(rng, rand_value(rng, 700))
        la = max(1, abs(a).bit_length())
        r = rng.random()
        if r < 0.35:
            n = rng.randint(-la - 3, 70)
        elif r < 0.7:
            n = rng.choice((-64, -63, -33, -32, -31, -1, 0, 1, 31, 32, 33, 63, 64, 65, 96, 128)) + rng.choice((0, 0, 1, -1))
        else:
            n = rng.choice((1, -1)) * 32 * rng.randint(0, 6) + (-(la % 32) if rng.random() < 0.5 else rng.randint(0, 31))
        L.append("shift %s %d" % (hx(a), n))
    for _ in range(1000 if not th else 30000):
        a = pick_special() if rng.random() < 0.4 else signed(rng, rand_value(rng, 400))
        L.append("bit %s %d" % (hx(a), rng.choice((0, 1, 30, 31, 32, 33, 61, 62, 63, 64, 65, rng.randint(0, 450)))))
        L.append("len %s" % hx(a))
    for k in range(0, 65):
        for d in (-1, 0, 1):
            u = (1 << k) + d
            if 0 <= u <= M64:
                L.append("ulen %x" % u)
    # ---- powers
    for _ in range(250 if not th else 8000):
        a = signed(rng, rng.choice((0, 1, 2, 3, 10, B - 1, B, MAXI, MAXI + 1, rng.getrandbits(rng.randint(1, 120)))))
        e = rng.choice((0, 1, 2, 3, 4, 5, 7, 8, 15, 16, 17, 31, 32, 33, rng.randint(0, 40)))
        if abs(a).bit_length() * e > 6000:
            e = max(1, 6000 // max(1, abs(a).bit_length()))
        if rng.random() < 0.5:
            L.append("sipow %s %d" % (hx(a), e))
        else:
            L.append("bipow %s %s" % (hx(a), hx(e)))
    for _ in range(250 if not th else 8000):
        a = signed(rng, rand_value(rng, 300))
        e = rng.choice((0, 1, 2, 3, 65537, rng.getrandbits(rng.randint(1, 150))))
        c = signed(rng, rng.choice((2, 3, B - 1, B, B + 1, MAXI, MAXI + 2, (1 << 63) - 25, 1 << 64, rand_value(rng, 300) + 2)))
        L.append("powmod %s %s %s" % (hx(a), hx(e), hx(c)))
    for c in (1, -1):
        for a in (0, 1, -1, 5, -(1 << 70)):
            for e in (0, 1, 2):
                L.append("powmod %s %s %s" % (hx(a), hx(e), hx(c)))
    for _ in range(200 if not th else 5000):
        a, b, c = (signed(rng, rand_value(rng, 300)) for _ in range(3))
        L.append("tplus %s %s %s" % (hx(a), hx(b), hx(c)))
    # ---- low bits (bintShiftRem): counts within the operand's length (beyond it the stored case reads places it
    # does not own)
    for _ in range(400 if not th else 10000):
        a = rng.choice(allspecial) if rng.random() < 0.4 else rand_value(rng, 400)
        la = max(1, a.bit_length())
        n = rng.choice((1, 2, 30, 31, 32, 33, 61, 62, 63, 64, 65, 96, rng.randint(1, la))) if abs(a) <= MAXI else \
            min(la, rng.choice((1, 31, 32, 33, 63, 64, 65, 96, rng.randint(1, la))))
        L.append("shrem %s %d" % (hx(a), n))
    # ---- text
    for _ in range(1500 if not th else 40000):
        v = pick_special() if rng.random() < 0.4 else signed(rng, rand_value(rng, 1200))
        r = rng.random()
        if r < 0.3:
            L.append("tos %s" % hx(v))
        elif r < 0.55:
            s = ("-" if v < 0 else "") + "0" * rng.choice((0, 0, 1, 5)) + str(abs(v)) + rng.choice(("", "", "x", ".5", "r"))
            L.append("scan %s" % (rng.choice(("", "", "_", "__")) + s))
        else:
            radix = rng.choice((2, 3, 7, 8, 10, 16, 32, 36, rng.randint(2, 36)))
            sg = "-" if v < 0 else rng.choice(("", "+"))
            if rng.random() < 0.35:
                s = sg + str(abs(v))
            else:
                s = sg + "%dr%s" % (radix, "0" * rng.choice((0, 0, 2)) + to_radix(abs(v), radix))
            L.append("frs %s" % (rng.choice(("", "", "_")) + s + rng.choice(("", "", "!", "_"))))
    for s in ("r12", "1r0", "37r1", "0r1", "36rZZ", "2r", "10r", "-", "+", "", "abc", "-0", "+0", "00", "2r0", "-2r0",
              "10r" + "0" * 40, "-10r" + "0" * 40, "2r" + "1" * 62, "2r" + "1" * 63, "-2r" + "1" * 62, "36r" + "Z" * 10,
              "36r" + "Z" * 11, "16r" + "F" * 15, "16r" + "F" * 16):
        L.append("frs %s" % s if s else "frs _")
        L.append("scan %s" % s if s else "scan _")
    return L

# ------------------------------------------------------------------ the executable property
def oracle(toks, ans):
    """returns None when the implementation's answer `ans` is the exact result, else a reason"""
    op = toks[0]
    A = lambda i: int(toks[i].replace("-", "-0x") if toks[i].startswith("-") else "0x" + toks[i], 16)
    def norm(s, want, what="result"):
        v, rep = parse_b(s)
        if v != want:
            return "%s %s, exact %s" % (what, hx(v), hx(want))
        if s.startswith("-0/") or s.startswith("-/"):
            return "%s is a negative zero (%s)" % (what, s)
        if rep != rep_of(want):
            return "%s %s has representation %s, normal form is %s" % (what, hx(v), rep, rep_of(want))
        return None
    if op == "self":
        return oracle([toks[1], toks[2], toks[2]], ans)
    if op == "consts":
        return None
    if op == "new":
        return norm(ans, int(toks[1]))
    if op == "rt":
        n, b = ans.split(" ")
        if int(n) != int(toks[1]):
            return "round trip gives %s" % n
        return norm(b, int(toks[1]))
    if op == "tosint":
        a = A(1)
        if -(1 << 63) <= a < (1 << 63) and int(ans) != a:
            return "machine integer %s, exact %d" % (ans, a)
        return None
    if op == "small":
        a = A(1)
        f, v = ans.split(" ")
        if f != ("1" if abs(a) <= MAXI else "0"):
            return "bintIsSmall = %s for %s" % (f, hx(a))
        if -(1 << 63) <= a < (1 << 63) and int(v) != a:
            return "bintSmall = %s, exact %d" % (v, a)
        return None
    if op == "cmp":
        a, b = A(1), A(2)
        want = "%d%d%d" % (a == b, a < b, a > b)
        return None if ans == want else "EQ/LT/GT = %s, exact %s" % (ans, want)
    if op == "sgn":
        a = A(1)
        want = "%d%d%d" % (a == 0, a < 0, a > 0)
        return None if ans == want else "IsZero/IsNeg/IsPos = %s, exact %s" % (ans, want)
    if op == "neg": return norm(ans, -A(1))
    if op == "abs": return norm(ans, abs(A(1)))
    if op == "plus": return norm(ans, A(1) + A(2))
    if op == "minus": return norm(ans, A(1) - A(2))
    if op == "times": return norm(ans, A(1) * A(2))
    if op == "tplus": return norm(ans, A(1) * A(2) + A(3))
    if op == "div":
        a, b = A(1), A(2)
        if b == 0:
            return None if ans == "div-by-zero" else "no division by zero reported"
        q, r = ans.split(" ")
        return norm(q, tdiv(a, b), "quotient") or norm(r, tmod(a, b), "remainder")
    if op == "mod":
        a, b = A(1), A(2)
        if b == 0:
            return None if ans == "div-by-zero" else "no division by zero reported"
        # fiBIntMod is fiBIntRem: the remainder carries the dividend's sign
        return norm(ans, tmod(a, b))
    if op == "gcd": return norm(ans, math.gcd(A(1), A(2)))
    if op == "sipow": return norm(ans, A(1) ** int(toks[2]))
    if op == "bipow": return norm(ans, A(1) ** A(2))
    if op == "powmod":
        a, e, c = A(1), A(2), A(3)
        if c == 0:
            return None if ans == "div-by-zero" else "no division by zero reported"
        if e < 0:
            return None
        s = -1 if (a < 0 and e % 2 == 1) else 1
        return norm(ans, s * pow(abs(a), e, abs(c)))
    if op == "len":
        a = A(1)
        want = "%d %d" % (length_c(a), length_c(a) < 64)
        return None if ans == want else "length/single = %s, exact %s" % (ans, want)
    if op == "bit":
        a, i = A(1), int(toks[2])
        want = "%d" % ((abs(a) >> i) & 1)
        return None if ans == want else "bit = %s, exact %s" % (ans, want)
    if op == "shift":
        a, n = A(1), int(toks[2])
        want = sgn(a) * (abs(a) << n if n >= 0 else abs(a) >> -n)
        return norm(ans, want)
    if op == "shrem":
        a, n = A(1), int(toks[2])
        return norm(ans, abs(a) & ((1 << n) - 1)) if a >= 0 else None
    if op == "tos":
        return None if ans == str(A(1)) else "text %s, exact %s" % (ans[:80], str(A(1))[:80])
    if op in ("frs", "scan"):
        s = toks[1].replace("_", " ")
        want = ref_scan(s, op == "frs")
        if want is None:
            return None            # outside the documented format: nothing promised
        b, e = ans.split(" ")
        return norm(b, want[0]) or (None if int(e) == want[1] else "end offset %s, expected %d" % (e, want[1]))
    if op == "xmd":
        nh, nl, d = (int(t, 16) for t in toks[1:])
        if d == 0:
            return None
        want = ((nh << 64) | nl) % d
        return None if int(ans, 16) == want else "xxModDouble = %s, exact %x" % (ans, want)
    if op == "ulen":
        u = int(toks[1], 16)
        return None if int(ans) == max(1, u.bit_length()) else "uintLength = %s" % ans
    return "unknown request"

def ref_scan(s, radix_ok):
    """reference reading of RRrWW / decimal text: (value, end offset), None when not well formed"""
    i = 0
    while i < len(s) and s[i] in " \t\n\r\v\f":
        i += 1
    neg = False
    if i < len(s) and (s[i] == "-" or (radix_ok and s[i] == "+")):
        neg = s[i] == "-"
        i += 1
    j = i
    while j < len(s) and s[j].isdigit():
        j += 1
    if radix_ok and j < len(s) and s[j] == "r":
        if j == i:
            return None
        radix = int(s[i:j])
        if not 2 <= radix <= 36:
            return None
        k = j + 1
        while k < len(s) and (s[k].isdigit() or ("A" <= s[k] <= "Z")):
            k += 1
        w = s[j + 1:k]
        if not w or any(DIGCH.index(c) >= radix for c in w):
            return None
        if radix == 16 and len(w) > 1 and w[1] == "X":
            return None
        v = 0
        for c in w:
            v = v * radix + DIGCH.index(c)
        return (-v if neg else v), k
    if j == i:
        return (0, j)
    v = int(s[i:j])
    return (-v if neg else v), j

# ------------------------------------------------------------------ run
def run_impl_bounded(exe, lines, chunk=4000, timeout=30, max_faults=12):
    """like common.run_impl_lines, but in chunks with a short timeout, so that an implementation that
    hangs or crashes on many requests costs minutes, not hours: after `max_faults` faults the remaining
    requests are answered SKIPPED (the faults found so far are reported)."""
    outs = []
    faults = 0
    i = 0
    n = len(lines)
    while i < n:
        part = lines[i:i + chunk]
        rc, out, err = common.run([exe], inp="\n".join(part) + "\n", timeout=timeout)
        if isinstance(out, bytes):      # a timed out run hands back what it captured as bytes
            out = out.decode("utf-8", "replace")
        if isinstance(err, bytes):
            err = err.decode("utf-8", "replace")
        got = out.split("\n")
        if got and got[-1] == "":
            got.pop()
        if rc == 0 and len(got) == len(part):
            outs.extend(got)
            i += len(part)
            continue
        k = min(len(got), len(part))
        if not out.endswith("\n") and k > 0:
            k -= 1
        outs.extend(got[:k])
        i += k
        if i >= n:
            break
        tail = (err or "").strip().split("\n")[-1][:200] if err else ""
        outs.append("FAULT(%s)%s" % (rc, (" " + tail) if tail else ""))
        i += 1
        faults += 1
        if faults >= max_faults:
            outs.extend(["SKIPPED"] * (n - len(outs)))
            break
    return outs

def run_part(ctx, build):
    exe = build.cc_driver("bigint_drv", os.path.join(VERIF, "harness", "bigint_drv.c"))
    rng = ctx.rng
    lines = []
    corp = os.path.join(VERIF, "corpus", "bigint")
    if os.path.isdir(corp):
        for f in sorted(os.listdir(corp)):
            lines += [l.strip() for l in open(os.path.join(corp, f)) if l.strip() and not l.startswith("#")]
    ncorpus = len(lines)
    lines += gen_requests(rng, ctx.tier)
    c = run_impl_bounded(exe, lines, timeout=30 if ctx.tier == "quick" else 120)
    m, tags = common.split_model(common.run_model("bigint", "\n".join(lines) + "\n"))
    assert len(m) == len(lines), (len(m), len(lines))
    stats = {"lines": len(lines), "corpus": ncorpus, "mismatch": 0, "faults": 0, "property_checked": 0,
             "ops": {}, "tags": common.tag_hist(tags)}
    seen = set()
    for k, ln in enumerate(lines):
        toks = ln.split()
        co = c[k] if k < len(c) else "MISSING"
        mo = m[k]
        stats["ops"][toks[0]] = stats["ops"].get(toks[0], 0) + 1
        seen.add(co)
        if co == "SKIPPED":
            stats["skipped"] = stats.get("skipped", 0) + 1
            continue
        if co.startswith("FAULT") or co == "MISSING":
            stats["faults"] += 1
            ctx.finding("bigint|fault|" + toks[0], "bigint code faults (%s) on: %s" % (co, ln[:300]),
                        {"kind": "impl-fault", "driver": "harness/bigint_drv.c", "line": ln, "impl": co, "model": mo})
            continue
        try:
            why = oracle(toks, co)
        except Exception as e:
            why = "unparsable driver output %r (%s)" % (co[:100], e)
        stats["property_checked"] += 1
        if co != mo:
            stats["mismatch"] += 1
            if why is not None:
                ctx.finding("bigint|inexact|" + toks[0], "`%s` -> %s is wrong: %s (model: %s)" % (ln[:300], co[:200], why[:300], mo[:200]),
                            {"kind": "impl-violates-property", "line": ln, "impl": co, "model": mo, "why": why,
                             "replay_cmd": "echo '<line>' | <bigint_drv built by ./check C11>"})
            else:
                ctx.corr_broken.append((NAME, ln, co, mo))
        elif why is not None:
            sig = known_signature(toks, co)
            if sig:
                ctx.finding(sig[0], sig[1] + " e.g. `%s` -> %s: %s" % (ln[:200], co[:100], why[:200]),
                            {"kind": "impl-violates-property", "line": ln, "impl": co, "why": why})
            else:
                ctx.violation("bigint|model-and-impl-wrong|" + toks[0],
                              "implementation and model agree on `%s` -> %s but %s (contradicts the theorems: model/driver defect)" % (ln[:300], co[:200], why[:300]),
                              {"kind": "inconsistent", "line": ln, "impl": co, "why": why})
        if k % 1500 == 11:
            ctx.sample({"module": NAME, "request": ln[:200], "impl": co[:200], "model": mo[:200], "tags": tags[k]})
    stats["distinct_results"] = len(seen)
    ctx.cov[NAME] = stats
    ctx.cov["evaluations"] += len(lines)
    ctx.cov["distinct_nontrivial"] += len(seen)
    return stats

def known_signature(toks, ans):
    """deviations from exactness that model and implementation share (the theorems about them are `_partial`
    and carry a `_statement_refuted` twin)"""
    if toks[0] == "shrem":
        return ("bigint|shiftrem-mask",
                "bintShiftRem builds its mask as `(1 << n) - 1` in type int: immediate operands lose bits for n >= 32, "
                "stored operands lose the whole top place when n is a multiple of 32")
    return None
