"""part `typing` (C06): ill-typed programs are rejected, well-typed ones accepted.

Lean: Model/MiniTy.lean (typed core, checker, mutation catalogue, renderer), Model/EmitGate.lean
(no back end after errors), Props/C06.lean.  Tie: END TO END.  A python generator builds
well-typed programs of the modelled core (python keeps its own small copy of the resolution
rules, an independent oracle); the Lean driver typechecks them, renders them and enumerates
ALL eligible (kind, site) mutants with the span of the mutated construct; the real compiler is
run on the original (must be accepted, outputs present) and on every mutant (must be rejected:
exit != 0, an `(Error)` line positioned in the span, no .ao/.c/.fm/.lsp left behind).

POSITION RULE.  A mutant passes if some `[L<l> C<c>] … (Error)` line lies
  tight: inside the span of the mutated construct (the application / variable / statement /
         `add` body at the site), or
  loose: inside the span of the statement enclosing the site (the compiler reports some
         faults at the statement, e.g. at the `:=`).
Anything else is `wrong-position`.  Both counts are reported per kind in the evidence
(coverage.typing.per_kind; on the unchanged tree every mutant so far passed by the tight rule).

Also tied on every run: the decision model of "no back end after errors" (Model/EmitGate.lean) -
for every compile the set of back-end outputs left behind is compared with the model's answer
for (number of `(Error)` lines, -F selection), plus a small sweep over other -F selections.

Family constraints that are not typing rules (Prog.familyOk, checked by the driver): distinct
names; `import` and file-level statements follow the `add` definitions (the compiler's
"implementation restriction: cannot use a non-lazy constant outside an `add` before it has been
defined"); the header imports MachineInteger, Integer, Boolean, String (literals need them).
Quick tier: whole programs until ~3000 compiler runs; of the (up to 3) wrong literal types for one
argument one is compiled (all in thorough).  VERIF_TYPING_BUDGET overrides the number of runs.
"""
import json, os, re
from vlib import common, aldor

NAME = "typing"
BUILD_TARGETS = ["AldorVerif.Props.C06"]
SOURCES = ["tinfer.c", "ti_bup.c", "ti_tdn.c", "tfsat.c", "terror.c", "scobind.c", "abcheck.c",
           "comsg.c", "axlcomp.c", "emit.c"]
MODELLED = ("END-TO-END on generated programs and all their single-fault mutants; modelled in Lean: the typed core "
            "language (not tinfer.c) and axlcomp.c:compIsMoreAfterSyntax/compSourceFile gate, emit.c:emitDoneOptions/"
            "emitCleanup decision (not: tiBottomUp, tiTopDown, tfSat, scobind, abcheck)")
THEOREMS = [("AldorVerif.Props.C06", "AldorVerif.MiniTy." + t) for t in (
    "checker_sound_complete", "mutant_ill_typed", "mutant_ill_typed_wrongArgType",
    "mutant_ill_typed_wrongArgCount", "mutant_ill_typed_undefinedName", "mutant_ill_typed_ambiguous",
    "mutant_ill_typed_assignConst", "mutant_ill_typed_wrongReturnType", "mutant_ill_typed_missingExport",
    "mutant_ill_typed_paramLacksOp", "mutant_not_well_typed")] + \
    [("AldorVerif.Props.C06", "AldorVerif.EmitGate." + t) for t in (
    "no_outputs_after_error", "outputs_iff_no_error", "no_link_after_error", "cleanup_removes_partial")]

KINDS = ["wrongArgType", "wrongArgCount", "undefinedName", "ambiguous", "assignConst", "wrongReturnType",
         "missingExport", "paramLacksOp"]
TYS = ["m", "i", "b", "s"]
FLAGS = ["ao", "c", "fm"]
CODE_EXT = (".ao", ".c", ".fm", ".lsp", ".o", ".java", ".asy")
RS, NL = "\x1e", "\x1f"

# ----------------------------------------------------------------------------- python copy of the rules
class Env:
    def __init__(self, g, locals_=None, in_fun=False, param=None, sibs=()):
        self.g, self.locals, self.in_fun, self.param, self.sibs = g, dict(locals_ or {}), in_fun, param, list(sibs)

def global_env(prog):
    g = {"cats": {}, "doms": {}, "imports": [], "funcs": [], "vals": {}}
    for d in prog:
        if d[0] == "C": g["cats"].setdefault(d[1], d[2])
        elif d[0] == "D": g["doms"].setdefault(d[1], d[2])
        elif d[0] == "U": g["funcs"].append(sig_of(d[1]))
        elif d[0] == "I": g["imports"].append(d[1])
        elif d[0] == "S" and d[1][0] in "cv": g["vals"].setdefault(d[1][1], (d[1][2], d[1][0] == "c"))
    return g

def sig_of(fd):
    return (fd["name"], tuple(t for _, t in fd["params"]), fd["res"])

def meanings(env, f, q):
    g = env.g
    if q is None:
        sibs = [s for s in env.sibs if s[0] == f]
        outer = [("top", s) for s in g["funcs"] if s[0] == f]
        for d in g["imports"]:
            outer += [("dom:" + d, s) for s in g["cats"].get(g["doms"].get(d), []) if s[0] == f]
        return [("sib", s) for s in sibs] + [m for m in outer if m[1] not in sibs]
    if env.param and env.param[0] == q:
        return [("par", s) for s in g["cats"].get(env.param[1], []) if s[0] == f]
    return [("dom:" + q, s) for s in g["cats"].get(g["doms"].get(q), []) if s[0] == f]

def lookup(env, x):
    if x in env.locals: return env.locals[x]
    return env.g["vals"].get(x)

def poss(env, e):
    """set of possible types (tiBottomUp)"""
    if e[0] == "L": return {e[1]}
    if e[0] == "V":
        v = lookup(env, e[1]); return {v[0]} if v else set()
    ps = [poss(env, a) for a in e[3]]
    return {s[2] for _, s in meanings(env, e[1], e[2])
            if len(s[1]) == len(ps) and all(t in p for t, p in zip(s[1], ps))}

def well_typed(env, e, t):
    """unique resolution top-down (tiTopDown)"""
    if e[0] == "L": return e[1] == t
    if e[0] == "V":
        v = lookup(env, e[1]); return bool(v) and v[0] == t
    ps = [poss(env, a) for a in e[3]]
    c = [s for _, s in meanings(env, e[1], e[2])
         if s[2] == t and len(s[1]) == len(ps) and all(x in p for x, p in zip(s[1], ps))]
    return len(c) == 1 and all(well_typed(env, a, x) for a, x in zip(e[3], c[0][1]))

# ----------------------------------------------------------------------------- generator
class Gen:
    def __init__(self, rng, size):
        self.rng, self.size = rng, size
        self.depth = 2 if size < 2 else 3
        self.ctr = 0

    def fresh(self, p):
        self.ctr += 1
        return "%s%d" % (p, self.ctr)

    def rty(self):
        return self.rng.choice(TYS)

    def program(self):
        rng = self.rng
        # operator pool: a name has one primary signature; some names get a second one
        nops = rng.randint(3, 4 + self.size)
        ops = {}
        for k in range(nops):
            name = "op%d" % k
            args = tuple(self.rty() for _ in range(rng.choice((0, 1, 1, 2, 2, 3))))
            ops[name] = [(name, args, self.rty())]
            r = rng.random()
            if r < 0.15:      # overloaded on the result type only
                ops[name].append((name, args, rng.choice([t for t in TYS if t != ops[name][0][2]])))
            elif r < 0.25 and args:   # overloaded on an argument type
                a2 = list(args); i = rng.randrange(len(a2)); a2[i] = rng.choice([t for t in TYS if t != a2[i]])
                ops[name].append((name, tuple(a2), self.rty()))
        names = list(ops)
        ncats = rng.randint(2, 2 + self.size)
        cats = []
        for k in range(ncats):
            chosen = rng.sample(names, rng.randint(1, min(4, len(names))))
            sigs = []
            for n in chosen:
                ss = ops[n] if rng.random() < 0.5 else [ops[n][0]]
                sigs += ss
            cats.append(("C", "Cat%d" % k, sigs))
        prog = list(cats)
        ndoms = rng.randint(2, 2 + self.size)
        doms = []
        share = rng.random() < 0.7      # two imported domains of one category: sites for `ambiguous`
        for k in range(ndoms):
            c = doms[0][2] if (share and k == 1) else rng.choice(cats)[1]
            doms.append(["D", "Dom%d" % k, c, None])
        functors = []
        for k in range(rng.randint(1, 1 + self.size // 2)):
            functors.append(["F", "Fun%d" % k, "T%d" % k, rng.choice(cats)[1], rng.choice(cats)[1], None])
        imports = [("I", d[1]) for k, d in enumerate(doms) if (share and k < 2) or rng.random() < 0.7]
        funcs = []
        for k in range(rng.randint(1, 1 + self.size)):
            name = "fn%d" % k
            params = [(self.fresh("a"), self.rty()) for _ in range(rng.choice((0, 1, 2, 2, 3)))]
            fd = {"name": name, "params": params, "res": self.rty(), "body": None}
            funcs.append(fd)
            if rng.random() < 0.2:   # result-type overload of a file-level function
                funcs.append({"name": name, "params": [(self.fresh("a"), t) for _, t in params],
                              "res": rng.choice([t for t in TYS if t != fd["res"]]), "body": None})
        # file-level values (defined in this order; later statements may use earlier ones)
        gvals = []
        for k in range(rng.randint(2, 3 + self.size)):
            gvals.append((rng.choice("cvv"), self.fresh("g"), self.rty()))
        catmap = {c[1]: c[2] for c in cats}
        # skeleton environment (bodies do not matter for it)
        skel = list(cats)
        for d in doms:
            d[3] = [self.fundef_skel(s) for s in catmap[d[2]]]
            if rng.random() < 0.5:
                d[3].append({"name": self.fresh("pv"), "params": [(self.fresh("a"), self.rty())],
                             "res": self.rty(), "body": None})
        for f in functors:
            f[5] = [self.fundef_skel(s) for s in catmap[f[4]]]
        g = global_env(skel + [tuple(d[:3]) + ([],) for d in doms] + imports +
                       [("U", fd) for fd in funcs] + [("S", (k, x, t, None)) for k, x, t in gvals])
        self.g = g
        # bodies
        for d in doms:
            sibs = [sig_of(fd) for fd in d[3]]
            for fd in d[3]:
                self.fill(fd, Env(g, sibs=sibs))
        for f in functors:
            sibs = [sig_of(fd) for fd in f[5]]
            for fd in f[5]:
                self.fill(fd, Env(g, param=(f[2], f[3]), sibs=sibs))
        for fd in funcs:
            self.fill(fd, Env(g))
        top = []
        env = Env(dict(g, vals={}))        # only values defined so far are used
        for k, x, t in gvals:
            top.append(("S", (k, x, t, self.expr(env, t, self.depth))))
            env.g["vals"][x] = (t, k == "c")
            if rng.random() < 0.5:
                vs = [(n, v) for n, v in env.g["vals"].items() if not v[1]]
                if vs:
                    n, v = rng.choice(vs)
                    top.append(("S", ("a", n, self.expr(env, v[0], self.depth))))
        for _ in range(rng.randint(1, 3)):
            vs = [(n, v) for n, v in env.g["vals"].items() if not v[1]]
            if vs:
                n, v = rng.choice(vs)
                top.append(("S", ("a", n, self.expr(env, v[0], self.depth))))
        adds = [tuple(d) for d in doms] + [tuple(f) for f in functors]
        rng.shuffle(adds)
        rest = imports + [("U", fd) for fd in funcs]
        rng.shuffle(rest)
        funs_first = [("U", fd) for fd in funcs if rng.random() < 0.3]      # functions are lazy: may come first
        decls = funs_first + adds + [d for d in rest if not any(d is x for x in funs_first)]
        decls = [d for i, d in enumerate(decls) if not any(d[0] == "U" and e[0] == "U" and d[1] is e[1] for e in decls[:i])]
        # statements and imports after the domains: a domain cannot be used outside an `add` before its definition
        # ("implementation restriction" of the compiler, not a typing rule; Prog.familyOk checks it)
        return prog + decls + top

    def fundef_skel(self, s):
        return {"name": s[0], "params": [(self.fresh("a"), t) for t in s[1]], "res": s[2], "body": None}

    def fill(self, fd, env):
        rng = self.rng
        env = Env(env.g, {x: (t, False) for x, t in fd["params"]}, True, env.param, env.sibs)
        body = []
        for _ in range(rng.randint(0, 2 + self.size // 2)):
            r = rng.random()
            assignable = [(x, v) for x, v in env.locals.items() if not v[1]]
            if r < 0.45 or not assignable:
                k = "c" if rng.random() < 0.35 else "v"
                x, t = self.fresh("l"), self.rty()
                body.append((k, x, t, self.expr(env, t, self.depth)))
                env.locals[x] = (t, k == "c")
            else:
                x, v = rng.choice(assignable)
                body.append(("a", x, self.expr(env, v[0], self.depth)))
        body.append(("r", self.expr(env, fd["res"], self.depth)))
        fd["body"] = body

    def callables(self, env, t):
        """(f, q, sig) such that a call can have result type t"""
        g = env.g
        out = []
        for s in g["funcs"]:
            if s[2] == t: out.append((s[0], None, s))
        for s in env.sibs:
            if s[2] == t: out.append((s[0], None, s))
        for d, c in g["doms"].items():
            for s in g["cats"].get(c, []):
                if s[2] == t:
                    out.append((s[0], d, s))
                    if d in g["imports"]: out.append((s[0], None, s))
        if env.param:
            for s in g["cats"].get(env.param[1], []):
                if s[2] == t: out.append((s[0], env.param[0], s))
        return out

    def expr(self, env, t, depth):
        rng = self.rng
        for _ in range(6):
            r = rng.random()
            if depth > 0 and r < 0.62:
                cs = self.callables(env, t)
                if env.param and rng.random() < 0.4:      # prefer the functor parameter's operations
                    cs = [c for c in cs if c[1] == env.param[0]] or cs
                elif rng.random() < 0.35:                 # prefer `$D` calls that several imports could also serve
                    cs = [c for c in cs if c[1] is not None and len(meanings(env, c[0], None)) >= 2] or cs
                if cs:
                    f, q, s = rng.choice(cs)
                    e = ("A", f, q, [self.expr(env, a, depth - 1) for a in s[1]])
                    if well_typed(env, e, t):
                        return e
                    continue
            vs = [x for x, v in list(env.locals.items()) + list(env.g["vals"].items()) if v[0] == t]
            if vs and r < 0.85:
                return ("V", rng.choice(vs))
            break
        return ("L", t, rng.randint(0, 9))

def seed_program():
    """fixed program exercising every catalogue kind (checked first in every run)"""
    mi = "m"
    def fd(name, params, res, body): return {"name": name, "params": params, "res": res, "body": body}
    V, L = (lambda x: ("V", x)), (lambda t, n: ("L", t, n))
    def A(f, q, *a): return ("A", f, q, list(a))
    return [
        ("C", "Cat0", [("f0", (mi,), mi), ("g0", (mi, "b"), "b"), ("g0", (mi, "b"), "s")]),
        ("C", "Cat1", [("f0", (mi,), mi), ("h1", ("i",), "i")]),
        ("D", "Dom0", "Cat0", [
            fd("f0", [("x", mi)], mi, [("r", V("x"))]),
            fd("g0", [("x", mi), ("b", "b")], "b", [("r", V("b"))]),
            fd("g0", [("x", mi), ("b", "b")], "s", [("r", L("s", 1))])]),
        ("D", "Dom1", "Cat1", [
            fd("f0", [("x", mi)], mi, [("r", L(mi, 1))]),
            fd("h1", [("x", "i")], "i", [("r", V("x"))])]),
        ("F", "Fun0", "T", "Cat0", "Cat1", [
            fd("f0", [("x", mi)], mi, [("r", A("f0", "T", A("f0", "T", V("x"))))]),
            fd("h1", [("x", "i")], "i", [
                ("v", "lb", "b", A("g0", "T", L(mi, 3), L("b", 0))),
                ("v", "ls", "s", A("g0", "T", L(mi, 3), V("lb"))),
                ("r", V("x"))])]),
        ("I", "Dom0"), ("I", "Dom1"),
        ("S", ("c", "k", mi, L(mi, 3))),
        ("S", ("v", "v", mi, L(mi, 4))),
        ("S", ("v", "i", "i", L("i", 4))),
        ("U", fd("top0", [("a", mi), ("s", "s")], mi, [
            ("v", "w", mi, V("a")),
            ("c", "lk", mi, A("f0", "Dom0", V("k"))),
            ("a", "w", A("f0", "Dom1", A("f0", "Dom0", V("k")))),
            ("v", "j", "i", A("h1", None, V("i"))),
            ("r", V("w"))])),
        ("S", ("a", "v", A("f0", "Dom0", V("v")))),
        ("S", ("a", "v", A("top0", None, V("v"), L("s", 7)))),
    ]

# ----------------------------------------------------------------------------- serialisation
def ser_expr(e, out):
    if e[0] == "L": out += ["L", e[1], str(e[2])]
    elif e[0] == "V": out += ["V", e[1]]
    else:
        out += ["A", e[1], e[2] or "-", str(len(e[3]))]
        for a in e[3]: ser_expr(a, out)

def ser_stmt(s, out):
    if s[0] in "cv": out += [s[0], s[1], s[2]]; ser_expr(s[3], out)
    elif s[0] == "a": out += ["a", s[1]]; ser_expr(s[2], out)
    else: out += ["r"]; ser_expr(s[1], out)

def ser_def(fd, out):
    out += [fd["name"], str(len(fd["params"]))]
    for x, t in fd["params"]: out += [x, t]
    out += [fd["res"], str(len(fd["body"]))]
    for s in fd["body"]: ser_stmt(s, out)

def ser_prog(p):
    out = ["P", str(len(p))]
    for d in p:
        if d[0] == "C":
            out += ["C", d[1], str(len(d[2]))]
            for s in d[2]: out += [s[0], str(len(s[1]))] + list(s[1]) + [s[2]]
        elif d[0] == "D":
            out += ["D", d[1], d[2], str(len(d[3]))]
            for fd in d[3]: ser_def(fd, out)
        elif d[0] == "F":
            out += ["F", d[1], d[2], d[3], d[4], str(len(d[5]))]
            for fd in d[5]: ser_def(fd, out)
        elif d[0] == "U": out += ["U"]; ser_def(d[1], out)
        elif d[0] == "I": out += ["I", d[1]]
        else: out += ["S"]; ser_stmt(d[1], out)
    return " ".join(out)

def parse_answer(line):
    res, _, tags = line.partition("\t")
    recs = res.split(RS)
    head = recs[0].split("|")
    out = {"verdict": head[0], "head": head, "text": recs[1].replace(NL, "\n") + "\n" if len(recs) > 1 else "",
           "mutants": [], "tags": tags}
    for r in recs[2:]:
        f = r.split("|")
        span = tuple(int(x) for x in f[7].split()) if f[7] != "?" else None
        sspan = tuple(int(x) for x in f[8].split()) if f[8] != "?" else None
        out["mutants"].append({"kind": f[1], "params": f[2], "site": f[3], "expected": f[4], "model_kind": f[5],
                               "model_site": f[6], "span": span, "stmt_span": sspan,
                               "text": f[9].replace(NL, "\n") + "\n"})
    return out

def model_batch(progs):
    lines = [ser_prog(p) for p in progs]
    ans = common.run_model("minity", "\n".join(lines) + "\n")
    assert len(ans) == len(lines), (len(ans), len(lines))
    return [parse_answer(a) for a in ans]

# ----------------------------------------------------------------------------- compiling and judging
ERR_RE = re.compile(r"^\[L(\d+) C(\d+)\] #\d+ \((Error|Fatal Error)\)", re.M)

def compile_text(build, text, flags=None):
    args = ["-F" + f for f in (FLAGS if flags is None else flags)] + ["p.as"]
    r = aldor.compile(build, {"p.as": text}, args, timeout=120)
    if r["rc"] == "TIMEOUT":      # a loaded machine, not a verdict: once more with a long limit
        r = aldor.compile(build, {"p.as": text}, args, timeout=1200)
    return r

GATE_EXTS = ["asy", "ao", "fm", "lsp", "java", "c", "o"]       # order of the driver's answer
FLAGSETS = [[], ["ao"], ["fm"], ["c"], ["lsp"], ["asy"], ["ao", "c", "fm", "lsp", "asy"]]

def gate_observation(r, flags):
    """(request line, observed outputs) for the decision model, or None if exit status and
    error lines contradict each other (C07's business)"""
    diag = r["stdout"] + r["stderr"]
    nerr = len(re.findall(r"\((?:Fatal )?Error\)", diag))
    if r["rc"] == "TIMEOUT" or (nerr > 0) != (r["rc"] != 0):
        return None
    return ("X %d %s" % (nerr, " ".join(flags))).strip(), " ".join(e for e in GATE_EXTS if "p." + e in r["outputs"]) or "-"

def command_line(build):
    return " ".join(aldor.base_cmd(build) + ["-F" + f for f in FLAGS] + ["p.as"])

def in_span(pos, sp):
    return sp is not None and (sp[0], sp[1]) <= pos <= (sp[2], sp[3])

def judge_original(r):
    """None if accepted as required, else (class, why)"""
    if isinstance(r, Exception) or r["rc"] == "TIMEOUT":
        return ("compile-timeout", "the compiler did not finish (or could not be run): %r" % (r if isinstance(r, Exception) else "timeout 1200 s",))
    diag = r["stdout"] + r["stderr"]
    if r["rc"] != 0 or aldor.has_error_lines(diag):
        return ("rejected-original", "exit %s, diagnostics: %s" % (r["rc"], diag[:600]))
    missing = [f for f in FLAGS if "p." + f not in r["outputs"]]
    if missing:
        return ("rejected-original", "accepted but outputs missing: %s" % missing)
    return None

def judge_mutant(r, m):
    """(class|None, why, rule) ; rule in tight/loose/None"""
    if isinstance(r, Exception) or r["rc"] == "TIMEOUT":
        return ("compile-timeout", "the compiler did not finish (or could not be run) on the mutant: %r" % (r if isinstance(r, Exception) else "timeout 1200 s",), None)
    diag = r["stdout"] + r["stderr"]
    left = sorted(n for n in r["outputs"] if n.endswith(CODE_EXT))
    errs = [(int(a), int(b)) for a, b, _ in ERR_RE.findall(diag)]
    if r["rc"] == 0 or not aldor.has_error_lines(diag):
        if r["rc"] != 0 and r["rc"] != "TIMEOUT" and not aldor.has_error_lines(diag):
            return ("error-without-position", "exit %s without any (Error) line: %s" % (r["rc"], diag[:400]), None)
        return ("accepted-mutant:" + m["kind"], "exit %s, %d error lines, outputs %s" % (r["rc"], len(errs), sorted(r["outputs"])), None)
    if left:
        return ("outputs-after-error", "exit %s with errors, but left behind %s" % (r["rc"], left), None)
    if not errs:
        return ("error-without-position", "no (Error) line carries [L C]: %s" % diag[:400], None)
    if any(in_span(e, m["span"]) for e in errs):
        return (None, "", "tight")
    if any(in_span(e, m["stmt_span"]) for e in errs):
        return (None, "", "loose")
    return ("wrong-position:" + m["kind"], "errors at %s, mutated construct spans %s (statement %s)" % (errs[:4], m["span"], m["stmt_span"]), None)

def shape_of(prog, site):
    idx = [int(x) for x in site.split(".")] if site != "-" else []
    d = prog[idx[0]] if idx and idx[0] < len(prog) else ("?",)
    where = {"C": "cat", "D": "dom", "F": "functor", "U": "func", "I": "import", "S": "top"}.get(d[0], "?")
    below = len(idx) - {"D": 3, "F": 3, "U": 2, "S": 1}.get(d[0], 1)
    what = "decl" if (d[0] in "DF" and len(idx) == 1) else ("stmt" if below == 0 else "expr")
    return where + ":" + what

# ----------------------------------------------------------------------------- shrinking
def reductions(prog):
    """smaller programs: drop a declaration, a definition of an add body, a statement"""
    for i in range(len(prog)):
        yield prog[:i] + prog[i + 1:]
    for i, d in enumerate(prog):
        if d[0] in "DF":
            defs = d[-1]
            for j in range(len(defs)):
                yield prog[:i] + [d[:-1] + (defs[:j] + defs[j + 1:],)] + prog[i + 1:]
            for j, fd in enumerate(defs):
                for k in range(len(fd["body"]) - 1):
                    nfd = dict(fd, body=fd["body"][:k] + fd["body"][k + 1:])
                    yield prog[:i] + [d[:-1] + (defs[:j] + [nfd] + defs[j + 1:],)] + prog[i + 1:]
        elif d[0] == "U":
            fd = d[1]
            for k in range(len(fd["body"]) - 1):
                yield prog[:i] + [("U", dict(fd, body=fd["body"][:k] + fd["body"][k + 1:]))] + prog[i + 1:]

def shrink(build, prog, cls, kind, budget=80):
    """greedy: keep a reduction if the model still accepts it and the same violation class shows
    (for mutant classes: on some mutant of the same kind).  Returns (prog, text, diagnostics)."""
    def fails(p):
        a = model_batch([p])[0]
        if a["verdict"] != "ok": return None
        if cls == "rejected-original":
            r = compile_text(build, a["text"])
            j = judge_original(r)
            return (a["text"], r) if j else None
        ms = [m for m in a["mutants"] if m["kind"] == kind][:12]
        rs = aldor.run_many([(compile_text, (build, m["text"]), {}) for m in ms])
        for m, r in zip(ms, rs):
            if judge_mutant(r, m)[0] == cls:
                return (m["text"], r)
        return None
    best = None
    changed = True
    while changed and budget > 0:
        changed = False
        for q in reductions(prog):
            budget -= 1
            if budget <= 0: break
            try:
                f = fails(q)
            except Exception:
                f = None
            if f:
                prog, best, changed = q, f, True
                break
    return prog, best

# ----------------------------------------------------------------------------- the part
def run_part(ctx, build):
    rng = ctx.rng
    thorough = ctx.tier == "thorough"
    # budget in compiler runs (a rejected compile takes ~0.1 s; 16 workers): whole programs are
    # taken until the budget is reached, every mutant of a taken program is compiled
    budget = int(os.environ.get("VERIF_TYPING_BUDGET", 60000 if thorough else 3000))
    progs, answers, total, skipped = [], [], 0, 0
    first = True
    while total < budget:
        batch = [seed_program()] if first else [Gen(rng, rng.choice((0, 0, 1, 1, 2))).program() for _ in range(6)]
        first = False
        for p, a in zip(batch, model_batch(batch)):
            if total >= budget: break
            if not thorough:
                # quick tier: every eligible (kind, site[, argument]) is compiled, but of the up to three
                # wrong literal types offered for one argument only one (seeded choice); thorough: all
                by_arg = {}
                for m in a["mutants"]:
                    if m["kind"] == "wrongArgType":
                        by_arg.setdefault((m["site"], m["params"].split()[0]), []).append(m)
                chosen = {id(rng.choice(v)) for v in by_arg.values()}
                a["enumerated"] = len(a["mutants"])
                a["mutants"] = [m for m in a["mutants"] if m["kind"] != "wrongArgType" or id(m) in chosen]
            if not thorough and len(a["mutants"]) > 330 and progs:
                skipped += 1          # quick tier: many medium programs rather than few large ones
                continue
            progs.append(p); answers.append(a)
            total += 1 + len(a["mutants"])
    stats = {"programs": len(progs), "large_programs_skipped": skipped, "mutants_enumerated": sum(a.get("enumerated", len(a["mutants"])) for a in answers), "model_rejected_generated": 0, "mutants": 0, "originals_accepted": 0,
             "mutants_rejected": 0, "position_tight": 0, "position_loose": 0, "model_inconsistent": 0,
             "per_kind": {k: {"eligible": 0, "rejected": 0, "tight": 0, "loose": 0} for k in KINDS},
             "gate_checked": 0, "gate_mismatch": 0, "miniald": "absent"}
    tags = {}
    cmd = command_line(build)
    jobs, meta = [], []
    for pi, (p, a) in enumerate(zip(progs, answers)):
        tags[a["tags"].split(" ")[0]] = tags.get(a["tags"].split(" ")[0], 0) + 1
        if a["verdict"] != "ok" or a["head"][-1] != "1":
            # the python oracle built it as well typed: python rules and Lean rules disagree
            stats["model_rejected_generated"] += 1
            ctx.violation("typing|generator-model-disagree", "the generator's program %d is not accepted by the Lean checker: %s"
                          % (pi, a["head"]), {"kind": "check-internal", "request": ser_prog(p), "answer": a["head"], "source": a["text"]},
                          found_input=False)
            continue
        jobs.append((compile_text, (build, a["text"]), {})); meta.append((pi, None))
        for m in a["mutants"]:
            stats["per_kind"][m["kind"]]["eligible"] += 1
            tags[m["kind"]] = tags.get(m["kind"], 0) + 1
            if m["model_kind"] != m["expected"] or m["model_site"] != m["site"]:
                # executable form of `mutant_ill_typed` on this instance
                stats["model_inconsistent"] += 1
                ctx.violation("typing|model-inconsistent:" + m["kind"], "typecheck of the mutant gives %s@%s, theorem says %s@%s"
                              % (m["model_kind"], m["model_site"], m["expected"], m["site"]),
                              {"kind": "model-inconsistent", "request": ser_prog(p), "mutant": m}, found_input=False)
            jobs.append((compile_text, (build, m["text"]), {})); meta.append((pi, m))
    results = aldor.run_many(jobs, workers=16)
    gate_reqs, gate_obs = [], []
    reported = set()
    for (pi, m), r in zip(meta, results):
        p, a = progs[pi], answers[pi]
        ctx.cov["evaluations"] += 1
        if not isinstance(r, Exception):
            go = gate_observation(r, FLAGS)
            if go:
                gate_reqs.append(go[0]); gate_obs.append(go[1])
        if m is None:
            j = judge_original(r)
            if j is None:
                stats["originals_accepted"] += 1
                if pi % 8 == 0:
                    ctx.sample({"program": pi, "lines": a["text"].count("\n"), "mutants": len(a["mutants"]), "verdict": "accepted, outputs present"})
                continue
            sig = "typing|%s|%s" % (j[0], "+".join(sorted({d[0] for d in p})))
            if sig in reported: continue
            reported.add(sig)
            q, best = shrink(build, p, j[0], None) if j[0] == "rejected-original" else (p, None)
            text, rr = best if best else (a["text"], r)
            ctx.finding(sig, "a program of the well-typed family (accepted by the modelled typing judgement) is not accepted by the compiler: " + j[1],
                        {"kind": j[0], "source": text, "command": cmd,
                         "diagnostics": (rr["stdout"] + rr["stderr"])[:3000] if isinstance(rr, dict) else repr(rr)})
            continue
        stats["mutants"] += 1
        cls, why, rule = judge_mutant(r, m)
        pk = stats["per_kind"][m["kind"]]
        if cls is None:
            stats["mutants_rejected"] += 1; pk["rejected"] += 1
            stats["position_" + rule] += 1; pk[rule] += 1
            continue
        shape = shape_of(p, m["site"])
        sig = "typing|%s|%s" % (cls, shape)
        stats["failed"] = stats.get("failed", 0) + 1
        if sig in reported: continue
        reported.add(sig)
        q, best = shrink(build, p, cls, m["kind"]) if cls != "compile-timeout" else (p, None)
        text, rr = best if best else (m["text"], r)
        ctx.finding(sig, "single-fault mutant (%s %s at site %s, %s) of a well-typed program: %s" % (m["kind"], m["params"], m["site"], shape, why),
                    {"kind": cls, "mutation": {k: m[k] for k in ("kind", "params", "site", "span", "stmt_span")},
                     "source": text, "command": cmd,
                     "diagnostics": (rr["stdout"] + rr["stderr"])[:3000] if isinstance(rr, dict) else repr(rr)})
    # other output selections (the decision model's other branches): seed program and three of its mutants
    a0 = answers[0]
    if a0["verdict"] == "ok":
        texts = [a0["text"]] + [m["text"] for m in a0["mutants"][::max(1, len(a0["mutants"]) // 3)][:3]]
        sweep = [(t, fl) for t in texts for fl in FLAGSETS]
        rs = aldor.run_many([(compile_text, (build, t, fl), {}) for t, fl in sweep], workers=16)
        for (t, fl), r in zip(sweep, rs):
            ctx.cov["evaluations"] += 1
            if isinstance(r, Exception): continue
            go = gate_observation(r, fl)
            if go:
                gate_reqs.append(go[0]); gate_obs.append(go[1])
                if go[0].split()[1] != "0" and go[1] != "-":
                    ctx.finding("typing|outputs-after-error|flags:" + "+".join(fl), "errors were reported but %s was written (-F %s)" % (go[1], fl),
                                {"kind": "outputs-after-error", "source": t, "command": " ".join(aldor.base_cmd(build) + ["-F" + f for f in fl] + ["p.as"]),
                                 "diagnostics": (r["stdout"] + r["stderr"])[:3000]})
    # the output decision model against what the compiler left behind
    if gate_reqs:
        uniq = sorted(set(zip(gate_reqs, gate_obs)))
        pred, gtags = common.split_model(common.run_model("minity", "\n".join(u[0] for u in uniq) + "\n"))
        stats["gate_checked"] = len(gate_reqs)
        for (req, obs), pr, gt in zip(uniq, pred, gtags):
            tags[gt] = tags.get(gt, 0) + sum(1 for x in zip(gate_reqs, gate_obs) if x == (req, obs))
            if pr != obs:
                stats["gate_mismatch"] += 1
                errs = int(req.split()[1])
                if errs > 0 and obs != "-":
                    pass      # already reported as outputs-after-error with its source
                else:
                    ctx.corr_broken.append((NAME, req, obs, pr))
    # the richer generator of another part, if present
    try:
        from vlib import miniald
    except Exception:
        miniald = None
    if miniald is not None:
        try:
            ps = miniald.generate(ctx.rng, 200 if thorough else 30)
            verdicts = miniald.model(ps)
            # miniald.model: one dict per program, "ok" = accepted by its typing model, "braced" = source text
            acc = [v["braced"] for v in verdicts if isinstance(v, dict) and v.get("ok") and v.get("braced")]
            rs = aldor.run_many([(compile_text, (build, t), {}) for t in acc], workers=16)
            bad = 0
            for t, r in zip(acc, rs):
                ctx.cov["evaluations"] += 1
                j = judge_original(r)
                if j:
                    bad += 1
                    ctx.finding("typing|rejected-original|miniald", "a program accepted by the miniald model is not accepted by the compiler: " + j[1],
                                {"kind": "rejected-original", "source": t, "command": cmd,
                                 "diagnostics": (r["stdout"] + r["stderr"])[:3000] if not isinstance(r, Exception) else repr(r)})
            stats["miniald"] = {"accepted_by_model": len(acc), "rejected_by_compiler": bad}
        except Exception as e:       # the other part's interface is not ours to fix here
            stats["miniald"] = "unusable: %r" % (e,)
    for k in KINDS:
        if stats["per_kind"][k]["eligible"] == 0:
            ctx.notes.append("typing: no eligible site for kind %s in this run" % k)
    stats["tags"] = tags
    ctx.cov[NAME] = stats
    ctx.cov["distinct_nontrivial"] += stats["mutants_rejected"] + stats["originals_accepted"]
    ctx.cov["rule"] = ("every generated program and every eligible (kind, site) mutant is one evaluation; a mutant passes on "
                       "exit!=0, a positioned (Error) inside the mutated construct (tight) or its statement (loose), no code file left")
    return stats
