"""part `typing` (C06): ill-typed programs are rejected, well-typed ones accepted.

Lean: Model/MiniTy.lean (typed core, checker, mutation catalogue, renderer), Model/EmitGate.lean
(no back end after errors), Props/C06.lean.  Tie: END TO END.  A python generator builds
well-typed programs of the modelled core (python keeps its own small copy of the resolution
rules, an independent oracle); the Lean driver typechecks them, renders them and enumerates
ALL eligible (kind, site) mutants with the span of the mutated construct; the real compiler is
run on the original (must be accepted, outputs present) and on every mutant (must be rejected:
exit != 0, an `(Error)` line positioned in the span, no .ao/.c/.fm/.lsp left behind).

POSITION RULE.  A mutant passes if some `[L<l> C<c>] … (Error)` line lies
  tight: inside the span of the mutated construct (the application / variable / statement /
         `add` body at the site), or
  loose: inside the span of the statement enclosing the site (the compiler reports some
         faults at the statement, e.g. at the `:=`).
  block: only when the statement is the single statement of a `{…}` body: on the head line of the
         enclosing definition (a one-element sequence has no node of its own; the compiler gives
         some faults of `{ x }` the position of the `{`).
Anything else is `wrong-position`.  The three counts are reported per kind in the evidence
(coverage.typing.per_kind).

Also tied on every run: the decision model of "no back end after errors" (Model/EmitGate.lean) -
for every compile the set of back-end outputs left behind is compared with the model's answer
for (number of `(Error)` lines, -F selection), plus a small sweep over other -F selections.

Family constraints that are not typing rules (Prog.familyOk, checked by the driver): distinct
names; `import` and file-level statements follow the `add` definitions (the compiler's
"implementation restriction: cannot use a non-lazy constant outside an `add` before it has been
defined"); the header imports MachineInteger, Integer, Boolean, String (literals need them).
The family also has default-valued parameters, calls that omit them, keyword arguments, signatures
with and without parameter names, and the value positions of a body (`return e`, last expression,
`c => v`, bare-expression body).  A keyword `k == e` is scoped where the call stands: the compiler
rejects it when `k` is a parameter or variable there, and so does the model (`keysFree`).
Quick tier: whole programs until ~3000 compiler runs; the fixed first program completely, of the
others the rare kinds completely and the frequent kinds (COMMON_KINDS) sampled by seeded choice
(one of the up to 3 wrong literal types per argument, at most PER_PROGRAM sites per program); thorough:
everything.  VERIF_TYPING_BUDGET overrides the number of runs.
"""
import json, os, re
from vlib import common, aldor

NAME = "typing"
BUILD_TARGETS = ["AldorVerif.Props.C06"]
SOURCES = ["tinfer.c", "ti_bup.c", "ti_tdn.c", "tfsat.c", "terror.c", "scobind.c", "abcheck.c",
           "comsg.c", "axlcomp.c", "emit.c"]
MODELLED = ("END-TO-END on generated programs and all their single-fault mutants; modelled in Lean: the typed core "
            "language (not tinfer.c) and axlcomp.c:compIsMoreAfterSyntax/compSourceFile gate, emit.c:emitDoneOptions/"
            "emitCleanup decision (not: tiBottomUp, tiTopDown, tfSat, scobind, abcheck)")
THEOREMS = [("AldorVerif.Props.C06", "AldorVerif.MiniTy." + t) for t in (
    "checker_sound_complete", "mutant_ill_typed", "mutant_ill_typed_wrongArgType",
    "mutant_ill_typed_wrongArgCount", "mutant_ill_typed_undefinedName", "mutant_ill_typed_ambiguous",
    "mutant_ill_typed_assignConst", "mutant_ill_typed_wrongReturnType", "mutant_ill_typed_missingExport",
    "mutant_ill_typed_paramLacksOp", "mutant_ill_typed_unknownKeyword", "mutant_ill_typed_tooManyPositional",
    "mutant_ill_typed_keywordDupPositional", "mutant_ill_typed_omitRequired", "mutant_not_well_typed")] + \
    [("AldorVerif.Props.C06", "AldorVerif.EmitGate." + t) for t in (
    "no_outputs_after_error", "outputs_iff_no_error", "no_link_after_error", "cleanup_removes_partial")]

KINDS = ["wrongArgType", "wrongArgCount", "undefinedName", "ambiguous", "assignConst", "wrongReturnType",
         "missingExport", "paramLacksOp", "unknownKeyword", "tooManyPositional", "keywordDupPositional", "omitRequired"]
PER_PROGRAM = 110
COMMON_KINDS = ("wrongArgType", "wrongArgCount", "undefinedName", "wrongReturnType", "unknownKeyword")   # sampled in the quick tier
TYS = ["m", "i", "b", "s"]
FLAGS = ["ao", "c", "fm"]
CODE_EXT = (".ao", ".c", ".fm", ".lsp", ".o", ".java", ".asy")
RS, NL = "\x1e", "\x1f"

# ----------------------------------------------------------------------------- python copy of the rules
# abstract syntax (python side)
#   expr   ("L", ty, n) | ("V", x) | ("A", f, q|None, [args], [keys])   the last len(keys) args are `k == e`
#   stmt   ("c", x, ty, e) | ("v", x, ty, e) | ("a", x, e) | ("r", e) | ("e", e) body value | ("x", c, e)  c => e
#   param  (name, ty, default literal value | None)
#   sig    (name, (param…), res, anon)        fundef {"name","params","res","body","bare"}
#   decl   ("C", name, [sig]) ("D", name, cat, [fundef]) ("F", name, T, pcat, cat, [fundef]) ("U", fundef) ("I", dom) ("S", stmt)
class Env:
    def __init__(self, g, locals_=None, in_fun=False, param=None, sibs=()):
        self.g, self.locals, self.in_fun, self.param, self.sibs = g, dict(locals_ or {}), in_fun, param, list(sibs)

def global_env(prog):
    g = {"cats": {}, "doms": {}, "imports": [], "funcs": [], "vals": {}}
    for d in prog:
        if d[0] == "C": g["cats"].setdefault(d[1], d[2])
        elif d[0] == "D": g["doms"].setdefault(d[1], d[2])
        elif d[0] == "U": g["funcs"].append(sig_of(d[1]))
        elif d[0] == "I": g["imports"].append(d[1])
        elif d[0] == "S" and d[1][0] in "cv": g["vals"].setdefault(d[1][1], (d[1][2], d[1][0] == "c"))
    return g

def sig_of(fd):
    return (fd["name"], tuple(fd["params"]), fd["res"], False)

def sig_types(s):
    return tuple(p[1] for p in s[1])

def same_type(a, b):
    return a[0] == b[0] and sig_types(a) == sig_types(b) and a[2] == b[2]

def meanings(env, f, q):
    g = env.g
    if q is None:
        sibs = [s for s in env.sibs if s[0] == f]
        outer = [("top", s) for s in g["funcs"] if s[0] == f]
        for d in g["imports"]:
            outer += [("dom:" + d, s) for s in g["cats"].get(g["doms"].get(d), []) if s[0] == f]
        return [("sib", s) for s in sibs] + [m for m in outer if not any(same_type(x, m[1]) for x in sibs)]
    if env.param and env.param[0] == q:
        return [("par", s) for s in g["cats"].get(env.param[1], []) if s[0] == f]
    return [("dom:" + q, s) for s in g["cats"].get(g["doms"].get(q), []) if s[0] == f]

def single_export(env, f, q):
    """some meaning of `f` is the export of a category whose `with` holds a single declaration.
    The compiler does not see the parameter names of such an export: keyword arguments to it are
    matched by position (recorded finding)."""
    g = env.g
    for o, s in meanings(env, f, q):
        c = g["doms"].get(o[4:]) if o.startswith("dom:") else (env.param[1] if o == "par" and env.param else None)
        if c is not None and len(g["cats"].get(c, [])) == 1: return True
    return False

def lookup(env, x):
    if x in env.locals: return env.locals[x]
    return env.g["vals"].get(x)

def shape(sig, n, keys):
    """expected argument types of a call with n arguments, the last len(keys) keyword ones, or the reason it cannot match"""
    ps = sig[1]
    names = [p[0] for p in ps]
    if n < len(keys): return "count"
    np_ = n - len(keys)
    if (sig[3] and keys) or any(k not in names for k in keys): return "unknownKw"
    if any(k in names[:np_] for k in keys) or len(set(keys)) != len(keys): return "dupArg"
    if len(ps) < np_ or any(p[2] is None and p[0] not in keys for p in ps[np_:]): return "count"
    return [p[1] for p in ps[:np_]] + [ps[names.index(k)][1] for k in keys]

def keys_free(env, keys):
    return all(lookup(env, k) is None for k in keys)

def poss(env, e):
    """set of possible types (tiBottomUp)"""
    if e[0] == "L": return {e[1]}
    if e[0] == "V":
        v = lookup(env, e[1]); return {v[0]} if v else set()
    if not keys_free(env, e[4]): return set()
    ps = [poss(env, a) for a in e[3]]
    out = set()
    for _, s in meanings(env, e[1], e[2]):
        ts = shape(s, len(ps), e[4])
        if isinstance(ts, list) and all(t in p for t, p in zip(ts, ps)): out.add(s[2])
    return out

def well_typed(env, e, t):
    """unique resolution top-down (tiTopDown)"""
    if e[0] == "L": return e[1] == t
    if e[0] == "V":
        v = lookup(env, e[1]); return bool(v) and v[0] == t
    if not keys_free(env, e[4]): return False
    ps = [poss(env, a) for a in e[3]]
    c = []
    for _, s in meanings(env, e[1], e[2]):
        ts = shape(s, len(ps), e[4])
        if s[2] == t and isinstance(ts, list) and all(x in p for x, p in zip(ts, ps)): c.append(ts)
    return len(c) == 1 and all(well_typed(env, a, x) for a, x in zip(e[3], c[0]))

# ----------------------------------------------------------------------------- generator
class Gen:
    def __init__(self, rng, size):
        self.rng, self.size = rng, size
        self.depth = 2 if size < 2 else 3
        self.ctr = 0

    def fresh(self, p):
        self.ctr += 1
        return "%s%d" % (p, self.ctr)

    def rty(self):
        return self.rng.choice(TYS)

    def params(self, tys, prefix, defaults=True):
        """named parameters; with some probability the trailing ones carry default values"""
        nd = 0
        if defaults and tys and self.rng.random() < 0.45:
            nd = self.rng.randint(1, len(tys))
        return tuple((self.fresh(prefix), t, (self.rng.randint(0, 9) if i >= len(tys) - nd else None)) for i, t in enumerate(tys))

    def program(self):
        rng = self.rng
        # operator pool: a name has one primary signature; some names get a second one
        nops = rng.randint(3, 4 + self.size)
        ops = {}
        for k in range(nops):
            name = "op%d" % k
            tys = tuple(self.rty() for _ in range(rng.choice((0, 1, 1, 2, 2, 3))))
            anon = rng.random() < 0.25                       # `op: (T1, T2) -> R` without parameter names
            ops[name] = [(name, self.params(tys, "k", not anon), self.rty(), anon)]
            r = rng.random()
            if r < 0.15:      # overloaded on the result type only
                ops[name].append((name, self.params(tys, "k"), rng.choice([t for t in TYS if t != ops[name][0][2]]), False))
            elif r < 0.25 and tys:   # overloaded on an argument type
                a2 = list(tys); i = rng.randrange(len(a2)); a2[i] = rng.choice([t for t in TYS if t != a2[i]])
                ops[name].append((name, self.params(tuple(a2), "k"), self.rty(), False))
        names = list(ops)
        ncats = rng.randint(2, 2 + self.size)
        cats = []
        for k in range(ncats):
            chosen = rng.sample(names, rng.randint(1, min(4, len(names))))
            sigs = []
            for n in chosen:
                ss = ops[n] if rng.random() < 0.5 else [ops[n][0]]
                sigs += ss
            cats.append(("C", "Cat%d" % k, sigs))
        prog = list(cats)
        ndoms = rng.randint(2, 2 + self.size)
        doms = []
        share = rng.random() < 0.7      # two imported domains of one category: sites for `ambiguous`
        for k in range(ndoms):
            c = doms[0][2] if (share and k == 1) else rng.choice(cats)[1]
            doms.append(["D", "Dom%d" % k, c, None])
        functors = []
        for k in range(rng.randint(1, 1 + self.size // 2)):
            functors.append(["F", "Fun%d" % k, "T%d" % k, rng.choice(cats)[1], rng.choice(cats)[1], None])
        imports = [("I", d[1]) for k, d in enumerate(doms) if (share and k < 2) or rng.random() < 0.7]
        funcs = []
        for k in range(rng.randint(1, 2 + self.size)):
            name = "fn%d" % k
            tys = tuple(self.rty() for _ in range(rng.choice((0, 1, 2, 2, 3))))
            fd = {"name": name, "params": list(self.params(tys, "a")), "res": self.rty(), "body": None, "bare": False}
            funcs.append(fd)
            if rng.random() < 0.2:   # result-type overload of a file-level function
                funcs.append({"name": name, "params": list(self.params(tys, "a")),
                              "res": rng.choice([t for t in TYS if t != fd["res"]]), "body": None, "bare": False})
        # file-level values (defined in this order; later statements may use earlier ones)
        gvals = []
        for k in range(rng.randint(2, 3 + self.size)):
            gvals.append((rng.choice("cvv"), self.fresh("g"), self.rty()))
        catmap = {c[1]: c[2] for c in cats}
        # skeleton environment (bodies do not matter for it)
        skel = list(cats)
        for d in doms:
            d[3] = [self.fundef_skel(s) for s in catmap[d[2]]]
            if rng.random() < 0.5:
                d[3].append({"name": self.fresh("pv"), "params": list(self.params((self.rty(),), "a")),
                             "res": self.rty(), "body": None, "bare": False})
        for f in functors:
            f[5] = [self.fundef_skel(s) for s in catmap[f[4]]]
        g = global_env(skel + [tuple(d[:3]) + ([],) for d in doms] + imports +
                       [("U", fd) for fd in funcs] + [("S", (k, x, t, None)) for k, x, t in gvals])
        self.g = g
        # bodies
        for d in doms:
            sibs = [sig_of(fd) for fd in d[3]]
            for fd in d[3]:
                self.fill(fd, Env(g, sibs=sibs))
        for f in functors:
            sibs = [sig_of(fd) for fd in f[5]]
            for fd in f[5]:
                self.fill(fd, Env(g, param=(f[2], f[3]), sibs=sibs))
        for fd in funcs:
            self.fill(fd, Env(g))
        top = []
        env = Env(dict(g, vals={}))        # only values defined so far are used
        for k, x, t in gvals:
            top.append(("S", (k, x, t, self.expr(env, t, self.depth))))
            env.g["vals"][x] = (t, k == "c")
            if rng.random() < 0.5:
                vs = [(n, v) for n, v in env.g["vals"].items() if not v[1]]
                if vs:
                    n, v = rng.choice(vs)
                    top.append(("S", ("a", n, self.expr(env, v[0], self.depth))))
        for _ in range(rng.randint(1, 3)):
            vs = [(n, v) for n, v in env.g["vals"].items() if not v[1]]
            if vs:
                n, v = rng.choice(vs)
                top.append(("S", ("a", n, self.expr(env, v[0], self.depth))))
        adds = [tuple(d) for d in doms] + [tuple(f) for f in functors]
        rng.shuffle(adds)
        rest = imports + [("U", fd) for fd in funcs]
        rng.shuffle(rest)
        funs_first = [d for d in rest if d[0] == "U" and rng.random() < 0.3]      # functions are lazy: may come first
        decls = funs_first + adds + [d for d in rest if not any(d is x for x in funs_first)]
        # statements and imports after the domains: a domain cannot be used outside an `add` before its definition
        # ("implementation restriction" of the compiler, not a typing rule; Prog.familyOk checks it)
        return prog + decls + top

    def fundef_skel(self, s):
        """definition of the required signature: own parameter names, the same parameters defaulted"""
        return {"name": s[0], "params": [(self.fresh("a"), p[1], p[2]) for p in s[1]], "res": s[2], "body": None, "bare": False}

    def fill(self, fd, env):
        rng = self.rng
        env = Env(env.g, {p[0]: (p[1], False) for p in fd["params"]}, True, env.param, env.sibs)
        if rng.random() < 0.2:           # bare-expression body `f(…): R == e`
            fd["body"] = [("e", self.expr(env, fd["res"], self.depth))]
            fd["bare"] = True
            return
        body = []
        for _ in range(rng.randint(0, 2 + self.size // 2)):
            r = rng.random()
            assignable = [(x, v) for x, v in env.locals.items() if not v[1]]
            bools = [x for x, v in list(env.locals.items()) + list(env.g["vals"].items()) if v[0] == "b"]
            if r < 0.2 and bools:
                body.append(("x", rng.choice(bools), self.expr(env, fd["res"], self.depth)))     # c => v
            elif r < 0.55 or not assignable:
                k = "c" if rng.random() < 0.35 else "v"
                x, t = self.fresh("l"), self.rty()
                body.append((k, x, t, self.expr(env, t, self.depth)))
                env.locals[x] = (t, k == "c")
            else:
                x, v = rng.choice(assignable)
                body.append(("a", x, self.expr(env, v[0], self.depth)))
        body.append((rng.choice("re"), self.expr(env, fd["res"], self.depth)))      # `return e` or the body's last expression
        fd["body"] = body

    def callables(self, env, t):
        """(f, q, sig) such that a call can have result type t"""
        g = env.g
        out = []
        for s in g["funcs"]:
            if s[2] == t: out.append((s[0], None, s))
        for s in env.sibs:
            if s[2] == t: out.append((s[0], None, s))
        for d, c in g["doms"].items():
            for s in g["cats"].get(c, []):
                if s[2] == t:
                    out.append((s[0], d, s))
                    if d in g["imports"]: out.append((s[0], None, s))
        if env.param:
            for s in g["cats"].get(env.param[1], []):
                if s[2] == t: out.append((s[0], env.param[0], s))
        return out

    def call_form(self, env, f, q, s):
        """(number of positional arguments, keywords): omit defaulted parameters, name some by keyword"""
        rng = self.rng
        ps = s[1]
        nokw = s[3] or single_export(env, f, q)     # see single_export: no keywords there in an original
        usable = lambda p: (not nokw) and lookup(env, p[0]) is None
        np_ = len(ps)
        # positional prefix: shorten it while everything behind it is defaulted or can be named
        while np_ > 0 and rng.random() < 0.45 and (ps[np_ - 1][2] is not None or usable(ps[np_ - 1])):
            np_ -= 1
        keys = [p[0] for p in ps[np_:] if usable(p) and (p[2] is None or rng.random() < 0.5)]
        if any(p[2] is None and p[0] not in keys for p in ps[np_:]):
            return len(ps), []
        rng.shuffle(keys)
        return np_, keys

    def expr(self, env, t, depth):
        rng = self.rng
        for _ in range(6):
            r = rng.random()
            if depth > 0 and r < 0.62:
                cs = self.callables(env, t)
                if env.param and rng.random() < 0.4:      # prefer the functor parameter's operations
                    cs = [c for c in cs if c[1] == env.param[0]] or cs
                elif rng.random() < 0.35:                 # prefer `$D` calls that several imports could also serve
                    cs = [c for c in cs if c[1] is not None and len(meanings(env, c[0], None)) >= 2] or cs
                if cs:
                    f, q, s = rng.choice(cs)
                    np_, keys = self.call_form(env, f, q, s)
                    names = [p[0] for p in s[1]]
                    tys = [p[1] for p in s[1][:np_]] + [s[1][names.index(k)][1] for k in keys]
                    e = ("A", f, q, [self.expr(env, a, depth - 1) for a in tys], keys)
                    if well_typed(env, e, t):
                        return e
                    continue
            vs = [x for x, v in list(env.locals.items()) + list(env.g["vals"].items()) if v[0] == t]
            if vs and r < 0.85:
                return ("V", rng.choice(vs))
            break
        return ("L", t, rng.randint(0, 9))

def probe_single_export():
    """well typed, and rejected by the compiler (recorded finding): the only export of a category is
    called with a keyword argument for its second parameter; the keyword is matched by position"""
    sg = ("op5", (("k5", "i", 2), ("k6", "s", 6)), "i", False)
    return [("C", "CatP", [sg]),
            ("D", "DomP", "CatP", [{"name": "op5", "params": [("a1", "i", 2), ("a2", "s", 6)], "res": "i",
                                    "body": [("e", ("V", "a1"))], "bare": True}]),
            ("S", ("v", "gs", "s", ("L", "s", 1))),
            ("S", ("v", "gi", "i", ("A", "op5", "DomP", [("V", "gs")], ["k6"])))]

def seed_program():
    """fixed program exercising every catalogue kind (checked first in every run)"""
    mi = "m"
    def fd(name, params, res, body, bare=False):
        return {"name": name, "params": [p if len(p) == 3 else (p[0], p[1], None) for p in params], "res": res, "body": body, "bare": bare}
    def sg(name, params, res, anon=False):
        return (name, tuple(p if len(p) == 3 else (p[0], p[1], None) for p in params), res, anon)
    V, L = (lambda x: ("V", x)), (lambda t, n: ("L", t, n))
    def A(f, q, *a, **kw): return ("A", f, q, list(a) + list(kw.values()), list(kw.keys()))
    return [
        ("C", "Cat0", [sg("f0", [("kx", mi)], mi), sg("g0", [("ka", mi), ("kb", "b")], "b", True),
                       sg("g0", [("kc", mi), ("kd", "b")], "s"),
                       sg("ar", [("kw", mi), ("kh", mi, 1)], mi)]),
        ("C", "Cat1", [sg("f0", [("kx1", mi)], mi), sg("h1", [("ky", "i")], "i", True)]),
        ("D", "Dom0", "Cat0", [
            fd("f0", [("x", mi)], mi, [("r", V("x"))]),
            fd("g0", [("x1", mi), ("b1", "b")], "b", [("e", V("b1"))]),
            fd("g0", [("x2", mi), ("b2", "b")], "s", [("e", L("s", 1))], True),
            fd("ar", [("w", mi), ("h", mi, 1)], mi, [("x", "cg", V("h")), ("e", A("f0", None, V("w")))])]),
        ("D", "Dom1", "Cat1", [
            fd("f0", [("x3", mi)], mi, [("r", L(mi, 1))]),
            fd("h1", [("x4", "i")], "i", [("e", V("x4"))], True)]),
        ("F", "Fun0", "T", "Cat0", "Cat1", [
            fd("f0", [("x5", mi)], mi, [("r", A("f0", "T", A("ar", "T", V("x5"), kh=A("ar", "T", V("x5")))))]),
            fd("h1", [("x6", "i")], "i", [
                ("v", "lb", "b", A("g0", "T", L(mi, 3), L("b", 0))),
                ("v", "ls", "s", A("g0", "T", L(mi, 3), kd=V("lb"))),
                ("x", "lb", V("x6")),
                ("r", V("x6"))])]),
        ("I", "Dom0"), ("I", "Dom1"),
        ("U", fd("area", [("aw", mi), ("ah", mi, 2)], mi, [("e", A("ar", "Dom0", V("aw"), kh=V("ah")))])),
        ("U", fd("top0", [("a", mi), ("s", "s")], mi, [
            ("v", "w", mi, V("a")),
            ("c", "lk", mi, A("f0", "Dom0", V("k"))),
            ("a", "w", A("f0", "Dom1", A("f0", "Dom0", V("k")))),
            ("v", "j", "i", A("h1", None, V("i"))),
            ("x", "cg", A("area", None, V("w"))),
            ("r", A("area", None, ah=V("w"), aw=V("a")))])),
        ("S", ("c", "k", mi, L(mi, 3))),
        ("S", ("v", "v", mi, L(mi, 4))),
        ("S", ("v", "i", "i", L("i", 4))),
        ("S", ("c", "cg", "b", L("b", 0))),
        ("S", ("a", "v", A("f0", "Dom0", V("v")))),
        ("S", ("a", "v", A("top0", None, V("v"), L("s", 7)))),
        ("S", ("a", "v", A("area", None, V("v"), ah=V("k")))),
        ("S", ("a", "v", A("ar", "Dom0", V("v"), V("k")))),
    ]

# ----------------------------------------------------------------------------- serialisation
def ser_expr(e, out):
    if e[0] == "L": out += ["L", e[1], str(e[2])]
    elif e[0] == "V": out += ["V", e[1]]
    else:
        out += ["A", e[1], e[2] or "-", str(len(e[3])), str(len(e[4]))] + list(e[4])
        for a in e[3]: ser_expr(a, out)

def ser_stmt(s, out):
    if s[0] in "cv": out += [s[0], s[1], s[2]]; ser_expr(s[3], out)
    elif s[0] == "a": out += ["a", s[1]]; ser_expr(s[2], out)
    elif s[0] == "x": out += ["x", s[1]]; ser_expr(s[2], out)
    else: out += [s[0]]; ser_expr(s[1], out)

def ser_params(ps, out):
    out.append(str(len(ps)))
    for x, t, d in ps: out += [x, t, "-" if d is None else str(d)]

def ser_def(fd, out):
    out += [fd["name"], "1" if fd.get("bare") else "0"]
    ser_params(fd["params"], out)
    out += [fd["res"], str(len(fd["body"]))]
    for s in fd["body"]: ser_stmt(s, out)

def ser_prog(p):
    out = ["P", str(len(p))]
    for d in p:
        if d[0] == "C":
            out += ["C", d[1], str(len(d[2]))]
            for s in d[2]:
                out += [s[0], "1" if s[3] else "0"]; ser_params(s[1], out); out.append(s[2])
        elif d[0] == "D":
            out += ["D", d[1], d[2], str(len(d[3]))]
            for fd in d[3]: ser_def(fd, out)
        elif d[0] == "F":
            out += ["F", d[1], d[2], d[3], d[4], str(len(d[5]))]
            for fd in d[5]: ser_def(fd, out)
        elif d[0] == "U": out += ["U"]; ser_def(d[1], out)
        elif d[0] == "I": out += ["I", d[1]]
        else: out += ["S"]; ser_stmt(d[1], out)
    return " ".join(out)

def stmt_expr(s):
    return s[3] if s[0] in "cv" else (s[2] if s[0] in "ax" else s[1])

def locate(prog, site):
    """(environment, statement, expression node or None, enclosing fundef or None) at a site"""
    idx = [int(x) for x in site.split(".")] if site != "-" else []
    g = global_env(prog)
    d = prog[idx[0]]
    fdef, env, rest = None, Env(g), idx[1:]
    if d[0] in "DF":
        defs = d[-1]
        if not rest: return Env(g), None, None, None
        fdef = defs[rest[0]]; rest = rest[1:]
        env = Env(g, param=((d[2], d[3]) if d[0] == "F" else None), sibs=[sig_of(x) for x in defs])
    elif d[0] == "U":
        fdef = d[1]
    if fdef is not None:
        loc = {p[0]: (p[1], False) for p in fdef["params"]}
        for s in fdef["body"]:
            if s[0] in "cv": loc[s[1]] = (s[2], s[0] == "c")
        env = Env(g, loc, True, env.param, env.sibs)
        st = fdef["body"][rest[0]]; rest = rest[1:]
    else:
        st = d[1]
    node = None
    if rest:
        node = stmt_expr(st)
        for a in rest[1:]: node = node[3][a]
    return env, st, node, fdef

def parse_answer(line):
    res, _, tags = line.partition("\t")
    recs = res.split(RS)
    head = recs[0].split("|")
    out = {"verdict": head[0], "head": head, "text": recs[1].replace(NL, "\n") + "\n" if len(recs) > 1 else "",
           "mutants": [], "tags": tags}
    for r in recs[2:]:
        f = r.split("|")
        span = tuple(int(x) for x in f[7].split()) if f[7] != "?" else None
        sspan = tuple(int(x) for x in f[8].split()) if f[8] != "?" else None
        dspan = tuple(int(x) for x in f[9].split()) if f[9] != "?" else None
        out["mutants"].append({"kind": f[1], "params": f[2], "site": f[3], "expected": f[4], "model_kind": f[5],
                               "model_site": f[6], "span": span, "stmt_span": sspan, "def_span": dspan,
                               "family_ok": f[10] == "1", "text": f[11].replace(NL, "\n") + "\n"})
    return out

def model_batch(progs):
    lines = [ser_prog(p) for p in progs]
    ans = common.run_model("minity", "\n".join(lines) + "\n")
    assert len(ans) == len(lines), (len(ans), len(lines))
    return [parse_answer(a) for a in ans]

# ----------------------------------------------------------------------------- compiling and judging
ERR_RE = re.compile(r"^\[L(\d+) C(\d+)\] #\d+ \((Error|Fatal Error)\)", re.M)

def compile_text(build, text, flags=None):
    args = ["-F" + f for f in (FLAGS if flags is None else flags)] + ["p.as"]
    r = aldor.compile(build, {"p.as": text}, args, timeout=120)
    if r["rc"] == "TIMEOUT":      # a loaded machine, not a verdict: once more with a long limit
        r = aldor.compile(build, {"p.as": text}, args, timeout=1200)
    return r

GATE_EXTS = ["asy", "ao", "fm", "lsp", "java", "c", "o"]       # order of the driver's answer
FLAGSETS = [[], ["ao"], ["fm"], ["c"], ["lsp"], ["asy"], ["ao", "c", "fm", "lsp", "asy"]]

def gate_observation(r, flags):
    """(request line, observed outputs) for the decision model, or None if exit status and
    error lines contradict each other (C07's business)"""
    diag = r["stdout"] + r["stderr"]
    nerr = len(re.findall(r"\((?:Fatal )?Error\)", diag))
    if r["rc"] == "TIMEOUT" or (nerr > 0) != (r["rc"] != 0):
        return None
    return ("X %d %s" % (nerr, " ".join(flags))).strip(), " ".join(e for e in GATE_EXTS if "p." + e in r["outputs"]) or "-"

def command_line(build):
    return " ".join(aldor.base_cmd(build) + ["-F" + f for f in FLAGS] + ["p.as"])

def in_span(pos, sp):
    return sp is not None and (sp[0], sp[1]) <= pos <= (sp[2], sp[3])

def judge_original(r):
    """None if accepted as required, else (class, why)"""
    if isinstance(r, Exception) or r["rc"] == "TIMEOUT":
        return ("compile-timeout", "the compiler did not finish (or could not be run): %r" % (r if isinstance(r, Exception) else "timeout 1200 s",))
    diag = r["stdout"] + r["stderr"]
    if r["rc"] != 0 or aldor.has_error_lines(diag):
        return ("rejected-original", "exit %s, diagnostics: %s" % (r["rc"], diag[:600]))
    missing = [f for f in FLAGS if "p." + f not in r["outputs"]]
    if missing:
        return ("rejected-original", "accepted but outputs missing: %s" % missing)
    return None

def judge_mutant(r, m):
    """(class|None, why, rule) ; rule in tight/loose/None"""
    if isinstance(r, Exception) or r["rc"] == "TIMEOUT":
        return ("compile-timeout", "the compiler did not finish (or could not be run) on the mutant: %r" % (r if isinstance(r, Exception) else "timeout 1200 s",), None)
    diag = r["stdout"] + r["stderr"]
    left = sorted(n for n in r["outputs"] if n.endswith(CODE_EXT))
    errs = [(int(a), int(b)) for a, b, _ in ERR_RE.findall(diag)]
    if r["rc"] == 0 or not aldor.has_error_lines(diag):
        if r["rc"] != 0 and r["rc"] != "TIMEOUT" and not aldor.has_error_lines(diag):
            return ("error-without-position", "exit %s without any (Error) line: %s" % (r["rc"], diag[:400]), None)
        return ("accepted-mutant:" + m["kind"], "exit %s, %d error lines, outputs %s" % (r["rc"], len(errs), sorted(r["outputs"])), None)
    if left:
        return ("outputs-after-error", "exit %s with errors, but left behind %s" % (r["rc"], left), None)
    if not errs:
        return ("error-without-position", "no (Error) line carries [L C]: %s" % diag[:400], None)
    if any(in_span(e, m["span"]) for e in errs):
        return (None, "", "tight")
    if any(in_span(e, m["stmt_span"]) for e in errs):
        return (None, "", "loose")
    if m.get("only_stmt") and any(e[0] == m["def_span"][0] and in_span(e, m["def_span"]) for e in errs):
        return (None, "", "block")
    return ("wrong-position:" + m["kind"], "errors at %s, mutated construct spans %s (statement %s)" % (errs[:4], m["span"], m["stmt_span"]), None)

VALUE_FORMS = {"r": "return", "e": "last-expr", "x": "exit-value"}

def value_form(prog, site):
    """for a statement-level site: which value position of a function body it is (None otherwise)"""
    env, st, node, fdef = locate(prog, site)
    if st is None or node is not None or st[0] not in VALUE_FORMS: return None
    return "bare-body" if (fdef and fdef.get("bare")) else VALUE_FORMS[st[0]]

def callee_single_export(prog, site):
    env, st, node, fdef = locate(prog, site)
    return node is not None and node[0] == "A" and single_export(env, node[1], node[2])

def callee_anonymous(prog, site):
    """some meaning of the callee at the site is a signature written without parameter names"""
    env, st, node, fdef = locate(prog, site)
    if node is None or node[0] != "A": return False
    ms = meanings(env, node[1], node[2])
    return any(m[1][3] for m in ms)

def keyword_value_fits_anonymous(prog, site, params):
    """cause of an accepted `wrongArgType a t` mutant: argument `a` of the call at the site is a KEYWORD
    argument, and an overload of the callee written without parameter names accepts the call with the new
    literal when all arguments are read by position (the compiler ignores the keyword there: the recorded
    finding `…|anon-signature`).  Every other accepted wrongArgType mutant stays a violation."""
    try:
        a, t = params.split(); a = int(a)
    except ValueError:
        return False
    env, st, node, fdef = locate(prog, site)
    if node is None or node[0] != "A" or not node[4]: return False
    n = len(node[3])
    if a < n - len(node[4]) or a >= n: return False          # not a keyword argument
    ps = [poss(env, x) for x in node[3]]
    ps[a] = {t}
    res = poss(env, node)                                     # the types the context could have asked for
    for _, s in meanings(env, node[1], node[2]):
        if s[3] and len(s[1]) == n and s[2] in res and all(p[1] in q for p, q in zip(s[1], ps)):
            return True
    return False

def shape_of(prog, site, kind=None, params=""):
    idx = [int(x) for x in site.split(".")] if site != "-" else []
    d = prog[idx[0]] if idx and idx[0] < len(prog) else ("?",)
    where = {"C": "cat", "D": "dom", "F": "functor", "U": "func", "I": "import", "S": "top"}.get(d[0], "?")
    below = len(idx) - {"D": 3, "F": 3, "U": 2, "S": 1}.get(d[0], 1)
    what = "decl" if (d[0] in "DF" and len(idx) == 1) else ("stmt" if below == 0 else "expr")
    if what == "stmt":
        vf = value_form(prog, site)
        if vf: what = vf
    if kind == "unknownKeyword" and callee_anonymous(prog, site):
        return "anon-signature"
    if kind in ("unknownKeyword", "keywordDupPositional") and callee_single_export(prog, site):
        return "single-export-category"
    if kind == "wrongArgType" and keyword_value_fits_anonymous(prog, site, params):
        return "anon-signature"
    return where + ":" + what

# ----------------------------------------------------------------------------- shrinking
def reductions(prog):
    """smaller programs: drop a declaration, a definition of an add body, a statement"""
    for i in range(len(prog)):
        yield prog[:i] + prog[i + 1:]
    for i, d in enumerate(prog):
        if d[0] in "DF":
            defs = d[-1]
            for j in range(len(defs)):
                yield prog[:i] + [d[:-1] + (defs[:j] + defs[j + 1:],)] + prog[i + 1:]
            for j, fd in enumerate(defs):
                for k in range(len(fd["body"]) - 1):
                    nfd = dict(fd, body=fd["body"][:k] + fd["body"][k + 1:])
                    yield prog[:i] + [d[:-1] + (defs[:j] + [nfd] + defs[j + 1:],)] + prog[i + 1:]
        elif d[0] == "U":
            fd = d[1]
            for k in range(len(fd["body"]) - 1):
                yield prog[:i] + [("U", dict(fd, body=fd["body"][:k] + fd["body"][k + 1:]))] + prog[i + 1:]

def shrink(build, prog, cls, kind, budget=200):
    """greedy: keep a reduction if the model still accepts it and the same violation class shows
    (for mutant classes: on some mutant of the same kind).  Returns (prog, text, diagnostics)."""
    def fails(p):
        a = model_batch([p])[0]
        if a["verdict"] != "ok": return None
        if cls == "rejected-original":
            r = compile_text(build, a["text"])
            j = judge_original(r)
            return (a["text"], r) if j else None
        ms = [m for m in a["mutants"] if m["kind"] == kind][:12]
        rs = aldor.run_many([(compile_text, (build, m["text"]), {}) for m in ms])
        for m, r in zip(ms, rs):
            if judge_mutant(r, m)[0] == cls:
                return (m["text"], r)
        return None
    best = None
    changed = True
    while changed and budget > 0:
        changed = False
        for q in reductions(prog):
            budget -= 1
            if budget <= 0: break
            try:
                f = fails(q)
            except Exception:
                f = None
            if f:
                prog, best, changed = q, f, True
                break
    return prog, best

# ----------------------------------------------------------------------------- the part
def run_part(ctx, build):
    rng = ctx.rng
    thorough = ctx.tier == "thorough"
    # budget in compiler runs (a rejected compile takes ~0.1 s; 16 workers): whole programs are
    # taken until the budget is reached, every mutant of a taken program is compiled
    budget = int(os.environ.get("VERIF_TYPING_BUDGET", 60000 if thorough else 3000))
    progs, answers, total = [], [], 0
    first = True
    while total < budget:
        batch = [seed_program(), probe_single_export()] if first else [Gen(rng, rng.choice((0, 0, 1, 1, 2))).program() for _ in range(6)]
        first = False
        for p, a in zip(batch, model_batch(batch)):
            if total >= budget: break
            a["enumerated"] = len(a["mutants"])
            seen_text, uniq = set(), []
            for m in a["mutants"]:            # two kinds may produce the same text at one site: compile it once
                if (m["site"], m["text"]) not in seen_text:
                    seen_text.add((m["site"], m["text"])); uniq.append(m)
            a["mutants"] = uniq
            if p[0][1] == "CatP":
                a["mutants"] = []         # the probe is judged as an original only
            if not thorough and progs:
                # quick tier (the fixed first program is always complete): of the up to three wrong literal
                # types offered for one argument one is compiled, and the frequent kinds are sampled down
                # (seeded choice) to PER_PROGRAM sites per program; the rare kinds are always complete
                by_arg = {}
                for m in a["mutants"]:
                    if m["kind"] == "wrongArgType":
                        by_arg.setdefault((m["site"], m["params"].split()[0]), []).append(m)
                chosen = {id(rng.choice(v)) for v in by_arg.values()}
                ms = [m for m in a["mutants"] if m["kind"] != "wrongArgType" or id(m) in chosen]
                frequent = [m for m in ms if m["kind"] in COMMON_KINDS]
                if len(frequent) > PER_PROGRAM:
                    keep = {id(m) for m in rng.sample(frequent, PER_PROGRAM)}
                    ms = [m for m in ms if m["kind"] not in COMMON_KINDS or id(m) in keep]
                a["mutants"] = ms
            progs.append(p); answers.append(a)
            total += 1 + len(a["mutants"])
    stats = {"programs": len(progs), "mutants_enumerated": sum(a.get("enumerated", len(a["mutants"])) for a in answers), "model_rejected_generated": 0, "mutants": 0, "originals_accepted": 0,
             "mutants_rejected": 0, "position_tight": 0, "position_loose": 0, "model_inconsistent": 0,
             "position_block": 0,
             "per_kind": {k: {"eligible": 0, "rejected": 0, "tight": 0, "loose": 0, "block": 0} for k in KINDS},
             "gate_checked": 0, "gate_mismatch": 0, "miniald": "absent"}
    tags = {}
    cmd = command_line(build)
    jobs, meta = [], []
    for pi, (p, a) in enumerate(zip(progs, answers)):
        tags[a["tags"].split(" ")[0]] = tags.get(a["tags"].split(" ")[0], 0) + 1
        if a["verdict"] != "ok" or a["head"][-1] != "1":
            # the python oracle built it as well typed: python rules and Lean rules disagree
            stats["model_rejected_generated"] += 1
            ctx.violation("typing|generator-model-disagree", "the generator's program %d is not accepted by the Lean checker: %s"
                          % (pi, a["head"]), {"kind": "check-internal", "request": ser_prog(p), "answer": a["head"], "source": a["text"]},
                          found_input=False)
            continue
        jobs.append((compile_text, (build, a["text"]), {})); meta.append((pi, None))
        for m in a["mutants"]:
            stats["per_kind"][m["kind"]]["eligible"] += 1
            tags[m["kind"]] = tags.get(m["kind"], 0) + 1
            if m["kind"] == "wrongReturnType":
                vf = "value-position:%s" % value_form(p, m["site"])
                tags[vf] = tags.get(vf, 0) + 1
            elif m["kind"] == "unknownKeyword" and callee_anonymous(p, m["site"]):
                tags["unknownKeyword:anon-signature"] = tags.get("unknownKeyword:anon-signature", 0) + 1
            if m["model_kind"] != m["expected"] or m["model_site"] != m["site"] or not m["family_ok"]:
                # executable form of `mutant_ill_typed` on this instance
                stats["model_inconsistent"] += 1
                ctx.violation("typing|model-inconsistent:" + m["kind"], "typecheck of the mutant gives %s@%s, theorem says %s@%s"
                              % (m["model_kind"], m["model_site"], m["expected"], m["site"]),
                              {"kind": "model-inconsistent", "request": ser_prog(p), "mutant": m}, found_input=False)
            _, st_, _, fd_ = locate(p, m["site"])
            m["only_stmt"] = bool(fd_ and st_ is not None and not fd_.get("bare") and len(fd_["body"]) == 1 and m["def_span"])
            jobs.append((compile_text, (build, m["text"]), {})); meta.append((pi, m))
    results = aldor.run_many(jobs, workers=16)
    gate_reqs, gate_obs = [], []
    reported = set()
    for (pi, m), r in zip(meta, results):
        p, a = progs[pi], answers[pi]
        ctx.cov["evaluations"] += 1
        if not isinstance(r, Exception):
            go = gate_observation(r, FLAGS)
            if go:
                gate_reqs.append(go[0]); gate_obs.append(go[1])
        if m is None:
            j = judge_original(r)
            if j is None:
                stats["originals_accepted"] += 1
                if pi % 8 == 0:
                    ctx.sample({"program": pi, "lines": a["text"].count("\n"), "mutants": len(a["mutants"]), "verdict": "accepted, outputs present"})
                continue
            sig = "typing|%s|%s" % (j[0], "single-export-category" if p[0][1] == "CatP" else "+".join(sorted({d[0] for d in p})))
            if sig in reported: continue
            reported.add(sig)
            q, best = shrink(build, p, j[0], None) if (j[0] == "rejected-original" and p[0][1] != "CatP") else (p, None)
            text, rr = best if best else (a["text"], r)
            ctx.finding(sig, "a program of the well-typed family (accepted by the modelled typing judgement) is not accepted by the compiler: " + j[1],
                        {"kind": j[0], "source": text, "command": cmd,
                         "diagnostics": (rr["stdout"] + rr["stderr"])[:3000] if isinstance(rr, dict) else repr(rr)})
            continue
        stats["mutants"] += 1
        cls, why, rule = judge_mutant(r, m)
        pk = stats["per_kind"][m["kind"]]
        if cls is None:
            stats["mutants_rejected"] += 1; pk["rejected"] += 1
            stats["position_" + rule] += 1; pk[rule] += 1
            continue
        shape = shape_of(p, m["site"], m["kind"], m["params"])
        sig = "typing|%s|%s" % (cls, shape)
        stats["failed"] = stats.get("failed", 0) + 1
        if sig in reported: continue
        reported.add(sig)
        q, best = shrink(build, p, cls, m["kind"]) if cls != "compile-timeout" else (p, None)
        text, rr = best if best else (m["text"], r)
        ctx.finding(sig, "single-fault mutant (%s %s at site %s, %s) of a well-typed program: %s" % (m["kind"], m["params"], m["site"], shape, why),
                    {"kind": cls, "mutation": {k: m[k] for k in ("kind", "params", "site", "span", "stmt_span")},
                     "source": text, "command": cmd,
                     "diagnostics": (rr["stdout"] + rr["stderr"])[:3000] if isinstance(rr, dict) else repr(rr)})
    # other output selections (the decision model's other branches): seed program and three of its mutants
    a0 = answers[0]
    if a0["verdict"] == "ok":
        texts = [a0["text"]] + [m["text"] for m in a0["mutants"][::max(1, len(a0["mutants"]) // 3)][:3]]
        sweep = [(t, fl) for t in texts for fl in FLAGSETS]
        rs = aldor.run_many([(compile_text, (build, t, fl), {}) for t, fl in sweep], workers=16)
        for (t, fl), r in zip(sweep, rs):
            ctx.cov["evaluations"] += 1
            if isinstance(r, Exception): continue
            go = gate_observation(r, fl)
            if go:
                gate_reqs.append(go[0]); gate_obs.append(go[1])
                if go[0].split()[1] != "0" and go[1] != "-":
                    ctx.finding("typing|outputs-after-error|flags:" + "+".join(fl), "errors were reported but %s was written (-F %s)" % (go[1], fl),
                                {"kind": "outputs-after-error", "source": t, "command": " ".join(aldor.base_cmd(build) + ["-F" + f for f in fl] + ["p.as"]),
                                 "diagnostics": (r["stdout"] + r["stderr"])[:3000]})
    # the output decision model against what the compiler left behind
    if gate_reqs:
        uniq = sorted(set(zip(gate_reqs, gate_obs)))
        pred, gtags = common.split_model(common.run_model("minity", "\n".join(u[0] for u in uniq) + "\n"))
        stats["gate_checked"] = len(gate_reqs)
        for (req, obs), pr, gt in zip(uniq, pred, gtags):
            tags[gt] = tags.get(gt, 0) + sum(1 for x in zip(gate_reqs, gate_obs) if x == (req, obs))
            if pr != obs:
                stats["gate_mismatch"] += 1
                errs = int(req.split()[1])
                if errs > 0 and obs != "-":
                    pass      # already reported as outputs-after-error with its source
                else:
                    ctx.corr_broken.append((NAME, req, obs, pr))
    # the richer generator of another part, if present
    try:
        from vlib import miniald
    except Exception:
        miniald = None
    if miniald is not None:
        try:
            ps = miniald.generate(ctx.rng, 200 if thorough else 30)
            verdicts = miniald.model(ps)
            # miniald.model: one dict per program, "ok" = accepted by its typing model, "braced" = source text
            acc = [v["braced"] for v in verdicts if isinstance(v, dict) and v.get("ok") and v.get("braced")]
            rs = aldor.run_many([(compile_text, (build, t), {}) for t in acc], workers=16)
            bad = 0
            for t, r in zip(acc, rs):
                ctx.cov["evaluations"] += 1
                j = judge_original(r)
                if j:
                    bad += 1
                    ctx.finding("typing|rejected-original|miniald", "a program accepted by the miniald model is not accepted by the compiler: " + j[1],
                                {"kind": "rejected-original", "source": t, "command": cmd,
                                 "diagnostics": (r["stdout"] + r["stderr"])[:3000] if not isinstance(r, Exception) else repr(r)})
            stats["miniald"] = {"accepted_by_model": len(acc), "rejected_by_compiler": bad}
        except Exception as e:       # the other part's interface is not ours to fix here
            stats["miniald"] = "unusable: %r" % (e,)
    for k in KINDS:
        if stats["per_kind"][k]["eligible"] == 0:
            ctx.notes.append("typing: no eligible site for kind %s in this run" % k)
    stats["tags"] = tags
    ctx.cov[NAME] = stats
    ctx.cov["distinct_nontrivial"] += stats["mutants_rejected"] + stats["originals_accepted"]
    ctx.cov["rule"] = ("every generated program and every eligible (kind, site) mutant is one evaluation; a mutant passes on "
                       "exit!=0, a positioned (Error) inside the mutated construct (tight) or its statement (loose), no code file left")
    return stats
