"""part `dnf` (C20): dnf.c vs Model/Dnf.lean.  Tie: hand model + correspondence (H)."""
import itertools, os
from vlib import common
from vlib.common import VERIF

NAME = "dnf"
BUILD_TARGETS = ["AldorVerif.Props.C20Dnf"]
SOURCES = ["dnf.c", "dnf.h"]
MODELLED = "dnf.c: dnfAtomLT dnfAndMerge dnfAndImplies dnfAndImpliesNegation dnfAndCancelNegation dnfAndNot dnfOrMerge dnfTrue dnfFalse dnfIsTrue dnfIsFalse dnfAtom dnfNotAtom dnfOr dnfAnd dnfNot dnfImplies dnfEqual (not: dnfMap dnfExpandImplies dnfAlias dnfFollow printing)"
THEOREMS = [("AldorVerif.Props.C20Dnf", "AldorVerif.Dnf." + t) for t in (
    "dnf_sem_partial", "dnf_sem_statement_refuted", "dnf_or_sem_partial", "dnf_and_sem_partial",
    "dnf_not_sem_partial", "dnf_implies_sound", "dnf_equal_sound", "dnf_implies_incomplete",
    "and_merge_exact")]

# ------------------------------------------------------------------ formulas
def gen_formulas_exhaustive(atoms, depth):
    """all formulas in Polish notation up to `depth` over the literals ±atoms, T, F"""
    lv = [["T"], ["F"]] + [[str(s * a)] for a in atoms for s in (1, -1)]
    levels = [lv]
    allf = list(lv)
    for d in range(depth):
        new = []
        prev = levels[-1]
        older = [f for L in levels[:-1] for f in L]
        for f in prev:
            new.append(["~"] + f)
        for op in ("&", "|"):
            for f in prev:
                for g in allf:
                    new.append([op] + f + g)
            for f in older:
                for g in prev:
                    new.append([op] + f + g)
        levels.append(new)
        allf += new
    return allf

def gen_formula_random(rng, natoms, depth):
    if depth == 0 or rng.random() < 0.15:
        r = rng.random()
        if r < 0.04: return ["T"]
        if r < 0.08: return ["F"]
        return [str(rng.choice((1, -1)) * rng.randint(1, natoms))]
    r = rng.random()
    if r < 0.2:
        return ["~"] + gen_formula_random(rng, natoms, depth - 1)
    op = "&" if r < 0.6 else "|"
    return [op] + gen_formula_random(rng, natoms, depth - 1) + gen_formula_random(rng, natoms, depth - 1)

def eval_polish(toks, env):
    """truth value of a Polish formula; returns (value, rest)"""
    t = toks[0]
    if t == "T": return True, toks[1:]
    if t == "F": return False, toks[1:]
    if t == "~":
        v, r = eval_polish(toks[1:], env); return (not v), r
    if t in "&|":
        a, r = eval_polish(toks[1:], env)
        b, r = eval_polish(r, env)
        return ((a and b) if t == "&" else (a or b)), r
    n = int(t)
    return (env[abs(n)] if n > 0 else not env[abs(n)]), toks[1:]

def parse_dnf(s):
    # DNF{[1 -2] [3]}
    assert s.startswith("DNF{") and s.endswith("}"), s
    body = s[4:-1]
    out = []
    i = 0
    while i < len(body):
        if body[i] == "[":
            j = body.index("]", i)
            out.append([int(x) for x in body[i + 1:j].split()])
            i = j + 1
        else:
            i += 1
    return out

def eval_dnf(d, env):
    return any(all((env[abs(l)] if l > 0 else not env[abs(l)]) for l in c) for c in d)

def atoms_of(toks):
    return sorted({abs(int(t)) for t in toks if t not in ("T", "F", "~", "&", "|", ";")})

def envs(atoms):
    for bits in itertools.product((False, True), repeat=len(atoms)):
        yield dict(zip(atoms, bits))

def run_part(ctx, build):
    exe = build.cc_driver("dnf_drv", os.path.join(VERIF, "harness", "dnf_drv.c"))
    rng = ctx.rng
    lines = []
    # corpus first
    corp = os.path.join(VERIF, "corpus", "dnf")
    if os.path.isdir(corp):
        for f in sorted(os.listdir(corp)):
            lines += [l.strip() for l in open(os.path.join(corp, f)) if l.strip() and not l.startswith("#")]
    ncorpus = len(lines)
    thorough = ctx.tier == "thorough"
    ex = gen_formulas_exhaustive([1, 2, 3] if not thorough else [1, 2, 3, 4], 2)
    if not thorough and len(ex) > 60000:
        ex = ex[:2000] + rng.sample(ex[2000:], 40000)
    # depth 3 is not enumerable (~10^8 formulas): thorough samples it instead
    ex3 = []
    if thorough:
        lvl2 = gen_formulas_exhaustive([1, 2], 2)
        for _ in range(300000):
            f, g = rng.choice(lvl2), rng.choice(lvl2)
            ex3.append([rng.choice("&|")] + f + g if rng.random() < 0.85 else ["~"] + f)
    for f in ex + ex3:
        lines.append("B " + " ".join(f))
    nrand = 20000 if not thorough else 200000
    for _ in range(nrand):
        na = rng.choice((2, 3, 4, 4, 6, 10))
        lines.append("B " + " ".join(gen_formula_random(rng, na, rng.randint(2, 6))))
    for _ in range(nrand // 2):
        na = rng.choice((2, 3, 4, 10))
        f = gen_formula_random(rng, na, rng.randint(1, 4))
        g = gen_formula_random(rng, na, rng.randint(1, 4))
        if rng.random() < 0.3:
            g = ["|"] + f + g      # make implications that hold more frequent
        lines.append("%s %s ; %s" % (rng.choice("IE"), " ".join(f), " ".join(g)))
    c = common.run_impl_lines(exe, lines)
    m, tags = common.split_model(common.run_model("dnf", "\n".join(lines) + "\n"))
    assert len(m) == len(lines), (len(m), len(lines))
    stats = {"lines": len(lines), "corpus": ncorpus, "exhaustive": len(ex) + len(ex3), "mismatch": 0,
             "sem_checked": 0, "multi_cancel": 0, "multi_cancel_wrong": 0, "implies_true": 0,
             "implies_false_but_valid": 0, "faults": 0, "distinct_results": 0}
    seen = set()
    for k, ln in enumerate(lines):
        toks = ln.split()
        co = c[k] if k < len(c) else "MISSING"
        mo = m[k]
        multi = "multi=1" in tags[k]
        if multi: stats["multi_cancel"] += 1
        seen.add(co)
        if co.startswith("FAULT") or co in ("MISSING", "SKIPPED"):
            stats["faults"] += 1
            ctx.finding("dnf|fault", "dnf.c faults (%s) on: %s" % (co, ln),
                        {"kind": "impl-fault", "driver": "harness/dnf_drv.c", "line": ln, "impl": co, "model": mo})
            continue
        # executable property on the implementation's own output
        ats = atoms_of(toks[1:])
        impl_ok = True
        why = ""
        try:
            if toks[0] == "B":
                d = parse_dnf(co)
                for env in envs(ats):
                    if eval_dnf(d, env) != eval_polish(toks[1:], env)[0]:
                        impl_ok = False; why = "normal form differs from formula under %s" % env; break
                stats["sem_checked"] += 1
            else:
                r, rest = co.split(" ", 1)
                i2 = rest.index("} DNF{") + 1
                d1, d2 = parse_dnf(rest[:i2]), parse_dnf(rest[i2 + 1:])
                valid_imp = all((not eval_dnf(d1, e)) or eval_dnf(d2, e) for e in envs(ats))
                valid_eq = all(eval_dnf(d1, e) == eval_dnf(d2, e) for e in envs(ats))
                valid = valid_imp if toks[0] == "I" else valid_eq
                if r == "1":
                    stats["implies_true"] += 1
                    if not valid:
                        impl_ok = False; why = "answered yes but the %s does not hold" % ("implication" if toks[0] == "I" else "equivalence")
                elif valid:
                    stats["implies_false_but_valid"] += 1
                    if co == mo:
                        ctx.finding("dnf|implies-incomplete",
                                    "dnfImplies/dnfEqual answer no although the normal forms are logically related (sound, not complete), e.g. %s -> %s" % (ln, co),
                                    {"kind": "impl-incomplete", "line": ln, "impl": co})
                stats["sem_checked"] += 1
        except Exception as e:
            impl_ok = False; why = "unparsable driver output %r (%s)" % (co, e)
        if co != mo:
            stats["mismatch"] += 1
            if not impl_ok:
                ctx.finding("dnf|semantics|" + ln, "dnf.c result %s for `%s` is wrong: %s (model: %s)" % (co, ln, why, mo),
                            {"kind": "impl-violates-property", "line": ln, "impl": co, "model": mo, "why": why,
                             "replay_cmd": "echo '%s' | <dnf_drv built by ./check C20>" % ln})
            else:
                ctx.corr_broken.append(("dnf", ln, co, mo))
        elif not impl_ok:
            if multi:
                stats["multi_cancel_wrong"] += 1
                ctx.finding("dnf|dnfOrMerge-multi-cancel",
                            "dnfOrMerge cancels a disjunct against the negation of a multi-literal disjunct (unsound; the suite's own test DNF2 expects it), e.g. `%s` -> %s: %s" % (ln, co, why),
                            {"kind": "impl-violates-property", "line": ln, "impl": co, "why": why})
            else:
                ctx.violation("dnf|model-and-impl-wrong|" + ln, "implementation and model agree on `%s` -> %s but %s, and no multi-literal cancel fired (contradicts dnf_sem_partial: model/driver defect)" % (ln, co, why),
                              {"kind": "inconsistent", "line": ln, "impl": co})
        if k % 5000 == 17:
            ctx.sample({"module": "dnf", "request": ln, "impl": co, "model": mo, "tags": tags[k]})
    stats["distinct_results"] = len(seen)
    ctx.cov["dnf"] = stats
    ctx.cov["evaluations"] += len(lines)
    ctx.cov["distinct_nontrivial"] += len(seen)
    return stats

