"""part `mangle` (C16): C identifier generation and file splitting of genc.c / emit.c vs
Model/Mangle.lean + Model/CSplit.lean.  Tie: hand model + correspondence (H) through
harness/mangle_drv.c (which #includes the scratch tree's genc.c), the regenerated table
Gen/SpecChar.lean (translate/specchar.py), and an end-to-end sub-check that compiles small
programs under a sample of the -C option combinations of the property."""
import concurrent.futures, itertools, os, re, shutil, sys, time
from vlib import common
from vlib.common import VERIF

sys.path.insert(0, os.path.join(VERIF, "translate"))
import specchar  # noqa: E402

NAME = "mangle"
BUILD_TARGETS = ["AldorVerif.Props.C16"]
SOURCES = ["genc.c", "strops.c", "buffer.c", "emit.c", "ccomp.c", "ccode.c"]
MODELLED = ("genc.c: genCSetIdLen genCSetSMax gc0InitSpecialChars(+ccSpecCharIdTable, regenerated) gc0UnderIdLen "
            "gc0ValidIdInBuf gc0IdHashInBuf gc0VarId gc0MultVarId, the splitting loop of gc0ExternDecls; "
            "the INIT__<n>_<module> name at its call sites; strops.c: strHash; buffer.c: bufPuti (i>=0); "
            "emit.c: emitTheC file naming; ccode.c: ccoPrToken string/character literal escaping "
            "(not: -Cfname override, prototype generation in ccode.c, negative indices)")
THEOREMS = [("AldorVerif.Props.C16", "AldorVerif.Mangle." + t) for t in (
    "local_names_injective", "varId_injective", "kinds_distinct", "kinds_spellings_distinct",
    "spec_char_injective", "spec_char_injective_statement_refuted",
    "global_collision_iff", "global_collision_nohash_iff", "global_names_injective_unlimited",
    "witness_collides", "witness_name", "global_names_injective_statement_refuted",
    "init_sites_agree", "init_name_eq_iff", "module_init_names_injective_fit",
    "module_init_names_injective_statement_refuted")] + \
    [("AldorVerif.Props.C16", "AldorVerif.CLit." + t) for t in (
    "literal_escape_dialects_agree", "literal_escape_roundtrip_partial",
    "literal_escape_roundtrip_statement_refuted")] + \
    [("AldorVerif.Props.C16", "AldorVerif.CSplit." + t) for t in (
    "split_partition", "split_off", "split_part_guarantee", "split_count", "init_distinct",
    "split_names_distinct_partial", "split_names_distinct_short", "split_names_distinct",
    "split_names_distinct_statement_refuted")]

SIG_COLLISION = "mangle|global-hash-collision"
SIG_FILECLASH = "mangle|split-file-name-clash"
SIG_IDLEN = "mangle-e2e|idlen-import-mismatch"
SIG_OCTAL = "mangle|literal-octal-escape"
SIG_INITCLASH = "mangle|init-name-collision"

VAR_HASH = 0x39AA3F9
KINDS = ["F", "C", "CF", "X", "P", "R", "T", "J", "L", "l", "e", "tmp", "tmpClos", "GA", "GB", "GRRFmt",
         "Fmt", "TFmt", "PFmt", "INIT_", "fiEnvLevel", "fiCCall", "fiRecNewFmt"]
WEIRD_KINDS = ["G", "pG", "Gx", "9x", "7", "", "_", "a_b", "p"]
QUANT_IDLEN = [0, 30, 31, 40, 64]

# the translator runs before the Lean build: run_parts proves first and only then calls
# run_part, so the table is regenerated from /repo's current tree when the part is loaded
# (the scratch tree is a copy of the same files); run_part re-checks against the scratch tree.
def prepare_src(src_dir=None):
    return prepare(src_dir)

def prepare(src_dir=None):
    return specchar.regenerate(src_dir or common.SRC)

try:
    _PREPARED = prepare()
except Exception as _e:          # reported in run_part
    _PREPARED = "failed: %s" % _e


def hx(s):
    if isinstance(s, str):
        s = s.encode("latin-1")
    return s.hex() if s else "-"

# ------------------------------------------------------------------ independent oracle helpers
def py_strhash(b):
    h = 0
    for ch in b:
        h ^= (h << 8)
        h += ch + 200041
        h &= 0x3FFFFFFF
    return h

def b36(n):
    d = "0123456789ABCDEFGHIJKLMNOPQRSTUVWXYZ"
    s = ""
    while n:
        s = d[n % 36] + s
        n //= 36
    return s

C_ID = re.compile(r"^[A-Za-z0-9_]*$")

# ------------------------------------------------------------------ identifiers
def gen_names(rng, table, thorough):
    """identifiers of 20..80 characters sharing prefixes of every length, every special
    character, names that spell table words, dropped characters"""
    alnum = "abcdefghijklmnopqrstuvwxyzABCDEFGHIJKLMNOPQRSTUVWXYZ0123456789"
    specials = "".join(chr(c) for c, _ in table)
    names = []
    def rnd(n, alphabet):
        return "".join(rng.choice(alphabet) for _ in range(n))
    bases = ["theQuickBrownFoxJumpsOverTheLazyDogAndKeepsRunningThroughTheForestUntilNightFall0",
             rnd(80, alnum), rnd(80, alnum + specials), "f_" + rnd(78, alnum + "_?!")]
    if thorough:
        bases += [rnd(80, alnum + specials) for _ in range(12)]
    for B in bases:
        for p in range(0, 81):
            for _ in range(2):
                tot = rng.randint(max(20, p + 1), 80) if p < 80 else 80
                names.append((B[:p] + rnd(tot - p, alnum + ("" if rng.random() < .7 else specials)))[:80])
    # every special character, also right at the truncation boundary
    for ch in specials:
        names += [ch, ch * 3, "x" + ch, ch + "x", "name" + ch + "rest", "a" * 40 + ch]
        for pos in range(14, 31):
            names.append("q" * pos + ch + "tail")
    # names that spell table words
    for c, w in table:
        w = bytes(w).decode("latin-1")
        names += [w, "x" + w, w + "y", w.strip("_"), "x_" + w.strip("_") + "_", "x" + chr(c), chr(c) + w]
    # dropped characters (escaped identifiers can contain them)
    names += ["a b", "ab", "a\tb", "\x01", "a\x1fb", " ", "x y z", "xyz", "a" * 29 + " b", "a" * 29 + "b"]
    names += ["", "a", "_", "__", "0", "9lives", "G", "pG"]
    out, seen = [], set()
    for n in names:
        if n not in seen and all(0 < ord(ch) < 127 for ch in n):
            seen.add(n); out.append(n)
    return out

def kept_only(name, keptset):
    return all(ch in keptset for ch in name)


# ------------------------------------------------------------------ literals and initialiser names
def gen_lits(rng, thorough):
    texts = []
    printable = bytes(range(32, 127))
    texts += [printable, printable[::-1], b"??= ??/ ??' ??( ??) ??! ??< ??> ??- ?\\? %d %s %% _ __",
              b"tab[\t] nl[\n] cr[\r] bs[\b] vt[\v] ff[\f] bel[\a]", b"\\", b"\\\\", b"\"", b"'", b"?", b"??", b"%", b"_",
              b"a\"b'c\\d?e", b"\x01" + b"7", b"\x05" + b"65", b"\x7f", b"\xe9", b"\x01x", b"\x07.", b"\x1b[0m", b"\x1f8"]
    for c in range(1, 256):
        texts.append(bytes([c]))
    for c in list(range(1, 32)) + [34, 39, 63, 92, 127, 128, 200, 255]:
        for d in b"07 89a?\\\"'":
            texts.append(bytes([c, d]))
    alpha = bytes(range(1, 256))
    hot = b"?\\\"'%_01234567\t\n\x01\x07\x7f"
    for _ in range(600 if not thorough else 6000):
        n = rng.randint(1, 24)
        texts.append(bytes(rng.choice(hot) if rng.random() < .5 else rng.choice(alpha) for _ in range(n)))
    reqs, seen = [], set()
    for tx in texts:
        if tx in seen:
            continue
        seen.add(tx)
        for std in (0, 1):
            reqs.append("lit %d s %s" % (std, tx.hex()))
            if len(tx) == 1:
                reqs.append("lit %d c %s" % (std, tx.hex()))
    return reqs

C_SIMPLE = {ord("n"): 10, ord("t"): 9, ord("v"): 11, ord("b"): 8, ord("r"): 13, ord("f"): 12, ord("a"): 7,
            34: 34, 39: 39, 92: 92, 63: 63}

def c_denote(tok):
    """bytes a C compiler denotes by a printed literal token (quotes included); None = ill-formed"""
    if len(tok) < 2 or tok[0] != tok[-1] or tok[0] not in (34, 39):
        return None
    q, body, out, i = tok[0], tok[1:-1], [], 0
    while i < len(body):
        c = body[i]
        if c == 92:
            i += 1
            if i >= len(body): return None
            e = body[i]
            if 48 <= e <= 55:
                v, k = 0, 0
                while i < len(body) and 48 <= body[i] <= 55 and k < 3:
                    v = 8 * v + body[i] - 48; i += 1; k += 1
                out.append(v & 0xFF if v < 256 else v)
                continue
            if e not in C_SIMPLE: return None
            out.append(C_SIMPLE[e]); i += 1
        elif c == q or c == 10:
            return None
        else:
            out.append(c); i += 1
    return out

def lit_unsafe(tx):
    """texts for which the recorded printer defect applies"""
    for i, c in enumerate(tx):
        if c >= 127: return True
        if c < 8 and i + 1 < len(tx) and 48 <= tx[i + 1] <= 55: return True
    return False

def gen_inits(rng, thorough):
    stem = "modulenamemodulenamemodulenamemodulenamemodulenamemodulename"
    units = [stem[:n - 2] + "%02d" % n for n in (3, 8, 16, 21, 22, 23, 24, 30, 48)] + \
            ["u", "a-b", "sal_lang", "x.y", "my-long_unit.name-with-specials", "9lives", "modulenamemodulenamemoLibraryPart"]
    imports = [[], ["runtime"], ["sal_lang", "sal_base"], ["modulenamemodulenamemoClientPart"],
               [stem[:28] + "30", stem[:21] + "X"], ["a-b", "a_b"]]
    idlens = QUANT_IDLEN + [12, 20, 29]
    reqs = []
    for u in units:
        for im in imports:
            for L in (QUANT_IDLEN if not thorough else idlens):
                reqs.append("inits %d %d %s %s" % (L, rng.choice((0, 1, 2, 3)), hx(u), " ".join(hx(x) for x in im)))
        reqs.append("inits %d %d %s %s" % (rng.choice(idlens), 1, hx(u), hx("runtime")))
    return [r.rstrip() for r in reqs]

def check_inits_output(toks, out):
    """(ok, why, clash): one name per part, one per module, main's name among them"""
    L = int(toks[1]); smax = int(toks[2])
    smax = 1 if smax < 0 else smax
    un = lambda h: bytes.fromhex(h).decode("latin-1") if h != "-" else ""
    unit = un(toks[3]); imps = [un(h) for h in toks[4:]]
    if " ; " not in out:
        return False, "unparsable answer", False
    a, b = out.split(" ; ")
    A, B = a.split(), b.split()
    parts = (4 - 1) // smax if smax > 0 and 4 > smax else 0
    if len(B) != 1 or B[0] not in A:
        return False, "the generated main refers to %s, the unit defines/mentions %s" % (B, A[:6]), False
    byk = {}
    for nm in A:
        m = re.match(r"INIT__(\d+)_", nm)
        if not m:
            return False, "malformed initialiser name " + nm, False
        byk.setdefault(int(m.group(1)), []).append(nm)
    for k in range(1, parts + 1):
        if len(byk.get(k, [])) != 1:
            return False, "part %d: definition, declaration and call use the names %s" % (k, byk.get(k)), False
    if set(byk) - set(range(parts + 1)):
        return False, "initialiser numbers %s for %d parts" % (sorted(byk), parts), False
    mods = {unit, "rtexns"} | set(imps)
    if len(byk.get(0, [])) > len(mods):
        return False, "%d different INIT__0 names for %d modules: %s" % (len(byk[0]), len(mods), byk[0]), False
    return True, "", len(byk.get(0, [])) < len(mods)

# ------------------------------------------------------------------ split requests
def gen_splits(rng, thorough):
    units = []                      # (smax, nglo, base, bodies)
    for smax in (-1, 0, 1, 2, 3, 4, 6):
        for nglo in (0, 2):
            for n in range(1, 4 if not thorough else 5):
                for bodies in itertools.product((0, 1, 3), repeat=n):
                    units.append((smax, nglo, "u", list(bodies)))
    bases = ["u", "abcde001", "abcde002", "abcdefg", "abcd", "x12345678", "split001", "abcde0012", "abcde01", "abcde1000"]
    for _ in range(500 if not thorough else 6000):
        n = rng.choice((1, 2, 3, 5, 8, 13, 25, 40))
        bodies = [rng.choice((0, 1, 2, 3, 5, 8, 20, 30)) for _ in range(n)]
        smax = rng.choice((0, 1, 5, 50, 2, 3, 7, 10, 25, 100, rng.randint(1, 60)))
        tot = sum(bodies)
        if smax == 1 and tot > 120:
            smax = 5
        if smax and tot // smax > 150:
            smax = max(smax, tot // 100)
        units.append((smax, rng.choice((0, 0, 1, 3)), rng.choice(bases), bodies))
    # units whose top-level program is small and whose other definitions are many and short:
    # here the statement estimate runs out before the definitions do (non-empty last part)
    for _ in range(400 if not thorough else 4000):
        n = rng.randint(4, 40)
        bodies = [rng.randint(0, 3)] + [rng.choice((0, 0, 1, 1, 2, 3)) for _ in range(n - 1)]
        units.append((rng.randint(2, 30), rng.choice((0, 0, 1)), rng.choice(bases), bodies))
    reqs = [("split" if k % 3 else "splitS",) + u for k, u in enumerate(units)]
    # the boundary between "one file" and "split mode": smax = N-1, N, N+1 for the unit's own
    # statement estimate N (gc0OverSMax and the loop condition must agree), both C dialects
    seen = set()
    for (_, nglo, base, bodies) in units:
        key = (nglo, base, tuple(bodies))
        if key in seen:
            continue
        seen.add(key)
        N = sum(bodies) + nglo
        for smax in (N - 1, N, N + 1):
            for op in ("split", "splitS"):
                reqs.append((op, smax, nglo, base, bodies))
    # 1000..1300 parts: continuation file names beyond ...999
    for j in range(4 if not thorough else 12):
        smax = rng.choice((1, 1, 2, 3))
        want = rng.randint(1000, 1300)                     # number of parts = (N-1) div smax
        N = want * smax + 1 + rng.randint(0, smax - 1)
        nglo = rng.choice((0, 3))
        n = rng.choice((30, 120, 300))
        bodies = [0] * n
        for _ in range(N - nglo):
            bodies[rng.randrange(n)] += 1
        if j == 1:                                          # many definitions: the parts are not empty
            bodies = [3] + [1] * (N - nglo - 3)
        reqs.append(("split" if j % 2 else "splitS", smax, nglo, rng.choice(("bigunit", "u", "big")), bodies))
    return ["%s %d %d %s %s" % (op, s, g, hx(b), " ".join(map(str, bd))) for op, s, g, b, bd in reqs]

def check_split_output(toks, out):
    """executable form of split_partition / split_part_guarantee / split_count / init_distinct /
    file names on the implementation's own answer.  Returns (ok, why, clash)"""
    smax = int(toks[1]); nglo = int(toks[2])
    base = bytes.fromhex(toks[3]).decode("latin-1") if toks[3] != "-" else ""
    bodies = [int(x) for x in toks[4:]]
    if smax < 0: smax = 1
    nb = len(bodies)
    m = re.match(r"^(\d+)((?: \[[0-9,]*/[0-9,]*\])*) ;((?: [^ =]+=[0-9,]*/[0-9,]*)*)$", out)
    if not m:
        return False, "unparsable answer", False
    n = int(m.group(1))
    ints = lambda s: [int(x) for x in s.split(",") if x]
    elems = [(ints(a), ints(b)) for a, b in re.findall(r"\[([0-9,]*)/([0-9,]*)\]", m.group(2))]
    files = []
    for f in m.group(3).split():
        nm, rest = f.split("=")
        a, b = rest.split("/")
        files.append((nm, ints(a), ints(b)))
    if len(elems) != n:
        return False, "list length", False
    nst = sum(bodies) + nglo
    over = smax > 0 and nst > smax
    if over:
        if elems[0] != ([], []):
            return False, "header unit defines functions", False
        parts = [e[0] for e in elems[1:-1]]
        inits = [e[1] for e in elems[1:]]
        if inits != [[k] for k in range(1, n - 1)] + [[0]]:
            return False, "module initialisers of the units are not INIT__1.. in order and INIT__0 last", False
    else:
        if n != 1:
            return False, "more than one unit although the limit is not exceeded", False
        parts = []
        if elems[0][1] != [0]:
            return False, "single unit does not define exactly INIT__0", False
    final = elems[-1][0]
    if not final or final[0] != 0:
        return False, "constant 0 is not first in the last unit", False
    flat = [i for p in parts for i in p] + final[1:]
    if flat != list(range(1, nb)):
        return False, "parts are not consecutive/disjoint/covering: %s" % flat[:50], False
    w = [b + 1 for b in bodies]
    if over:
        if len(parts) != (nst - 1) // smax:
            return False, "number of parts %d, expected %d" % (len(parts), (nst - 1) // smax), False
        for p in parts:
            if p and sum(w[i] for i in p[:-1]) >= smax:
                return False, "part %s keeps taking definitions beyond the limit" % p, False
            if sum(w[i] for i in p) < smax and final[1:]:
                return False, "part %s stops under the limit although definitions remain" % p, False
    # files: names are distinct by construction of a directory listing; what a clash loses is content
    if len({f[0] for f in files}) != len(files):
        return False, "duplicate file listed", False
    got = sorted(i for f in files for i in f[1])
    goti = sorted(i for f in files for i in f[2])
    clash = False
    if over:
        names = [base + ".c"] + [base[:5] + "%03d" % k + ".c" for k in range(1, n - 1)]
        clash = len(set(names)) != len(names)
    if got != list(range(nb)):
        return False, "written files define constants %s, expected 0..%d" % (got[:50], nb - 1), clash
    if goti != list(range(n - 1 if over else 1)):
        return False, "written files define the initialisers %s, expected each of 0..%d exactly once" % (goti[:50], (n - 2) if over else 0), clash
    if len(files) != (n if n > 1 else 1):
        return False, "%d files for %d units" % (len(files), n), clash
    return True, "", clash

# ------------------------------------------------------------------ correspondence
def run_part(ctx, build):
    rng = ctx.rng
    thorough = ctx.tier == "thorough"
    st = {"table": _PREPARED}
    # the table the Lean library was built from must be the scratch tree's table
    try:
        again = specchar.regenerate(build.src)
    except Exception as e:
        ctx.violation("mangle|table-unparsable", "translate/specchar.py cannot read ccSpecCharIdTable: %s" % e,
                      {"kind": "translator-failed", "error": str(e)}, found_input=False)
        return st
    if again == "rewritten":
        ok, log, _ = common.lean_build(BUILD_TARGETS + ["driver"])
        st["table"] = "rewritten-late"
        if not ok:
            ctx.bad_obligations = getattr(ctx, "bad_obligations", []) + ["rebuild after table change failed"]
    table = specchar.parse_table(open(os.path.join(build.src, "genc.c"), errors="replace").read())
    keptset = set("abcdefghijklmnopqrstuvwxyzABCDEFGHIJKLMNOPQRSTUVWXYZ0123456789") | {chr(c) for c, _ in table}

    exe = build.cc_driver("mangle_drv", os.path.join(VERIF, "harness", "mangle_drv.c"))
    lines = []
    corp = os.path.join(VERIF, "corpus", "mangle")
    if os.path.isdir(corp):
        for f in sorted(os.listdir(corp)):
            if f.endswith(".ops"):
                lines += [l.strip() for l in open(os.path.join(corp, f)) if l.strip() and not l.startswith("#")]
    ncorpus = len(lines)
    names = gen_names(rng, table, thorough)
    extra_len = [1, 2, 5, 8, 9, 10, 29, -3, 100]
    idxs = [0, 1, 9, 10, 99, 100, 12345, 2147483647]
    for k, nm in enumerate(names):
        h = hx(nm)
        lines.append("hash " + h)
        for L in QUANT_IDLEN:
            lines.append("valid %d %s" % (L, h))
            lines.append("global %d 1 %s" % (L, h))
        lines.append("valid %d %s" % (rng.choice(extra_len), h))
        lines.append("global %d 1 %s" % (rng.choice(extra_len), h))
        lines.append("global %d 0 %s" % (rng.choice(QUANT_IDLEN + extra_len), h))
        if k % 5 == 0 or thorough:
            for kind in rng.sample(KINDS, 4) + [rng.choice(WEIRD_KINDS)]:
                for ix in rng.sample(idxs, 3):
                    lines.append("local %d %s %d %s" % (rng.choice(QUANT_IDLEN + [rng.choice(extra_len)]), hx(kind), ix, h))
    # all kinds x a few indices x short/long/empty identifier, at the quantifier's limits
    for L in QUANT_IDLEN:
        for kind in KINDS + WEIRD_KINDS:
            for ix in (0, 7, 12, 123):
                for nm in ("", "x", "aVeryLongExportedFunctionNameNumberOne", "ok?", "1"):
                    lines.append("local %d %s %d %s" % (L, hx(kind), ix, hx(nm)))
    lines += gen_splits(rng, thorough)
    lines += gen_lits(rng, thorough)
    lines += gen_inits(rng, thorough)

    c = common.run_impl_lines(exe, lines, timeout=1800)
    m, tags = common.split_model(common.run_model("mangle", "\n".join(lines) + "\n"))
    assert len(m) == len(lines), (len(m), len(lines))
    st.update({"lines": len(lines), "corpus": ncorpus, "names": len(names), "mismatch": 0, "faults": 0,
               "collisions_default_idlen": 0, "file_clashes": 0, "oracle_checked": 0})

    # ---- executable properties on the implementation's answers
    implicated = {}                 # line index -> reason (implementation violates the property)
    partner = {}                    # line index -> the other line of a clashing pair
    def bad(k, why, other=None):
        implicated.setdefault(k, why)
        if other is not None:
            partner.setdefault(k, other)
    inj_valid0, inj_glob0 = {}, {}
    lit_denote = {}
    glob_lim = {}                   # (idlen, out) -> (name, k)
    loc_multi, loc_var, loc_cross = {}, {}, {}
    kind_spelling = {}
    for k, ln in enumerate(lines):
        toks = ln.split()
        co = c[k] if k < len(c) else "MISSING"
        if co.startswith("FAULT") or co in ("MISSING", "SKIPPED"):
            st["faults"] += 1
            ctx.finding("mangle|fault|" + toks[0], "the driver around genc.c faults (%s) on: %s" % (co, ln),
                        {"kind": "impl-fault", "driver": "harness/mangle_drv.c", "line": ln, "impl": co, "model": m[k]})
            implicated[k] = "fault"
            continue
        st["oracle_checked"] += 1
        op = toks[0]
        if op == "hash":
            nm = bytes.fromhex(toks[1]) if toks[1] != "-" else b""
            hv = py_strhash(nm)
            if co != "%d =%s" % (hv, b36(hv % VAR_HASH)):
                bad(k, "strHash/base-36 text differs from the definition: expected %d =%s" % (hv, b36(hv % VAR_HASH)))
        elif op == "valid":
            L = int(toks[1]); L = 1 if L < 0 else L
            nm = bytes.fromhex(toks[2]).decode("latin-1") if toks[2] != "-" else ""
            if not co.startswith("=") or " " in co:
                bad(k, "malformed answer"); continue
            o = co[1:]
            if not C_ID.match(o): bad(k, "not made of C identifier characters")
            if L and len(o) > L: bad(k, "longer than idlen")
            if L == 0 and kept_only(nm, keptset):
                p = inj_valid0.setdefault(o, (nm, k))
                if p[0] != nm:
                    bad(k, "same valid identifier %s as %r" % (o, p[0]), p[1]); bad(p[1], "same valid identifier as %r" % nm, k)
        elif op == "global":
            L = int(toks[1]); L = 1 if L < 0 else L
            ih = toks[2] != "0"
            nm = bytes.fromhex(toks[3]).decode("latin-1") if toks[3] != "-" else ""
            parts = co.split(" ")
            if len(parts) != 2 or not all(p.startswith("=") for p in parts):
                bad(k, "malformed answer"); continue
            g, pg = parts[0][1:], parts[1][1:]
            if not (C_ID.match(g) and C_ID.match(pg)): bad(k, "not made of C identifier characters")
            if not g.startswith("G_") or not pg.startswith("pG_"): bad(k, "kind prefix missing")
            if ih:
                want = "G_" + b36(py_strhash(nm.encode("latin-1")) % VAR_HASH) + "_"
                if not g.startswith(want) or not pg.startswith("p" + want): bad(k, "hash part is not " + want)
            if ih and kept_only(nm, keptset):
                if L == 0:
                    p = inj_glob0.setdefault(g, (nm, k))
                    if p[0] != nm:
                        bad(k, "same global name %s as %r" % (g, p[0]), p[1]); bad(p[1], "same global name as %r" % nm, k)
                elif L >= 30:
                    p = glob_lim.setdefault((L, g), (nm, k))
                    if p[0] != nm:
                        st["collisions_default_idlen"] += 1
                        # impl = model here is the refuted statement: a recorded finding
                        if co == m[k]:
                            ctx.finding(SIG_COLLISION,
                                "distinct identifiers get the same global C name with idlen=%d, idhash on: %r and %r -> %s "
                                "(global_names_injective_statement_refuted)" % (L, p[0], nm, g),
                                {"kind": "impl-violates-property", "requests": [lines[p[1]], ln], "impl": co,
                                 "replay_cmd": "printf '%s\\n%s\\n' | <mangle_drv built by ./check C16>" % (lines[p[1]], ln)})
                        else:
                            bad(k, "same global name %s as %r" % (g, p[0]), p[1])
        elif op == "local":
            L = int(toks[1]); L = 1 if L < 0 else L
            kind = bytes.fromhex(toks[2]).decode("latin-1") if toks[2] != "-" else ""
            ix = int(toks[3])
            parts = co.split(" ")
            if len(parts) != 2 or not all(p.startswith("=") for p in parts):
                bad(k, "malformed answer"); continue
            mv, vi = parts[0][1:], parts[1][1:]
            if not (C_ID.match(mv) and C_ID.match(vi)): bad(k, "not made of C identifier characters")
            p = loc_var.setdefault((L, kind, vi), (ix, k))
            if p[0] != ix:
                bad(k, "gc0VarId gives %s for indices %d and %d" % (vi, p[0], ix), p[1]); bad(p[1], "gc0VarId index clash", k)
            if kind not in ("G", "pG"):
                p = loc_multi.setdefault((L, kind, mv), (ix, k))
                if p[0] != ix:
                    bad(k, "gc0MultVarId gives %s for indices %d and %d" % (mv, p[0], ix), p[1]); bad(p[1], "gc0MultVarId index clash", k)
                if kind in KINDS and (L == 0 or L >= 30):
                    p = loc_cross.setdefault((L, mv), (kind, ix, k))
                    if (p[0], p[1]) != (kind, ix):
                        bad(k, "%s is the name of (%s,%d) and of (%s,%d)" % (mv, p[0], p[1], kind, ix), p[2]); bad(p[2], "cross-kind clash", k)
        elif op == "lit":
            tx = bytes.fromhex(toks[3])
            try:
                tok = bytes.fromhex(co)
            except ValueError:
                bad(k, "answer is not hex"); continue
            want_q = 39 if toks[2] == "c" else 34
            den = c_denote(tok)
            if not tok or tok[0] != want_q:
                bad(k, "literal is not quoted with the right quote")
            elif den is None:
                bad(k, "printed literal %r is not a well-formed C literal" % tok)
            else:
                p = lit_denote.setdefault((toks[2], toks[3]), (den, k))
                if p[0] != den:
                    bad(k, "old and standard C print literals with different meanings: %r vs %r" % (p[0][:20], den[:20]), p[1])
                    bad(p[1], "old and standard C print literals with different meanings", k)
                if den != list(tx):
                    if lit_unsafe(tx) and co == m[k]:
                        st["lit_octal_defect"] = st.get("lit_octal_defect", 0) + 1
                        ctx.finding(SIG_OCTAL,
                            "ccoPrToken prints a non-printable byte as \\%%#o (1 to 4, or 11, octal digits): the C compiler reads the "
                            "token text %r back as %r: `%s` -> %r (literal_escape_roundtrip_statement_refuted)"
                            % (tx, bytes(x & 255 for x in den), ln, tok),
                            {"kind": "impl-violates-property", "line": ln, "impl": co, "printed": repr(tok), "denotes": den,
                             "replay_cmd": "echo '%s' | <mangle_drv built by ./check C16>" % ln})
                    else:
                        bad(k, "the printed literal %r denotes %r, not the token text %r" % (tok, bytes(x & 255 for x in den), tx))
        elif op == "inits":
            ok, why, clash = check_inits_output(toks, co)
            L = int(toks[1])
            if not ok:
                bad(k, why)
            elif clash and (L == 0 or L >= 30):
                st["init_clashes"] = st.get("init_clashes", 0) + 1
                if co == m[k]:
                    ctx.finding(SIG_INITCLASH,
                        "two different units get the same initialiser name (INIT__0_ + the first idlen-8 characters of the unit name, "
                        "no hash): `%s` -> %s (module_init_names_injective_statement_refuted)" % (ln, co[:200]),
                        {"kind": "impl-violates-property", "line": ln, "impl": co,
                         "replay_cmd": "echo '%s' | <mangle_drv built by ./check C16>" % ln})
                else:
                    bad(k, "two different units get the same initialiser name")
        elif op in ("split", "splitS"):
            ok, why, clash = check_split_output(toks, co)
            if not ok:
                if clash and co == m[k]:
                    st["file_clashes"] += 1
                    ctx.finding(SIG_FILECLASH,
                        "emitTheC writes two parts of a split unit to the same file: a unit whose name is its own first five "
                        "characters followed by a number (e.g. abcde001) is overwritten by its continuation file: `%s` -> %s (%s)"
                        % (ln, co, why),
                        {"kind": "impl-violates-property", "line": ln, "impl": co, "why": why,
                         "replay_cmd": "echo '%s' | <mangle_drv built by ./check C16>" % ln})
                else:
                    bad(k, why)

    proved = ctx.discharged == len(ctx.obligations) and not getattr(ctx, "bad_obligations", [])
    reported = {}                   # op -> number of per-request findings (capped: one defect, many requests)
    CAP = 3
    for k, ln in enumerate(lines):
        co = c[k] if k < len(c) else "MISSING"
        mo = m[k]
        if co.startswith("FAULT") or co in ("MISSING", "SKIPPED"):
            continue
        op = ln.split()[0]
        if co != mo:
            st["mismatch"] += 1
            if k in implicated:
                reported[op] = reported.get(op, 0) + 1
                if reported[op] <= CAP:
                    ctx.finding("mangle|%s|%s" % (op, ln[:120]),
                                "genc.c answers `%s` to `%s`: %s (model: %s)" % (co[:200], ln[:200], implicated[k], mo[:200]),
                                {"kind": "impl-violates-property", "line": ln, "impl": co, "model": mo, "why": implicated[k],
                                 "replay_cmd": "echo '%s' | <mangle_drv built by ./check C16>" % ln})
            else:
                ctx.corr_broken.append((NAME, ln, co, mo))
        elif k in implicated:
            q = partner.get(k)
            if q is not None and q < len(c) and c[q] != m[q]:
                continue            # the other line of the pair is the wrong one and is reported there
            reported[op] = reported.get(op, 0) + 1
            if reported[op] > CAP:
                continue
            if not proved:
                # model (regenerated table) and implementation agree, the theorems about the model
                # no longer check, and the implementation's answers violate the property
                ctx.finding("mangle|%s|%s" % (op, ln[:120]),
                            "genc.c answers `%s` to `%s`: %s" % (co[:200], ln[:200], implicated[k]),
                            {"kind": "impl-violates-property", "line": ln, "impl": co, "why": implicated[k],
                             "replay_cmd": "echo '%s' | <mangle_drv built by ./check C16>" % ln})
            else:
                ctx.violation("mangle|model-and-impl-wrong|" + ln[:120],
                              "implementation and model agree on `%s` -> %s but %s (contradicts a proved theorem: model/driver/oracle defect)"
                              % (ln[:200], co[:200], implicated[k]),
                              {"kind": "inconsistent", "line": ln, "impl": co, "why": implicated[k]})
        if k % 4001 == 13:
            ctx.sample({"module": "mangle", "request": ln[:200], "impl": co[:200], "model": mo[:200], "tags": tags[k]})
    st["property_violations_by_op"] = reported
    st["tags"] = common.tag_hist(tags)
    st["distinct_results"] = len(set(c))
    ctx.cov["evaluations"] += len(lines)
    ctx.cov["distinct_nontrivial"] += st["distinct_results"]
    st["e2e"] = run_e2e(ctx, build, exe)
    ctx.cov["mangle"] = st
    return st

# ------------------------------------------------------------------ end to end
def long_names(n):
    stem = "thisIsAVeryLongExportedFunctionNameSharingAnEvenLongerCommonPrefixWithItsManySiblingsInThisFile"
    out = []
    for i in range(n):
        p = 12 + (i * 7) % 66                # shared prefix lengths 12..77
        tail = "Variant%02dOfTheFamily" % i
        out.append((stem[:p] + tail)[:20 + (i * 5) % 61].ljust(20, "z") + ("%02d" % i))
    return out

def prog_longglobals():
    ns = long_names(24)
    L = ['#include "aldor"', '#include "aldorio"', "import from MachineInteger;", ""]
    for i, n in enumerate(ns):
        L.append("%s(x: MachineInteger): MachineInteger == x * %d + %d;" % (n, i + 2, i))
    L.append("")
    for i, n in enumerate(ns):
        L.append("stdout << %s %d << newline;" % (n, i + 1))
    return "\n".join(L) + "\n"

PROG_OPERS = r'''#include "aldor"
#include "aldorio"

Pt: with {
	pt: (MachineInteger, MachineInteger) -> %;
	+: (%, %) -> %;
	*: (%, %) -> %;
	-: % -> %;
	<=: (%, %) -> Boolean;
	=: (%, %) -> Boolean;
	~=: (%, %) -> Boolean;
	zero?: % -> Boolean;
	negate!: % -> %;
	apply: (%, MachineInteger) -> MachineInteger;
	<<: (TextWriter, %) -> TextWriter;
} == add {
	Rep == Record(x: MachineInteger, y: MachineInteger);
	import from Rep, MachineInteger;
	pt(a: MachineInteger, b: MachineInteger): % == per [a, b];
	(p: %) + (q: %): % == pt(rep(p).x + rep(q).x, rep(p).y + rep(q).y);
	(p: %) * (q: %): % == pt(rep(p).x * rep(q).x, rep(p).y * rep(q).y);
	-(p: %): % == pt(-rep(p).x, -rep(p).y);
	(p: %) <= (q: %): Boolean == rep(p).x <= rep(q).x and rep(p).y <= rep(q).y;
	(p: %) = (q: %): Boolean == rep(p).x = rep(q).x and rep(p).y = rep(q).y;
	(p: %) ~= (q: %): Boolean == not (p = q);
	zero?(p: %): Boolean == zero? rep(p).x and zero? rep(p).y;
	negate!(p: %): % == { rep(p).x := -rep(p).x; rep(p).y := -rep(p).y; p }
	apply(p: %, i: MachineInteger): MachineInteger == if i = 1 then rep(p).x else rep(p).y;
	(w: TextWriter) << (p: %): TextWriter == w << "(" << rep(p).x << ", " << rep(p).y << ")";
}

import from Pt, MachineInteger;
a := pt(1, 2);
b := pt(3, 4);
stdout << a + b << newline;
stdout << a * b << newline;
stdout << -a << newline;
stdout << (a <= b) << " " << (b <= a) << newline;
stdout << (a = b) << " " << (a ~= b) << newline;
stdout << zero? a << " " << zero? pt(0, 0) << newline;
stdout << negate! b << " " << b << newline;
stdout << a(1) << " " << a(2) << newline;
'''

PROG_QBANG = r'''#include "aldor"
#include "aldorio"
import from MachineInteger;

isThisNumberStrictlyPositiveAndAlsoSmallerThanOneHundred?(x: MachineInteger): Boolean == x > 0 and x < 100;
isThisNumberStrictlyPositiveAndAlsoSmallerThanOneThousand?(x: MachineInteger): Boolean == x > 0 and x < 1000;
isEven?(x: MachineInteger): Boolean == x rem 2 = 0;
isOdd?(x: MachineInteger): Boolean == not isEven? x;
counter: MachineInteger := 0;
bumpTheGlobalCounterByTheGivenAmountAndReturnItsNewValue!(n: MachineInteger): MachineInteger == {
	free counter;
	counter := counter + n;
	counter
}
bumpTheGlobalCounterByTheGivenAmountAndReturnItsOldValue!(n: MachineInteger): MachineInteger == {
	free counter;
	old := counter;
	counter := counter + n;
	old
}
reset!(): () == { free counter; counter := 0 }
really?!(x: MachineInteger): Boolean == isEven? x and isThisNumberStrictlyPositiveAndAlsoSmallerThanOneHundred? x;

stdout << isThisNumberStrictlyPositiveAndAlsoSmallerThanOneHundred? 500 << newline;
stdout << isThisNumberStrictlyPositiveAndAlsoSmallerThanOneThousand? 500 << newline;
stdout << isEven? 4 << isOdd? 4 << newline;
stdout << bumpTheGlobalCounterByTheGivenAmountAndReturnItsNewValue! 5 << newline;
stdout << bumpTheGlobalCounterByTheGivenAmountAndReturnItsOldValue! 7 << newline;
stdout << counter << newline;
reset!();
stdout << counter << newline;
stdout << really?! 42 << really?! 43 << really?! 142 << newline;
'''

PROG_CLOSURES = r'''#include "aldor"
#include "aldorio"
import from MachineInteger, List MachineInteger;

makeAnAccumulatorStartingFromTheGivenInitialValue(start: MachineInteger): MachineInteger -> MachineInteger == {
	theRunningTotalKeptInsideTheClosureEnvironmentNumberOne: MachineInteger := start;
	theRunningTotalKeptInsideTheClosureEnvironmentNumberTwo: MachineInteger := 0;
	(n: MachineInteger): MachineInteger +-> {
		free theRunningTotalKeptInsideTheClosureEnvironmentNumberOne;
		free theRunningTotalKeptInsideTheClosureEnvironmentNumberTwo;
		theRunningTotalKeptInsideTheClosureEnvironmentNumberOne :=
			theRunningTotalKeptInsideTheClosureEnvironmentNumberOne + n;
		theRunningTotalKeptInsideTheClosureEnvironmentNumberTwo :=
			theRunningTotalKeptInsideTheClosureEnvironmentNumberTwo + 1;
		theRunningTotalKeptInsideTheClosureEnvironmentNumberOne * 1000
			+ theRunningTotalKeptInsideTheClosureEnvironmentNumberTwo
	}
}

sumOfTheSquaresOfAllTheElementsOfTheList(l: List MachineInteger): MachineInteger == {
	s: MachineInteger := 0;
	for x in l repeat s := s + x * x;
	s
}

sumOfTheCubesOfAllTheElementsOfTheList(l: List MachineInteger): MachineInteger == {
	s: MachineInteger := 0;
	for x in l repeat s := s + x * x * x;
	s
}

classify(n: MachineInteger): String == {
	n < 0 => "negative";
	n = 0 => "zero";
	n < 10 => "small";
	"large"
}

acc := makeAnAccumulatorStartingFromTheGivenInitialValue 10;
stdout << acc 1 << " " << acc 2 << " " << acc 3 << newline;
stdout << sumOfTheSquaresOfAllTheElementsOfTheList [1, 2, 3, 4] << newline;
stdout << sumOfTheCubesOfAllTheElementsOfTheList [1, 2, 3, 4] << newline;
for i in -1..11 by 4 repeat stdout << classify i << " ";
stdout << newline;
'''

def prog_manydefs():
    L = ['#include "aldor"', '#include "aldorio"', "import from MachineInteger;", ""]
    n = 30
    for i in range(n):
        body = ["\tt: MachineInteger := x + %d;" % i]
        for j in range(i % 6):
            body.append("\tt := t * %d + %d;" % (j + 2, i + j))
        if i:
            body.append("\tt := t + step%02d(x rem 7);" % (i - 1))
        body.append("\tt rem 1000003")
        L.append("step%02d(x: MachineInteger): MachineInteger == {\n%s\n}" % (i, "\n".join(body)))
    L.append("")
    L.append("for i in 1..5 repeat stdout << step%02d i << newline;" % (n - 1))
    L.append("stdout << step07 100 << \" \" << step00 1 << newline;")
    return "\n".join(L) + "\n"

PROG_TINY = r'''#include "aldor"
#include "aldorio"
import from MachineInteger;
twice(x: MachineInteger): MachineInteger == x + x;
stdout << twice 21 << newline;
'''

def aldor_str(bs):
    """Aldor string literal for a byte string (no newline inside); `_` is Aldor's escape character"""
    out = []
    for c in bs:
        if c == 34: out.append('_"')
        elif c == 95: out.append('__')
        else: out.append(chr(c))
    return '"' + "".join(out) + '"'

def prog_lits():
    """string and character literals with every printable ASCII character, trigraph-like
    sequences, printf-like sequences, backslashes, quotes and control characters"""
    L = ['#include "aldor"', '#include "aldorio"', "import from String, Character;", ""]
    printable = bytes(range(32, 127))
    for chunk in (printable[:32], printable[32:64], printable[64:], printable):
        L.append("stdout << %s << newline;" % aldor_str(chunk))
    for tx in (b"??= ??/ ??' ??( ??) ??! ??< ??> ??- ?\\? ???", b"%d %s %% %c %5.2f 100%",
               b"back\\slash \\n \\t \\\\ \\0 \\x41 \\\"", b"quote\"s and 'apostrophes' \"\" ''", b"under_score __ _ _",
               b"tab[\t] bs[\b] vt[\x0b] ff[\x0c] one[\x01] bel[\x07] esc[\x1b] us[\x1f]", b"\x01x\x02y\x07z\x03 \x04-"):
        L.append("stdout << %s << newline;" % aldor_str(tx))
    for c in b"?\\\"'%_a0~ #{":
        L.append("stdout << char %s;" % aldor_str(bytes([c])))
    L.append("stdout << newline;")
    L.append('q: Character := char "?"; b: Character := char "\\";')
    L.append('stdout << (if q = b then "same" else "different") << q << b << newline;')
    return "\n".join(L) + "\n"

def prog_litoct():
    """the texts for which the recorded octal-escape defect applies"""
    M = ['#include "aldor"', '#include "aldorio"', "import from String, Character;", ""]
    for tx in (b"adj[\x017]", b"five[\x0565]", b"del[\x7f]", b"hi[\xe9]"):
        M.append("stdout << %s << newline;" % aldor_str(tx))
    return "\n".join(M) + "\n"

LONG_UNIT_LENGTHS = (16, 22, 23, 24, 30, 48)
def long_unit_name(n):
    return ("modulename" * 6)[:n - 2] + "%02d" % n

LIB_SRC = '#include "aldor"\nimport from MachineInteger;\ntripleIt(x: MachineInteger): MachineInteger == 3 * x;\n'
def client_src(lib):
    return ('#include "aldor"\n#include "aldorio"\n#library LLIB "%s.ao"\nimport from LLIB;\nimport from MachineInteger;\n'
            "stdout << tripleIt 14 << newline;\n" % lib)

def interp_lines(r):
    return [l for l in r["cout"].split("\n") if l.strip()]

def programs():
    return [("longglob", prog_longglobals()), ("opers", PROG_OPERS), ("qbang", PROG_QBANG),
            ("closures", PROG_CLOSURES), ("manydefs", prog_manydefs()), ("tiny", PROG_TINY), ("lits", prog_lits())]

def aldor_cmd(build, opts, outs, src, post=()):
    R = common.ALDOR_TOP
    S = build.src
    return [build.aldor, "-Nfile=%s/aldor.conf" % S, "-Y%s/aldor/lib/libfoam/al" % R, "-I%s/lib/aldor/include" % R,
            "-Y%s/lib/aldor/src" % R, "-laldor", "-Ccc=%s/aldor/subcmd/unitools/unicl" % R,
            "-Cargs=-Wconfig=%s/aldor.conf -I%s" % (S, S), "-Y%s/aldor/lib/libfoam" % R] + list(opts) + list(outs) + [src] + list(post)

def compile_run(build, top, tag, files, opts, main, outs=("-Fx",), pre=(), post=()):
    """fresh directory, write files, run the `pre` compiles, compile `main`, run the executable.
    returns dict(rc_compile, log, rc_run, stdout, dir)"""
    t0 = time.time()
    d = os.path.join(top, tag)
    os.makedirs(d)
    for fn, txt in files.items():
        open(os.path.join(d, fn), "w", encoding="latin-1").write(txt)
    log = ""
    for (src, o) in pre:
        rc, out, err = common.run(aldor_cmd(build, opts, o, src), cwd=d, timeout=600)
        log += out + err
        if rc != 0:
            return {"rc_compile": rc, "log": log[-3000:], "rc_run": None, "stdout": "", "dir": d, "cout": ""}
    rc, out, err = common.run(aldor_cmd(build, opts, outs, main, post), cwd=d, timeout=900)
    log += out + err
    exe = os.path.join(d, os.path.splitext(main)[0])
    res = {"rc_compile": rc, "log": log[-3000:], "rc_run": None, "stdout": "", "dir": d, "cout": out}
    if rc == 0 and os.path.exists(exe):
        rr, so, se = common.run([exe], cwd=d, timeout=60)
        res["rc_run"], res["stdout"] = rr, so
        res["stderr"] = se[-500:]
    res["wall"] = round(time.time() - t0, 1)
    return res

def option_sets(rng, tier, small):
    """sample of {-Cold,-Cstandard} x idlen x smax x {lines,no-lines}; every value of every
    option occurs at least once per program"""
    allc = [(c, i, s, l) for c in ("old", "standard") for i in QUANT_IDLEN for s in (0, 1, 5, 50) for l in ("lines", "no-lines")]
    if not small:
        allc = [x for x in allc if x[2] != 1]           # smax=1 on a large unit = hundreds of files
    if tier == "thorough":
        return allc
    picked = []
    need = {("c", v) for v in ("old", "standard")} | {("i", v) for v in QUANT_IDLEN} | \
           {("s", v) for v in ((0, 1, 5, 50) if small else (0, 5, 50))} | {("l", v) for v in ("lines", "no-lines")}
    pool = list(allc)
    rng.shuffle(pool)
    for x in pool:
        cov = {("c", x[0]), ("i", x[1]), ("s", x[2]), ("l", x[3])}
        if cov & need:
            picked.append(x); need -= cov
        if not need:
            break
    # always: the two pure dialect runs and the split runs at the default idlen
    for x in (("standard", 30, 0, "no-lines"), ("old", 30, 5, "lines"), ("standard", 30, 50, "lines"),
              ("old", 30, 0, "lines")):
        if x not in picked:
            picked.append(x)
    for x in pool[:3]:
        if x not in picked:
            picked.append(x)
    return picked

def opt_flags(x):
    return ["-C" + x[0], "-Cidlen=%d" % x[1], "-Csmax=%d" % x[2], "-C" + x[3]]

GDECL = re.compile(r'\(GDecl\s+\w+\s+"((?:[^"\\]|\\.)*)"\s+-?\d+\s+\d+\s+(\d)\s+(\w+)\)')


# ------------------------------------------------------------------ statement estimate and emitted files
def _sx_tokens(s):
    i = 0; n = len(s)
    while i < n:
        c = s[i]
        if c.isspace(): i += 1
        elif c in "()": yield c; i += 1
        elif c == '"':
            j = i + 1
            while s[j] != '"':
                if s[j] == "\\": j += 1
                j += 1
            yield ("str", s[i + 1:j]); i = j + 1
        elif c == "|":
            j = s.index("|", i + 1); yield ("sym", s[i:j + 1]); i = j + 1
        else:
            j = i
            while j < n and not s[j].isspace() and s[j] not in "()":
                if s[j] == "\\": j += 1
                j += 1
            yield ("sym", s[i:j]); i = j

def _sx_parse(s):
    st = [[]]
    for t in _sx_tokens(s):
        if t == "(": st.append([])
        elif t == ")":
            x = st.pop(); st[-1].append(x)
        else: st[-1].append(t)
    return st[0][0]

def _sx_head(x):
    return x[0][1] if isinstance(x, list) and x and isinstance(x[0], tuple) else None

def unit_shape(fm_text):
    """(body sizes of the program definitions in order, number of non-program definitions) of a
    dumped Foam unit: the inputs of the statement estimate `Guess num stmts here`"""
    u = _sx_parse(fm_text)
    ddef = [x for x in u[1:] if _sx_head(x) == "DDef"][0]
    bodies, nglo = [], 0
    for d in ddef[1:]:
        rhs = d[2]
        if _sx_head(rhs) == "Prog":
            seq = rhs[-1]
            if _sx_head(seq) != "Seq":
                raise ValueError("program body is not a Seq")
            bodies.append(len(seq) - 1)
        else:
            nglo += 1
    return bodies, nglo

def observe_c_files(d, unit):
    """emitted <unit>*.c/.h files of directory d: {name: (CF indices, INIT indices defined)} and the
    INIT__k_<unit> numbers mentioned by the file that defines INIT__0_<unit>"""
    files, refs = {}, None
    for fn in sorted(os.listdir(d)):
        if not fn.endswith((".c", ".h")) or "-aldormain" in fn:
            continue
        cfs, inits, txt = [], [], open(os.path.join(d, fn), errors="replace").read()
        for ln in txt.split("\n"):
            m = re.match(r"CF(\d+)_", ln)
            if m: cfs.append(int(m.group(1)))
            m = re.match(r"INIT__(\d+)_", ln)
            if m: inits.append(int(m.group(1)))
        files[fn] = (cfs, inits)
        if 0 in inits and fn.endswith(".c"):
            refs = sorted({int(k) for k in re.findall(r"\bINIT__(\d+)_%s\b" % re.escape(unit), txt)})
    return files, refs

def parse_model_files(ans):
    """file section of a `split` answer -> {name: (CF indices, INIT indices)}"""
    out = {}
    for f in ans.split(" ; ", 1)[1].split():
        nm, rest = f.split("=")
        a, b = rest.split("/")
        out[nm] = ([int(x) for x in a.split(",") if x], [int(x) for x in b.split(",") if x])
    return out

def files_ok(files, refs, nb):
    """every constant and every initialiser defined in exactly one file, every initialiser the
    main unit mentions is defined"""
    cfs = sorted(i for f in files.values() for i in f[0])
    inits = sorted(i for f in files.values() for i in f[1])
    if cfs != list(range(nb)):
        return "constants defined by the files: %s..., expected each of 0..%d once" % (cfs[:30], nb - 1)
    if len(set(inits)) != len(inits) or 0 not in inits:
        return "an initialiser is defined twice or INIT__0 is missing: %s" % inits[:30]
    if refs is None:
        return "no file defines INIT__0"
    miss = [k for k in refs if inits.count(k) != 1]
    if miss:
        return "the main unit mentions INIT__%d_… which is defined in %d files" % (miss[0], inits.count(miss[0]))
    return ""

def prog_big(n):
    L = ['#include "aldor"', '#include "aldorio"', "import from MachineInteger;", ""]
    for i in range(n):
        body = ["\tt: MachineInteger := x + %d;" % i]
        for j in range(3 + i % 5):
            body.append("\tt := (t * %d + %d) rem 1000003;" % (j + 2, i + j))
        if i:
            body.append("\tif x > 0 then t := t + work%03d(x - 1);" % (i - 1))
        body.append("\tt rem 1000003")
        L.append("work%03d(x: MachineInteger): MachineInteger == {\n%s\n}" % (i, "\n".join(body)))
    L.append("")
    L.append("for i in 0..3 repeat stdout << work%03d i << newline;" % (n - 1))
    L.append('stdout << work007 2 << " " << work000 1 << newline;')
    return "\n".join(L) + "\n"

def check_emitted(ctx, st, what, unit, d, smax, shape, opts, source):
    """compare the files the compiler wrote in d with the model's prediction for this unit"""
    bodies, nglo = shape
    files, refs = observe_c_files(d, unit)
    req = "split %d %d %s %s" % (smax, nglo, hx(unit), " ".join(map(str, bodies)))
    mo = common.split_model(common.run_model("mangle", req + "\n"))[0][0]
    want = parse_model_files(mo)
    st["emitted_checked"] = st.get("emitted_checked", 0) + 1
    st["emitted_files_max"] = max(st.get("emitted_files_max", 0), len(files))
    why = files_ok(files, refs, len(bodies))
    if files == want and not why:
        return True
    if why:
        ctx.finding("mangle-e2e|split-files|%s|%s" % (" ".join(opts), what),
                    "%s compiled with %s: %s" % (what, " ".join(opts), why),
                    {"kind": "e2e", "program": what, "options": opts, "source": source, "why": why,
                     "files": {k: v for k, v in list(files.items())[:40]}, "model_request": req})
    else:
        diff = [k for k in sorted(set(files) | set(want)) if files.get(k) != want.get(k)][:5]
        ctx.corr_broken.append((NAME, "%s %s (e2e) ~ %s" % (what, " ".join(opts), req[:200]),
                                str({k: files.get(k) for k in diff})[:300], str({k: want.get(k) for k in diff})[:300]))
    return False

def run_e2e(ctx, build, drv):
    top = common.scratch("aldor-verif-mangle-e2e-")
    rng = ctx.rng
    progs = programs()
    st = {"programs": len(progs), "runs": 0, "same": 0, "idlen_mismatch_predicted": 0, "idlen_mismatch_failed": 0,
          "unexpected": 0, "collision_replay": "", "fileclash_replay": ""}
    with concurrent.futures.ThreadPoolExecutor(max_workers=min(16, common.NCPU)) as ex:
        # default builds (+ foam dump for the imported global names)
        futs = {pn: ex.submit(compile_run, build, top, pn + "-default", {pn + ".as": txt}, [], pn + ".as",
                              ("-Fx", "-Ffm")) for pn, txt in progs}
        base = {pn: f.result() for pn, f in futs.items()}
        imports = {}
        for pn, txt in progs:
            b = base[pn]
            st["runs"] += 1
            if b["rc_compile"] != 0 or b["rc_run"] != 0 or not b["stdout"].strip():
                ctx.finding("mangle-e2e|default|" + pn,
                            "program %s does not build and run with the default C options (compile rc %s, run rc %s): %s"
                            % (pn, b["rc_compile"], b["rc_run"], b["log"][-600:]),
                            {"kind": "e2e", "program": pn, "source": txt, "options": [], "result": {k: b[k] for k in ("rc_compile", "rc_run", "stdout", "log")}})
                continue
            fm = os.path.join(b["dir"], pn + ".fm")
            imports[pn] = [g[0] for g in GDECL.findall(open(fm, errors="replace").read()) if g[1] == "1"] if os.path.exists(fm) else []
        # which idlen values change the name of an imported global (the shipped runtime and
        # libaldor were compiled with the default, 30)
        reqs, keys = [], []
        for pn in imports:
            for L in QUANT_IDLEN:
                for nm in imports[pn]:
                    reqs.append("global %d 1 %s" % (L, hx(nm))); keys.append((pn, L, nm))
        ans = common.run_impl_lines(drv, reqs) if reqs else []
        gname = {k: a for k, a in zip(keys, ans)}
        changed = {}
        for (pn, L, nm), a in gname.items():
            if a != gname[(pn, 30, nm)]:
                changed.setdefault((pn, L), []).append(nm)
        futs = {}
        for pn, txt in progs:
            if pn not in imports:
                continue
            for x in option_sets(rng, ctx.tier, small=(pn == "tiny")):
                tag = "%s-%s-%d-%d-%s" % ((pn,) + x)
                futs[(pn, x)] = ex.submit(compile_run, build, top, tag, {pn + ".as": txt}, opt_flags(x), pn + ".as")
        # replay of the refuted global-name statement: two exports with one C name
        lib = ('#include "aldor"\nimport from MachineInteger;\n'
               "sharedPrefixOfTwoExportsAjqv(x: MachineInteger): MachineInteger == x + 1;\n"
               "sharedPrefixOfTwoExportsAlah(x: MachineInteger): MachineInteger == x * 100;\n")
        cli = ('#include "aldor"\n#include "aldorio"\n#library FLIB "f.ao"\nimport from FLIB;\nimport from MachineInteger;\n'
               "stdout << sharedPrefixOfTwoExportsAjqv 5 << newline;\nstdout << sharedPrefixOfTwoExportsAlah 5 << newline;\n")
        fcol = ex.submit(compile_run, build, top, "collision", {"f.as": lib, "g.as": cli}, [], "g.as",
                         ("-Fx",), (("f.as", ("-Fao", "-Fo")),), ("f.o",))
        fint = ex.submit(compile_run, build, top, "collision-interp", {"f.as": lib, "g.as": cli}, [], "g.as",
                         ("-Ginterp",), (("f.as", ("-Fao",)),))
        # replay of the file-name clash
        fclash = ex.submit(compile_run, build, top, "fileclash", {"abcde001.as": PROG_OPERS}, ["-Csmax=20"], "abcde001.as")
        fnoclash = ex.submit(compile_run, build, top, "nofileclash", {"opersfile.as": PROG_OPERS}, ["-Csmax=20"], "opersfile.as")
        # literals: the compiled default against the interpreter (the default build is the reference
        # of every other comparison, so it needs a reference of its own here)
        litfuts = {}
        for nm, src in (("lits", prog_lits()), ("litoct", prog_litoct())):
            litfuts[(nm, "interp")] = ex.submit(compile_run, build, top, nm + "-interp", {nm + ".as": src}, [], nm + ".as", ("-Ginterp",))
            for dia in ("old", "standard"):
                if nm == "litoct":
                    litfuts[(nm, dia)] = ex.submit(compile_run, build, top, "%s-x-%s" % (nm, dia), {nm + ".as": src}, ["-C" + dia], nm + ".as")
        # long unit names: INIT__0_<unit> is cut at idlen-8 = 22 characters at every site
        longfuts = {}
        for n in LONG_UNIT_LENGTHS:
            un = long_unit_name(n)
            for o in ([], ["-Cold"], ["-Csmax=5"], ["-Clines"], ["-Cstandard", "-Csmax=5", "-Clines"]):
                longfuts[(un, tuple(o))] = ex.submit(compile_run, build, top, "long%d-%s" % (n, "".join(o).replace("=", "")),
                                                     {un + ".as": PROG_TINY}, o, un + ".as")
        twofuts = {}
        for lib, cli in ((long_unit_name(30), "clientofthelongnamedlibrary32xx"), (long_unit_name(23), "c"),
                         ("modulenamemodulenamemoLibraryPart", "modulenamemodulenamemoClientPart")):
            for o in ([], ["-Cold", "-Clines"], ["-Cstandard"]):
                if "LibraryPart" in lib and o:
                    continue
                twofuts[(lib, cli, tuple(o))] = ex.submit(compile_run, build, top, "two-%s-%s-%s" % (lib[-6:], cli[-4:], "".join(o)),
                    {lib + ".as": LIB_SRC, cli + ".as": client_src(lib)}, o, cli + ".as", ("-Fx",), ((lib + ".as", ("-Fao", "-Fo")),), (lib + ".o",))
        # the boundary of split mode: smax = N-1, N, N+1 for the unit's own statement estimate N
        shapes, bfuts = {}, {}
        for pn, txt in progs:
            if pn not in imports:
                continue
            try:
                shapes[pn] = unit_shape(open(os.path.join(base[pn]["dir"], pn + ".fm"), errors="replace").read())
            except Exception as e:
                st.setdefault("shape_errors", []).append("%s: %s" % (pn, e)); continue
            N = sum(shapes[pn][0]) + shapes[pn][1]
            st.setdefault("estimates", {})[pn] = N
            for smax in (N - 1, N, N + 1):
                for dia in ("old", "standard"):
                    o = ["-C" + dia, "-Csmax=%d" % smax]
                    bfuts[(pn, smax, dia)] = ex.submit(compile_run, build, top, "%s-bnd-%d-%s" % (pn, smax, dia),
                                                       {pn + ".as": txt}, o, pn + ".as", ("-Fx", "-Fc"))
        # a unit that splits into more than 999 continuation files
        big = None
        for n in (72, 100, 150):
            src = prog_big(n)
            r0 = compile_run(build, top, "bigunit-default-%d" % n, {"bigunit.as": src}, [], "bigunit.as", ("-Fx", "-Ffm"))
            st["runs"] += 1
            if r0["rc_compile"] != 0 or r0["rc_run"] != 0:
                ctx.finding("mangle-e2e|default|bigunit", "the %d-function program does not build and run with the default options: %s"
                            % (n, r0["log"][-500:]), {"kind": "e2e", "program": "bigunit", "source": src, "result": r0})
                break
            shp = unit_shape(open(os.path.join(r0["dir"], "bigunit.fm"), errors="replace").read())
            if sum(shp[0]) + shp[1] > 1002:
                big = (src, r0, shp); break
        bigc = bigx = None
        if big:
            st["bigunit_estimate"] = sum(big[2][0]) + big[2][1]
            bigc = ex.submit(compile_run, build, top, "bigunit-c", {"bigunit.as": big[0]}, ["-Csmax=1"], "bigunit.as", ("-Fc",))
            if ctx.tier == "thorough":
                bigx = ex.submit(compile_run, build, top, "bigunit-x", {"bigunit.as": big[0]}, ["-Cstandard", "-Csmax=1"], "bigunit.as", ("-Fx", "-Fc"))

        for (pn, x), f in futs.items():
            r = f.result()
            st["runs"] += 1
            st.setdefault("slowest", []).append((r.get("wall", 0), pn, "/".join(map(str, x))))
            b = base[pn]
            same = r["rc_compile"] == 0 and r["rc_run"] == b["rc_run"] and r["stdout"] == b["stdout"]
            pred = changed.get((pn, x[1]))
            if pred:
                st["idlen_mismatch_predicted"] += 1
            if same:
                st["same"] += 1
            elif pred and r["rc_compile"] == 0:
                # compiled and linked, but the runtime cannot resolve imports whose names changed
                st["idlen_mismatch_failed"] += 1
                ctx.finding(SIG_IDLEN,
                    "with -Cidlen=%d the executable of %s misbehaves (run rc %s, stdout %r): imported globals such as %s are "
                    "looked up under names cut at %d characters, while the shipped runtime and libaldor export them under names "
                    "cut at the default 30" % (x[1], pn, r["rc_run"], r["stdout"][:80], pred[0], x[1]),
                    {"kind": "e2e", "program": pn, "options": opt_flags(x), "changed_imports": pred[:5],
                     "result": {k: r.get(k) for k in ("rc_compile", "rc_run", "stdout", "stderr")}, "expected_stdout": b["stdout"],
                     "source": dict(progs)[pn]})
            else:
                st["unexpected"] += 1
                ctx.finding("mangle-e2e|%s|%s" % (" ".join(opt_flags(x)), pn),
                    "program %s built with %s differs from the default build: compile rc %s, run rc %s, stdout %r (default %r); %s"
                    % (pn, " ".join(opt_flags(x)), r["rc_compile"], r["rc_run"], r["stdout"][:120], b["stdout"][:120], r["log"][-500:]),
                    {"kind": "e2e", "program": pn, "options": opt_flags(x), "source": dict(progs)[pn],
                     "result": {k: r.get(k) for k in ("rc_compile", "rc_run", "stdout", "stderr", "log")}, "expected_stdout": b["stdout"]})
            if not same or len(ctx.cov["samples"]) < 6:
                ctx.sample({"module": "mangle-e2e", "program": pn, "options": opt_flags(x), "same_as_default": same})
        # literals against the interpreter
        ri = litfuts[("lits", "interp")].result()
        st["runs"] += 1
        if "lits" in base and base["lits"]["rc_compile"] == 0:
            want, got = interp_lines(ri), [l for l in base["lits"]["stdout"].split("\n") if l.strip()]
            st["lits_vs_interp"] = "same" if want == got else "different"
            if ri["rc_compile"] != 0 or want != got:
                dl = [(a, b) for a, b in zip(want, got) if a != b][:3]
                ctx.finding("mangle-e2e|default-vs-interp|lits",
                            "the literal program prints different text compiled (default options) and interpreted: %s" % dl,
                            {"kind": "e2e", "program": "lits", "source": prog_lits(), "interp": want, "compiled": got})
        ro = litfuts[("litoct", "interp")].result()
        st["runs"] += 1
        for dia in ("old", "standard"):
            r = litfuts[("litoct", dia)].result()
            st["runs"] += 1
            want, got = interp_lines(ro), [l for l in r["stdout"].split("\n") if l.strip()]
            st["litoct_" + dia] = "same" if want == got else "interp %r / compiled %r" % (want, got)
            if ro["rc_compile"] == 0 and (r["rc_compile"] != 0 or want != got):
                ctx.finding(SIG_OCTAL,
                    "string literals with a byte 1..7 followed by an octal digit, DEL, or a byte >= 0x80 are printed with a "
                    "\\%%#o escape of the wrong width: interpreter prints %r, executable (-C%s) prints %r" % (want, dia, got),
                    {"kind": "e2e", "program": "litoct", "source": prog_litoct(), "options": ["-C" + dia], "interp": want, "compiled": got})
        # long unit names
        st["long_unit_runs"] = 0; st["long_unit_same"] = 0
        okout = base.get("tiny", {}).get("stdout")
        for (un, o), f in longfuts.items():
            r = f.result()
            st["runs"] += 1; st["long_unit_runs"] += 1
            if r["rc_compile"] == 0 and r["rc_run"] == 0 and (okout is None or r["stdout"] == okout):
                st["long_unit_same"] += 1
            else:
                ctx.finding("mangle-e2e|long-unit-name|%d|%s" % (len(un), " ".join(o) or "default"),
                    "the tiny program in a file called %s.as (%d characters) built with %s: compile rc %s, run rc %s, stdout %r; %s"
                    % (un, len(un), " ".join(o) or "the default options", r["rc_compile"], r["rc_run"], r["stdout"][:60], r["log"][-600:]),
                    {"kind": "e2e", "program": un, "options": list(o), "source": PROG_TINY,
                     "result": {k: r.get(k) for k in ("rc_compile", "rc_run", "stdout", "stderr", "log")}})
        for (lib, cli, o), f in twofuts.items():
            r = f.result()
            st["runs"] += 1
            good = r["rc_compile"] == 0 and r["rc_run"] == 0 and r["stdout"].strip() == "42"
            if "LibraryPart" in lib:
                st["init_collision_replay"] = "compile rc %s run rc %s stdout %r" % (r["rc_compile"], r["rc_run"], r["stdout"][:20])
                if not good:
                    ctx.finding(SIG_INITCLASH,
                        "two units whose file names share their first 22 characters (%s, %s) both define INIT__0_modulenamemodulenamemo: "
                        "the program does not link (compile rc %s): %s" % (lib, cli, r["rc_compile"], r["log"][-400:]),
                        {"kind": "e2e", "files": {lib + ".as": LIB_SRC, cli + ".as": client_src(lib)},
                         "how": "aldor -Fao -Fo %s.as; aldor -Fx %s.as %s.o" % (lib, cli, lib), "log": r["log"][-1500:]})
            else:
                st["two_file_long"] = st.get("two_file_long", 0) + (1 if good else 0)
                if not good:
                    ctx.finding("mangle-e2e|long-unit-import|%d|%s" % (len(lib), " ".join(o) or "default"),
                        "a client importing the unit %s (%d characters) built with %s: compile rc %s, run rc %s, stdout %r; %s"
                        % (lib, len(lib), " ".join(o) or "the default options", r["rc_compile"], r["rc_run"], r["stdout"][:40], r["log"][-600:]),
                        {"kind": "e2e", "files": {lib + ".as": LIB_SRC, cli + ".as": client_src(lib)}, "options": list(o),
                         "result": {k: r.get(k) for k in ("rc_compile", "rc_run", "stdout", "stderr", "log")}})
        # boundary runs
        st["boundary_runs"] = 0; st["boundary_same"] = 0
        for (pn, smax, dia), f in bfuts.items():
            r = f.result()
            st["runs"] += 1; st["boundary_runs"] += 1
            b = base[pn]
            o = ["-C" + dia, "-Csmax=%d" % smax]
            N = st["estimates"][pn]
            same = r["rc_compile"] == 0 and r["rc_run"] == b["rc_run"] and r["stdout"] == b["stdout"]
            if same:
                st["boundary_same"] += 1
            else:
                ctx.finding("mangle-e2e|%s|%s" % (" ".join(o), pn),
                    "program %s (statement estimate %d) built with %s differs from the default build: compile rc %s, run rc %s, stdout %r; %s"
                    % (pn, N, " ".join(o), r["rc_compile"], r["rc_run"], r["stdout"][:120], r["log"][-500:]),
                    {"kind": "e2e", "program": pn, "options": o, "source": dict(progs)[pn], "estimate": N,
                     "result": {k: r.get(k) for k in ("rc_compile", "rc_run", "stdout", "stderr", "log")}, "expected_stdout": b["stdout"]})
            if r["rc_compile"] == 0:
                # independent expectation at the boundary: one file up to N, header + two files below
                names = sorted(x for x in os.listdir(r["dir"]) if x.endswith((".c", ".h")) and "-aldormain" not in x)
                exp = [pn + ".c"] if smax >= N or smax <= 0 else None
                if exp is not None and names != exp:
                    ctx.finding("mangle-e2e|split-files|%s|%s" % (" ".join(o), pn),
                                "program %s with estimate %d and %s is written to %s, expected %s" % (pn, N, " ".join(o), names, exp),
                                {"kind": "e2e", "program": pn, "options": o, "source": dict(progs)[pn], "files": names})
                if exp is None and (pn + ".h") not in names:
                    ctx.finding("mangle-e2e|split-files|%s|%s" % (" ".join(o), pn),
                                "program %s with estimate %d and %s is not split: %s" % (pn, N, " ".join(o), names),
                                {"kind": "e2e", "program": pn, "options": o, "source": dict(progs)[pn], "files": names})
                check_emitted(ctx, st, pn, pn, r["dir"], smax, shapes[pn], o, dict(progs)[pn])
        # more than 999 continuation files
        if bigc is not None:
            r = bigc.result()
            st["runs"] += 1
            N = st["bigunit_estimate"]
            if r["rc_compile"] != 0:
                ctx.finding("mangle-e2e|-Csmax=1 -Fc|bigunit", "aldor -Fc -Csmax=1 fails on the %d-statement program: %s" % (N, r["log"][-500:]),
                            {"kind": "e2e", "program": "bigunit", "options": ["-Csmax=1", "-Fc"], "source": big[0]})
            else:
                names = [x for x in os.listdir(r["dir"]) if x.endswith(".c")]
                st["bigunit_c_files"] = len(names)
                st["bigunit_beyond_999"] = sorted(x for x in names if re.match(r"bigun\d{4,}\.c$", x))[:3]
                if len(names) != N:           # N-1 parts + the last unit
                    ctx.finding("mangle-e2e|split-files|-Csmax=1|bigunit",
                                "the %d-statement program with -Csmax=1 is written to %d .c files, expected %d (names beyond ...999 must stay distinct)"
                                % (N, len(names), N), {"kind": "e2e", "program": "bigunit", "options": ["-Csmax=1"], "source": big[0]})
                check_emitted(ctx, st, "bigunit", "bigunit", r["dir"], 1, big[2], ["-Csmax=1", "-Fc"], big[0])
        if bigx is not None:
            r = bigx.result()
            st["runs"] += 1
            st["bigunit_full_build"] = "compile rc %s run rc %s wall %s" % (r["rc_compile"], r["rc_run"], r.get("wall"))
            if r["rc_compile"] != 0 or r["rc_run"] != big[1]["rc_run"] or r["stdout"] != big[1]["stdout"]:
                ctx.finding("mangle-e2e|-Cstandard -Csmax=1|bigunit",
                            "the program split into %d files does not build, link and run like the default build: compile rc %s, run rc %s, stdout %r; %s"
                            % (st["bigunit_estimate"], r["rc_compile"], r["rc_run"], r["stdout"][:100], r["log"][-500:]),
                            {"kind": "e2e", "program": "bigunit", "options": ["-Cstandard", "-Csmax=1"], "source": big[0],
                             "result": {k: r.get(k) for k in ("rc_compile", "rc_run", "stdout", "stderr", "log")}, "expected_stdout": big[1]["stdout"]})
            elif r["rc_compile"] == 0:
                check_emitted(ctx, st, "bigunit", "bigunit", r["dir"], 1, big[2], ["-Cstandard", "-Csmax=1"], big[0])
        # collision replay
        rc_, ri_ = fcol.result(), fint.result()
        st["runs"] += 2
        want = [l for l in ri_["cout"].strip().split("\n") if l.strip()][-2:] if ri_["rc_compile"] == 0 else None
        # -Ginterp prints the program's output on the compiler's stdout
        if want is not None:
            got = rc_["stdout"].strip().split("\n")
            st["collision_replay"] = "interp %s / compiled %s (compile rc %s)" % (want, got, rc_["rc_compile"])
            if rc_["rc_compile"] != 0 or got != want:
                ctx.finding(SIG_COLLISION,
                    "two exports of one file get the same C name G_8E902_f__sharedPrefixOfTwoEx with the default options; the "
                    "importing file then calls the wrong function: interpreter prints %s, executable prints %s (compile rc %s)"
                    % (want, got, rc_["rc_compile"]),
                    {"kind": "e2e", "files": {"f.as": lib, "g.as": cli}, "interp": want, "compiled": got,
                     "log": rc_["log"][-1500:], "how": "aldor -Fao -Fo f.as; aldor -Fx g.as f.o; ./g   vs   aldor -Ginterp g.as"})
        else:
            st["collision_replay"] = "interpreter run failed: " + ri_["log"][-300:]
        # file clash replay
        r1, r2 = fclash.result(), fnoclash.result()
        st["runs"] += 2
        st["fileclash_replay"] = "abcde001: compile rc %s run rc %s; opersfile: compile rc %s run rc %s" % (
            r1["rc_compile"], r1["rc_run"], r2["rc_compile"], r2["rc_run"])
        okout = base.get("opers", {}).get("stdout")
        if r2["rc_compile"] != 0 or r2["rc_run"] != 0 or (okout is not None and r2["stdout"] != okout):
            ctx.finding("mangle-e2e|-Csmax=20|opersfile", "the operator program under the name opersfile.as with -Csmax=20 fails: " + r2["log"][-600:],
                        {"kind": "e2e", "program": "opersfile", "options": ["-Csmax=20"], "source": PROG_OPERS, "result": r2})
        if r1["rc_compile"] != 0 or r1["rc_run"] != 0 or (okout is not None and r1["stdout"] != okout):
            ctx.finding(SIG_FILECLASH,
                "the same program under the name abcde001.as with -Csmax=20 does not link: its second part is written to "
                "abcde001.c over the first (compile rc %s): %s" % (r1["rc_compile"], r1["log"][-400:]),
                {"kind": "e2e", "program": "abcde001", "options": ["-Csmax=20"], "source": PROG_OPERS,
                 "result": {k: r1.get(k) for k in ("rc_compile", "rc_run", "stdout", "log")}})
    st["slowest"] = sorted(st.get("slowest", []), reverse=True)[:5]
    ctx.cov["evaluations"] += st["runs"]
    shutil.rmtree(top, ignore_errors=True)
    return st
