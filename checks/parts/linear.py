"""part `linear` (C14): linear.c vs Model/Linear.lean.  Tie: hand model + correspondence (H).

Three kinds of evidence per run:
 (a) model = implementation: harness/linear_drv.c (links the scratch build's linear.c, scan.c,
     include.c, syscmd.c) scans every layout variant of every source program (`S path`), the token
     list it prints is the request (`L 0 tag.line.col.id ...`) given to both the C `linearize()`
     and the Lean model; plus seeded random token lists (also with `fintMode == FINT_LOOP`).
 (b) the executable property on the implementation alone: the real compiler is run on every
     variant (`aldor -Fap -WTr+li`); the token list after the lineariser (positions are not printed)
     and the `.ap` parse tree must be identical across all layout variants of one rendering, and
     the `.ap` of the braced and of the piled rendering of one program must be identical.
     For random token lists the executable forms of the three theorems are evaluated on the C
     output: blank/comment insertion, arbitrary columns without `#pile`, strictly monotone
     re-indentation with `#pile`.
 (c) the harness is itself compared with the compiler: the driver's `linearize()` output rendered
     like `toklistPrint` must equal the compiler's `-WTr+li` dump."""
import os, re, shutil, glob
from concurrent.futures import ThreadPoolExecutor
from vlib import common
from vlib.common import VERIF

NAME = "linear"
BUILD_TARGETS = ["AldorVerif.Props.C14"]
SOURCES = ["linear.c", "linear.h", "token.c", "token.h", "scan.c", "syscmd.c", "include.c"]
MODELLED = ("linear.c: linearize linXTokens(linXComments,linXNewLines) linXBlankLines0 linXBlankLines linCheckBalance0 "
            "linCheckBalance(error count) linKeyword linIndentation lntTok lntTokHas lntConcat lntSeparate lntWrap lntFirstTok "
            "lntLastTok lntLastTokLessNL lntFrTokenList lntFrTL_DoPile lntFrTL_DoLine lntFrTL_DontPile lntFrTL_DontLine "
            "lntFrTL_1Tok lntFrTL_MakeLine lin2DRules lin2DRulesPile lin2DRulesPile0 joinUp isPileRequired isBackSetRequired "
            "lntToTokenList lntToTokenList0 lntConsNL linUseNeededSep linISepAfterDontPiles linXSep; token.c: the "
            "isOpener/isCloser/isFollower columns of tokInfoTable (not: scan.c, the parser, printing, storage management)")
THEOREMS = [("AldorVerif.Props.C14", "AldorVerif.Linear." + t) for t in (
    "blank_comment_invariant", "line_numbers_irrelevant", "blank_comment_invariant_mod_positions",
    "linearize_braced_eq", "spacing_invariant_braced", "indent_scale_invariant", "reposition_invariant",
    "indent_scale_widths", "pile_eq_braces", "pile_eq_braces_tags")]

# token tags (enum tokenTag)
TK_Id, TK_Blank, TK_Int, TK_Float, TK_String, TK_PreDoc, TK_PostDoc, TK_Comment, TK_SysCmd, TK_Error = range(1, 11)
KW_Semicolon, KW_At, KW_OCurly, KW_CCurly = 73, 76, 113, 118
KW_NewLine, KW_StartPile, KW_EndPile, KW_SetTab, KW_BackSet, KW_BackTab = 125, 126, 127, 128, 129, 130

REPO_PILED = [
    "aldor/test/jimp0.as", "aldor/test/jexport.as", "aldor/test/nestcond.as", "aldor/test/apply.as",
    "aldor/test/halt.as", "aldor/test/jexn.as", "aldor/test/fcall.as", "aldor/test/silly.as",
    "aldor/test/jexport1.as", "aldor/test/envname.as", "aldor/test/jcatch.as", "aldor/test/multinever.as",
    "aldor/test/jexport2.as", "aldor/test/cross.as", "aldor/test/jthrow.as", "aldor/test/jlist.as",
    "aldor/test/maptuple.as",
    "lib/aldor/src/datastruc/sal_hashset.as", "lib/aldor/src/datastruc/sal_hashset_jtest.as",
    "lib/aldor/src/datastruc/sal_set_jtest.as", "lib/aldor/src/datastruc/sal_union.as",
    "lib/aldor/src/datastruc/sal_union_jtest.as", "lib/aldor/src/gmp/sal_intgmp_test.as",
    "lib/aldor/src/lisp/sal_sexpr.as", "lib/aldor/src/lisp/sal_sexpr_jtest.as", "lib/aldor/src/util/sal_dir.as",
    "lib/aldor/src/util/sal_fname.as", "lib/aldor/src/util/sal_fname_jtest.as",
    "lib/algebra/src/test/tst_complex.as", "lib/algebra/src/test/tst_dup.as", "lib/algebra/src/test/tst_mint.as",
]
# braced sources of the repository (layout variants only)
REPO_BRACED = [
    "lib/aldor/src/datastruc/sal_fold.as", "lib/aldor/src/datastruc/sal_langx.as", "lib/aldor/src/arith/sal_itools.as",
    "lib/aldor/src/test/tst_assert.as", "lib/aldor/src/util/rtexns.as", "lib/aldor/src/gmp/sal_gmptls.as",
    "lib/aldor/src/arith/sal_ftools.as", "lib/aldor/src/datastruc/sal_map.as", "aldor/test/jimport.as",
    "aldor/test/strtable1.as", "aldor/test/opt1.as", "aldor/test/rectest.as", "aldor/test/simple.as",
    "aldor/test/clos.as", "aldor/test/enumtest.as", "aldor/test/exquo.as",
]
REPO_BRACED_THOROUGH = ["lib/aldor/src/lang/sal_lang.as", "lib/algebra/src/categories/sit_intgmp.as"]

# ------------------------------------------------------------------ source text handling
def strip_directives(text):
    """`#include` and the other includer/system commands are replaced by empty lines: only
    `#pile` / `#endpile` matter to the lineariser and nothing outside the file is to be read"""
    out = []
    for l in text.split("\n"):
        if l.startswith("#") and l.strip() not in ("#pile", "#endpile"):
            out.append("")
        else:
            out.append(l)
    return "\n".join(out)

def measure(line):
    """(indentation in columns as include.c:inclCalcIndentLevel counts it, rest of the line)"""
    col = 0
    i = 0
    for ch in line:
        if ch == " ": col += 1
        elif ch == "\t": col = (col // 8 + 1) * 8
        else: break
        i += 1
    return col, line[i:]

def col_offsets(indent, body):
    """0-based column of every character of `body` as scan.c:scAdvance0 counts (tab stops at 8)"""
    cols = []
    c = indent
    for ch in body:
        cols.append(c)
        c = (c // 8 + 1) * 8 if ch == "\t" else c + 1
    return cols

def lead(n, style, rng):
    """leading white space measuring n columns"""
    if style == "spaces" or n == 0:
        return " " * n
    if style == "tabs":
        return "\t" * (n // 8) + " " * (n % 8)
    # mixed: some of the tabs are preceded by 1..7 blanks (still reach the same tab stop)
    s = ""
    for _ in range(n // 8):
        s += " " * rng.randint(0, 7) + "\t"
    return s + " " * (n % 8)

class Src:
    """a source text with the scanner's token positions"""
    def __init__(self, name, text, toks):
        self.name = name
        self.text = text if text.endswith("\n") else text + "\n"
        self.lines = self.text.split("\n")[:-1]
        self.piled = any(t[0] in (KW_StartPile, KW_EndPile) for t in toks)
        self.info = []          # per line: (indent, body, starts=[offset of each token start in body], tags)
        bylines = {}
        for (tag, ln, col, txt) in toks:
            bylines.setdefault(ln, []).append((col, tag))
        self.ok = True
        for k, l in enumerate(self.lines):
            ind, body = measure(l)
            cols = col_offsets(ind, body)
            starts, tags = [], []
            for (col, tag) in sorted(bylines.get(k + 1, [])):
                if tag == KW_NewLine:
                    continue
                if tag in (KW_StartPile, KW_EndPile):
                    starts, tags = None, None
                    break
                try:
                    starts.append(cols.index(col - 1)); tags.append(tag)
                except ValueError:
                    self.ok = False
            self.info.append((ind, body, starts, tags))

def protected(tags):
    """number of leading tokens of a line whose spacing fixes the line's indentation:
    the first token, or `@ id stmt` (linIndentation skips a label)"""
    if tags and tags[0] == KW_At:
        return min(3, len(tags))
    return 1 if tags else 0

def render(src, rng, reindent=None, style="spaces", respace=0.0, shrink=False, escape=0.0, split=0.0,
           blank=0.0, comment=0.0, free_first=False):
    """one layout variant.  reindent: function old indentation -> new indentation (strictly
    increasing, and expanding, when the source is piled)"""
    out = []
    def filler():
        r = rng.random()
        if r < blank:
            out.append(rng.choice(["", "", "   ", "\t", " \t "]))
        elif r < blank + comment:
            out.append(lead(rng.randint(0, 20), rng.choice(["spaces", "tabs"]), rng) + "--" +
                       rng.choice([" note", "", " { ; } #pile", " ++ x", "- then else", " \"q", " _"]) + rng.choice(["", " ", "x"]))
    filler()
    for (ind, body, starts, tags) in src.info:
        if starts is None or body == "":
            # directive line or empty line: kept as it is
            out.append(lead(ind, "spaces", rng) + body if starts is not None else body)
            filler()
            continue
        f = reindent if reindent else (lambda n: n)
        nprot = protected(tags)
        pieces = []
        pos = 0
        s = lead(f(ind), style, rng)
        cur = f(ind)             # only used up to the protected prefix (no tabs there)
        for k, st in enumerate(starts):
            seg = body[pos:st]   # text of the previous token and the white space after it
            if k == 0:
                seg = ""
            if k > 0 and k < nprot:
                # inside `@ id stmt`: move stmt to the image of its column
                tokpart = seg.rstrip(" \t")
                if k == nprot - 1 and nprot == 3:
                    oldcol = col_offsets(ind, body)[st]
                    want = f(oldcol)
                    have = cur + len(tokpart)
                    seg = tokpart + " " * max(1, want - have)
                cur += len(seg)
                s += seg
            elif k >= nprot or (k == 0 and free_first):
                tokpart = seg.rstrip(" \t")
                ws = seg[len(tokpart):]
                if k == 0:
                    ws = ""
                if shrink and len(ws) > 1:
                    ws = " "
                if rng.random() < respace:
                    ws += rng.choice([" ", "  ", "\t", "   ", " \t"])
                after_comment = k > 0 and tags[k - 1] in (TK_Comment, TK_PreDoc, TK_PostDoc)
                if k > 0 and not after_comment and rng.random() < escape:
                    ws = " _" + rng.choice(["", " ", "\t"]) + "\n" + lead(rng.randint(0, 24), rng.choice(["spaces", "tabs"]), rng)
                elif k > 0 and not after_comment and rng.random() < split:
                    ws = rng.choice(["", " "]) + "\n" + lead(rng.randint(0, 24), rng.choice(["spaces", "tabs"]), rng)
                s += tokpart + ws
            else:
                s += seg
                cur += len(seg)
            pos = st
        tail = body[pos:]
        if rng.random() < respace and tags and tags[-1] not in (TK_Comment, TK_PreDoc, TK_PostDoc) and not tail.endswith("_"):
            tail += rng.choice([" ", "\t", "  "])
        s += tail
        out.append(s)
        filler()
    return "\n".join(out) + "\n"

# tags of infix operators (symbols `:=` .. `\\/`, and the alphabetic ones)
INFIX_TAGS = set(range(77, 111)) | {12, 52, 54, 56, 48, 27, 17, 37, 18, 53}
KW_OParen, KW_Assign = 115, 77
PILE_KEYWORDS = {61, 24, 67, 11, 64, 16, 19, 29, 13}     # isPileRequired: then else with add try but catch finally always

def render_escfill(src, rng, fill, k, contind, where, p=0.6):
    """escaped line break + k filler lines + continuation line.
    fill: 'empty' | 'ws' (blanks and tabs only) | 'comment' (comment-only lines);
    contind: continuation indented 'deeper' (deeper than every line of the text) | 'equal' (as the
    statement start) | 'shallower'; where: the token position of the break: before an 'infix'
    operator, before a '(' ('paren'), after ':=' ('assign'), or 'any' gap between two tokens.
    With 'empty'/'ws' the scanner skips everything up to the continuation, so no newline token
    exists and the continuation's column cannot matter.  A comment ends the escape: its own line
    end is a real one, so in a pile the continuation is a line of its own."""
    maxind = max([i[0] for i in src.info] + [0])
    out = []
    nsplit = 0
    for (ind, body, starts, tags) in src.info:
        if starts is None or body == "" or not tags:
            out.append(lead(ind, "spaces", rng) + body if starts is not None else body)
            continue
        nprot = max(protected(tags), 1)
        cols = col_offsets(ind, body)
        base = cols[starts[2]] if (nprot == 3 and len(starts) > 2) else ind
        def ok(j, kind):
            if j < nprot or tags[j] in (TK_Comment, TK_PreDoc, TK_PostDoc) or tags[j - 1] in (TK_Comment, TK_PreDoc, TK_PostDoc):
                return False
            if fill == "comment" and src.piled and tags[j - 1] in PILE_KEYWORDS:
                return False      # a one-line pile would be formed after the keyword (different tokens, same tree)
            if kind == "infix": return tags[j] in INFIX_TAGS
            if kind == "paren": return tags[j] == KW_OParen
            if kind == "assign": return tags[j - 1] == KW_Assign
            return True
        cand = [j for j in range(1, len(starts)) if ok(j, where)]
        if not cand and rng.random() < 0.5:
            cand = [j for j in range(1, len(starts)) if ok(j, "any")]
        if not cand or rng.random() > p:
            out.append(lead(ind, "spaces", rng) + body)
            continue
        j = rng.choice(cand)
        nsplit += 1
        first = body[:starts[j]].rstrip(" \t")
        out.append(lead(ind, "spaces", rng) + first + " _" + rng.choice(["", " ", "\t", "  "]))
        for _ in range(k):
            if fill == "empty":
                out.append("")
            elif fill == "ws":
                out.append(rng.choice([" ", "\t", "   ", " \t ", "        "]))
            else:
                out.append(lead(rng.randint(0, maxind + 6), rng.choice(["spaces", "tabs"]), rng) + "--" + rng.choice([" c", "", " x := 1", " _"]))
        if contind == "deeper":
            c = maxind + rng.randint(1, 4)
        elif contind == "equal" or base == 0:
            c = base
        else:
            c = rng.randint(0, base - 1)
        out.append(lead(c, rng.choice(["spaces", "spaces", "tabs"]), rng) + body[starts[j]:])
    return "\n".join(out) + "\n", nsplit

def expanding_map(rng, maxw):
    """strictly increasing f with f(0)=0 and f(b)-f(a) >= b-a"""
    acc = [0]
    for _ in range(400):
        acc.append(acc[-1] + rng.randint(1, maxw))
    return lambda n: acc[n] if n < len(acc) else acc[-1] + (n - len(acc) + 1) * maxw

def variants(src, rng, thorough):
    """[(kind, text)] — all layout-only edits of src"""
    vs = [("base", src.text)]
    P = src.piled
    vs.append(("blank-all", render(src, rng, blank=1.0)))
    vs.append(("comment-all", render(src, rng, comment=1.0)))
    for i in range(3 if thorough else 2):
        vs.append(("blank-comment-mix%d" % i, render(src, rng, blank=0.3, comment=0.3)))
    for k in range(2, 9):
        vs.append(("indent-x%d" % k, render(src, rng, reindent=(lambda n, k=k: n * k))))
    vs.append(("indent-x8-tabs", render(src, rng, reindent=(lambda n: n * 8), style="tabs")))
    vs.append(("tabs", render(src, rng, style="tabs")))
    vs.append(("tabs-mixed", render(src, rng, reindent=(lambda n: n * 3), style="mixed")))
    for i in range(3 if thorough else 2):
        vs.append(("indent-monotone%d" % i, render(src, rng, reindent=expanding_map(rng, 4), style=rng.choice(["spaces", "tabs"]))))
    for i in range(4 if thorough else 2):
        vs.append(("respace%d" % i, render(src, rng, respace=0.5)))
    vs.append(("shrink", render(src, rng, shrink=True)))
    for i in range(2):
        vs.append(("escape%d" % i, render(src, rng, escape=0.25, respace=0.1)))
    if not P:
        for i in range(2):
            vs.append(("indent-random%d" % i, render(src, rng, reindent=(lambda n: rng.randint(0, 30)), free_first=True)))
        for i in range(2):
            vs.append(("split%d" % i, render(src, rng, split=0.3, free_first=True)))
        vs.append(("split-all", render(src, rng, split=1.0, free_first=True)))
    for i in range(6 if thorough else 3):
        vs.append(("combo%d" % i, render(src, rng, reindent=expanding_map(rng, 3), style=rng.choice(["spaces", "tabs", "mixed"]),
                                          respace=0.3, blank=0.2, comment=0.2, escape=0.05)))
    # escaped line break, then k blank / white-space-only / comment-only lines, then the continuation
    combos = [(f, c) for f in ("empty", "ws", "comment") for c in ("deeper", "equal", "shallower")]
    wheres = ["infix", "paren", "assign", "any"]
    off1, off2 = rng.randint(0, 2), rng.randint(0, 3)
    for rep in range(2 if thorough else 1):
        for i, (f, c) in enumerate(combos):
            k = 1 + (i + off1 + rep) % 3
            wh = wheres[(i + off2 + rep) % 4]
            text, n = render_escfill(src, rng, f, k, c, wh)
            if n:
                vs.append(("escfill-%s%d-%s-%s%s" % (f, k, c, wh, "-b" if rep else ""), text))
    return vs

# ------------------------------------------------------------------ dumps
def unhex(h):
    return "" if h == "-" else bytes.fromhex(h).decode("latin-1")

def parse_scan(line):
    """`tag.line.col.hextext ...` -> [(tag, line, col, text)]"""
    if line.strip() in ("empty", ""):
        return []
    toks = []
    for t in line.split():
        a = t.split(".")
        toks.append((int(a[0]), int(a[1]), int(a[2]), unhex(a[3])))
    return toks

def tok_print(tag, text, names):
    """token.c:tokPrint"""
    if tag in (TK_Id, TK_Blank, TK_Int, TK_Float): return text
    if tag == TK_String: return '"%s"' % text
    if tag == TK_PreDoc: return "+++" + text
    if tag == TK_PostDoc: return "++" + text
    if tag == TK_Comment: return "--" + text
    if tag == TK_SysCmd: return text + "\n"
    if tag == TK_Error: return "<Error: %s> " % text
    if tag == KW_StartPile: return "<#pile>\n"
    if tag == KW_EndPile: return "<#endpile>\n"
    if tag == KW_NewLine: return "<NL>\n"
    if tag == KW_SetTab: return "{\n"
    if tag == KW_BackSet: return ";\n"
    if tag == KW_BackTab: return "\n}"
    return "|%s|" % names.get(tag, "??")

def norm_ws(s):
    return re.sub(r"\s+", " ", s).strip()

def compiler_dump(out):
    """the token list printed by `-WTr+li`, white space normalised"""
    m = out.find("*** Result of linear:\n")
    if m < 0:
        return None
    s = out[m + len("*** Result of linear:\n"):]
    e = s.find("]\n\n")
    if e >= 0:
        s = s[:e + 1]
    return norm_ws(s)

# ------------------------------------------------------------------ random token lists
ALPHA = ([TK_Id] * 8 + [3, 3, TK_Comment, TK_Comment, TK_PreDoc, TK_PostDoc, TK_PostDoc, KW_NewLine, KW_StartPile, KW_EndPile,
         KW_OCurly, KW_OCurly, KW_CCurly, KW_CCurly, KW_Semicolon, KW_Semicolon, 72, 115, 119, 111, 117, KW_At, 61, 24, 67, 11, 64,
         16, 19, 29, 13, 77, 86, 38, 100, KW_SetTab, KW_BackSet, KW_BackTab, 40, 65, 34, 112, 114, 116, 121, 122, 123, 83, 102])

def gen_toklist(rng, nopile=False):
    toks = []
    line = 1
    nlines = rng.randint(0, 12)
    mode = rng.random()
    for _ in range(nlines):
        ind = rng.choice([1, 1, 3, 5, 5, 9, 9, 13, 2, 17]) if mode < 0.8 else rng.randint(1, 20)
        col = ind
        r = rng.random()
        if not nopile and r < 0.08:
            toks.append((KW_StartPile, line, 1)); line += 1; continue
        if not nopile and r < 0.14:
            toks.append((KW_EndPile, line, 1)); line += 1; continue
        n = rng.choice([0, 1, 1, 2, 3, 4, 6])
        for _ in range(n):
            t = rng.choice(ALPHA) if rng.random() < 0.6 else TK_Id
            if nopile and t in (KW_StartPile, KW_EndPile):
                t = TK_Id
            toks.append((t, line, col)); col += rng.randint(1, 4)
        if rng.random() < 0.95:
            toks.append((KW_NewLine, line, col))
        line += 1
    return toks

# ---- the block language of Props/C14.lean (pile_eq_braces_statement)
OPENERS = {111, 112, 113, 114, 115, 116}
CLOSERS = {117, 118, 119, 121, 122, 123}
FOLLOWERS = {12, 13, 16, 19, 24, 29, 34, 40, 51, 52, 53, 61, 63, 65, 72, 74, 77, 78, 79, 80, 83, 86, 87, 102, 103}
PILEKW = {61, 24, 67, 11, 64, 16, 19, 29, 13}
NOTPLAIN = {6, 7, 8, 9, 10, 73, 76, 113, 118, 125, 126, 127, 128, 129, 130}
PLAIN = [k for k in range(1, 132) if k not in NOTPLAIN]

def gen_line(rng, head):
    n = rng.choice([1, 1, 2, 3, 3, 5])
    while True:
        ts = [rng.choice(PLAIN) if rng.random() < 0.5 else rng.choice([1, 1, 3, 77, 86, 100, 38, 61, 24, 115, 119, 72, 67, 11]) for _ in range(n)]
        if ts[0] in FOLLOWERS or ts[0] in CLOSERS: continue
        if ts[-1] == 72 or ts[-1] in OPENERS: continue
        if not head and ts[-1] in PILEKW: continue
        return ts

def gen_stmt(rng, depth):
    if depth == 0 or rng.random() < 0.45:
        return ("line", gen_line(rng, False))
    return ("block", gen_line(rng, True), [gen_stmt(rng, depth - 1) for _ in range(rng.choice([1, 1, 2, 2, 3]))])

def line_toks(d, ts):
    return [(k, 1, d + i) for i, k in enumerate(ts)] + [(KW_NewLine, 1, d + len(ts))]

def piled_stmt(w, d, st):
    if st[0] == "line":
        return line_toks(d, st[1])
    out = line_toks(d, st[1])
    for b in st[2]:
        out += piled_stmt(w, d + w, b)
    return out

def braced_list(sts):
    out = []
    for i, st in enumerate(sts):
        if i:
            out += [(KW_Semicolon, 1, 1), (KW_NewLine, 1, 1)]
        out += braced_stmt(st)
    return out

def braced_stmt(st):
    if st[0] == "line":
        return [(k, 1, 1) for k in st[1]]
    out = [(k, 1, 1) for k in st[1]]
    if len(st[2]) >= 2 or st[1][-1] in PILEKW:
        return out + [(KW_OCurly, 1, 1), (KW_NewLine, 1, 1)] + braced_list(st[2]) + [(KW_NewLine, 1, 1), (KW_CCurly, 1, 1)]
    return out + braced_list(st[2])

def braced_prog(p):
    if len(p) >= 2:
        return [(KW_OCurly, 1, 1), (KW_NewLine, 1, 1)] + braced_list(p) + [(KW_NewLine, 1, 1), (KW_CCurly, 1, 1)]
    return braced_list(p)

UNTAB = {KW_SetTab: KW_OCurly, KW_BackSet: KW_Semicolon, KW_BackTab: KW_CCurly}

def req_of(toks, loop=0):
    return "L %d " % loop + " ".join("%d.%d.%d.%d" % (a, b, c, k + 1) for k, (a, b, c) in enumerate(toks))

def parse_out(s):
    """`tag.line.col.id ... | err=n` -> ([(tag, line, col, id)], err) or None"""
    if "|" not in s:
        return None
    body, _, tail = s.rpartition("|")
    try:
        toks = [tuple(int(x) for x in t.split(".")) for t in body.split()]
        return toks, int(tail.strip().split("=")[1])
    except Exception:
        return None

# ------------------------------------------------------------------ the part
def aldor_cmd(build):
    R = common.ALDOR_TOP
    return [build.aldor, "-Nfile=" + os.path.join(build.src, "aldor.conf"),
            "-Y" + os.path.join(R, "aldor/lib/libfoam/al"), "-I" + os.path.join(R, "lib/aldor/include"),
            "-Y" + os.path.join(R, "lib/aldor/src"), "-laldor"]

def compile_variant(cmd, path):
    d = os.path.dirname(path)
    rc, out, err = common.run(cmd + ["-Fap", "-WTr+li", os.path.basename(path)], cwd=d, timeout=120)
    apf = os.path.splitext(path)[0] + ".ap"
    ap = open(apf, errors="replace").read() if os.path.exists(apf) else None
    return rc, out + err, ap

def load_programs(ctx):
    """[(program, rendering, text)]"""
    progs = []
    corp = os.path.join(VERIF, "corpus", "linear")
    for f in sorted(glob.glob(os.path.join(corp, "*.as"))):
        b = os.path.basename(f)
        name, rendering = b.split(".")[0], b.split(".")[1]
        progs.append((name, rendering, open(f).read()))
    more = REPO_BRACED_THOROUGH if ctx.tier == "thorough" else []
    for rel, rendering in [(r, "piled") for r in REPO_PILED] + [(r, "braced") for r in REPO_BRACED + more]:
        p = os.path.join(common.ALDOR_TOP, rel)
        if os.path.exists(p):
            txt = strip_directives(open(p, errors="replace").read())
            if "_\n" in txt or "\r" in txt:
                continue        # escaped line ends: the variant generator would have to know them
            progs.append(("repo:" + rel, rendering, txt))
    return progs

def run_part(ctx, build):
    exe = build.cc_driver("linear_drv", os.path.join(VERIF, "harness", "linear_drv.c"))
    rng = ctx.rng
    thorough = ctx.tier == "thorough"
    stats = {"programs": 0, "variants": 0, "skipped_programs": [], "scan_lines": 0, "random_lines": 0, "corpus_lines": 0,
             "mismatch": 0, "faults": 0, "dump_compared": 0, "ap_compared": 0, "pairs_compared": 0,
             "twin_blank": 0, "twin_columns": 0, "twin_monotone": 0}
    work = common.scratch("aldor-verif-linear-")
    cmd = aldor_cmd(build)

    # ---- the token table of token.c against the model's
    ct = common.run_impl_lines(exe, ["T"])[0].split()
    mt = common.split_model(common.run_model("linear", "T\n"))[0][0].split()
    names = {}
    ctab = []
    for e in ct:
        a = e.split(":")
        names[int(a[0])] = unhex(a[4])
        ctab.append(":".join(a[:4]))
    if ctab != mt:
        diff = [(c, m) for c, m in zip(ctab, mt) if c != m][:5]
        ctx.corr_broken.append((NAME, "T", " ".join(str(d[0]) for d in diff) or "length %d" % len(ctab),
                                " ".join(str(d[1]) for d in diff) or "length %d" % len(mt)))

    # ---- source programs and their layout variants
    progs = load_programs(ctx)
    units = []       # dict(program, rendering, kind, text, path)
    bases = []
    for (name, rendering, text) in progs:
        d = os.path.join(work, "b%d" % len(bases)); os.makedirs(d)
        p = os.path.join(d, "f.as")
        open(p, "w").write(text if text.endswith("\n") else text + "\n")
        bases.append((name, rendering, text, p))
    scans = common.run_impl_lines(exe, ["S " + b[3] for b in bases])
    with ThreadPoolExecutor(max_workers=common.NCPU) as ex:
        base_res = list(ex.map(lambda b: compile_variant(cmd, b[3]), bases))
    for (name, rendering, text, p), sc, (rc, out, ap) in zip(bases, scans, base_res):
        if sc.startswith("FAULT"):
            stats["faults"] += 1
            ctx.finding("linear|fault-scan|" + name, "scanning %s (%s) faults in the harness: %s" % (name, rendering, sc),
                        {"kind": "impl-fault", "source": text, "impl": sc})
            continue
        toks = parse_scan(sc)
        if rc != 0 or ap is None or any(t[0] == TK_Error for t in toks):
            # a repository source that does not parse on its own (after removing its #include lines)
            if name.startswith("repo:"):
                stats["skipped_programs"].append(name)
                continue
            sib = [(b, r) for b, r in zip(bases, base_res) if b[0] == name and b[1] != rendering and r[0] == 0 and r[2] is not None]
            if sib:
                ctx.finding("linear|piled-vs-braced|" + name,
                            "the %s rendering of %s is rejected by the compiler, the %s rendering is accepted: %s"
                            % (rendering, name, sib[0][0][1], out[-600:]),
                            {"kind": "impl-violates-property", rendering: text, sib[0][0][1]: sib[0][0][2], "output": out[-2000:]})
            else:
                ctx.violation("linear|corpus-does-not-parse|" + name, "corpus program %s.%s does not parse: %s" % (name, rendering, out[-600:]),
                              {"kind": "check-error", "source": text, "output": out[-2000:]}, found_input=False)
            continue
        src = Src(name, text, toks)
        if not src.ok:
            stats["skipped_programs"].append(name + " (columns)")
            continue
        stats["programs"] += 1
        for kind, vtext in variants(src, rng, thorough):
            d = os.path.join(work, "v%d" % len(units)); os.makedirs(d)
            vp = os.path.join(d, "f.as")
            open(vp, "w").write(vtext)
            units.append({"program": name, "rendering": rendering, "kind": kind, "text": vtext, "path": vp, "piled": src.piled})
    stats["variants"] = len(units)

    # (b) the compiler on every variant
    with ThreadPoolExecutor(max_workers=common.NCPU) as ex:
        res = list(ex.map(lambda u: compile_variant(cmd, u["path"]), units))
    for u, (rc, out, ap) in zip(units, res):
        u["rc"], u["out"], u["ap"], u["dump"] = rc, out, ap, compiler_dump(out)

    # (a) scan every variant with the harness, then linearize with harness and model
    vscans = common.run_impl_lines(exe, ["S " + u["path"] for u in units])
    reqs = []
    for u, sc in zip(units, vscans):
        u["toks"] = None if sc.startswith(("FAULT", "SKIPPED", "MISSING")) else parse_scan(sc)
        if u["toks"] is None:
            stats["faults"] += 1
            ctx.finding("linear|fault-scan|" + u["program"], "scanning variant %s of %s faults: %s" % (u["kind"], u["program"], sc),
                        {"kind": "impl-fault", "variant": u["text"], "impl": sc})
            u["req"] = None
            continue
        u["req"] = req_of([(t[0], t[1], t[2]) for t in u["toks"]])
        reqs.append(u["req"])
    stats["scan_lines"] = len(reqs)

    # corpus of hand-written token lists
    corpus = []
    for f in sorted(glob.glob(os.path.join(VERIF, "corpus", "linear", "*.ops"))):
        corpus += [l.strip() for l in open(f) if l.strip() and not l.startswith("#")]
    stats["corpus_lines"] = len(corpus)

    # random token lists and their twins
    nrand = 30000 if thorough else 6000
    rnd = []         # (request, kind, base index, map)
    for _ in range(nrand):
        nopile = rng.random() < 0.25
        t = gen_toklist(rng, nopile)
        loop = 1 if (not nopile and rng.random() < 0.1) else 0
        i0 = len(rnd)
        rnd.append((req_of(t, loop), "base", None, None))
        r = rng.random()
        if r < 0.3:
            # blank lines / comment-only lines inserted at line boundaries, later lines renumbered
            t2, idmap, shift = [], {}, 0
            at_boundary = True
            for k, (tag, ln, col) in enumerate(t):
                if at_boundary and rng.random() < 0.5:
                    for _ in range(rng.randint(1, 2)):
                        if rng.random() < 0.5:
                            t2.append((TK_Comment, ln + shift, rng.randint(1, 20)))
                        t2.append((KW_NewLine, ln + shift, rng.randint(1, 30)))
                        shift += 1
                idmap[len(t2) + 1] = k + 1
                t2.append((tag, ln + shift, col))
                at_boundary = tag == KW_NewLine
            rnd.append((req_of(t2, loop), "twin_blank", i0, idmap))
        elif r < 0.6 and nopile and not loop:
            t2 = [(tag, ln, rng.randint(1, 40)) for (tag, ln, col) in t]
            rnd.append((req_of(t2, 0), "twin_columns", i0, None))
        elif r < 0.72 and r >= 0.6:
            # only the columns of tokens that can start a line are kept (leading_columns_only_statement)
            t2 = []
            prev = []        # tags of the preceding tokens, comments aside (they are removed first)
            for i, (tag, ln, col) in enumerate(t):
                lead = (not prev or prev[-1] in (KW_NewLine, KW_StartPile, KW_EndPile, KW_OCurly, KW_CCurly)
                        or (len(prev) >= 2 and prev[-2] == KW_At))
                t2.append((tag, ln, col if lead else rng.randint(1, 40)))
                if tag != TK_Comment:
                    prev.append(tag)
            rnd.append((req_of(t2, loop), "twin_nonleading", i0, None))
        elif r < 0.9:
            f = expanding_map(rng, 5)
            sh = rng.randint(0, 5)
            t2 = [(tag, ln + sh, f(col)) for (tag, ln, col) in t]
            rnd.append((req_of(t2, loop), "twin_monotone", i0, (f, sh)))
    stats["random_lines"] = len(rnd)

    # abstract programs of the block language, piled and braced
    blocks = []      # (program, piled request, braced request)
    for _ in range(6000 if thorough else 1500):
        prog = [gen_stmt(rng, rng.randint(0, 4)) for _ in range(rng.choice([1, 1, 2, 3, 4]))]
        w, d0 = rng.randint(1, 8), rng.randint(1, 9)
        pt = [(KW_StartPile, 1, 1)]
        for st in prog:
            pt += piled_stmt(w, d0, st)
        blocks.append((prog, req_of(pt), req_of(braced_prog(prog))))
    stats["block_programs"] = len(blocks)

    lines = reqs + corpus + [r[0] for r in rnd] + [x for b in blocks for x in (b[1], b[2])]
    c = common.run_impl_lines(exe, lines)
    m, tags = common.split_model(common.run_model("linear", "\n".join(lines) + "\n"))
    assert len(m) == len(lines), (len(m), len(lines))
    hist = {}
    for tg in tags:
        for x in tg.split():
            key, _, v = x.partition("=")
            hist[key] = hist.get(key, 0) + (int(v) if v.isdigit() else 1)
    seen = set()

    # ---- (b) on the source programs: group the variants
    prog_ok = {}
    groups = {}
    for u in units:
        groups.setdefault(u["program"], []).append(u)
    for name, us in groups.items():
        ok = True
        byr = {}
        for u in us:
            byr.setdefault(u["rendering"], []).append(u)
        first_ap = None
        for rendering, vs in byr.items():
            base = vs[0]
            for u in vs:
                if (u["kind"].startswith("escfill-comment") and u["piled"] and "-deeper-" not in u["kind"]
                        and (u["rc"] != 0 or u["ap"] is None or u["dump"] != base["dump"] or u["ap"] != base["ap"])):
                    # a comment behind an escaped line break ends the escape: its line end is a real one
                    stats["comment_after_escape"] = stats.get("comment_after_escape", 0) + 1
                    ctx.finding("linear|scan-layout|comment-after-escaped-line-break",
                                "in a pile, a comment-only line (or a trailing comment) behind an escaped line break ends the escape: the "
                                "continuation line, when not indented deeper, becomes a statement of its own; variant `%s` of %s: %s"
                                % (u["kind"], name, (u["dump"] or u["out"][-300:])[:300]),
                                {"kind": "impl-violates-property", "base": base["text"], "variant": u["text"], "variant_kind": u["kind"],
                                 "base_tokens": base["dump"], "variant_tokens": u["dump"], "base_ap": base["ap"], "variant_ap": u["ap"],
                                 "minimal": ["#pile\nf(a: I, b: I): I ==\n    x := a _\n    - b\n    x\n",
                                             "#pile\nf(a: I, b: I): I ==\n    x := a _\n  -- c\n    - b\n    x\n"]})
                    continue
                if u["rc"] != 0 or u["ap"] is None:
                    ok = False
                    ctx.finding("linear|variant-rejected|" + name,
                                "layout variant `%s` of %s (%s) is rejected by the compiler although the base text is accepted: %s"
                                % (u["kind"], name, rendering, u["out"][-500:]),
                                {"kind": "impl-violates-property", "base": base["text"], "variant": u["text"], "variant_kind": u["kind"]})
                    continue
                # the scanner's own tokens (newlines and comments aside) must not depend on the layout
                if u.get("toks") is not None and base.get("toks") is not None:
                    sb = [(t[0], t[3]) for t in base["toks"] if t[0] not in (KW_NewLine, TK_Comment)]
                    sv = [(t[0], t[3]) for t in u["toks"] if t[0] not in (KW_NewLine, TK_Comment)]
                    if sb != sv:
                        ok = False
                        i = 0
                        while i < min(len(sb), len(sv)) and sb[i] == sv[i]:
                            i += 1
                        tb, tv = [t[0] for t in sb[i:i + 2]], [t[0] for t in sv[i:i + 2]]
                        if tb[:1] == [83] and tv[:1] == [TK_Float] and len(sb) > i + 1 and sb[i + 1][1][:1].isdigit():
                            what = "float-after-line-break"
                        else:
                            what = "%s-vs-%s" % ("+".join(map(str, tb)), "+".join(map(str, tv)))
                        stats["scan_layout"] = stats.get("scan_layout", 0) + 1
                        ctx.finding("linear|scan-layout|" + what,
                                    "scan.c tokenises layout variant `%s` of %s differently from the base text: %s becomes %s "
                                    "(`l .2` is `l`,`.`,`2` but after a line break, escaped or not, `.2` is a float: scStartLine resets scFloatState)"
                                    % (u["kind"], name, sb[i:i + 2], sv[i:i + 2]),
                                    {"kind": "impl-violates-property", "base": base["text"], "variant": u["text"], "variant_kind": u["kind"],
                                     "base_tokens": sb[max(0, i - 3):i + 3], "variant_tokens": sv[max(0, i - 3):i + 3],
                                     "minimal": ["x := l .2;", "x := l _\n .2;"]})
                        continue
                stats["dump_compared"] += 1
                if u["dump"] != base["dump"]:
                    ok = False
                    ctx.finding("linear|tokens-differ|" + name,
                                "the token list after the lineariser differs between the base text and layout variant `%s` of %s (%s)"
                                % (u["kind"], name, rendering),
                                {"kind": "impl-violates-property", "base": base["text"], "variant": u["text"], "variant_kind": u["kind"],
                                 "base_tokens": base["dump"], "variant_tokens": u["dump"]})
                stats["ap_compared"] += 1
                if u["ap"] != base["ap"]:
                    ok = False
                    ctx.finding("linear|parse-tree-differs|" + name,
                                "the -Fap parse tree differs between the base text and layout variant `%s` of %s (%s)" % (u["kind"], name, rendering),
                                {"kind": "impl-violates-property", "base": base["text"], "variant": u["text"], "variant_kind": u["kind"],
                                 "base_ap": base["ap"], "variant_ap": u["ap"]})
            if first_ap is None:
                first_ap = (rendering, base)
            else:
                stats["pairs_compared"] += 1
                if base["ap"] != first_ap[1]["ap"]:
                    ok = False
                    ctx.finding("linear|piled-vs-braced|" + name,
                                "the -Fap parse trees of the %s and the %s rendering of %s differ" % (first_ap[0], rendering, name),
                                {"kind": "impl-violates-property", first_ap[0]: first_ap[1]["text"], rendering: base["text"],
                                 first_ap[0] + "_ap": first_ap[1]["ap"], rendering + "_ap": base["ap"]})
        prog_ok[name] = ok

    # ---- (a) model = implementation on the scanned variants, (c) harness = compiler
    k = 0
    for u in units:
        if u["req"] is None:
            continue
        co, mo = c[k] if k < len(c) else "MISSING", m[k]
        seen.add(co)
        if co.startswith("FAULT") or co in ("MISSING", "SKIPPED"):
            stats["faults"] += 1
            ctx.finding("linear|fault|" + u["program"], "linearize() faults (%s) on variant `%s` of %s" % (co, u["kind"], u["program"]),
                        {"kind": "impl-fault", "driver": "harness/linear_drv.c", "line": u["req"], "variant": u["text"], "impl": co})
        else:
            if co.strip() != mo.strip():
                stats["mismatch"] += 1
                if prog_ok.get(u["program"], True):
                    ctx.corr_broken.append((NAME, u["req"], co, mo))
                else:
                    ctx.finding("linear|model-differs|" + u["program"],
                                "linear.c and the model differ on variant `%s` of %s and the compiler's output is not layout independent there"
                                % (u["kind"], u["program"]),
                                {"kind": "impl-violates-property", "line": u["req"], "variant": u["text"], "impl": co, "model": mo})
            po = parse_out(co)
            if po is not None and u["dump"] is not None:
                byid = {i + 1: t for i, t in enumerate(u["toks"])}
                rendered = "[" + ", ".join(tok_print(tag, byid[i][3] if (i in byid and byid[i][0] == tag) else "", names)
                                           for (tag, ln, col, i) in po[0]) + "]"
                if norm_ws(rendered) != u["dump"]:
                    ctx.violation("linear|harness-vs-compiler",
                                  "the harness' linearize() output differs from the compiler's -WTr+li dump on variant `%s` of %s: %s vs %s"
                                  % (u["kind"], u["program"], norm_ws(rendered)[:300], u["dump"][:300]),
                                  {"kind": "check-error", "variant": u["text"], "harness": norm_ws(rendered), "compiler": u["dump"]},
                                  found_input=False)
        if k % 97 == 5:
            ctx.sample({"module": NAME, "program": u["program"], "variant": u["kind"], "request": u["req"][:400], "impl": co[:400],
                        "model": mo[:400], "tags": tags[k]})
        k += 1

    # ---- hand-written token lists
    for ln in corpus:
        co, mo = c[k] if k < len(c) else "MISSING", m[k]
        seen.add(co)
        if co.startswith("FAULT") or co in ("MISSING", "SKIPPED"):
            stats["faults"] += 1
            ctx.finding("linear|fault", "linearize() faults (%s) on: %s" % (co, ln[:300]),
                        {"kind": "impl-fault", "driver": "harness/linear_drv.c", "line": ln, "impl": co})
        elif co.strip() != mo.strip():
            stats["mismatch"] += 1
            ctx.corr_broken.append((NAME, ln, co, mo))
        k += 1

    # ---- random token lists: correspondence, and the twins' executable properties on the C output
    base_k = k
    for j, (ln, kind, i0, mp) in enumerate(rnd):
        co, mo = c[k] if k < len(c) else "MISSING", m[k]
        seen.add(co)
        impl_ok, why = True, ""
        if co.startswith("FAULT") or co in ("MISSING", "SKIPPED"):
            stats["faults"] += 1
            ctx.finding("linear|fault", "linearize() faults (%s) on: %s" % (co, ln[:300]),
                        {"kind": "impl-fault", "driver": "harness/linear_drv.c", "line": ln, "impl": co})
            k += 1
            continue
        if kind != "base":
            b = parse_out(c[base_k + i0]); v = parse_out(co)
            if b is None or v is None:
                impl_ok, why = False, "unparsable driver output"
            elif kind == "twin_blank":
                stats["twin_blank"] += 1
                # same tags, same origin tokens (ids renamed), columns equal, error count equal
                want = [(t[0], t[2], t[3]) for t in b[0]]
                got = [(t[0], t[2], mp.get(t[3], 0) if t[3] else 0) for t in v[0]]
                if want != got or b[1] != v[1]:
                    impl_ok, why = False, "inserting blank / comment-only lines changed the result"
            elif kind == "twin_columns":
                stats["twin_columns"] += 1
                if [(t[0], t[1], t[3]) for t in b[0]] != [(t[0], t[1], t[3]) for t in v[0]] or b[1] != v[1]:
                    impl_ok, why = False, "changing columns in a token list without #pile changed the result"
            elif kind == "twin_nonleading":
                stats["twin_nonleading"] = stats.get("twin_nonleading", 0) + 1
                if [(t[0], t[1], t[3]) for t in b[0]] != [(t[0], t[1], t[3]) for t in v[0]] or b[1] != v[1]:
                    impl_ok, why = False, "changing the columns of tokens that do not start a line changed the result"
            elif kind == "twin_monotone":
                stats["twin_monotone"] += 1
                f, sh = mp
                want = [(t[0], t[1] + sh if t[3] else 0, f(t[2]) if t[3] else 0, t[3]) for t in b[0]]
                if want != list(v[0]) or b[1] != v[1]:
                    impl_ok, why = False, "a strictly monotone re-indentation changed the result"
        if co.strip() != mo.strip():
            stats["mismatch"] += 1
            if not impl_ok:
                ctx.finding("linear|" + kind + "|random", "linear.c: %s (and differs from the model): %s -> %s (base: %s -> %s)"
                            % (why, ln[:300], co[:300], rnd[i0][0][:300], c[base_k + i0][:300]),
                            {"kind": "impl-violates-property", "line": ln, "base_line": rnd[i0][0], "impl": co, "impl_base": c[base_k + i0],
                             "model": mo, "why": why})
            else:
                ctx.corr_broken.append((NAME, ln, co, mo))
        elif not impl_ok:
            ctx.violation("linear|model-and-impl-wrong|" + kind, "implementation and model agree but %s: %s -> %s (base %s -> %s); contradicts the invariance theorems (twin_nonleading: the unproved leading_columns_only_statement)"
                          % (why, ln[:300], co[:300], rnd[i0][0][:300], c[base_k + i0][:300]),
                          {"kind": "inconsistent", "line": ln, "base_line": rnd[i0][0], "impl": co, "impl_base": c[base_k + i0]})
        if j % 1500 == 7:
            ctx.sample({"module": NAME, "request": ln[:400], "impl": co[:400], "model": mo[:400], "tags": tags[k]})
        k += 1

    # ---- block language: untab(linearize(piled)) = linearize(braced), on the C output
    stats["block_ok"] = 0
    for (prog, rp, rb) in blocks:
        cp, mp_, cb, mb = c[k], m[k], c[k + 1], m[k + 1]
        seen.add(cp); seen.add(cb)
        k += 2
        if cp.startswith("FAULT") or cb.startswith("FAULT") or cp in ("MISSING", "SKIPPED") or cb in ("MISSING", "SKIPPED"):
            stats["faults"] += 1
            ctx.finding("linear|fault", "linearize() faults (%s / %s) on: %s" % (cp, cb, rp[:300]),
                        {"kind": "impl-fault", "driver": "harness/linear_drv.c", "line": rp, "line2": rb, "impl": cp})
            continue
        pp, pb = parse_out(cp), parse_out(cb)
        impl_ok = pp is not None and pb is not None and [UNTAB.get(t[0], t[0]) for t in pp[0]] == [t[0] for t in pb[0]]
        if impl_ok:
            stats["block_ok"] += 1
        differs = cp.strip() != mp_.strip() or cb.strip() != mb.strip()
        if differs:
            stats["mismatch"] += 1
            if impl_ok:
                ctx.corr_broken.append((NAME, rp if cp.strip() != mp_.strip() else rb, cp if cp.strip() != mp_.strip() else cb,
                                        mp_ if cp.strip() != mp_.strip() else mb))
            else:
                ctx.finding("linear|pile-vs-braces|random", "linear.c: the piled and the braced rendering of a block-language program are linearised differently "
                            "(and linear.c differs from the model): %s -> %s ; %s -> %s" % (rp[:200], cp[:200], rb[:200], cb[:200]),
                            {"kind": "impl-violates-property", "program": prog, "piled": rp, "braced": rb, "impl_piled": cp, "impl_braced": cb,
                             "model_piled": mp_, "model_braced": mb})
        elif not impl_ok:
            # contradicts the theorem pile_eq_braces: the python renderer or the Lean driver is wrong
            ctx.violation("linear|pile-vs-braces-statement", "model and linear.c agree, but the piled and the braced rendering of a block-language program "
                          "are linearised differently (contradicts pile_eq_braces): %s -> %s ; %s -> %s" % (rp[:200], cp[:200], rb[:200], cb[:200]),
                          {"kind": "inconsistent", "program": prog, "piled": rp, "braced": rb, "impl_piled": cp, "impl_braced": cb})

    stats["lines"] = len(lines)
    stats["tags"] = hist
    stats["distinct_results"] = len(seen)
    ctx.cov[NAME] = stats
    ctx.cov["evaluations"] += len(lines) + 2 * len(units)
    ctx.cov["distinct_nontrivial"] += len(seen)
    shutil.rmtree(work, ignore_errors=True)
    return stats
