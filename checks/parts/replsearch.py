"""part `replsearch` (C13): end-to-end search, no Lean obligations of its own.

For programs made of independent top-level forms
  (a) `aldor -Ginterp prog.as`                      -> marker lines (lines starting with @@)
  (b) `aldor -Gloop < forms`                        -> marker lines, must equal (a) in text and order
  (c) (b) with k in {1,2,3} erroneous forms of a catalogue inserted at seeded positions:
      marker lines must still equal (a), every erroneous form must draw a diagnostic whose
      [Ln Cm] lies inside the form, the session must neither fault nor hang.
Differences are shrunk (forms dropped while the difference persists) and reported with a replay.
This is the tie for Model/Repl.lean's session model (replStep / batch): scobind.c:scoSetUndoState,
the incremental stab and fintphase.c:fintWrap are exercised here, not modelled."""
import os, re, shutil
from vlib import common, aldor

NAME = "replsearch"
BUILD_TARGETS = []
THEOREMS = []
SOURCES = ["axlcomp.c", "fintphase.c", "fint.c", "scobind.c", "stab.c", "include.c", "scan.c"]
MODELLED = "(search only) axlcomp.c:compGLoopEval, fintphase.c:fintWrap, scobind.c:scoSetUndoState/scobindUndo, incremental stab: exercised end to end against -Ginterp, not modelled"

HEADER = [("include", '#include "aldor"\n'), ("include", '#include "aldorio"\n')]
WORKERS = 16
TIMEOUT = 150
MAX_REPORTS = 6

# ------------------------------------------------------------------------------------ programs
SYL = ["ba", "ko", "mi", "zu", "ta", "re", "lo", "ni", "fu", "pe", "xa", "wo", "di", "ge", "sy"]

class Prog:
    """a program under construction: forms = [(kind, text)], text ends in a newline and may span lines"""
    def __init__(self, rng, name):
        self.rng, self.name = rng, name
        self.forms = []
        self.names = set()
        self.consts = []          # top-level Integer constants (targets for `c := …`)
        self.funcs = []           # (name, arity) of Integer^arity -> Integer functions
        self.defs = []            # (form index, "const"|"func", name, arity)
        self.imports = []         # (form index, type)
        self.nout = 0
        self.int_ok = True        # Integer imported at top level (integer literals in outputs are unambiguous)

    def ident(self, prefix="q"):
        while True:
            n = prefix + "".join(self.rng.choice(SYL) for _ in range(self.rng.randint(1, 3))).capitalize() + str(self.rng.randint(0, 99))
            if n not in self.names:
                self.names.add(n)
                return n

    def add(self, kind, text):
        if not text.endswith("\n"):
            text += "\n"
        self.forms.append((kind, text))

    def imp(self, *types):
        for t in types:
            self.add("import", "import from %s;" % t)
            self.imports.append((len(self.forms) - 1, t))

    def deffunc(self, name, arity):
        """the form just added defines an Integer^arity -> Integer function"""
        self.funcs.append((name, arity))
        self.defs.append((len(self.forms) - 1, "func", name, arity))

    def avail(self, gap):
        """what an erroneous form inserted before forms[gap] may rely on"""
        return {"consts": [n for i, k, n, a in self.defs if k == "const" and i < gap],
                "funcs": [(n, a) for i, k, n, a in self.defs if k == "func" and i < gap],
                "types": {ty for i, ty in self.imports if i < gap}}

    def out(self, *exprs, kind="output"):
        self.nout += 1
        parts = ' << " " << '.join(exprs)
        self.add(kind, 'stdout << "@@%d " << %s << newline;' % (self.nout, parts))

    def const(self, typ, expr, name=None):
        n = name or self.ident()
        self.add("const", "%s: %s == %s;" % (n, typ, expr))
        if typ == "Integer":
            self.consts.append(n)
            self.defs.append((len(self.forms) - 1, "const", n, 0))
        return n

def lit(rng, lo=-50, hi=200):
    v = rng.randint(lo, hi)
    return str(v) if v >= 0 else "(%d)" % v

def strlit(rng):
    body = "".join(rng.choice(["a", "b", "z", " ", "(", ")", "{", "}", "_\"", "__", ";", "==", "x1", "--", ","]) for _ in range(rng.randint(0, 6)))
    return '"' + body + '"'

# every template: rng -> Prog.  Only forms whose meaning is the same in a file and in the loop:
# no redefinition of constants (the loop asks "Redefine? (y/n)", a file rejects it), imports before
# the forms that need them, integer literals only where one integer type is in scope or the
# context fixes the type.

def t_int_consts(rng):
    p = Prog(rng, "int_consts"); p.imp("Integer")
    for _ in range(rng.randint(1, 5)):
        c = p.const("Integer", "%s %s %s" % (lit(rng), rng.choice("+-*"), lit(rng)))
        if rng.random() < 0.7: p.out(c)
    p.out(*p.consts[:3])
    return p

def t_const_chain(rng):
    p = Prog(rng, "const_chain"); p.imp("Integer")
    prev = p.const("Integer", lit(rng, 1, 9))
    for _ in range(rng.randint(1, 5)):
        prev = p.const("Integer", "%s %s %s" % (rng.choice(p.consts), rng.choice("+-*"), rng.choice(p.consts + [lit(rng, 1, 9)])))
        if rng.random() < 0.5: p.out(prev)
    p.out(prev)
    return p

def t_strings(rng):
    p = Prog(rng, "strings"); p.imp("String")
    ns = [p.const("String", strlit(rng)) for _ in range(rng.randint(1, 4))]
    for n in ns: p.out(n)
    p.out(strlit(rng), ns[0])
    return p

def t_booleans(rng):
    p = Prog(rng, "booleans"); p.imp("Integer", "Boolean")
    a = p.const("Integer", lit(rng)); b = p.const("Integer", lit(rng))
    for op in rng.sample(["<", ">", "<=", ">=", "=", "~="], 3):
        n = p.const("Boolean", "%s %s %s" % (a, op, b)); p.out(n)
    p.out("((%s < %s) and (%s > %s))" % (a, b, b, lit(rng)), "(not (%s = %s))" % (a, b))
    return p

def t_lists(rng):
    p = Prog(rng, "lists"); p.imp("Integer", "List Integer")
    a = p.const("Integer", lit(rng, 0, 30))
    l = p.const("List Integer", "[%s]" % ", ".join([lit(rng, 0, 30) for _ in range(rng.randint(1, 5))] + [a]))
    p.out(l); p.out("first %s" % l, "rest %s" % l); p.out("cons(%s, %s)" % (a, l), "reverse %s" % l)
    return p

def t_floats(rng):
    p = Prog(rng, "floats"); p.imp("DoubleFloat")
    fs = [p.const("DoubleFloat", "%d.%d" % (rng.randint(0, 40), rng.choice([0, 5, 25, 125, 75]))) for _ in range(rng.randint(1, 3))]
    for f in fs: p.out(f)
    p.out("(%s + %s)" % (fs[0], fs[-1]), "(%s * %s)" % (fs[0], fs[-1]))
    return p

def t_chars(rng):
    p = Prog(rng, "chars"); p.imp("Character", "String")
    cs = [p.const("Character", 'char "%s"' % rng.choice("abcxyzQ(){};")) for _ in range(rng.randint(1, 3))]
    p.out(*cs)
    return p

def t_func_oneline(rng):
    p = Prog(rng, "func_oneline"); p.imp("Integer")
    for _ in range(rng.randint(1, 3)):
        f = p.ident("f")
        p.add("func1", "%s(x: Integer): Integer == x %s %s %s %s;" % (f, rng.choice("+-*"), lit(rng, 1, 9), rng.choice("+-"), lit(rng, 0, 9)))
        p.deffunc(f, 1)
        p.out("%s(%s)" % (f, lit(rng)), "%s(%s(%s))" % (f, f, lit(rng, 0, 5)))
    return p

def t_func_loop(rng):
    p = Prog(rng, "func_loop"); p.imp("Integer")
    f = p.ident("f"); k = lit(rng, 1, 5)
    p.add("funcN", "%s(n: Integer): Integer == {\n    local s: Integer := %s;\n    for i in 1..n repeat {\n        s := s + i * %s;\n    }\n    s\n}" % (f, lit(rng, 0, 9), k))
    p.deffunc(f, 1)
    for _ in range(rng.randint(1, 3)): p.out("%s(%s)" % (f, lit(rng, 0, 12)))
    return p

def t_func_rec(rng):
    p = Prog(rng, "func_rec"); p.imp("Integer")
    f = p.ident("f")
    if rng.random() < 0.5:
        p.add("funcN", "%s(n: Integer): Integer == {\n    n <= 1 => 1;\n    n * %s(n - 1)\n}" % (f, f))
    else:
        p.add("funcN", "%s(n: Integer): Integer == {\n    n < 2 => n;\n    %s(n - 1) + %s(n - 2)\n}" % (f, f, f))
    p.deffunc(f, 1)
    p.out("%s(%s)" % (f, lit(rng, 0, 12))); p.out("%s(%s)" % (f, lit(rng, 3, 9)))
    return p

def t_func_ifelse(rng):
    p = Prog(rng, "func_ifelse"); p.imp("Integer", "String", "Boolean")
    f = p.ident("f")
    p.add("funcN", "%s(b: Boolean, x: String, y: String): String == {\n    if b then {\n        x\n    } else {\n        y\n    }\n}" % f)
    a = p.const("Integer", lit(rng))
    p.out("%s(%s > %s, %s, %s)" % (f, a, lit(rng), strlit(rng), strlit(rng)))
    p.out("%s(true, %s, %s)" % (f, strlit(rng), strlit(rng)), "%s(false, \"l\", \"r\")" % f)
    return p

def t_func_uses_const(rng):
    p = Prog(rng, "func_uses_const"); p.imp("Integer")
    a = p.const("Integer", lit(rng)); b = p.const("Integer", lit(rng, 1, 9))
    f = p.ident("f")
    p.add("funcN", "%s(x: Integer): Integer == {\n    x * %s + %s\n}" % (f, b, a)); p.deffunc(f, 1)
    p.out("%s(%s)" % (f, a), "%s(%s)" % (f, lit(rng)))
    return p

def t_func_calls_func(rng):
    p = Prog(rng, "func_calls_func"); p.imp("Integer")
    f = p.ident("f"); g = p.ident("g"); h = p.ident("h")
    p.add("func1", "%s(x: Integer): Integer == x + %s;" % (f, lit(rng, 1, 9))); p.deffunc(f, 1)
    p.out("%s(1)" % f)
    p.add("func1", "%s(x: Integer): Integer == %s(x) * %s(x + 1);" % (g, f, f)); p.deffunc(g, 1)
    p.add("funcN", "%s(x: Integer, y: Integer): Integer == {\n    %s(x) - %s(y)\n}" % (h, g, f)); p.deffunc(h, 2)
    p.out("%s(%s)" % (g, lit(rng, 0, 9)), "%s(%s, %s)" % (h, lit(rng, 0, 9), lit(rng, 0, 9)))
    return p

def t_proc(rng):
    p = Prog(rng, "proc"); p.imp("Integer", "String")
    f = p.ident("show")
    p.add("funcN", "%s(s: String, n: Integer): () == {\n    stdout << \"@@p \" << s << \"/\" << n << newline;\n}" % f)
    for _ in range(rng.randint(1, 4)):
        p.add("call", "%s(%s, %s);" % (f, strlit(rng), lit(rng)))
    return p

def t_var_assign(rng):
    p = Prog(rng, "var_assign"); p.imp("Integer")
    v = p.ident("v")
    p.add("var", "%s: Integer := %s;" % (v, lit(rng)))
    for _ in range(rng.randint(1, 4)):
        p.add("assign", "%s := %s %s %s;" % (v, v, rng.choice("+-*"), lit(rng, 1, 9)))
        if rng.random() < 0.7: p.out(v)
    p.out(v)
    return p

def t_var_redeclare(rng):
    # checked by hand: a file and the loop agree that a second `v: Integer := e` simply assigns
    p = Prog(rng, "var_redeclare"); p.imp("Integer")
    v = p.ident("v")
    p.add("var", "%s: Integer := %s;" % (v, lit(rng))); p.out(v)
    p.add("assign", "%s := %s + 1;" % (v, v)); p.out(v)
    p.add("var", "%s: Integer := %s;" % (v, lit(rng))); p.out(v)
    return p

def t_record(rng):
    p = Prog(rng, "record"); p.imp("Integer", "String")
    R = p.ident("R")
    p.add("type", "%s == Record(x: Integer, y: String);" % R)
    r = p.ident("r")
    p.add("const", "%s: %s == [%s, %s];" % (r, R, lit(rng), strlit(rng)))
    p.out("%s.x" % r, "%s.y" % r)
    return p

def t_higher_order(rng):
    p = Prog(rng, "higher_order"); p.imp("Integer")
    f = p.ident("twice")
    p.add("func1", "%s(f: Integer -> Integer, n: Integer): Integer == f(f(n));" % f)
    p.out("%s((k: Integer): Integer +-> k * k + %s, %s)" % (f, lit(rng, 0, 5), lit(rng, 0, 6)))
    g = p.ident("f"); p.add("func1", "%s(x: Integer): Integer == x - %s;" % (g, lit(rng, 0, 9))); p.deffunc(g, 1)
    p.out("%s(%s, %s)" % (f, g, lit(rng)))
    return p

def t_imports_repeated(rng):
    p = Prog(rng, "imports_repeated")
    p.imp("Integer"); a = p.const("Integer", lit(rng)); p.imp("Integer"); p.out(a)
    p.imp("String", "Integer"); p.out(strlit(rng), "(%s + 1)" % a); p.imp("Boolean"); p.out("(%s > 0)" % a)
    return p

def t_bool_param(rng):
    p = Prog(rng, "bool_param"); p.imp("Integer", "Boolean")
    f = p.ident("f")
    p.add("func1", "%s(b: Boolean, x: Integer): Integer == if b then x + %s else x - %s;" % (f, lit(rng, 0, 9), lit(rng, 0, 9)))
    p.out("%s(true, %s)" % (f, lit(rng)), "%s(false, %s)" % (f, lit(rng)), "%s(1 < 2, 0)" % f)
    return p

def t_paren_continuation(rng):
    p = Prog(rng, "paren_continuation"); p.imp("Integer")
    a = p.const("Integer", lit(rng))
    p.nout += 1
    p.add("outputN", 'stdout << "@@%d " << (%s +\n    %s * %s) << newline;' % (p.nout, a, a, lit(rng, 0, 9)))
    p.nout += 1
    p.add("outputN", 'stdout << "@@%d " << max(%s,\n  max(%s,\n  0)) << newline;' % (p.nout, a, lit(rng)))
    return p

def t_while(rng):
    p = Prog(rng, "while"); p.imp("Integer")
    f = p.ident("f")
    p.add("funcN", "%s(n: Integer): Integer == {\n    local k: Integer := 0;\n    local m: Integer := n;\n    while m > 0 repeat {\n        m := m quo 2;\n        k := k + 1;\n    }\n    k\n}" % f)
    p.deffunc(f, 1)
    p.out(*["%s(%s)" % (f, lit(rng, 0, 5000)) for _ in range(rng.randint(1, 3))])
    return p

def t_list_sum(rng):
    p = Prog(rng, "list_sum"); p.imp("Integer", "List Integer")
    f = p.ident("f")
    p.add("funcN", "%s(l: List Integer): Integer == {\n    local s: Integer := 0;\n    for x in l repeat s := s + x;\n    s\n}" % f)
    l = p.const("List Integer", "[%s]" % ", ".join(lit(rng, 0, 30) for _ in range(rng.randint(1, 6))))
    p.out("%s(%s)" % (f, l), "%s([])" % f)
    return p

def t_top_for(rng):
    p = Prog(rng, "top_for"); p.imp("Integer")
    a = p.const("Integer", lit(rng, 1, 9))
    p.add("stmtN", 'for i in 1..%d repeat {\n    stdout << "@@f " << i * %s << newline;\n}' % (rng.randint(1, 4), a))
    p.out(a)
    return p

def t_top_if(rng):
    p = Prog(rng, "top_if"); p.imp("Integer")
    a = p.const("Integer", lit(rng))
    p.add("stmtN", 'if %s > %s then {\n    stdout << "@@i yes" << newline;\n} else {\n    stdout << "@@i no" << newline;\n}' % (a, lit(rng)))
    p.out(a)
    return p

def t_comments(rng):
    p = Prog(rng, "comments"); p.imp("Integer")
    a = p.const("Integer", lit(rng))
    p.forms[-1] = ("const", p.forms[-1][1].rstrip("\n") + "  -- a note (balanced) {here}\n")
    p.add("comment", "-- a line that is only a comment")
    p.out(a)
    f = p.ident("f")
    p.add("funcN", "%s(x: Integer): Integer == {\n    -- comment inside [a body]\n    x + %s\n}" % (f, a)); p.deffunc(f, 1)
    p.out("%s(%s)" % (f, lit(rng)))
    return p

def t_nested_func(rng):
    p = Prog(rng, "nested_func"); p.imp("Integer")
    f = p.ident("outer")
    p.add("funcN", "%s(n: Integer): Integer == {\n    inner(k: Integer): Integer == k * n + %s;\n    inner(n) + inner(1)\n}" % (f, lit(rng, 0, 9)))
    p.deffunc(f, 1)
    p.out("%s(%s)" % (f, lit(rng, 0, 20)))
    return p

def t_machine_only(rng):
    p = Prog(rng, "machine_only"); p.imp("MachineInteger"); p.int_ok = False
    a = p.ident(); p.add("const", "%s: MachineInteger == %s;" % (a, lit(rng, 0, 99)))
    b = p.ident(); p.add("const", "%s: MachineInteger == %s * %s + 1;" % (b, a, a))
    p.out(a, b, "(%s + %s)" % (a, lit(rng, 0, 9)))
    return p

def t_two_int_types(rng):
    p = Prog(rng, "two_int_types"); p.imp("Integer", "MachineInteger"); p.int_ok = False
    a = p.const("Integer", lit(rng, 0, 99))
    m = p.ident(); p.add("const", "%s: MachineInteger == %s;" % (m, lit(rng, 0, 99)))
    p.out(a, m); p.out("(%s * %s)" % (a, a), "(%s + %s)" % (m, m))
    return p

def t_two_int_funcs(rng):
    p = Prog(rng, "two_int_funcs"); p.imp("Integer", "MachineInteger", "String")
    a = p.const("Integer", lit(rng, 0, 99))
    f = p.ident("f")
    p.add("func1", "%s(x: Integer): Integer == x * %s;" % (f, a)); p.deffunc(f, 1)
    g = p.ident("g")
    p.add("funcN", "%s(m: MachineInteger): MachineInteger == {\n    m + m\n}" % g)
    m = p.ident(); p.add("const", "%s: MachineInteger == %s;" % (m, lit(rng, 0, 99)))
    p.out("%s(%s)" % (f, a), "%s(%s)" % (g, m)); p.out(strlit(rng), m)
    return p

def t_multi_value(rng):
    p = Prog(rng, "multi_value"); p.imp("Integer")
    a = p.const("Integer", lit(rng, 1, 9))
    q, r = p.ident(), p.ident()
    p.add("const2", "(%s, %s) == divide(%s, %s);" % (q, r, lit(rng, 10, 99), a))
    p.out(q, r)
    return p

def t_domain(rng):
    p = Prog(rng, "domain"); p.imp("Integer")
    D = p.ident("D"); k = lit(rng, 0, 9)
    p.add("domainN", "%s: with { mk: Integer -> %%; val: %% -> Integer } == add {\n    Rep == Integer; import from Rep;\n    mk(i: Integer): %% == per i;\n    val(x: %%): Integer == rep x + %s;\n}" % (D, k))
    p.imp(D)
    a = p.const("Integer", lit(rng))
    p.out("val mk %s" % a, "val mk %s" % lit(rng, 0, 9))
    return p

def t_cond_expr(rng):
    p = Prog(rng, "cond_expr"); p.imp("Integer", "String")
    a = p.const("Integer", lit(rng))
    p.out('(if %s > %s then "big" else "small")' % (a, lit(rng)))
    s = p.const("String", 'if %s < 0 then "neg" else "nonneg"' % a); p.out(s)
    return p

def t_mixed(rng):
    """several of the above kinds in one session, definitions used by later outputs"""
    p = Prog(rng, "mixed"); p.imp("Integer", "String", "Boolean")
    for _ in range(rng.randint(3, 8)):
        k = rng.random()
        if k < 0.3 or not p.consts:
            c = p.const("Integer", "%s %s %s" % (rng.choice(p.consts + [lit(rng)]), rng.choice("+-*"), lit(rng, 0, 9)))
        elif k < 0.5:
            f = p.ident("f")
            p.add("funcN", "%s(x: Integer): Integer == {\n    x %s %s\n}" % (f, rng.choice("+-*"), rng.choice(p.consts))); p.deffunc(f, 1)
        elif k < 0.6:
            f = p.ident("f")
            p.add("func1", "%s(x: Integer, y: Integer): Integer == x * y + %s;" % (f, rng.choice(p.consts))); p.deffunc(f, 2)
        else:
            if p.funcs and rng.random() < 0.6:
                f, ar = rng.choice(p.funcs)
                p.out("%s(%s)" % (f, ", ".join(rng.choice(p.consts + [lit(rng)]) for _ in range(ar))))
            else:
                p.out(rng.choice(p.consts), strlit(rng))
    p.out(p.consts[-1])
    return p

TEMPLATES = [t_int_consts, t_const_chain, t_strings, t_booleans, t_lists, t_floats, t_chars, t_func_oneline,
             t_func_loop, t_func_rec, t_func_ifelse, t_func_uses_const, t_func_calls_func, t_proc, t_var_assign,
             t_var_redeclare, t_record, t_higher_order, t_imports_repeated, t_bool_param, t_paren_continuation,
             t_while, t_list_sum, t_top_for, t_top_if, t_comments, t_nested_func, t_machine_only, t_two_int_types, t_two_int_funcs,
             t_multi_value, t_domain, t_cond_expr, t_mixed]

def template_programs(rng, per_template):
    out = []
    for t in TEMPLATES:
        for _ in range(per_template):
            out.append(t(rng))
    return out

# ------------------------------------------------------------------------------ erroneous forms
# An erroneous form must be rejected by the loop and by a file alike, and be *independent* of the
# valid forms: it only uses names defined before its position, and it declares things of type
# Integer/String only where that type has been imported before (a rejected form that is the first
# to mention a type is the separate probe `type-first-mentioned` below).
def err_form(rng, av, kind, serial):
    """text of one erroneous form of the given kind for a site with `av` (Prog.avail) in scope;
    None when the site offers nothing for this kind"""
    tag = '"@@E%d "' % serial          # would show up in the program output if the form were accepted
    u = "qNoSuch%d" % rng.randint(0, 9999)
    has_int = "Integer" in av["types"]
    if kind == "undefined-name":
        c = ['stdout << %s << %s << newline;\n' % (tag, u), 'stdout << %s << %s(3) << newline;\n' % (tag, u)]
        if has_int:
            c += ['qUse%d: Integer == %s + 1;\n' % (serial, u),
                  'qUseF%d(x: Integer): Integer == {\n    x + %s\n}\n' % (serial, u)]
        return rng.choice(c)
    if kind == "wrong-arg-type":
        if av["funcs"] and rng.random() < 0.7:
            f, ar = rng.choice(av["funcs"])
            return 'stdout << %s << %s(%s) << newline;\n' % (tag, f, ", ".join(['"str"'] * ar))
        return 'stdout << %s << (1 + "str") << newline;\n' % tag
    if kind == "wrong-arg-count":
        if av["funcs"] and rng.random() < 0.7:
            f, ar = rng.choice(av["funcs"])
            return 'stdout << %s << %s(%s) << newline;\n' % (tag, f, ", ".join(["1"] * (ar + 1)))
        return 'stdout << %s << max(1, 2, 3) << newline;\n' % tag
    if kind == "assign-constant":
        if not av["consts"]:
            return None
        return '%s := %s;\n' % (rng.choice(av["consts"]), lit(rng, 0, 9))
    if kind == "syntax":
        c = ['stdout << %s << (1 + ) << newline;\n' % tag,
             'stdout << %s << (2)) << newline;\n' % tag,
             'x +* ;\n',
             'stdout << %s << (1 + ;\n)\n' % tag]
        if has_int:
            c.append('qSyn%d(x: Integer): Integer == {\n    x + ;\n}\n' % serial)
        return rng.choice(c)
    if kind == "ambiguous-literal":
        # only where two integer-literal types are already in scope: a rejected form must not be
        # the first to mention a type (see the fixed probes)
        if not (has_int and "MachineInteger" in av["types"]):
            return None
        return 'stdout << %s << 7 << newline;\n' % tag
    if kind == "ambiguous-name":
        if not (has_int and "String" in av["types"]):
            return None
        return ('qAmb%d(): () == {\n    qx: Integer == 1;\n    qx: String == "s";\n'
                '    stdout << %s << qx << newline;\n}\n' % (serial, tag))
    if kind == "wrong-return-type":
        if not (has_int and "String" in av["types"]):
            return None
        return 'qRet%d(x: Integer): String == x + 1;\n' % serial
    raise ValueError(kind)

GENERATED_KINDS = ["undefined-name", "syntax", "wrong-arg-type", "wrong-arg-count"]   # need nothing from the program
ERR_KINDS = ["undefined-name", "wrong-arg-type", "wrong-arg-count", "assign-constant", "syntax",
             "ambiguous-literal", "ambiguous-name", "wrong-return-type"]

# ----------------------------------------------------------------------------------- running
QUIET = [("int", "#int verbose off\n"), ("int", "#int timing off\n")]
QUIET_END = "timing is off.\n"

def markers(text):
    return [l for l in text.split("\n") if l.startswith("@@")]

CARET_RE = re.compile(r"[.^]*\^$")
LC_RE = re.compile(r"^\[L\d+ C(\d+)\]")

def strip_diagnostics(lines):
    """drop the loop's diagnostic blocks from a quiet session's output.  A block is a caret line
    (dots and carets, as long as the rightmost reported column), the `[Ln Cm] …` lines with their
    continuation lines, up to and including the next empty line.  The program may have left an
    unfinished line: then the caret line starts with that text, and what the program prints next
    continues it."""
    out = []; i = 0; n = len(lines)
    carry = None
    while i < n:
        ln = lines[i]
        if i + 1 < n and LC_RE.match(lines[i + 1]) and CARET_RE.search(ln):
            j = i + 1; cols = []
            while j < n and lines[j] != "":
                m = LC_RE.match(lines[j])
                if m: cols.append(int(m.group(1)))
                j += 1
            width = max(cols)
            tail = ln[-width:] if width <= len(ln) else None
            if tail is not None and CARET_RE.fullmatch(tail) is None:
                tail = None
            if tail is None:
                m = re.search(r"[.^]*\^$", ln)
                tail = m.group(0)
            prefix = ln[:len(ln) - len(tail)]
            carry = (carry or "") + prefix
            i = j + 1
            continue
        if carry is not None:
            ln = carry + ln; carry = None
        out.append(ln); i += 1
    if carry:
        out.append(carry)
    return out

def program_lines(res, quiet):
    """what the program printed in a loop session: marker lines (default mode, where the loop
    also echoes values, types and timings), or everything after the two option lines (quiet mode)"""
    if not quiet:
        return markers(res["out"])
    k = res["out"].find(QUIET_END)
    if k < 0:
        return ["<no `timing is off.` line in the session output>"]
    body = res["out"][k + len(QUIET_END):]
    lines = body.split("\n")
    if lines and lines[-1] == "":
        lines.pop()
    return strip_diagnostics(lines)

def batch_lines(b, quiet):
    if not quiet:
        return b["markers"]
    lines = b["out"].split("\n")
    if lines and lines[-1] == "":
        lines.pop()
    return lines

FAULT_RE = re.compile(r"Program fault|Compiler bug|Bug:|segmentation|Unhandled Exception|Storage allocation error", re.I)

def run_batch(build, forms):
    text = "".join(t for _, t in forms)
    r = aldor.compile(build, {"prog.as": text}, ["-Ginterp", "prog.as"], timeout=TIMEOUT)
    if r["rc"] == "TIMEOUT":
        r = aldor.compile(build, {"prog.as": text}, ["-Ginterp", "prog.as"], timeout=TIMEOUT)
    return {"rc": r["rc"], "out": r["stdout"], "err": r["stderr"], "markers": markers(r["stdout"]),
            "cmd": "aldor <base options> -Ginterp prog.as", "text": text}

HANGS = [0]          # sessions that ran into the timeout so far (all worker threads)

def run_loop(build, forms):
    """one -Gloop session with the forms on stdin, in a fresh directory.  A timeout is retried
    once (the machine may be busy); once several sessions have hung, the tree is taken to be
    broken and the remaining sessions get a short timeout and no retry."""
    text = "".join(t for _, t in forms)
    res = None
    for attempt in (0, 1):
        broken = HANGS[0] >= 4
        d = common.scratch("aldor-verif-loop-")
        try:
            rc, out, err = common.run(aldor.base_cmd(build) + ["-Gloop"], cwd=d, inp=text,
                                      timeout=TIMEOUT if not broken else 30)
        finally:
            shutil.rmtree(d, ignore_errors=True)
        res = {"rc": rc, "out": out, "err": err, "markers": markers(out),
               "cmd": "aldor <base options> -Gloop < forms", "text": text}
        if rc != "TIMEOUT" or broken:
            break
    if res["rc"] == "TIMEOUT":
        HANGS[0] += 1
    return res

def line_spans(forms):
    """1-based (first, last) stdin line numbers of every form"""
    spans = []; n = 1
    for _, t in forms:
        k = t.count("\n")
        spans.append((n, n + k - 1)); n += k
    return spans

DIAG_RE = re.compile(r"\[L(\d+) C(\d+)\] #\d+ \((Error|Fatal Error)\)")

def is_quiet(forms):
    return forms[:2] == QUIET

def judge_loop(b, forms, res):
    """None when the session behaved; else (class, text).  b = the whole-file run"""
    quiet = is_quiet(forms)
    expect = batch_lines(b, quiet)
    if res["rc"] == "TIMEOUT":
        return ("hang", "the session did not finish within %d s (twice)" % TIMEOUT)
    if res["rc"] != 0:
        return ("fault", "the session ended with status %s: %s" % (res["rc"], (res["out"] + res["err"])[-300:]))
    m = FAULT_RE.search(res["out"] + res["err"])
    if m:
        return ("fault", "the session printed `%s`" % m.group(0))
    got = program_lines(res, quiet)
    if got != expect:
        i = 0
        while i < min(len(expect), len(got)) and expect[i] == got[i]:
            i += 1
        return ("output", "program output differs at line %d: whole file %r, loop %r (of %d / %d lines%s)" % (
            i + 1, expect[i] if i < len(expect) else None, got[i] if i < len(got) else None,
            len(expect), len(got), "; quiet session, all of stdout compared" if quiet else "; marker lines compared"))
    spans = line_spans(forms)
    diag_lines = [int(x.group(1)) for x in DIAG_RE.finditer(res["out"] + res["err"])]
    for (kind, _), (a, c) in zip(forms, spans):
        hit = [l for l in diag_lines if a <= l <= c]
        if kind.startswith("ERR:") and not hit:
            return ("no-diagnostic", "the erroneous form (%s) at input lines %d-%d drew no (Error) diagnostic" % (kind[4:], a, c))
        if not kind.startswith("ERR:") and hit:
            return ("spurious-diagnostic", "the valid form (%s) at input lines %d-%d drew an (Error) diagnostic" % (kind, a, c))
    return None

def inject(rng, prog, prefix, kinds, serial0, gaps=None, allowed=None):
    """prefix + prog.forms with one erroneous form per entry of `kinds` inserted; gaps[j] = index of
    the program form before which the j-th goes (len = at the end); seeded when not given"""
    n = len(prog.forms)
    at = {}
    for j, kind in enumerate(kinds):
        g = gaps[j] if gaps else rng.randint(0, n)
        av = prog.avail(g)
        text = err_form(rng, av, kind, serial0 + j) if kind else None
        if text is None and kind and not gaps:
            # the kind has no site here: try after the last form
            text = err_form(rng, prog.avail(n), kind, serial0 + j)
            if text is not None:
                g = n
        if text is None:
            # kind None = any kind the site offers (seeded)
            offers = [(k, err_form(rng, av, k, serial0 + j)) for k in (allowed or ERR_KINDS)]
            offers = [(k, x) for k, x in offers if x is not None]
            kind, text = rng.choice(offers)
        at.setdefault(g, []).append(("ERR:" + kind, text))
    forms = list(prefix)
    for i in range(n + 1):
        forms.extend(at.get(i, []))
        if i < n:
            forms.append(prog.forms[i])
    return forms

def valid_of(forms):
    return [f for f in forms if not f[0].startswith("ERR:") and f[0] != "int"]

def fixed_prefix(forms):
    """number of leading forms that are never dropped or displaced (#int lines, #include lines)"""
    n = 0
    while n < len(forms) and forms[n][0] in ("int", "include"):
        n += 1
    return n

# ----------------------------------------------------------------------------------- shrinking
def still_fails(build, forms, cls):
    v = valid_of(forms)
    b = run_batch(build, v)
    if b["rc"] != 0:
        return None
    r = run_loop(build, forms)
    j = judge_loop(b, forms, r)
    if j and j[0] == cls:
        return (b, r, j)
    return None

def shrink(build, forms, cls, first, budget=40):
    best = (forms, first)
    i = len(forms) - 1
    while i >= fixed_prefix(forms) and budget > 0:
        cand = best[0][:i] + best[0][i + 1:]
        # keep at least one erroneous form when the failure is about one
        if any(f[0].startswith("ERR:") for f in best[0]) and not any(f[0].startswith("ERR:") for f in cand):
            i -= 1; continue
        budget -= 1
        got = still_fails(build, cand, cls)
        if got:
            best = (cand, got)
        i -= 1
    return best

def report(ctx, build, prog, forms, batch, loop, j, stats):
    cls, what = j
    try:
        sforms, (sb, sl, sj) = shrink(build, forms, cls, (batch, loop, j), budget=25 if ctx.tier == "quick" else 80)
    except Exception:
        sforms, (sb, sl, sj) = forms, (batch, loop, j)
    errk = sorted({f[0][4:] for f in sforms if f[0].startswith("ERR:")})
    kind = ("after-rejected-form:" + "+".join(errk)) if errk else "loop-vs-batch"
    shape = ",".join(f[0] for f in sforms[fixed_prefix(sforms):])
    sig = known_pattern(sforms, sl) or "repl|%s|%s" % (kind, shape)
    stats["failures"] += 1
    ctx.finding(sig, "-Gloop vs -Ginterp (%s, program `%s`): %s" % (kind, prog.name, sj[1]),
                {"kind": "repl-" + cls, "program": prog.name,
                 "forms": [{"kind": k, "text": t} for k, t in sforms],
                 "commands": {"batch": "cd <fresh dir> && " + " ".join(aldor.base_cmd(build)) + " -Ginterp prog.as   # prog.as = the forms that are not ERR:*",
                              "loop": "cd <fresh dir> && " + " ".join(aldor.base_cmd(build)) + " -Gloop < forms.txt   # forms.txt = all forms in order"},
                 "outputs": {"batch_program_lines": batch_lines(sb, is_quiet(sforms)), "loop_program_lines": program_lines(sl, is_quiet(sforms)),
                             "batch_rc": sb["rc"], "loop_rc": sl["rc"], "loop_stdout": sl["out"][-6000:], "loop_stderr": sl["err"][-1500:]},
                 "unshrunk_forms": [{"kind": k, "text": t} for k, t in forms]})

# ----------------------------------------------------------------------------------- the part
def miniald_programs(ctx, n):
    """generated programs, if the generator exists in this tree (skipped silently otherwise).
    Their output carries no marker, so they run in quiet sessions only."""
    try:
        from vlib import miniald
        progs = miniald.generate(ctx.rng, n)
        model = miniald.model(progs)
    except Exception:
        return []
    out = []
    try:
        for i, m in enumerate(model):
            fs = m.get("forms") if isinstance(m, dict) else None
            if not fs or not m.get("ok") or m.get("exit") not in ("", 0, "0", "ok", None):
                continue
            p = Prog(ctx.rng, "miniald%d" % i)
            for t in fs:
                if not isinstance(t, str) or not t.strip():
                    continue
                t = t if t.endswith("\n") else t + "\n"
                if t.lstrip().startswith("#include"):
                    continue
                p.add("gen" + ("N" if t.count("\n") > 1 else ""), t)
            p.generated = True
            if p.forms:
                out.append(p)
    except Exception:
        return []
    return out

def one_program(build, prog, seed, plans):
    """all runs for one program (executed inside a worker thread).
    plans = [(quiet, kinds, positions|None)]; kinds == [] is the plain loop-vs-file comparison"""
    import random
    rng = random.Random(seed)
    res = {"prog": prog, "runs": 0, "problems": [], "invalid": None, "errkinds": {}, "nlines": 0}
    base = list(HEADER) + list(prog.forms)
    b = run_batch(build, base); res["runs"] += 1
    if b["rc"] != 0 or FAULT_RE.search(b["out"] + b["err"]):
        res["invalid"] = b
        return res
    generated = getattr(prog, "generated", False)
    res["nlines"] = len(batch_lines(b, generated))
    serial = 1
    plain_failed = False
    for quiet, kinds, positions in plans:
        if plain_failed and kinds:
            break                 # the plain comparison already fails: the interleavings add nothing
        prefix = (QUIET if quiet else []) + list(HEADER)
        forms = (inject(rng, prog, prefix, kinds, serial, gaps=positions,
                        allowed=GENERATED_KINDS if generated else None) if kinds else prefix + list(prog.forms))
        serial += len(kinds)
        for f in forms:
            if f[0].startswith("ERR:"):
                res["errkinds"][f[0][4:]] = res["errkinds"].get(f[0][4:], 0) + 1
        l = run_loop(build, forms); res["runs"] += 1
        j = judge_loop(b, forms, l)
        if j:
            res["problems"].append((forms, b, l, j))
            if not kinds:
                plain_failed = True
    return res

def make_plans(rng, prog, thorough, all_kinds):
    generated = getattr(prog, "generated", False)
    kinds_avail = list(ERR_KINDS)
    if generated:
        # no knowledge of the program's names; its stdout is compared as a whole
        plans = [(True, [], None)]
        for k in (1, 2, 3):
            plans.append((True, [None] * k, None))
        return plans
    plans = [(False, [], None), (True, [], None)]
    nforms = len(prog.forms)
    for k in (1, 2, 3):
        for _ in range(1 if not thorough else 3):
            plans.append((rng.random() < 0.25, [None] * k, None))
    if all_kinds:
        for k in kinds_avail:
            plans.append((False, [k], None))
    if thorough and nforms <= 7:
        # every position for one erroneous form of a seeded kind
        for pos in range(0, nforms + 1):
            plans.append((False, [None], [pos]))
    return plans

# ---------------------------------------------------------------------------- fixed probes
# Defects of the pinned tree that the search keeps away from (so that it stays a search for
# *new* differences), each probed directly under one fixed signature.
#
# 1. A rejected form that is the first of the session to mention a type.  The undo of the
#    rejected step (scobind.c:scobindUndo) frees the type forms and meanings made during the step
#    although the type's lazily imported meanings survive elsewhere; a later step then recurses
#    without end in syme.c:symeType/symeFillType (stack overflow) or reports a compiler bug.
# 2. A short-circuit `or` that yields true / `and` that yields false on a session variable in a
#    top-level statement: the loop answers `Unhandled Exception: RuntimeError() ... Reached a
#    "never"` from rtDelayedGetExport! (the jump generated by genfoam.c:genOr/genAnd leaves out the
#    straight-line initialisation of a lazily fetched export), the whole file prints the value.
#    Seen in generated programs also as `Program fault (segmentation violation)`, e.g. on
#    `g: Array(Boolean) := [(false and true), true];`.
FIRST_MENTION_SIG = "repl|after-rejected-form:type-first-mentioned"
SHORT_CIRCUIT_SIG = "repl|loop-vs-batch:short-circuit-on-session-variable"
PROBES = [
    (FIRST_MENTION_SIG, [("ERR:type-first-mentioned", "qFm1: Integer == qNoSuch1;\n"),
                         ("output", 'stdout << "@@1 " << "x" << newline;\n')]),
    (FIRST_MENTION_SIG, [("import", "import from String;\n"),
                         ("ERR:type-first-mentioned", 'qFm2: Integer == "a";\n'),
                         ("output", 'stdout << "@@1 " << "x" << newline;\n')]),
    (FIRST_MENTION_SIG, [("ERR:type-first-mentioned", "qFm3: Integer := qNoSuch3;\n"),
                         ("import", "import from Integer;\n"),
                         ("output", 'stdout << "@@1 " << 1 << newline;\n')]),
    (FIRST_MENTION_SIG, [("ERR:type-first-mentioned", "qFm4: MachineInteger == qNoSuch4;\n"),
                         ("import", "import from String;\n"),
                         ("output", 'stdout << "@@1 " << "y" << newline;\n')]),
    (SHORT_CIRCUIT_SIG, [("var", "qSc1: Boolean := true;\n"),
                         ("output", 'stdout << "@@1 " << (qSc1 or false) << newline;\n')]),
    (SHORT_CIRCUIT_SIG, [("var", "qSc2: Boolean := false;\n"),
                         ("output", 'stdout << "@@1 " << (qSc2 and true) << newline;\n')]),
]

def known_pattern(forms, loop_res):
    """a difference found by the search that is an instance of a probed defect gets the probe's
    signature (symptom in the session's output + trigger in the forms), anything else its own"""
    text = loop_res["out"] + loop_res["err"]
    symptom = ("rtDelayedGetExport" in text and "Unhandled Exception" in text) or "Program fault" in text
    if symptom and not any(k.startswith("ERR:") for k, t in forms) and \
            any(re.search(r"\b(or|and)\b", t) for k, t in forms):
        return SHORT_CIRCUIT_SIG
    return None

def fixed_probe(build, sig, forms):
    forms = list(HEADER) + forms
    b = run_batch(build, valid_of(forms))
    if b["rc"] != 0:
        return ("invalid", sig, forms, b, None, None)
    l = run_loop(build, forms)
    return ("ok", sig, forms, b, l, judge_loop(b, forms, l))

def run_part(ctx, build):
    HANGS[0] = 0
    rng = ctx.rng
    thorough = ctx.tier == "thorough"
    per = 3 if not thorough else 12
    progs = template_programs(rng, per)
    gen = miniald_programs(ctx, 40 if not thorough else 300)
    stats = {"template_programs": len(progs), "generated_programs": len(gen), "runs": 0, "failures": 0,
             "invalid_templates": 0, "skipped_generated": 0, "program_output_lines": 0, "err_forms": {},
             "sessions": 0, "failing_sessions": 0}
    jobs = []
    for i, p in enumerate(progs + gen):
        # every catalogue kind once for the first instance of each template
        plans = make_plans(rng, p, thorough, all_kinds=(i < len(progs) and i % per == 0))
        jobs.append((one_program, (build, p, rng.randrange(1 << 30), plans), {}))
    njobs = len(jobs)
    for sig, fm in PROBES:
        jobs.append((fixed_probe, (build, sig, fm), {}))
    results = aldor.run_many(jobs, workers=WORKERS)
    stats["fixed_probes"] = 0
    stats["fixed_probes_failing"] = 0
    for r in results[njobs:]:
        if isinstance(r, Exception):
            raise r
        st, sig, forms, b, l, j = r
        stats["runs"] += 2
        if st == "ok":
            stats["fixed_probes"] += 1
        if st == "ok" and j:
            stats["fixed_probes_failing"] += 1
            ctx.finding(sig,
                        "-Gloop differs from -Ginterp on the probe `%s`: %s" % (
                            " / ".join(t.strip() for k, t in forms[len(HEADER):]), j[1][:300]),
                        {"kind": "repl-" + j[0], "forms": [{"kind": k, "text": t} for k, t in forms],
                         "commands": {"batch": "cd <fresh dir> && " + " ".join(aldor.base_cmd(build)) + " -Ginterp prog.as   # the forms that are not ERR:*",
                                      "loop": "cd <fresh dir> && " + " ".join(aldor.base_cmd(build)) + " -Gloop < forms.txt"},
                         "outputs": {"batch_program_lines": b["markers"], "loop_program_lines": l["markers"], "loop_rc": l["rc"],
                                     "loop_stdout": l["out"][-3000:], "loop_stderr": l["err"][-1000:]}})
    for r in results[:njobs]:
        if isinstance(r, Exception):
            raise r
        stats["runs"] += r["runs"]
        p = r["prog"]
        if r["invalid"] is not None:
            if getattr(p, "generated", False):
                stats["skipped_generated"] += 1
                continue
            stats["invalid_templates"] += 1
            b = r["invalid"]
            ctx.finding("repl|batch-rejects-valid-program|" + p.name,
                        "-Ginterp rejects or faults on a program of independent valid forms (template `%s`), status %s: %s" % (
                            p.name, b["rc"], (b["out"] + b["err"])[-400:]),
                        {"kind": "repl-batch-invalid", "program": p.name, "forms": [{"kind": k, "text": t} for k, t in HEADER + p.forms],
                         "commands": {"batch": " ".join(aldor.base_cmd(build)) + " -Ginterp prog.as"},
                         "outputs": {"rc": b["rc"], "stdout": b["out"][-4000:], "stderr": b["err"][-2000:]}})
            continue
        stats["program_output_lines"] += r["nlines"]
        stats["sessions"] += r["runs"] - 1
        for k, v in r["errkinds"].items():
            stats["err_forms"][k] = stats["err_forms"].get(k, 0) + v
        for (forms, b, l, j) in r["problems"]:
            stats["failing_sessions"] += 1
            # shrinking costs sessions: a handful of shrunk reports, the rest is counted
            if stats["failures"] < MAX_REPORTS and r["problems"].index((forms, b, l, j)) < 2:
                report(ctx, build, p, forms, b, l, j, stats)
        if r["nlines"] and not r["problems"]:
            ctx.sample({"module": "replsearch", "program": p.name, "forms": len(p.forms),
                        "program_output_lines": r["nlines"], "sessions": r["runs"] - 1}, limit=6)
    ctx.cov["replsearch"] = stats
    ctx.cov["evaluations"] += stats["runs"]
    ctx.cov["distinct_nontrivial"] += stats["template_programs"] + stats["generated_programs"] - stats["skipped_generated"]
    return stats
