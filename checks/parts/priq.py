"""part `priq` (C20): priq.c vs Model/PriQ.lean.  Tie: hand model + correspondence (H).

One request line = one history on a fresh queue (`Q <argcGuess> op op ...`).  The python oracle
keeps the multiset of (key, entry) pairs (a Counter plus a heapq of keys) and judges the
implementation's answers: every extracted/peeked pair is in the queue and its key is the
minimum; successive extractions without an insertion in between come out in non-decreasing key
order; counts; array dumps hold exactly the multiset and satisfy the heap order."""
import heapq, itertools, os
from collections import Counter
from vlib import common
from vlib.common import VERIF

NAME = "priq"
BUILD_TARGETS = ["AldorVerif.Props.C20PriQ"]
SOURCES = ["priq.c", "priq.h", "util.c"]
MODELLED = ("priq.c: heapParent/Left/Right heapExchange heapSiftOutward heapSiftInward heapInsert heapExtractMin heapPeekMin "
            "heapCheck heapMap0 priqNew priqInsert priqPeekMin priqExtractMin priqCheck priqMap priqCount "
            "(not: priqFree priqFreeDeeply priqPrint; keys are integer-valued doubles; extract/peek on the empty queue call bug() and are answered `empty` by the driver guard)")
THEOREMS = [("AldorVerif.Props.C20PriQ", "AldorVerif.PriQ." + t) for t in (
    "priq_extract_sorted", "priq_insert_spec", "priq_extract_spec", "priq_drain_sorted", "heap_root_min",
    "two_extracts_ordered", "priq_check_iff", "priq_check_reachable")]

# ------------------------------------------------------------------ generators
def gen_exhaustive(maxlen):
    """every history of length <= maxlen over insert 1 / insert 2 / insert 3 / extract (entries
    number the insertions, so equal keys stay distinguishable), then a full drain"""
    out = []
    for n in range(0, maxlen + 1):
        for seq in itertools.product("123x", repeat=n):
            ops = []
            for j, s in enumerate(seq):
                ops.append("x" if s == "x" else "i:%s:%d" % (s, j))
            ops += ["d", "k", "n"] + ["x"] * (sum(1 for s in seq if s != "x") + 1) + ["n"]
            out.append("Q 0 " + " ".join(ops))
    return out

def gen_growth():
    """cross every doubling of the slot array, for several initial guesses"""
    out = []
    for guess in (0, 1, 2, 3, 4, 5, 7, 8, 9, 100, 1000):
        ops = ["z"]
        for j in range(2100):
            ops.append("i:%d:%d" % ((j * 7919) % 1000 - 500, j))
            if j < 70 or (j & (j + 1)) == 0 or (j & (j - 1)) == 0 or ((j + 2) & (j + 1)) == 0:
                ops += ["z", "n"]
        ops += ["k", "d"] + ["x"] * 2101 + ["z", "n"]
        out.append("Q %d %s" % (guess, " ".join(ops)))
    return out

def gen_random(rng, nops, keymode, p_ins, guess=0, dumps=True):
    ops = []
    n = 0
    seq = 0
    for j in range(nops):
        if rng.random() < p_ins or (n == 0 and rng.random() < 0.9):
            if keymode == "few": k = rng.randrange(4)
            elif keymode == "asc": k = seq
            elif keymode == "desc": k = -seq
            elif keymode == "neg": k = rng.randrange(-50, 50)
            elif keymode == "big": k = rng.randrange(-(1 << 40), 1 << 40)
            else: k = rng.randrange(1000)
            ops.append("i:%d:%d" % (k, seq)); seq += 1; n += 1
        else:
            ops.append("x"); n = max(0, n - 1)
        if dumps:
            r = rng.random()
            if r < 0.03: ops.append("p")
            elif r < 0.05: ops.append("n")
            elif r < 0.06: ops.append("d")
            elif r < 0.065: ops.append("m")
            elif r < 0.07: ops.append("k")
            elif r < 0.075: ops.append("z")
    if nops <= 3000:
        ops += ["d", "m", "k"]
    ops += ["n", "p"] + ["x"] * (n + 1) + ["n"]
    return "Q %d %s" % (guess, " ".join(ops))

# ------------------------------------------------------------------ oracle
def parse_part(s):
    k, e = s.rsplit(":", 1)
    return int(k), int(e)

def parse_parts(s):
    return [parse_part(x) for x in s.split(",")] if s else []

def oracle(line, answer):
    toks = line.split()
    ops = toks[2:]
    res = answer.split(";") if ops else []
    if len(res) != len(ops):
        return False, min(len(res), len(ops)) - 1, "number of results %d != number of ops %d" % (len(res), len(ops))
    bag = Counter()
    keys = []                 # heapq of keys, lazily cleaned
    live = Counter()          # key -> multiplicity
    count = 0
    last_x = None             # key of the previous extraction if no insertion since
    def minkey():
        while keys and live[keys[0]] == 0:
            heapq.heappop(keys)
        return keys[0] if keys else None
    for j, (op, r) in enumerate(zip(ops, res)):
        def bad(why): return False, j, why
        try:
            if op.startswith("i:"):
                k, e = parse_part(op[2:])
                bag[(k, e)] += 1; live[k] += 1; heapq.heappush(keys, k); count += 1
                last_x = None
                if r != ".": return bad("insert answered %r" % r)
            elif op == "x":
                if count == 0:
                    if r != "empty": return bad("extract on empty answered %r" % r)
                    continue
                k, e = parse_part(r)
                if bag[(k, e)] <= 0: return bad("extracted (%d,%d) which is not in the queue" % (k, e))
                mk = minkey()
                if k != mk: return bad("extracted key %d, minimum is %d" % (k, mk))
                if last_x is not None and k < last_x: return bad("successive extractions out of order: %d after %d" % (k, last_x))
                bag[(k, e)] -= 1; live[k] -= 1; count -= 1; last_x = k
            elif op == "p":
                if count == 0:
                    if r != "empty": return bad("peek on empty answered %r" % r)
                    continue
                k, e = parse_part(r)
                if bag[(k, e)] <= 0: return bad("peeked (%d,%d) which is not in the queue" % (k, e))
                if k != minkey(): return bad("peeked key %d, minimum is %d" % (k, minkey()))
            elif op == "n":
                if int(r) != count: return bad("priqCount = %s, queue holds %d" % (r, count))
            elif op == "z":
                if int(r) < count: return bad("allocated size %s < count %d" % (r, count))
            elif op == "k":
                if r != "1": return bad("priqCheck does not confirm the heap order (answered %r)" % r)
            elif op in ("d", "m"):
                ps = parse_parts(r)
                if Counter(ps) != +bag: return bad("%s holds a different multiset than inserted minus extracted" % ("array" if op == "d" else "priqMap"))
                if op == "d":
                    for i in range(1, len(ps)):
                        if ps[(i - 1) // 2][0] > ps[i][0]:
                            return bad("heap order violated at slot %d: parent key %d > %d" % (i, ps[(i - 1) // 2][0], ps[i][0]))
            else:
                if r != "bad-op": return bad("unknown op answered %s" % r)
        except (ValueError, IndexError) as ex:
            return bad("unparsable result %r (%s)" % (r[:80], ex))
    return True, -1, ""

def first_diff(a, b):
    ra, rb = a.split(";"), b.split(";")
    for j in range(min(len(ra), len(rb))):
        if ra[j] != rb[j]: return j
    return min(len(ra), len(rb))

def truncate(line, j):
    toks = line.split()
    return " ".join(toks[:2 + j + 1] + ["d"])

def merge_tags(hist, tagline):
    for t in tagline.split():
        if "=" in t:
            k, v = t.rsplit("=", 1)
            hist[k] = hist.get(k, 0) + int(v)

def run_part(ctx, build):
    exe = build.cc_driver("priq_drv", os.path.join(VERIF, "harness", "priq_drv.c"))
    rng = ctx.rng
    thorough = ctx.tier == "thorough"
    lines = []
    corp = os.path.join(VERIF, "corpus", "priq")
    if os.path.isdir(corp):
        for f in sorted(os.listdir(corp)):
            lines += [l.strip() for l in open(os.path.join(corp, f)) if l.strip() and not l.startswith("#")]
    ncorpus = len(lines)
    lines += gen_exhaustive(6 if not thorough else 8)
    lines += gen_growth()
    nexh = len(lines) - ncorpus
    scale = 1 if not thorough else 10
    for _ in range(1500 * scale):
        lines.append(gen_random(rng, rng.randint(5, 150), rng.choice(("few", "few", "asc", "desc", "neg", "big", "rand")),
                                rng.choice((0.5, 0.6, 0.8)), guess=rng.choice((0, 0, 1, 4, 50))))
    for _ in range(40 * scale):
        lines.append(gen_random(rng, rng.randint(500, 3000), rng.choice(("few", "asc", "desc", "neg", "rand")),
                                rng.choice((0.5, 0.55, 0.7)), guess=rng.choice((0, 16, 1000))))
    nbig = 0
    for km in (("rand", "few") if not thorough else ("rand", "few", "asc", "desc", "big", "neg")):
        l = gen_random(rng, 100000, km, 0.6, dumps=False)
        lines.append(l); nbig = max(nbig, len(l.split()) - 2)
    c = common.run_impl_lines(exe, lines)
    m, tags = common.split_model(common.run_model("priq", "\n".join(lines) + "\n"))
    assert len(m) == len(lines), (len(m), len(lines))
    stats = {"lines": len(lines), "corpus": ncorpus, "exhaustive_and_directed": nexh, "ops": 0, "longest_history": nbig,
             "mismatch": 0, "faults": 0, "distinct_results": 0}
    hist = {}
    seen = set()
    for k, ln in enumerate(lines):
        co = c[k] if k < len(c) else "MISSING"
        mo = m[k]
        merge_tags(hist, tags[k])
        nops = len(ln.split()) - 2
        stats["ops"] += nops
        seen.add(hash(co))
        short = ln if len(ln) < 1500 else ln[:1500] + " ...(%d ops)" % nops
        if co.startswith("FAULT") or co in ("MISSING", "SKIPPED"):
            stats["faults"] += 1
            ctx.finding("priq|fault", "priq.c faults (%s) on: %s" % (co, short),
                        {"kind": "impl-fault", "driver": "harness/priq_drv.c", "line": ln, "impl": co, "model": mo[:2000]})
            continue
        ok, j, why = oracle(ln, co)
        if co != mo:
            stats["mismatch"] += 1
            jd = first_diff(co, mo)
            if not ok:
                tl = truncate(ln, j)
                ctx.finding("priq|min-order|" + ln.split()[2 + j].split(":")[0],
                            "priq.c does not behave as a priority queue: op %d (%s) of `%s`: %s" % (j, ln.split()[2 + j], short, why),
                            {"kind": "impl-violates-property", "line": tl if len(tl) < 200000 else short, "op_index": j, "why": why,
                             "impl": co.split(";")[j][:300], "model": (mo.split(";") + [""] * (j + 1))[j][:300],
                             "replay_cmd": "echo '<line>' | <priq_drv built by ./check C20>"})
            else:
                tl = truncate(ln, jd)
                ctx.corr_broken.append(("priq", tl if len(tl) < 4000 else short, (co.split(";") + [""] * (jd + 1))[jd][:300],
                                        (mo.split(";") + [""] * (jd + 1))[jd][:300]))
        elif not ok:
            ctx.violation("priq|model-and-impl-wrong|" + ln.split()[2 + j].split(":")[0],
                          "implementation and model agree on `%s` but op %d: %s (contradicts priq_extract_sorted: model/driver defect)" % (short, j, why),
                          {"kind": "inconsistent", "line": truncate(ln, j)[:200000], "why": why})
        if k % 1200 == 7:
            ctx.sample({"module": "priq", "request": short[:300], "impl": co[:300], "model": mo[:300], "tags": tags[k][:300]})
    stats["distinct_results"] = len(seen)
    stats["branch_tags"] = dict(sorted(hist.items()))
    ctx.cov["priq"] = stats
    ctx.cov["evaluations"] += stats["ops"]
    ctx.cov["distinct_nontrivial"] += len(seen)
    return stats
