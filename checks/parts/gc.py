"""part `gc` (C09): the conservative collector of store.c vs Model/Gc.lean, and the forced-collection
schedule sweep on real Aldor programs.

Tie: hand model + correspondence (H).  harness/gc_drv.c builds object graphs through stoAlloc, keeps
the roots in static data, calls stoGc and reports survivors and their contents; the Lean driver runs
the same history on the model (`doAlloc`, `setWord`, `access`, `collect`, `pointee`).  The model
predicts `reachable <= survivors` (blocks retained through stale stack words are allowed, a freed or
changed reachable block is a violation).  An independent python oracle (graph reachability, no
addresses) evaluates the executable property on the implementation's output alone.

Search: corpus/gc/*.as and a few programs of /repo's test directories run without ALDOR_VERIF_GC
(reference) and under schedules `k,j` / windows `1,0,skip,max`, interpreted (-Ginterp: the hook acts
in the compiler process) and compiled (-Fx against the scratch tree's hooked libfoam.a)."""
import os, re, shutil, subprocess, time, threading
from concurrent.futures import ThreadPoolExecutor
from vlib import common
from vlib.common import VERIF, ALDOR_TOP, NCPU

NAME = "gc"
BUILD_TARGETS = ["AldorVerif.Props.C09"]
SOURCES = ["store.c", "store.h", "os_unix.c", "opsys.c"]
MODELLED = ("store.c: stoGc stoGcMarkAndSweep stoGcMark stoGcMarkRange (pointer test, interior pointers, header "
            "pointers of mixed pieces, QmIsPtrFree, marked-free) stoGcSweep stoGcSweepFixed stoGcSweepMixed "
            "(free + wash) stoRegister stoAlloc's forced-collection hook; roots = one word list "
            "(not: page map/section arithmetic = `pointee`, allocator re-use of swept pieces = C10, "
            "user tracers, blacklisting, osMemMap)")
THEOREMS = [("AldorVerif.Props.C09", "AldorVerif.Gc." + t) for t in (
    "collect_preserves_reachable", "collect_no_reachable_freed", "collect_keeps_layout",
    "collect_changes_only_by_freeing", "gc_transparent", "gc_schedule_independent", "gc_transparent_state",
    "poison_unobservable", "gc_transparent_statement_refuted", "collect_frees_unreachable", "mark_complete", "mark_sound")]

NROOT = 16
DEEP_SIG = "gc|deep-structure-stack-overflow"

# =========================================================================================
# correspondence: histories
# =========================================================================================

class Hist:
    """a mutator history; keeps the symbolic heap (python oracle side) while it is generated"""
    def __init__(self, rng):
        self.rng = rng
        self.lines = []
        self.blocks = []            # id -> {"n":, "code":, "w": {index: sym}}   sym: int | (tid, off); unwritten = "n"
        self.roots = [0] * NROOT    # sym
        self.expect = []            # per line: None | (kind, reachable dict id -> [word strings])
        self.dead = set()           # pieces unreachable at some G: a mutator may never name them again

    # -- oracle ------------------------------------------------------------------------
    def reachable(self):
        seen = set()
        stack = [s[0] for s in self.roots if isinstance(s, tuple)]
        while stack:
            i = stack.pop()
            if i in seen: continue
            seen.add(i)
            b = self.blocks[i]
            if b["code"] % 32 >= 16: continue          # registered pointer-free
            for s in b["w"].values():
                if isinstance(s, tuple) and s[0] not in seen:
                    stack.append(s[0])
        return seen

    @staticmethod
    def show(s):
        if s == "n": return "n"
        if isinstance(s, tuple): return "p%d%s%d" % (s[0], "" if s[1] < 0 else "+", s[1])
        return str(s)

    def snapshot(self):
        return {i: self.render(self.blocks[i]) for i in self.reachable()}

    def render(self, b):
        """the words of a piece in the drivers' run-length form: runs of 4 or more equal words are `w*count`"""
        runs = []                       # [token, count]
        def add(tok, cnt):
            if cnt <= 0: return
            if runs and runs[-1][0] == tok: runs[-1][1] += cnt
            else: runs.append([tok, cnt])
        pos = 0
        for k in sorted(b["w"]):
            add("n", k - pos); add(self.show(b["w"][k]), 1); pos = k + 1
        add("n", b["n"] - pos)
        out = []
        for tok, cnt in runs:
            if cnt >= 4: out.append("%s*%d" % (tok, cnt))
            else: out += [tok] * cnt
        return out

    # -- operations --------------------------------------------------------------------
    def emit(self, line, exp=None):
        self.lines.append(line); self.expect.append(exp)

    def alloc(self, code, n):
        # every allocation is a point where the collector may run (hook, or the heap being full):
        # what is unreachable now may never be named again
        self.dead |= set(range(len(self.blocks))) - self.dead - self.reachable()
        self.blocks.append({"n": n, "code": code, "w": {}})
        self.roots[0] = (len(self.blocks) - 1, 0)
        self.emit("A %d %d" % (code, n))
        return len(self.blocks) - 1

    def val(self, s):
        return "P %d %d" % s if isinstance(s, tuple) else "V %d" % s

    def legal(self, s):
        return not (isinstance(s, tuple) and s[0] in self.dead)

    def write(self, i, k, s):
        assert i not in self.dead and self.legal(s), ("history writes through a reclaimed piece", i, s)
        self.blocks[i]["w"][k] = s
        self.emit("W %d %d %s" % (i, k, self.val(s)))

    def root(self, slot, s):
        assert self.legal(s), ("history resurrects a reclaimed piece", s)
        self.roots[slot] = s
        self.emit("R %d %s" % (slot, self.val(s)))

    def gc(self):
        snap = self.snapshot()
        self.dead |= set(range(len(self.blocks))) - set(snap)
        self.emit("G", ("G", snap))

    def check(self):
        self.emit("C", ("C", self.snapshot()))

    def ptr(self, t, interior=0.3):
        """a pointer into piece t: its start, an interior word, or (mixed pieces) its header"""
        n = self.blocks[t]["n"]
        r = self.rng.random()
        if r < interior and n > 1: return (t, self.rng.randrange(1, n))
        if r < interior + 0.07 and n > 32: return (t, -1)
        if r < interior + 0.12: return (t, n - 1)
        return (t, 0)

def rand_val(rng):
    """an integer that is not a pointer: below the model's heapBase, and not one of the two words the model
    uses for the new-piece and freed-piece fill patterns (0xAA, 0xDD)"""
    while True:
        v = rng.randrange(0, 4096)
        if v not in (0xAA, 0xDD): return v

SIZES = [1, 1, 2, 2, 2, 3, 3, 4, 4, 5, 6, 7, 8, 10, 12, 13, 16, 20, 24, 31, 32, 33, 34, 40, 64, 100, 200, 480, 600, 1100]

def gen_random(rng, nops, p_gc=0.02, noptr=0.15, big=1.0):
    h = Hist(rng)
    for _ in range(nops):
        reach = None
        r = rng.random()
        if r < 0.30 or not h.blocks:
            code = rng.randrange(16, 32) if rng.random() < noptr else rng.randrange(0, 16)
            n = rng.choice(SIZES)
            if n > 64 and rng.random() > big: n = rng.choice(SIZES[:20])
            i = h.alloc(code, n)
            # attach it (or not: then it is garbage as soon as slot 0 is overwritten)
            q = rng.random()
            if q < 0.45:
                cand = [j for j in h.reachable() if j != i]
                if cand:
                    j = rng.choice(sorted(cand))
                    h.write(j, rng.randrange(h.blocks[j]["n"]), h.ptr(i))
            elif q < 0.75:
                h.root(rng.randrange(1, NROOT), h.ptr(i))
            continue
        reach = sorted(h.reachable())
        if r < 0.55 and reach:
            i = rng.choice(reach); t = rng.choice(reach)
            h.write(i, rng.randrange(h.blocks[i]["n"]), h.ptr(t))
        elif r < 0.65 and reach:
            i = rng.choice(reach)
            h.write(i, rng.randrange(h.blocks[i]["n"]), rand_val(rng))
        elif r < 0.78:
            if reach and rng.random() < 0.6:
                h.root(rng.randrange(0, NROOT), h.ptr(rng.choice(reach)))
            else:
                h.root(rng.randrange(0, NROOT), rand_val(rng))
        elif r < 0.78 + p_gc:
            h.gc()
        elif r < 0.78 + 2 * p_gc:
            h.check()
        else:
            # drop a root
            h.root(rng.randrange(0, NROOT), 0)
    h.gc()
    return h

def gen_chain(rng, L, n, link, code=0, interior=False):
    """a list of L pieces of n words linked through word `link`; then the head is dropped step by step"""
    h = Hist(rng)
    h.alloc(code, n); h.root(1, (0, 0))
    for i in range(1, L):
        h.alloc(code, n)
        h.write(i - 1, link, (i, rng.randrange(n) if interior else 0))
    h.root(0, 0)
    if code % 32 < 16:
        h.root(2, (L // 2, n - 1))                        # an interior pointer to the middle, kept aside
    h.gc()
    h.root(1, 0); h.gc()                                  # the first half goes (for pointer-free kinds: all but the middle piece)
    h.root(2, 0); h.gc()
    return h

def gen_structured(rng):
    out = []
    out.append(gen_chain(rng, 300, 2, 1))                 # cdr last: the TailRecursion jump
    out.append(gen_chain(rng, 300, 2, 0))                 # link first: recursion
    out.append(gen_chain(rng, 2500, 2, 1))                # longer, against the model too
    out.append(gen_chain(rng, 1500, 3, 0))
    out.append(gen_chain(rng, 120, 40, 17, interior=True))  # mixed pieces, interior pointers
    out.append(gen_chain(rng, 200, 3, 1, code=17))        # pointer-free kind: nothing behind the head survives
    # a wide array pointing to many pieces, cycles, self pointers
    h = Hist(rng)
    a = h.alloc(3, 600); h.root(2, (a, 0))
    for i in range(150):
        b = h.alloc(rng.randrange(0, 16), rng.choice(SIZES[:18]))
        h.write(a, i * 4, h.ptr(b))
        h.write(b, 0, (b, 0))                             # self pointer
        if i: h.write(b, h.blocks[b]["n"] - 1, (b - 1, 0))
    h.root(0, 0); h.gc()
    for i in range(0, 600, 8): h.write(a, i, 7)
    h.gc()
    h.root(2, (a, 599)); h.gc()                            # only an interior pointer to the last word holds the array
    h.root(2, 0); h.gc()
    out.append(h)
    # cycle that becomes garbage
    h = Hist(rng)
    ids = [h.alloc(0, 4) for _ in range(1)]
    h.root(3, (0, 0))
    for i in range(1, 50):
        b = h.alloc(0, 4); h.write(b - 1, 2, (b, 0))
    h.write(49, 2, (0, 0))
    h.root(0, 0); h.gc()
    h.root(3, (25, 3)); h.gc()
    h.root(3, 0); h.gc()
    out.append(h)
    return out

def gen_big(rng, n, code=0):
    """one piece of n words (> 64 KB / 1 MB / 16 MB) whose first, middle and LAST words hold the only references
    to small pieces; a collector that scans such a piece only partly frees live pieces"""
    h = Hist(rng)
    big = h.alloc(code, n); h.root(1, (big, 0))
    spots = [0, 1, n // 3, n // 2, n - 130, n - 3, n - 2, n - 1]
    kids = []
    for k in spots:
        c = h.alloc(rng.randrange(0, 16), rng.choice((1, 2, 3, 6, 12, 40)))
        h.write(c, 0, rand_val(rng))
        h.write(big, k, h.ptr(c))
        kids.append(c)
        j = h.alloc(0, rng.choice((2, 33)))               # a dropped temporary in between
    if code % 32 < 16:                                     # (a pointer-free big piece retains none of them)
        g = h.alloc(0, 3); h.write(kids[-1], h.blocks[kids[-1]]["n"] - 1, (g, 1))  # grandchild behind the last word
    h.root(0, 0)
    h.gc()
    t = h.alloc(code, n)                                   # a dropped temporary of the same size
    if code % 32 < 16: h.write(t, n - 1, (kids[0], 0))
    h.root(0, 0); h.gc()
    h.write(big, n - 1, rand_val(rng)); h.gc()             # the last child (and the grandchild) go
    h.root(1, (big, n - 1)); h.gc()                        # only an interior pointer to the last word holds the big piece
    for k in spots[:-1]:
        h.write(big, k, 0 if k % 2 else rand_val(rng))
    h.gc()
    h.root(1, 0); h.gc()
    return h

def gen_big_after_free(rng, nblocks, n, nbig):
    """fill the heap, drop almost everything, collect, and ask for one large piece straight away"""
    h = Hist(rng)
    keep = h.alloc(0, 4); h.root(2, (keep, 0))
    first = h.alloc(0, n); h.root(1, (first, 0))
    prev = first
    for i in range(1, nblocks):
        b = h.alloc(0, n)
        h.write(prev, n - 1, (b, 0))                       # chained through the last word
        if i % 5 == 0:
            c = h.alloc(0, 2); h.write(b, n // 2, (c, 0)); h.write(c, 1, 1000 + i)
        prev = b
    h.root(0, 0)
    h.gc()
    h.root(1, 0)                                            # everything but `keep` is garbage now
    h.gc()
    big = h.alloc(0, nbig)                                  # large request right after the collection freed most of the heap
    h.write(big, nbig - 1, (keep, 1)); h.write(keep, 0, (big, nbig - 2)); h.root(0, 0)
    h.check()
    big2 = h.alloc(0, nbig + 77); h.write(big, nbig - 2, (big2, 0)); h.root(0, 0)
    h.gc()
    h.root(2, 0); h.gc()
    return h

# =========================================================================================
# correspondence: running and comparing
# =========================================================================================

def parse_report(line):
    """`id:w,w id:w | dead=.. reused=.. badpoison=..` (impl)  or  `id:w,w id:w` (model) -> dict, info"""
    info = {}
    body = line
    if "|" in line:
        body, tail = line.split("|", 1)
        for m in re.finditer(r"(\w+)=([\d,]*)", tail):
            info[m.group(1)] = [int(x) for x in m.group(2).split(",") if x]
    d = {}
    for tok in body.split():
        i, ws = tok.split(":", 1)
        d[int(i)] = ws.split(",")
    return d, info

MODES = [("demand", None), ("auto", None), ("demand", "1,0"), ("auto", "3,1"), ("demand", "7,2")]

def run_corr(ctx, build, stats):
    exe = build.cc_driver("gc_drv", os.path.join(VERIF, "harness", "gc_drv.c"))
    rng = ctx.rng
    thorough = ctx.tier == "thorough"
    hists = []
    corp = os.path.join(VERIF, "corpus", "gc")
    ncorpus = 0
    # corpus histories (plain request files; expectations are recomputed by replaying them on the oracle)
    if os.path.isdir(corp):
        for f in sorted(os.listdir(corp)):
            if f.endswith(".ops"):
                # one history per line: `H op ; op ; ...`
                for n, l in enumerate(open(os.path.join(corp, f))):
                    l = l.strip()
                    if l and not l.startswith("#"):
                        hists.append(("corpus:%s:%d" % (f, n + 1), replay_ops([o.strip() for o in l[1:].split(";") if o.strip()])))
                        ncorpus += 1
    for k, h in enumerate(gen_structured(rng)):
        hists.append(("structured%d" % k, h))
    nrand = 60 if not thorough else 600
    for k in range(nrand):
        nops = rng.choice((40, 120, 300, 600)) if not thorough else rng.choice((40, 120, 300, 600, 1500))
        hists.append(("random%d" % k, gen_random(rng, nops, p_gc=rng.choice((0.01, 0.03, 0.08)),
                                                  noptr=rng.choice((0.0, 0.15, 0.4)), big=rng.choice((0.2, 1.0)))))
    # (after the random histories: the heap stays large once these have run)
    # large pieces: > 64 KB, > 1 MB, > 16 MB (words), pointer and pointer-free kinds
    bigs = [(8200, 0), (131100, 0), (2097200, 0), (9000, 17)] if not thorough else \
           [(8200, 0), (8193, 5), (131100, 0), (140000, 3), (2097200, 0), (2200000, 1), (9000, 17), (300000, 20), (70000, 0), (600000, 0)]
    for n, code in bigs:
        hists.append(("big%d/%d" % (n, code), gen_big(rng, n, code)))
    hists.append(("bigfree-a", gen_big_after_free(rng, 24, 131072, 524288)))
    hists.append(("bigfree-b", gen_big_after_free(rng, 300, 8200, 150000)))
    if thorough:
        hists.append(("bigfree-c", gen_big_after_free(rng, 40, 131072, 2097152)))
        hists.append(("bigfree-d", gen_big_after_free(rng, 2000, 600, 1000000)))
    # one request line per history
    reqs = ["H " + " ; ".join(h.lines) for _, h in hists]
    t0 = time.time()
    mraw = common.run_model("gc", "\n".join(reqs) + "\n")
    stats["model_s"] = round(time.time() - t0, 1)
    assert len(mraw) == len(reqs), (len(mraw), len(reqs))
    M, T = [], []
    for k, l in enumerate(mraw):
        r, t = (l.split("\t", 1) + [""])[:2]
        M.append(r.split(" ; ")); T.append(t.split(" ; "))
        assert len(M[k]) == len(hists[k][1].lines), ("model answered %d of %d operations" % (len(M[k]), len(hists[k][1].lines)), hists[k][0])
    nlines = sum(len(h.lines) for _, h in hists)
    stats.update({"histories": len(hists), "corpus": ncorpus, "lines": len(reqs), "operations": nlines,
                  "reports": sum(1 for _, h in hists for e in h.expect if e)})
    seen = set()
    hist_tags = {}
    freed_model = 0
    for tl in T:
        for t in tl:
            for x in t.split():
                if "=" in x:
                    k, v = x.split("=")
                    if k == "freed": freed_model += int(v)
                    bkt = "0" if v == "0" else "1-9" if int(v) < 10 else "10-99" if int(v) < 100 else "100+"
                    hist_tags["%s:%s" % (k, bkt)] = hist_tags.get("%s:%s" % (k, bkt), 0) + 1
                else:
                    hist_tags[x] = hist_tags.get(x, 0) + 1
    stats["model_tags"] = hist_tags
    # the model against the python oracle (both exact): ties the oracle used below to the model
    for hi, (name, h) in enumerate(hists):
        for k, e in enumerate(h.expect):
            if not e: continue
            kind, snap = e
            md, _ = parse_report(M[hi][k])
            ok = (md == snap) if kind == "G" else all(md.get(i) == w for i, w in snap.items())
            if not ok:
                stats["oracle_model_mismatch"] = stats.get("oracle_model_mismatch", 0) + 1
                ctx.corr_broken.append(("gc", "%s op %d `%s`" % (name, k, h.lines[k]), "oracle %s" % summarize(snap), "model %s" % summarize(md)))
    def runmode(mode):
        lvl, envv = mode
        env = {"ALDOR_VERIF_GC": envv} if envv else {"ALDOR_VERIF_GC": ""}
        t1 = time.time()
        c = common.run_impl_lines(exe, reqs, args=(lvl,), env=env, timeout=7200)
        return mode, c, time.time() - t1
    with ThreadPoolExecutor(max_workers=len(MODES)) as ex:
        results = list(ex.map(runmode, MODES))
    extra_total = 0
    for (lvl, envv), c, wall in results:
        mname = "%s%s" % (lvl, ("+gc=" + envv) if envv else "")
        ms = {"wall_s": round(wall, 1), "extra": 0, "exact": 0, "reports": 0, "dead": 0, "reused": 0}
        for hi, (name, h) in enumerate(hists):
            line = c[hi] if hi < len(c) else "MISSING"
            replay = {"driver": "harness/gc_drv.c", "args": [lvl], "env": {"ALDOR_VERIF_GC": envv or ""}, "request": reqs[hi][:20000]}
            if line.startswith("FAULT") or line in ("MISSING", "SKIPPED"):
                ctx.finding("gc|fault|" + mname, "store.c faults (%s) in history %s [mode %s]" % (line, name, mname),
                            dict(replay, kind="impl-fault", impl=line))
                continue
            C = line.split(" ; ")
            if len(C) != len(h.lines):
                ctx.corr_broken.append(("gc", "%s [%s]" % (name, mname), "%d answers" % len(C), "%d operations" % len(h.lines)))
                continue
            for k, ln in enumerate(h.lines):
                co, mo = C[k], M[hi][k]
                seen.add(co[:200])
                e = h.expect[k]
                if not e:
                    if co != mo:
                        ctx.corr_broken.append(("gc", "%s op %d `%s` [%s]" % (name, k, ln, mname), co, mo))
                    continue
                kind, snap = e
                cd, info = parse_report(co)
                md, _ = parse_report(mo)
                ms["reports"] += 1
                ms["dead"] += len(info.get("dead", [])); ms["reused"] += len(info.get("reused", []))
                # executable property on the implementation alone: every reachable piece is still allocated and unchanged
                bad = [(i, w, cd.get(i)) for i, w in snap.items() if cd.get(i) != w]
                if bad:
                    i, w, got = bad[0]
                    gone = got is None
                    model_agrees = (md.get(i) == w)
                    what = ("collector %s reachable piece %d in history %s at operation %d (`%s`, mode %s): expected %s, got %s; %d reachable pieces affected"
                            % ("freed" if gone else "changed", i, name, k, ln, mname, ",".join(w)[:120], "freed/re-used" if gone else ",".join(got)[:120], len(bad)))
                    rep = dict(replay, kind="impl-violates-property", operation=k, piece=i, expected=w, impl=got, model=md.get(i))
                    if model_agrees:
                        ctx.finding("gc|reachable-%s|%s" % ("freed" if gone else "changed", mname), what, rep)
                    else:
                        ctx.violation("gc|oracle-model-impl-disagree", what + " (and the model disagrees with the oracle)", rep)
                    continue
                if kind == "G":
                    ex = len(set(cd) - set(snap))
                    ms["extra"] += ex
                    if ex == 0: ms["exact"] += 1
                    if not envv:
                        extra_total += ex
                # (only where collections happen at `G` alone and the survey follows at once: after a collection inside
                #  stoAlloc the freed pages may already hold a section header or a free-tree node)
                if info.get("badpoison") and not envv and lvl == "demand":
                    stats["badpoison"] = stats.get("badpoison", 0) + len(info["badpoison"])
                    ctx.corr_broken.append(("gc", "%s op %d `%s` [%s]" % (name, k, ln, mname),
                                            "freed pieces not washed with 0xDD: %s" % info["badpoison"][:10], "swept pieces are filled with the poison word"))
                if (hi * 131 + k) % 997 == 3:
                    ctx.sample({"module": "gc", "history": name, "operation": k, "request": ln, "mode": mname, "impl": co[:300], "model": mo[:300], "tags": T[hi][k] if k < len(T[hi]) else ""})
        stats["mode:" + mname] = ms
    stats["model_freed"] = freed_model
    stats["impl_extra_survivors_plain_modes"] = extra_total
    # the survivor sets must stay close to the model's (a collector that retains everything is no correspondence)
    # (stale words in the C stack and in store.c's own static free-list cursors retain a few pieces per collection)
    if freed_model and extra_total > 1.0 * freed_model * 2:
        ctx.corr_broken.append(("gc", "all histories", "%d pieces survived that the model frees (model frees %d per run)" % (extra_total, freed_model),
                                "survivors = reachable pieces, up to a few conservatively retained ones"))
    stats["distinct_answers"] = len(seen)
    ctx.cov["evaluations"] += nlines * len(MODES)
    ctx.cov["distinct_nontrivial"] += len(seen)
    return exe

def summarize(d):
    ks = sorted(d)
    return "%d pieces %s" % (len(ks), ks[:12])

def replay_ops(lines):
    h = Hist(None)
    for ln in lines:
        t = ln.split()
        def sym(v):
            return (int(v[1]), int(v[2])) if v[0] == "P" else int(v[1])
        if t[0] == "A": h.alloc(int(t[1]), int(t[2]))
        elif t[0] == "W": h.write(int(t[1]), int(t[2]), sym(t[3:]))
        elif t[0] == "R": h.root(int(t[1]), sym(t[2:]))
        elif t[0] == "G": h.gc()
        elif t[0] == "C": h.check()
    return h

TAIL_SIG = "gc|tail-linked-chain"

def deep_probe(ctx, exe, stats):
    """no run ends in a storage fault, on long chains (implementation only; `L n link` builds a chain of n
    two-word pieces in the driver, `N` collects and counts).
    * linked through the LAST word (what a list cell is): stoGcMarkRange iterates, chains of 10^5 .. 10^6 pieces must
      survive whole and unchanged - a fault or a lost piece here has its own signature and is never absorbed by
      the listed finding;
    * linked through the FIRST word: one C frame per piece; 50000 pieces must still pass, 120000 overflow the
      stack (the listed finding `gc|deep-structure-stack-overflow`, which applies to non-last-word links only)."""
    res = {}
    thorough = ctx.tier == "thorough"
    modes = [("demand", ""), ("auto", ""), ("auto", "50021,7")] + ([("demand", "200003,5"), ("auto", "7919,3")] if thorough else [])
    for n in (100000, 300000, 1000000):
        req = "H L %d 1 ; N ; A 0 3 ; N ; R 1 V 0 ; N" % n
        for lvl, envv in modes:
            c = common.run_impl_lines(exe, [req], args=(lvl,), env={"ALDOR_VERIF_GC": envv}, timeout=3600)
            key = "tail%d/%s%s" % (n, lvl, ("+gc=" + envv) if envv else "")
            replay = {"kind": "impl-fault", "driver": "harness/gc_drv.c", "args": [lvl], "env": {"ALDOR_VERIF_GC": envv}, "request": req}
            if c[0].startswith("FAULT"):
                res[key] = c[0]
                ctx.finding(TAIL_SIG + "|fault", "the collector faults (%s) on a live chain of %d two-word pieces linked through their LAST word "
                            "(the shape of an ordinary list; mode %s): the tail link must be followed without recursion" % (c[0], n, key), replay)
                continue
            ans = c[0].split(" ; ")
            m = [re.match(r"live=(\d+) changed=(\d+) dead=(\d+)", a) for a in (ans[1], ans[3], ans[5])] if len(ans) == 6 else [None]
            if not all(m):
                ctx.corr_broken.append(("gc", req, c[0][:200], "l ; live=.. ; a ; live=.. ; r ; live=.."))
                continue
            res[key] = "live=%s,%s then %s" % (m[0].group(1), m[1].group(1), m[2].group(1))
            if int(m[0].group(1)) < n or int(m[1].group(1)) < n + 1 or int(m[0].group(2)) or int(m[1].group(2)):
                ctx.finding(TAIL_SIG + "|lost", "of a live chain of %d pieces linked through their last word only %s (then %s) survived a collection, %s/%s changed (mode %s)"
                            % (n, m[0].group(1), m[1].group(1), m[0].group(2), m[1].group(2), key), dict(replay, kind="impl-violates-property", impl=c[0]))
            elif int(m[2].group(1)) > n // 2:
                ctx.corr_broken.append(("gc", req + " [" + key + "]", c[0], "the dropped chain is reclaimed"))
    for n, must_pass in ((50000, True), (120000, False)):
        req = "H L %d 0 ; N" % n
        c = common.run_impl_lines(exe, [req], args=("demand",), env={"ALDOR_VERIF_GC": ""}, timeout=3600)
        replay = {"kind": "impl-fault", "driver": "harness/gc_drv.c", "args": ["demand"], "env": {"ALDOR_VERIF_GC": ""}, "request": req}
        if c[0].startswith("FAULT"):
            res["first%d" % n] = c[0]
            if must_pass:
                ctx.finding("gc|first-word-chain-%d|fault" % n, "the collector faults (%s) on a live chain of only %d pieces linked through their first word" % (c[0], n), replay)
            else:
                ctx.finding(DEEP_SIG, "stoGcMarkRange recurses once per piece when pieces are linked through a word other than their last: "
                            "a live chain of %d two-word pieces linked through word 0 makes stoGc overflow the C stack (%s)" % (n, c[0]), replay)
        else:
            mm = re.search(r"live=(\d+) changed=(\d+)", c[0])
            res["first%d" % n] = mm.group(0) if mm else c[0][:80]
            if not mm or int(mm.group(1)) < n or int(mm.group(2)):
                ctx.finding("gc|first-word-chain-%d|lost" % n, "a live chain of %d pieces linked through their first word did not survive whole: %s" % (n, c[0][:120]), replay)
    stats["deep_probe"] = res

# =========================================================================================
# schedule sweep on real programs
# =========================================================================================

BIG_QUICK = ("bigblocks", "bigchurn", "bigptrs")

def prog_list(thorough=False):
    """small allocation-heavy programs, a few programs of /repo's test directories, and the large-block
    programs of corpus/gc/big (5-40 MB live, single blocks of 200 KB .. 20 MB): three of them in the quick tier"""
    P = []
    corp = os.path.join(VERIF, "corpus", "gc")
    for f in sorted(os.listdir(corp)):
        if f.endswith(".as"):
            P.append({"name": f[:-3], "path": os.path.join(corp, f), "lib": "aldor", "native": True, "big": False})
    bigd = os.path.join(corp, "big")
    for f in sorted(os.listdir(bigd)) if os.path.isdir(bigd) else []:
        if f.endswith(".as") and (thorough or f[:-3] in BIG_QUICK):
            P.append({"name": f[:-3], "path": os.path.join(bigd, f), "lib": "aldor", "native": True, "big": True})
    # live lists of 10^5, 3*10^5 and 10^6 cells (tail-linked: the collector must not recurse on the link)
    longd = os.path.join(corp, "long")
    for f in sorted(os.listdir(longd)) if os.path.isdir(longd) else []:
        if f.endswith(".as"):
            P.append({"name": f[:-3], "path": os.path.join(longd, f), "lib": "aldor", "native": True, "big": True, "long": True})
    ext = [("intfact", os.path.join(ALDOR_TOP, "lib/aldor/test/intfact/intfact.as"), "aldor", True),
           ("bugreport_7", os.path.join(ALDOR_TOP, "lib/aldor/test/bugreport_7/bugreport_7.as"), "aldor", True),
           ("cross", os.path.join(ALDOR_TOP, "aldor/test/cross.as"), "foamlib", False),
           ("enumtest", os.path.join(ALDOR_TOP, "aldor/test/enumtest.as"), "foamlib", False)]
    for n, p, lib, nat in ext:
        if os.path.exists(p):
            P.append({"name": n, "path": p, "lib": lib, "native": nat, "big": False})
    return P

def base_cmd(build, prog):
    R, S = ALDOR_TOP, build.src
    cmd = [build.aldor, "-Nfile=%s/aldor.conf" % S, "-Y%s/aldor/lib/libfoam/al" % R]
    if prog["lib"] == "aldor":
        cmd += ["-I%s/lib/aldor/include" % R, "-Y%s/lib/aldor/src" % R, "-laldor"]
    else:
        cmd += ["-Y%s/aldor/lib/libfoamlib/al" % R, "-I%s/aldor/lib/libfoamlib/al" % R, "-lfoamlib"]
    return cmd

_dir_lock = threading.Lock()
_dir_count = [0]

def fresh_dir(root, prog):
    with _dir_lock:
        _dir_count[0] += 1
        d = os.path.join(root, "%s-%d" % (prog["name"], _dir_count[0]))
    os.makedirs(d)
    shutil.copy(prog["path"], os.path.join(d, os.path.basename(prog["path"])))
    return d

_TICK = os.sysconf("SC_CLK_TCK")

def proc_cpu(pid):
    try:
        f = open("/proc/%d/stat" % pid).read()
        t = f[f.rindex(")") + 2:].split()
        return (int(t[11]) + int(t[12])) / _TICK
    except (OSError, ValueError, IndexError):
        return 0.0

def run_cpu(cmd, cwd, env, timeout, cpu_limit=None):
    """run, return (rc, stdout, stderr, cpu seconds); rc = -signal, 'TIMEOUT' (more than `timeout` seconds of
    processor time), 'CPULIMIT' (killed once the process had used cpu_limit seconds of processor time)"""
    e = dict(os.environ); e.update(env or {})
    with _dir_lock:
        _dir_count[0] += 1
        tag = _dir_count[0]
    fo, fe = os.path.join(cwd, ".stdout%d" % tag), os.path.join(cwd, ".stderr%d" % tag)
    so = open(fo, "wb"); se = open(fe, "wb")
    p = subprocess.Popen(cmd, cwd=cwd, env=e, stdout=so, stderr=se, stdin=subprocess.DEVNULL)
    t0 = time.time(); cpu = 0.0; rc = None
    while True:
        pid, st, ru = os.wait4(p.pid, os.WNOHANG)
        if pid:
            cpu = ru.ru_utime + ru.ru_stime
            rc = -os.WTERMSIG(st) if os.WIFSIGNALED(st) else os.WEXITSTATUS(st)
            p.returncode = rc
            break
        # the time limit is on the processor time the process used, so that a loaded machine does not turn a slow
        # run into a finding; a wall-clock cap (12 x, at least an hour) still ends a process that sleeps forever
        if (time.time() - t0 > 5 and proc_cpu(p.pid) > timeout) or time.time() - t0 > max(3600, 12 * timeout):
            p.kill(); os.wait4(p.pid, 0); p.returncode = -9; rc = "TIMEOUT"; break
        if cpu_limit is not None and proc_cpu(p.pid) > cpu_limit:
            cpu = proc_cpu(p.pid)
            p.kill(); os.wait4(p.pid, 0); p.returncode = -9; rc = "CPULIMIT"; break
        time.sleep(0.005 if time.time() - t0 < 0.5 else 0.05)
    so.close(); se.close()
    out = open(fo, "rb").read().decode("utf-8", "replace")
    err = open(fe, "rb").read().decode("utf-8", "replace")
    for f in (fo, fe):
        try: os.unlink(f)
        except OSError: pass
    return rc, out, err, cpu

def interp_run(build, root, prog, gc_env, extra=(), timeout=900, cpu_limit=None):
    d = fresh_dir(root, prog)
    cmd = base_cmd(build, prog) + list(extra) + ["-Ginterp", os.path.basename(prog["path"])]
    env = {"ALDOR_VERIF_GC": gc_env or ""}
    rc, out, err, cpu = run_cpu(cmd, d, env, timeout, cpu_limit)
    shutil.rmtree(d, ignore_errors=True)
    return rc, out, err, cpu, cmd

def native_build(build, root, prog, extra=()):
    d = fresh_dir(root, prog)
    R, S = ALDOR_TOP, build.src
    cmd = base_cmd(build, prog) + list(extra) + ["-Fx", "-Ccc=%s/aldor/subcmd/unitools/unicl" % R,
                                                  "-Cargs=-Wconfig=%s/aldor.conf -I%s" % (S, S), "-Y" + build.libfoam_dir,
                                                  os.path.basename(prog["path"])]
    rc, out, err, cpu = run_cpu(cmd, d, {"ALDOR_VERIF_GC": ""}, 900)
    exe = os.path.join(d, os.path.basename(prog["path"])[:-3])
    if rc != 0 or not os.path.exists(exe):
        return None, d, cmd, (rc, out, err)
    return exe, d, cmd, (rc, out, err)

def outcome(ref, got):
    """None when equal to the reference, else a short outcome tag"""
    rc0, out0, err0 = ref
    rc, out, err = got
    txt = (out + err).lower()
    if rc == "TIMEOUT": return "timeout"
    if isinstance(rc, int) and rc < 0: return "crash(signal %d)" % -rc
    if "program fault" in txt and "program fault" not in (out0 + err0).lower(): return "program-fault"
    ref_txt = (out0 + err0).lower()
    if "out of memory" in txt and "out of memory" not in ref_txt: return "out-of-memory"
    if "storage allocation error" in txt and "storage allocation error" not in ref_txt: return "storage-fault"
    if "aldor runtime:" in txt and "aldor runtime:" not in ref_txt: return "storage-fault"
    if re.search(r"(0x)?d{12,}", txt) and not re.search(r"(0x)?d{12,}", (out0 + err0).lower()): return "poison-pattern"
    if rc != rc0: return "exit-status(%s!=%s)" % (rc, rc0)
    if out != out0: return "stdout-differs"
    if err != err0: return "stderr-differs"
    return None

def first_diff(a, b):
    la, lb = a.split("\n"), b.split("\n")
    for i in range(max(len(la), len(lb))):
        x = la[i] if i < len(la) else "<end>"; y = lb[i] if i < len(lb) else "<end>"
        if x != y: return "line %d: reference %r, got %r" % (i + 1, x[:160], y[:160])
    return ""

def estimate_interp_allocs(build, root, prog, base_cpu, coarse=False):
    """number of allocations of the compiler process for this program.  The unhooked tree has no counter,
    so: bisection on <skip> of `1,0,<skip>` (a collection at every allocation after the first <skip>); the
    observable is the processor time of the process (it is killed as soon as the answer is clear)."""
    slack = 0.35 + 0.3 * base_cpu
    def collects(skip):
        rc, out, err, cpu, _ = interp_run(build, root, prog, "1,0,%d,0" % skip, cpu_limit=base_cpu + slack)
        return rc == "CPULIMIT" or cpu > base_cpu + slack
    lo, hi = 0, (1 << 23 if coarse else 1 << 17)
    while collects(hi) and hi < (1 << 29):
        lo, hi = hi, hi * 2
    while hi - lo > (max(250, lo // 4) if coarse else 250):
        mid = (lo + hi) // 2
        if collects(mid): lo = mid
        else: hi = mid
    # coarse (programs that run for seconds): a lower bound, so that every sampled point is inside the run
    return lo if coarse else hi

def native_allocs(exe, d, every=50):
    rc, out, err, cpu = run_cpu([exe], d, {"ALDOR_VERIF_GC": "%d,0" % every, "GC_DETAIL": "1"}, 900)
    return every * err.count("GC: marked")

def run_sweep(ctx, build, stats):
    import random
    master = ctx.rng
    thorough = ctx.tier == "thorough"
    root = common.scratch("aldor-verif-gcsweep-")
    progs = prog_list(thorough)
    seeds = {(r, p["name"]): master.getrandbits(64) for p in progs for r in ("interp", "native")}
    sw = {"programs": [p["name"] for p in progs], "runs": 0, "differences": 0, "interp_allocs": {}, "native_allocs": {},
          "collections_forced_estimate": 0, "natural_axis_runs": 0}
    deep = {"name": "deepchain", "path": os.path.join(VERIF, "corpus", "gc", "deep", "deepchain.as"), "lib": "aldor", "native": True}
    pool = ThreadPoolExecutor(max_workers=NCPU)
    lock = threading.Lock()

    def report(route, prog, ref, got, gc_env, cmd, extra_note=""):
        oc = outcome(ref, got)
        with lock:
            sw["runs"] += 1
        if oc is None: return
        with lock:
            sw["differences"] += 1
        what = ("%s route, program %s, ALDOR_VERIF_GC=%s: %s; reference exit %s, got exit %s; %s%s"
                % (route, prog["name"], gc_env, oc, ref[0], got[0], first_diff(ref[1], got[1]) or first_diff(ref[2], got[2]), extra_note))
        ctx.finding("gc-sweep|%s|%s|%s" % (route, prog["name"], re.sub(r"\(.*", "", oc)), what,
                    {"kind": "gc-schedule-changes-behaviour", "program": prog["path"], "env": {"ALDOR_VERIF_GC": gc_env},
                     "command": " ".join(cmd), "note": "run in a fresh directory holding a copy of the program; native: link with -Y<scratch>/aldor/lib/libfoam built by Build.build_runtime()",
                     "reference": {"rc": ref[0], "stdout": ref[1][-1500:], "stderr": ref[2][-800:]},
                     "got": {"rc": got[0], "stdout": got[1][-1500:], "stderr": got[2][-800:]}})

    # ---- the deep-structure program: the reference run itself dies in the collector
    def deep_job():
        if not os.path.exists(deep["path"]): return
        rc0, out0, err0, cpu, cmd0 = interp_run(build, root, deep, None, extra=("-Wno-gc",))
        rc, out, err, cpu, cmd = interp_run(build, root, deep, None)
        res = {"interp -Wno-gc": rc0, "interp": rc}
        if rc0 == 0 and (rc != 0 or out != out0):
            ctx.finding(DEEP_SIG, "interpreted program %s prints %r with -Wno-gc but ends with %s when the collector runs (no hook involved): "
                        "the marker recurses once per record of a chain linked through its first field" % (deep["name"], out0.strip()[:80], outcome((rc0, out0, err0), (rc, out, err))),
                        {"kind": "gc-changes-behaviour", "program": deep["path"], "command": " ".join(cmd), "reference_command": " ".join(cmd0)})
        exe, d, cmdb, b = native_build(build, root, deep)
        if exe:
            rcn, outn, errn, cpu = run_cpu([exe], d, {"ALDOR_VERIF_GC": ""}, 600)
            res["native"] = rcn
            if rc0 == 0 and (rcn != 0 or outn != out0):
                ctx.finding(DEEP_SIG, "compiled program %s ends with %s (the interpreter with -Wno-gc prints %r)" % (deep["name"], outcome((rc0, out0, err0), (rcn, outn, errn)), out0.strip()[:80]),
                            {"kind": "gc-changes-behaviour", "program": deep["path"], "command": " ".join(cmdb) + " && ./deepchain"})
        sw["deepchain"] = res

    nogc_memo, nogc_locks = {}, {p["name"]: threading.Lock() for p in progs}
    def nogc_run(prog):
        """the interpreter with the collector switched off (-Wno-gc): once per program"""
        with nogc_locks[prog["name"]]:
            if prog["name"] not in nogc_memo:
                nogc_memo[prog["name"]] = interp_run(build, root, prog, None, extra=("-Wno-gc",))
            return nogc_memo[prog["name"]]

    # ---- interpreter route
    def interp_job(prog):
        rng = random.Random(seeds[("interp", prog["name"])])
        big = prog["big"]
        ref = interp_run(build, root, prog, None)                    # natural collection, default heap
        rc0, out0, err0, cpu0, cmd0 = ref
        # the collector never runs (-Wno-gc) against natural collection
        long_ = prog.get("long", False)
        rcn, outn, errn, cpun, cmdn = nogc_run(prog)
        with lock: sw["natural_axis_runs"] += 1
        report("interp", prog, (rcn, outn, errn), (rc0, out0, err0), "(unset: natural collection; reference: -Wno-gc)", cmd0)
        if rc0 != 0 and prog["lib"] == "aldor":
            if rcn != 0:
                ctx.corr_broken.append(("gc", "sweep program %s" % prog["name"], "reference run fails rc=%s %s" % (rc0, (out0 + err0)[-300:]), "runs"))
            return
        if long_:
            refc = ref
        else:
            refc = interp_run(build, root, prog, None, extra=("-Wcheck",))
            report("interp", prog, (rcn, outn, errn), (refc[0], refc[1], refc[2]), "(unset, -Wcheck: natural collection with washing; reference: -Wno-gc)", refc[4])
        n = estimate_interp_allocs(build, root, prog, cpu0, coarse=long_)
        sw["interp_allocs"][prog["name"]] = n
        jobs = []
        if not big:
            ks = [1000, 3000, 10007, 50021] if not thorough else [300, 1000, 1777, 3000, 10007, 20011, 50021]
            for k in ks:
                js = {rng.randrange(k)} | ({0} if k == 1000 else set())
                if thorough: js |= {rng.randrange(k) for _ in range(2)}
                for j in sorted(js):
                    jobs.append(("%d,%d" % (k, j), (), n // k))
            nwin = 10 if not thorough else 60
            for w in range(nwin):
                skip = rng.randrange(0, n + 1) if w % 3 else max(0, n - rng.randrange(0, 40000))   # a third near the end: the program's own run
                jobs.append(("1,0,%d,100" % skip, ("-Wcheck",) if w % 4 == 0 else (), 100))
        elif long_:
            # millions of allocations on a 70 MB heap: very sparse schedules
            for k in ([1000003] if not thorough else [200003, 1000003, 3000017]):
                jobs.append(("%d,%d" % (k, rng.randrange(k)), (), n // k))
            for w in range(1 if not thorough else 8):
                jobs.append(("1,0,%d,3" % rng.randrange(min(n, 340000), n + 1), (), 3))
        else:
            # a collection on a 100 MB heap costs ~0.1 s: sparse schedules and short windows only
            for k in ([20011, 50021] if not thorough else [5003, 20011, 50021, 100003]):
                jobs.append(("%d,%d" % (k, rng.randrange(k)), (), n // k))
            for w in range(2 if not thorough else 12):
                jobs.append(("1,0,%d,3" % max(0, n - rng.randrange(0, 12000)), ("-Wcheck",) if w % 2 else (), 3))
        # natural collection after ONE forced collection, at several points (half of them in the program's own run)
        nsingle = (5 if big else 4) if not thorough else 24
        for w in range(nsingle):
            skip = rng.randrange(min(n, 340000), n + 1) if w % 2 == 0 else rng.randrange(0, n + 1)   # ~340000 allocations precede the program's own run
            jobs.append(("1,0,%d,1" % skip, ("-Wcheck",) if w % 5 == 4 and not long_ else (), 1))
        def one(job):
            env, extra, ncoll = job
            rc, out, err, cpu, cmd = interp_run(build, root, prog, env, extra=extra)
            r = refc if extra else ref
            with lock:
                sw["collections_forced_estimate"] += ncoll
                if env.endswith(",1"): sw["natural_axis_runs"] += 1
            report("interp", prog, (r[0], r[1], r[2]), (rc, out, err), env, cmd)
        return [pool.submit(one, j) for j in jobs]

    # ---- native route
    def native_job(prog):
        rng = random.Random(seeds[("native", prog["name"])])
        big = prog["big"]
        exe, d, cmd, b = native_build(build, root, prog)
        if not exe:
            ctx.corr_broken.append(("gc", "sweep program %s" % prog["name"], "native build fails: %s" % (b[1] + b[2])[-300:], "builds"))
            return
        runcmd = [" ".join(cmd), "&&", "./" + os.path.basename(exe)]
        rc0, out0, err0, cpu0 = run_cpu([exe], d, {"ALDOR_VERIF_GC": ""}, 900)      # natural collection, default heap
        # the compiled program has no switch that turns the collector off: its "collector never runs" reference is
        # the interpreter under -Wno-gc (stdout and exit status; the interpreter's stderr is the compiler's)
        long_ = prog.get("long", False)
        rcn, outn, errn, cpun, cmdn = nogc_run(prog)
        with lock: sw["natural_axis_runs"] += 1
        if rcn == 0 or prog["lib"] == "aldor":
            report("native", prog, (rcn, outn, ""), (rc0, out0, "" if not err0 else err0), "(unset: natural collection; reference: interpreter with -Wno-gc)", runcmd)
        n = native_allocs(exe, d, every=20000 if long_ else 500 if big else 50)
        sw["native_allocs"][prog["name"]] = n
        scheds = []
        if long_:
            ks = (200003, 500009) if not thorough else (50021, 200003, 500009, 1000003)
            scheds = [(k, rng.randrange(k)) for k in ks]
        elif big:
            ks = (2003, 5003) if not thorough else (503, 1009, 2003, 5003, 10007)
            scheds = [(k, rng.randrange(k)) for k in ks]
        elif not thorough:
            for k in (1, 2, 3):
                scheds += [(k, j) for j in range(k)]
            for k in (4, 5):
                scheds += [(k, j) for j in rng.sample(range(k), 2)]
            for k in (7, 10, 16, 25, 33, 50, 100, 257, 1000):
                scheds.append((k, rng.randrange(k)))
        else:
            for k in range(1, 51):
                scheds += [(k, j) for j in range(k)]
            for k in range(51, 1001):
                scheds += [(k, j) for j in rng.sample(range(k), 4)]
        jobs = [("%d,%d" % kj, n // kj[0]) for kj in scheds]
        if big:
            for w in range(2 if not thorough else 12):
                jobs.append(("1,0,%d,5" % (rng.randrange(min(n, 16000), n + 1) if long_ else max(0, n - rng.randrange(0, 6000))), 5))
        else:
            for w in range(6 if not thorough else 40):
                jobs.append(("1,0,%d,200" % rng.randrange(0, n + 1), 200))
        # natural collection after ONE forced collection
        nsingle = (6 if big else 4) if not thorough else 30
        for w in range(nsingle):
            skip = rng.randrange(min(n, 16000), n + 1) if w % 2 == 0 else rng.randrange(0, n + 1)     # ~17000 allocations initialise the libraries
            jobs.append(("1,0,%d,1" % skip, 1))
        def one(job):
            env, ncoll = job
            rc, out, err, cpu = run_cpu([exe], d, {"ALDOR_VERIF_GC": env}, 1800)
            with lock:
                sw["collections_forced_estimate"] += ncoll
                if env.endswith(",1"): sw["natural_axis_runs"] += 1
            report("native", prog, (rc0, out0, err0), (rc, out, err), env, runcmd)
        return [pool.submit(one, j) for j in jobs]

    t0 = time.time()
    first = [pool.submit(deep_job)]
    first += [pool.submit(native_job, p) for p in progs if p["native"]]
    first += [pool.submit(interp_job, p) for p in progs]
    second = []
    for f in first:
        r = f.result()
        if r: second += r
    for f in second:
        f.result()
    pool.shutdown()
    sw["wall_s"] = round(time.time() - t0, 1)
    stats["sweep"] = sw
    ctx.cov["evaluations"] += sw["runs"]

# =========================================================================================

def run_part(ctx, build):
    stats = {}
    build.build_runtime()
    exe = run_corr(ctx, build, stats)
    deep_probe(ctx, exe, stats)
    run_sweep(ctx, build, stats)
    ctx.cov["gc"] = stats
    return stats
