"""part `emit` (C18): every stdio call on an output stream (translate/emitclose.py -> Gen/EmitSites.lean),
Model/Emit.lean, Props/C18.lean, and end-to-end fault injection on the compiler built from /repo's tree."""
import hashlib, os, re, shutil, subprocess, sys, tempfile
from concurrent.futures import ThreadPoolExecutor
from vlib import common
from vlib.common import VERIF

NAME = "emit"
BUILD_TARGETS = ["AldorVerif.Props.C18"]
SOURCES = ["emit.c", "lib.c", "ccode.c", "sexpr.c", "file.c", "include.c", "ostream.c", "file.h"]
MODELLED = ("generated: every fclose/fflush/fwrite/fputs/fputc/putc/fprintf/vfprintf call on an output stream in "
            "emit.c lib.c ccode.c sexpr.c file.c include.c ostream.c with its result-use and output kind "
            "(Gen/EmitSites.lean); hand model: the open/write/flush/close sequence against a failing file system "
            "(Model/Emit.lean); libc buffering only as 'the error surfaces at a write, flush or close'")
_E = "AldorVerif.Emit."
THEOREMS = [("AldorVerif.Props.C18", _E + t) for t in (
    "checked_implies_honest", "all_sites_checked", "honest_today", "every_kind_has_checked_close",
    "unchecked_site_dishonest")]

PROGRAMS = {
"hello": '''#include "aldor"
#include "aldorio"
import from MachineInteger;
f(n: MachineInteger): MachineInteger == if n < 2 then 1 else n * f(n - 1);
stdout << "fact " << f 10 << newline;
''',
"counter": '''#include "aldor"
#include "aldorio"

Counter: with {
	new: MachineInteger -> %;
	bump: % -> %;
	value: % -> MachineInteger;
} == add {
	Rep == MachineInteger;
	import from Rep;
	new(n: MachineInteger): % == per n;
	bump(c: %): % == per(rep c + 1);
	value(c: %): MachineInteger == rep c;
}
import from Counter, MachineInteger;
stdout << value bump new 41 << newline;
''',
}
KINDS = ["ai", "ap", "asy", "ao", "fm", "lsp", "c", "java", "main"]

def aldor_cmd(build):
    R = common.ALDOR_TOP
    S = build.src
    return [build.aldor, "-Nfile=" + os.path.join(S, "aldor.conf"), "-Y" + os.path.join(R, "aldor/lib/libfoam/al"),
            "-I" + os.path.join(R, "lib/aldor/include"), "-Y" + os.path.join(R, "lib/aldor/src"), "-laldor"]

def tree_hashes(d, skip=()):
    out = {}
    for root, _, files in os.walk(d):
        for f in files:
            p = os.path.join(root, f)
            rel = os.path.relpath(p, d)
            if rel in skip: continue
            try:
                data = open(p, "rb").read()
                if rel.endswith(".java"):
                    # the order of local declarations in generated Java varies from run to run (not C18's
                    # subject): compare the multiset of lines
                    data = b"\n".join(sorted(data.split(b"\n")))
                out[rel] = hashlib.sha256(data).hexdigest()[:16] + ":%d" % os.path.getsize(p)
            except OSError:
                out[rel] = "unreadable"
    return out

def one_run(cmd, base, prog, flags, env=None, prep=None, cwd_removed=False, tmo=60):
    d = tempfile.mkdtemp(dir=base)
    src = os.path.join(d, prog + ".as")
    open(src, "w").write(PROGRAMS[prog])
    if prep: prep(d)
    e = dict(os.environ)
    if env: e.update(env)
    cwd = d
    arg = prog + ".as"
    argv = cmd + flags
    root = d
    tmpfs_kb = cwd_removed[1] if isinstance(cwd_removed, tuple) else None
    tmpfs_fill = isinstance(cwd_removed, tuple) and len(cwd_removed) > 2 and cwd_removed[2]
    if tmpfs_kb:
        # a real device of tmpfs_kb KiB: the compiler runs in a private mount namespace with a small tmpfs as
        # working directory (the source lies outside); what it left there is copied out before the namespace ends
        cwd = os.path.join(d, "work"); os.mkdir(cwd)
        root = os.path.join(d, "saved")
        arg = src
        argv = ["unshare", "-rm", "sh", "-c",
                'mount -t tmpfs -o size=%dk tmpfs "$0" && cd "$0" || exit 97; %s"$@"; rc=$?; rm -f .filler; cp -r . "$0/../saved"; exit $rc'
                % (tmpfs_kb, "head -c %d /dev/zero > .filler 2>/dev/null; " % (tmpfs_kb * 1024) if tmpfs_fill else ""),
                cwd] + argv
        cwd_removed = False
    elif cwd_removed:
        cwd = os.path.join(d, "gone"); os.mkdir(cwd)
        arg = src
    try:
        p = subprocess.Popen(argv + [arg], cwd=cwd, stdout=subprocess.PIPE, stderr=subprocess.PIPE, env=e,
                             start_new_session=True, preexec_fn=(lambda: os.rmdir(cwd)) if cwd_removed else None)
        try:
            out, err = p.communicate(timeout=tmo); rc = p.returncode
        except subprocess.TimeoutExpired:
            try: os.killpg(p.pid, 9)
            except OSError: pass
            out, err = p.communicate(); rc = "TIMEOUT"
    except Exception as ex:
        rc, out, err = "EXC", b"", repr(ex).encode()
    files = tree_hashes(root, skip=(prog + ".as", "faultio.log")) if os.path.isdir(root) else {}
    log = ""
    lp = os.path.join(d, "faultio.log")
    if os.path.exists(lp): log = open(lp).read()
    shutil.rmtree(d, ignore_errors=True)
    return rc, (out + err).decode("latin1"), files, log

# ------------------------------------------------------------------------------------------------
GEN = os.path.join(common.LEAN, "AldorVerif", "Gen", "EmitSites.lean")

def _translator():
    tdir = os.path.join(VERIF, "translate")
    if tdir not in sys.path: sys.path.insert(0, tdir)
    import emitclose
    return emitclose

def prepare(src_dir=None):
    """regenerate Gen/EmitSites.lean from the tree under test (called by run_parts before the Lean build):
    `all_sites_checked` is then re-proved by `decide` about exactly the stdio calls of that tree, and an
    unchecked fclose/fwrite that appears (or a check that disappears) breaks the proof."""
    ec = _translator()
    rows = ec.generate(src_dir or common.SRC)
    text = ec.lean_of(rows, src_dir or common.SRC)
    if not os.path.exists(GEN) or open(GEN).read() != text:
        os.makedirs(os.path.dirname(GEN), exist_ok=True)
        with open(GEN, "w") as f:
            f.write(text)
    return rows

def site_report(ctx, build):
    """statistics of the regenerated table; unchecked sites are named (the theorem all_sites_checked
    fails with them, the fault injection below looks for the run that shows it)"""
    rows = prepare(build.src)
    st = {"sites": len(rows), "unchecked": sum(1 for r in rows if not r["checked"]),
          "close_sites": sum(1 for r in rows if r["op"] == "close"), "by_use": {}, "kinds": sorted({r["kind"] for r in rows})}
    for r in rows:
        st["by_use"][r["use"]] = st["by_use"].get(r["use"], 0) + 1
    bad = [r for r in rows if not r["checked"]]
    if bad:
        st["unchecked_sites"] = ["%s:%s:%d %s [%s] %s" % (r["file"], r["func"], r["line"], r["callee"], r["kind"], r["use"]) for r in bad][:40]
        ctx.violation("emit|unchecked-site|" + "|".join(sorted({"%s:%s:%s:%s" % (r["file"], r["func"], r["callee"], r["kind"]) for r in bad}))[:300],
                      "%d stdio call(s) on output streams are unchecked (result not tested and no ferror consult before the close), "
                      "theorem all_sites_checked does not hold of this tree: %s" % (len(bad), "; ".join(st["unchecked_sites"][:6])),
                      {"kind": "unchecked-output-site", "sites": st["unchecked_sites"]}, found_input=False)
    missing = [k for k in ("ai", "ap", "asy", "ao", "fm", "lsp", "c", "java") if not any(r["kind"] == k and r["op"] == "close" for r in rows)]
    if missing:
        ctx.violation("emit|no-close-site|" + ",".join(missing),
                      "the translator finds no close of the output stream for kind(s) %s (the checked closing helper is gone?)" % missing,
                      {"kind": "generated-table", "missing": missing}, found_input=False)
    ctx.cov["emit_sites"] = st
    return rows

def tmpfs_works(base):
    """can an unprivileged mount namespace with a small tmpfs be made here?"""
    d = tempfile.mkdtemp(dir=base)
    rc, out, err = common.run(["unshare", "-rm", "sh", "-c",
                               'mount -t tmpfs -o size=4k tmpfs "$0" && cd "$0" && (head -c 9000 /dev/zero > x; test $? -ne 0)', d], timeout=30)
    shutil.rmtree(d, ignore_errors=True)
    return rc == 0

def build_shim(base):
    so = os.path.join(base, "faultio.so")
    rc, out, err = common.run(["gcc", "-shared", "-fPIC", "-O1", "-w", "-o", so, os.path.join(VERIF, "harness", "faultio.c"), "-ldl"])
    if rc != 0:
        raise RuntimeError("cannot build harness/faultio.c: " + err[-1000:])
    return so


# ------------------------------------------------------------------------------------------------
# no fault at all: are the requested outputs there, under the requested names, and fresh?
# ------------------------------------------------------------------------------------------------
FRESH = PROGRAMS["hello"].replace('"fact "', '"MARK fresh "')
STALE = PROGRAMS["hello"].replace('"fact "', '"MARK stale "').replace("f 10", "f 9")
PK = ["ai", "ap", "asy", "ao", "fm", "lsp", "c", "java", "main", "o", "x"]        # output kinds; "run" = -Grun
REQNAME = {"ai": "n_ai.ai", "ap": "n_ap.ap", "asy": "n_asy.asy", "ao": "n_ao.ao", "fm": "n_fm.fm", "lsp": "n_lsp.lsp",
           "c": "n_c.c", "o": "n_o.o", "x": "n_x", "main": "n_main.c"}      # -Fjava=<fn> is not a documented form
OPAQUE = ("o", "x")     # object code: compared by existence/size and, for the executable, by running it

def _norm(rel, data):
    if rel.endswith(".java"):
        return b"\n".join(sorted(data.split(b"\n")))
    return data

def _snapshot(d, skip):
    out = {}
    for root, _, files in os.walk(d):
        for f in files:
            p = os.path.join(root, f); rel = os.path.relpath(p, d)
            if rel in skip: continue
            try:
                data = open(p, "rb").read()
            except OSError:
                data = b"<unreadable>"
            out[rel] = (hashlib.sha256(_norm(rel, data)).hexdigest()[:16], len(data))
    return out

def present_run(cmd, base, text, flags, prep=None, as_nobody=False, tmo=120):
    d = tempfile.mkdtemp(dir=base)
    os.chmod(d, 0o777)
    open(os.path.join(d, "prog.as"), "w").write(text)
    os.chmod(os.path.join(d, "prog.as"), 0o644)
    before = {}
    if prep:
        prep(d)
        before = _snapshot(d, ("prog.as",))
    def demote():
        os.setgid(65534); os.setuid(65534)
    try:
        p = subprocess.Popen(cmd + flags + ["prog.as"], cwd=d, stdout=subprocess.PIPE, stderr=subprocess.PIPE,
                             start_new_session=True, preexec_fn=demote if as_nobody else None)
        try:
            out, err = p.communicate(timeout=tmo); rc = p.returncode
        except subprocess.TimeoutExpired:
            try: os.killpg(p.pid, 9)
            except OSError: pass
            out, err = p.communicate(); rc = "TIMEOUT"
    except Exception as ex:
        rc, out, err = "EXC", b"", repr(ex).encode()
    after = _snapshot(d, ("prog.as",))
    exe_out = {}
    for rel in after:
        q = os.path.join(d, rel)
        if (rel == "prog" or rel == REQNAME["x"]) and os.access(q, os.X_OK):
            try:
                r = subprocess.run([q], cwd=d, capture_output=True, timeout=30)
                exe_out[rel] = r.stdout.decode("latin1")
            except Exception as ex:
                exe_out[rel] = "cannot run: %r" % ex
    shutil.rmtree(d, ignore_errors=True)
    return rc, (out + err).decode("latin1"), before, after, exe_out

def run_present_matrix(ctx, build, base, cmd):
    from vlib import aldor as valdor
    thorough = ctx.tier == "thorough"
    rng = ctx.rng
    ccmd = cmd + valdor.c_opts(build)
    flag = lambda k, named=False: ("-Grun" if k == "run" else "-F" + k + ("=" + REQNAME[k] if named and k in REQNAME else ""))
    # 1. every kind alone in a clean directory: the reference files (fresh program) and the stale files (old program)
    ref, stale = {}, {}
    def alone(k_text):
        k, text = k_text
        return k_text, present_run(ccmd, base, text, [flag(k)])
    with ThreadPoolExecutor(16) as ex:
        for (k, text), r in ex.map(alone, [(k, t) for k in PK for t in (FRESH, STALE)]):
            rc, txt, _, after, exe_out = r
            if rc != 0 or not after:
                ctx.violation("emit|present|reference|" + k, "-F%s alone in a clean directory fails or writes nothing: rc=%s %s" % (k, rc, txt[-300:]),
                              {"kind": "setup", "flag": k, "rc": rc, "output": txt[-1000:]})
                return
            (ref if text is FRESH else stale)[k] = after
    default_names = {k: sorted(ref[k]) for k in PK}
    # documented by-product: with -Fo/-Fx/-Grun the generated main file is compiled too (prog-aldormain.o)
    all_known = {n for k in PK for n in default_names[k]} | set(REQNAME.values()) | {"prog-aldormain.o"}
    # the stale directory contents need the bytes: run once more keeping files (cheap) ------------
    stale_dir = tempfile.mkdtemp(dir=base)
    open(os.path.join(stale_dir, "prog.as"), "w").write(STALE)
    rc, out, err = common.run(ccmd + [flag(k) for k in PK] + ["prog.as"], cwd=stale_dir, timeout=300)
    stale_files = {}
    for root, _, files in os.walk(stale_dir):
        for f in files:
            rel = os.path.relpath(os.path.join(root, f), stale_dir)
            if rel != "prog.as":
                stale_files[rel] = (open(os.path.join(root, f), "rb").read(), os.stat(os.path.join(root, f)).st_mode & 0o777)
    kind_of_name = {n: k for k in PK for n in default_names[k]}
    missing_stale = [k for k in PK if not all(n in stale_files for n in default_names[k])]
    if rc != 0 or missing_stale:
        # all outputs requested at once in a clean directory: itself a cell of the matrix
        ctx.finding("emit|present|all-at-once|" + ",".join(missing_stale or ["rc"]),
                    "all output kinds requested at once (%s) in a clean directory: rc=%s, missing %s; %s" %
                    (" ".join(flag(k) for k in PK), rc, missing_stale, (out + err)[-300:]),
                    {"kind": "present-matrix", "flags": [flag(k) for k in PK], "rc": rc, "missing": missing_stale})
    def prep_for(state, named, kinds):
        """populate a directory with stale outputs; returns the preparation function"""
        if state == "clean": return None
        what = state.split("-", 1)[1]
        def prep(d):
            for rel, (data, mode) in stale_files.items():
                k = kind_of_name.get(rel)
                if what != "all" and k != what: continue
                targets = [rel]
                if named and k in REQNAME and k in kinds: targets.append(REQNAME[k])
                for t in targets:
                    q = os.path.join(d, t)
                    os.makedirs(os.path.dirname(q), exist_ok=True)
                    open(q, "wb").write(data)
                    os.chmod(q, 0o444 if state.startswith("readonly") else (mode | 0o666))
            for root, dirs, _ in os.walk(d):
                for x in dirs: os.chmod(os.path.join(root, x), 0o777)
        return prep
    # 2. the cells
    kinds_all = PK + ["run"]
    combos = [(k,) for k in kinds_all]
    combos += [(a, b) for i, a in enumerate(kinds_all) for b in kinds_all[i + 1:]]
    combos += [("c", "o", "x"), ("c", "x", "run"), ("c", "o", "run"), ("ao", "c", "o"), ("fm", "c", "x"), ("main", "c", "x"),
               ("main", "o", "run"), ("ao", "fm", "lsp"), ("c", "main", "o"), ("o", "x", "run"), ("ai", "c", "x")]
    cstates = ["stale-o", "stale-c", "stale-ao", "stale-fm", "stale-x", "readonly-c", "readonly-o", "readonly-ao"]
    cells = []
    for combo in combos:
        heavy = any(k in ("c", "o", "x", "run", "main") for k in combo)
        states = ["clean", "stale-all"]
        if heavy and (thorough or len(combo) <= 2 or True):
            states += cstates if (thorough or len(combo) >= 2) else ["stale-o", "readonly-c"]
        elif thorough:
            states += ["stale-ao", "stale-fm", "readonly-ao"]
        for st in states:
            for named in (False, True):
                if named and not any(k in REQNAME for k in combo): continue
                if named and not thorough and st not in ("clean", "stale-all", "stale-o", "readonly-c"): continue
                cells.append((combo, st, named))
    # (no sampling: the grid is the same for every seed, so that the set of problem classes is stable)
    root_user = (os.geteuid() == 0)
    if root_user:
        # read-only files mean nothing to root: those cells run as `nobody`, which must be able to reach the compiler
        try:
            os.chmod(build.top, 0o755)
        except OSError:
            pass
    def cell(c):
        combo, st, named = c
        flags = [flag(k, named) for k in combo]
        return c, present_run(ccmd, base, FRESH, flags, prep=prep_for(st, named, combo),
                              as_nobody=root_user and st.startswith("readonly"))
    hist = {}
    problems = {}
    with ThreadPoolExecutor(16) as ex:
        for (combo, st, named), r in ex.map(cell, cells):
            rc, txt, before, after, exe_out = r
            probs = []
            if rc == "TIMEOUT": probs.append(("hang", "-"))
            elif rc == "EXC": probs.append(("cannot-run", "-"))
            elif isinstance(rc, int) and (rc < 0 or rc >= 128 or "Program fault" in txt or "Compiler bug" in txt): probs.append(("crash", "-"))
            elif rc != 0:
                if not txt.strip(): probs.append(("silent-failure", "-"))
            else:
                for k in combo:
                    if k == "run":
                        if "MARK fresh 3628800" not in txt: probs.append(("run-output-missing", k))
                        continue
                    names = [REQNAME[k]] if (named and k in REQNAME) else default_names[k]
                    for n, dn in zip(names, default_names[k]):
                        if n not in after: probs.append(("missing", k)); continue
                        h, size = after[n]
                        if size == 0: probs.append(("empty", k)); continue
                        if before.get(n) == after[n] and stale[k].get(dn, (None,))[0] == h and ref[k][dn][0] != h:
                            probs.append(("stale", k)); continue
                        if k in OPAQUE:
                            if k == "x" and "MARK fresh 3628800" not in exe_out.get(n, ""):
                                probs.append(("stale" if "MARK stale" in exe_out.get(n, "") else "exe-does-not-run", k))
                        elif h != ref[k][dn][0]:
                            probs.append(("stale" if h == stale[k].get(dn, (None,))[0] else "differs", k))
                left = sorted(n for n in after if n not in before and n not in all_known)
                if left: probs.append(("leftover:" + re.sub(r"^pr[0-9A-Za-z]{6}\.", "prNNNNNN.", left[0]), "-"))
            stc = st.split("-")[0]
            outcome = "ok" if not probs and rc == 0 else "reported" if not probs else "PROBLEM"
            hist.setdefault(stc + ("/named" if named else ""), {}).setdefault(outcome, 0)
            hist[stc + ("/named" if named else "")][outcome] += 1
            for (prob, k) in probs:
                key = (prob, k, "named" if named else "default")
                problems.setdefault(key, []).append((combo, st, named, rc, txt, sorted(after), sorted(before)))
    for (prob, k, nm), exs in sorted(problems.items()):
        combo, st, named, rc, txt, after, before = exs[0]
        flags = [flag(x, named) for x in combo]
        ctx.finding("emit|present|%s|%s|%s" % (prob, k, nm),
                    "no fault injected, yet %s for output kind %s (%s name) in a %s directory: aldor %s prog.as -> exit status %s, files afterwards %s "
                    "(before: %s); %d cell(s), e.g. also %s; output: %r" %
                    (prob, k, nm, st, " ".join(flags), rc, after, before, len(exs),
                     ["%s in %s" % (" ".join(flag(x, n2) for x in c2), s2) for (c2, s2, n2, *_r) in exs[1:4]], txt[-200:]),
                    {"kind": "present-matrix", "program": FRESH, "stale_program": STALE, "flags": flags, "directory": st, "rc": rc,
                     "files_after": after, "files_before": before, "output": txt[-600:], "cells": len(exs),
                     "how": "stale directories hold the outputs of `aldor <all -F kinds> prog.as` for the stale program; "
                            "read-only cells run as uid 65534 when the check runs as root"})
    ctx.cov["emit_present"] = {"cells": len(cells), "by_directory": hist, "problems": sorted("%s|%s|%s" % k for k in problems),
                               "default_names": default_names,
                               "rule": "every kind alone, every pair of %s, eleven triples x {clean, stale outputs of all kinds, stale .o/.c/.ao/.fm/executable "
                                       "alone, read-only stale .c/.o/.ao} x {default names, -F<kind>=<name>}; quick: at most 900 cells" % kinds_all}
    ctx.cov["evaluations"] += len(cells) + 2 * len(PK)
    shutil.rmtree(stale_dir, ignore_errors=True)

def run_part(ctx, build):
    site_report(ctx, build)
    thorough = ctx.tier == "thorough"
    rng = ctx.rng
    base = common.scratch("aldor-verif-c18-")
    cmd = aldor_cmd(build)
    so = build_shim(base)
    have_tmpfs = tmpfs_works(base)
    ctx.cov["emit_tmpfs"] = "unshare -rm + tmpfs available" if have_tmpfs else "not available here: tmpfs-mid skipped (space-mid by the shim still runs)"
    progs = ["hello", "counter"]
    # 1. intact runs (with the shim loaded and logging, so that the operations can be counted)
    intact = {}
    jobs = []
    for prog in progs:
        for k in KINDS:
            jobs.append((prog, k))
    def do_intact(j):
        prog, k = j
        env = {"LD_PRELOAD": so, "FAULTIO_PATTERN": prog, "FAULTIO_LOG": "faultio.log"}
        return j, one_run(cmd, base, prog, ["-F" + k], env=env), one_run(cmd, base, prog, ["-F" + k])
    with ThreadPoolExecutor(16) as ex:
        for j, r, r0 in ex.map(do_intact, jobs):
            prog, k = j
            rc, txt, files, log = r
            if rc != 0 or not files or r0[0] != 0 or r0[2] != files:
                ctx.violation("emit|intact-run|%s|%s" % (prog, k),
                              "intact run of -F%s on %s.as fails or is not reproducible under the shim: rc=%s/%s files=%s/%s %s"
                              % (k, prog, rc, r0[0], files, r0[2], txt[-300:]), {"kind": "setup", "prog": prog, "flag": k, "rc": rc})
                continue
            ops = {"write": 0, "flush": 0, "close": 0}
            for ln in log.split("\n"):
                t = ln.split()
                if len(t) >= 4 and t[0] in ops: ops[t[0]] = max(ops[t[0]], int(t[1]))
            intact[j] = {"files": files, "ops": ops}
    # 2. faulty runs
    fjobs = []
    for (prog, k), info in sorted(intact.items()):
        target = sorted(info["files"])[0]
        tbase = os.path.basename(target)
        # real file system faults
        if k != "java":
            # (-Fjava=/dev/full would create /dev/aldorcode/<name>.java: the name is used as a directory prefix)
            fjobs.append((prog, k, "devfull", ["-F%s=/dev/full" % k], None, None, False))
        fjobs.append((prog, k, "isdir", ["-F" + k], None, (lambda d, t=target: os.makedirs(os.path.join(d, t))), False))
        fjobs.append((prog, k, "nodir", ["-F" + k], None, None, True))
        ops = info["ops"]
        def shim(op, n, sticky):
            return {"LD_PRELOAD": so, "FAULTIO_PATTERN": prog, "FAULTIO_OP": op, "FAULTIO_N": str(n),
                    "FAULTIO_STICKY": "1" if sticky else "0"}
        if ops["close"] >= 1:
            for n in range(1, ops["close"] + 1):
                fjobs.append((prog, k, "close", ["-F" + k], shim("close", n, False), None, False))
        if ops["write"] >= 1:
            w = ops["write"]
            picks = {("write-first", 1), ("write-mid", max(1, w // 2)), ("write-last", w)}
            if thorough:
                picks |= {("write-mid", rng.randint(1, w)) for _ in range(12)}
            for nm, n in sorted(picks):
                fjobs.append((prog, k, nm, ["-F" + k], shim("write", n, False), None, False))
            fjobs.append((prog, k, "write-sticky", ["-F" + k], shim("write", max(1, w // 3), True), None, False))
        # the device fills up in the middle of the output: writes beyond half of the intact size fail, a later
        # rewrite of the beginning (the .ao header, rewritten at offset 0 on close) succeeds
        size = max(int(v.rsplit(":", 1)[1]) for v in info["files"].values())
        if size >= 2:
            fjobs.append((prog, k, "space-mid", ["-F" + k],
                          {"LD_PRELOAD": so, "FAULTIO_PATTERN": prog, "FAULTIO_OP": "space", "FAULTIO_LIMIT": str(size // 2)},
                          None, False))
            fjobs.append((prog, k, "space-tail", ["-F" + k],
                          {"LD_PRELOAD": so, "FAULTIO_PATTERN": prog, "FAULTIO_OP": "space", "FAULTIO_LIMIT": str(size - 1)},
                          None, False))
        if have_tmpfs and size > 4096:
            # the same on a real file system: a tmpfs of about half the intact size (whole 4 KiB pages)
            fjobs.append((prog, k, "tmpfs-mid", ["-F" + k], None, None, ("tmpfs", 4 * max(1, size // 2 // 4096))))
        if have_tmpfs:
            # no byte free at all on the device that holds the working directory (for -Fjava: aldorcode/ is on it)
            fjobs.append((prog, k, "tmpfs-full", ["-F" + k], None, None, ("tmpfs", 4, True)))
        if ops["flush"] >= 1:
            fl = ops["flush"]
            for nm, n in sorted({("flush-first", 1), ("flush-mid", max(1, fl // 2)), ("flush-last", fl)}):
                fjobs.append((prog, k, nm, ["-F" + k], shim("flush", n, False), None, False))
            fjobs.append((prog, k, "flush-sticky", ["-F" + k], shim("flush", max(1, fl // 2), True), None, False))
    # several outputs requested at once, the fault on each in turn
    multi = ["c", "fm", "ao", "lsp"]
    for prog in progs[:1]:
        if all((prog, k) in intact for k in multi):
            allfiles = {}
            for k in multi: allfiles.update(intact[(prog, k)]["files"])
            intact[(prog, "+".join(multi))] = {"files": allfiles, "ops": {}}
            for k in multi:
                ext = sorted(intact[(prog, k)]["files"])[0]
                env = {"LD_PRELOAD": so, "FAULTIO_PATTERN": ext, "FAULTIO_OP": "close", "FAULTIO_N": "1", "FAULTIO_STICKY": "0"}
                fjobs.append((prog, "+".join(multi), "close-of-" + k, ["-F" + x for x in multi], env, None, False))
                fjobs.append((prog, "+".join(multi), "devfull-of-" + k,
                              ["-F" + x + ("=/dev/full" if x == k else "") for x in multi], None, None, False))
    def do_fault(j):
        prog, k, fault, flags, env, prep, rm = j
        return j, one_run(cmd, base, prog, flags, env=env, prep=prep, cwd_removed=rm)
    hist = {}
    dishonest = {}
    with ThreadPoolExecutor(16) as ex:
        for j, r in ex.map(do_fault, fjobs):
            prog, k, fault, flags, env, prep, rm = j
            rc, txt, files, log = r
            want = intact[(prog, k)]["files"]
            if fault.startswith("devfull"):
                # the redirected output can never be complete, unless `=name` was not honoured and the
                # default file was written in full
                complete = all(files.get(f) == h for f, h in want.items())
            elif fault == "isdir" or fault == "nodir" or fault == "tmpfs-full":
                complete = False
            else:
                complete = all(files.get(f) == h for f, h in want.items())
            if rc == 0 and complete: outcome = "ok-complete"
            elif rc == 0: outcome = "EXIT0-INCOMPLETE"
            elif rc == "TIMEOUT": outcome = "hang"
            elif isinstance(rc, int) and (rc < 0 or rc >= 128 or "Program fault" in txt): outcome = "crash"
            elif not txt.strip(): outcome = "nonzero-silent"
            else: outcome = "reported"
            hist.setdefault(k, {}).setdefault(fault, {}).setdefault(outcome, 0)
            hist[k][fault][outcome] += 1
            if outcome in ("EXIT0-INCOMPLETE", "hang", "crash", "nonzero-silent"):
                key = (k, fault, outcome)
                dishonest.setdefault(key, []).append((prog, flags, env, rc, txt, files, want))
    for (k, fault, outcome), exs in sorted(dishonest.items()):
        prog, flags, env, rc, txt, files, want = exs[0]
        sig = "emit|%s|%s" % (k, fault) if outcome == "EXIT0-INCOMPLETE" else "emit|%s|%s|%s" % (k, fault, outcome)
        missing = sorted(f for f in want if files.get(f) != want[f])
        what = ("output kind %s, fault %s: %s — aldor %s %s.as exits with status %s although %s; output: %r"
                % (k, fault, outcome, " ".join(flags), prog, rc,
                   ("the requested output cannot have been written" if not missing else
                    "%s is missing or differs from the intact run's file (%s vs %s)" %
                    (missing[0], files.get(missing[0], "absent"), want[missing[0]])), txt[-160:]))
        ctx.finding(sig, what, {"kind": "e2e-fault-injection", "program": PROGRAMS[prog], "flags": flags,
                                "env": {a: b for a, b in (env or {}).items() if a.startswith("FAULTIO")},
                                "shim": "harness/faultio.c (gcc -shared -fPIC -o faultio.so faultio.c -ldl; LD_PRELOAD)",
                                "fault": fault, "rc": rc, "files_after": files, "files_intact": want, "output": txt[-600:],
                                "runs": len(exs)})
    ctx.cov["emit_e2e"] = {"runs": len(fjobs) + 2 * len(jobs), "by_kind_fault_outcome": hist,
                           "dishonest": sorted("%s|%s|%s" % k for k in dishonest),
                           "ops_intact": {"%s:%s" % k: v["ops"] for k, v in intact.items() if v["ops"]},
                           "rule": "kinds %s x programs %s x {target /dev/full, target is a directory, working directory removed, "
                                   "n-th fclose, first/middle/last (thorough: random) write call, sticky write failure, fflush (ao), "
                                   "device full beyond half / all but the last byte of the file with rewrites of the beginning succeeding "
                                   "(shim `space`, and a real half-size tmpfs in a private mount namespace), a tmpfs with no byte free} "
                                   "+ four outputs at once with the fault on each in turn" % (KINDS, progs)}
    ctx.cov["evaluations"] += len(fjobs) + 2 * len(jobs)
    ctx.cov["distinct_nontrivial"] += sum(len(v) for v in hist.values())
    run_present_matrix(ctx, build, base, cmd)
