"""part `bitv` (C20): bitv.c vs Model/Bitv.lean.  Tie: hand model + correspondence (H).

One request line = one history on four registers of one class (`V <nbits> op op ...`).  The
python oracle keeps every register as a python int used as a bit set over the positions
< nbits (plus a mask of the positions whose value is defined) and judges the implementation's
answers: set algebra, equality (padding must not matter), max, counts, unique index, int
conversion, printing.  Raw words (`w`) are compared with the model (padding included) and judged
by the oracle on the defined positions only."""
import os
from vlib import common
from vlib.common import VERIF

NAME = "bitv"
BUILD_TARGETS = ["AldorVerif.Props.C20Bitv"]
SOURCES = ["bitv.c", "bitv.h"]
MODELLED = ("bitv.c: bitvClassCreate bitvSetAll bitvClearAll bitvTest bitvSet bitvClear bitvCopy bitvNot bitvAnd bitvOr "
            "bitvMinus bitvEqual bitvMax bitvCount bitvCountTo bitvUnique1IndexInRange bitvFromInt bitvToInt bitvToString "
            "bitvResize (in place and with reallocation) (not: bitvNew/bitvFree/bitvManyNew allocation, bitvPrint/bitvPrintDb to a FILE)")
THEOREMS = [("AldorVerif.Props.C20Bitv", "AldorVerif.Bitv." + t) for t in (
    "bitv_set_algebra", "bitv_wf", "bitv_set_clear_test", "bitv_equal_iff", "bitv_count_spec", "bitv_max_spec",
    "bitv_unique_spec", "bitv_fromInt_test", "bitv_resize_test")]

SIZES = [0, 1, 2, 3, 5, 7, 31, 32, 33, 63, 64, 65, 100, 127, 128, 129, 191, 192, 193, 200, 1000]

def nwords(nbits):
    return (nbits + 63) // 64

# ------------------------------------------------------------------ generators
def build_set(r, bits):
    return ["ca:%d" % r] + ["s:%d:%d" % (r, i) for i in bits]

def observe(r, nbits, full=True):
    ops = ["w:%d" % r, "ct:%d" % r, "mx:%d" % r, "p:%d" % r]
    if full:
        ops += ["t:%d:%d" % (r, i) for i in range(nbits)]
    if nbits < 32:
        ops.append("ti:%d" % r)
    return ops

def gen_exhaustive():
    """every pair of subsets of a 1-, 2-, 3- and 4-element universe through every operation"""
    out = []
    for nbits in (1, 2, 3, 4):
        for A in range(1 << nbits):
            for B in range(1 << nbits):
                ops = ["fi:0:%d" % A] + build_set(1, [i for i in range(nbits) if B >> i & 1])
                ops += ["=:0:1", "=:1:0", "=:0:0"]
                for o in "&|-":
                    ops += ["%s:2:0:1" % o] + observe(2, nbits)
                ops += ["n:2:0"] + observe(2, nbits) + ["n:3:2", "=:3:0"]
                ops += ["cp:3:1", "=:3:1", "u:0:0:%d" % nbits, "u:1:1:%d" % nbits, "cto:0:%d" % (nbits - 1)]
                # aliasing: r is also an operand
                ops += ["cp:2:0", "&:2:2:1", "w:2", "cp:2:0", "|:2:1:2", "w:2", "cp:2:0", "-:2:2:2", "w:2", "cp:2:0", "n:2:2", "w:2"]
                out.append("V %d %s" % (nbits, " ".join(ops)))
    return out

def gen_padding(sizes):
    """equal logical content, different padding bits: x = not(clear) has padding ones, y is built
    bit by bit; and one differing bit at every boundary position"""
    out = []
    for nbits in sizes:
        if nbits == 0:
            out.append("V 0 =:0:1 sa:0 =:0:1 p:0 w:0 ct:0 mx:0 n:1:0 =:0:1 u:0:0:0 cto:0:0")
            continue
        ops = ["ca:0", "n:1:0", "w:1"]                                   # 1 = everything, padding ones
        ops += ["s:2:%d" % i for i in range(nbits)] + ["w:2", "=:1:2", "=:2:1"]   # 2 = everything, padding zero
        ops += ["sa:3", "=:3:2", "=:3:1", "w:3"]
        for i in sorted({0, nbits - 1, (nbits - 1) // 64 * 64, max(0, (nbits - 1) // 64 * 64 - 1), nbits // 2}):
            ops += ["c:2:%d" % i, "=:1:2", "=:2:1", "mx:2", "ct:2", "s:2:%d" % i, "=:1:2"]
        ops += ["-:0:1:2", "w:0", "ct:0", "mx:0", "ca:3", "=:0:3"]       # 0 = only padding ones
        ops += ["n:0:0", "=:0:1", "ct:0"]
        out.append("V %d %s" % (nbits, " ".join(ops)))
    return out

def gen_resize(sizes):
    """bitvResize between every pair of boundary sizes: members below the old size survive, in
    the same words (shrink / growth inside the word count) or in a new allocation (growth into more
    words); then back and forth once more"""
    out = []
    for old in sizes:
        for new in sizes:
            if old == new and old > 3: continue
            bits = sorted({i for i in (0, 1, old // 2, old - 2, old - 1, 63, 64, 65) if 0 <= i < old})
            ops = ["s:0:%d" % i for i in bits] + ["sa:1", "n:2:0", "w:0", "w:1", "w:2", "rs:%d" % new]
            ops += ["w:%d" % r for r in range(4)]
            ops += ["t:%d:%d" % (r, i) for r in (0, 1, 2) for i in bits if i < new]
            if new > 0:
                ops += ["s:3:%d" % (new - 1), "t:3:%d" % (new - 1), "mx:3", "c:0:%d" % (new - 1), "s:0:0", "w:0"]
            ops += ["ca:3", "sa:1", "&:2:1:0", "=:2:0", "|:2:3:0", "=:2:0", "ct:1", "mx:1"]
            ops += ["rs:%d" % old, "w:0", "w:1", "rs:%d" % new, "w:0", "w:1", "=:2:2", "ct:3"]
            out.append("V %d %s" % (old, " ".join(ops)))
    return out

def gen_random(rng, nbits, nops, allow_resize=True):
    ops = []
    cur = nbits
    for _ in range(nops):
        r = rng.random()
        R = lambda: rng.randrange(4)
        def pos():
            if cur == 0: return None
            if rng.random() < 0.4:
                c = [0, cur - 1, 63, 64, 65, 127, 128, cur - 2, 31, 32]
                c = [x for x in c if 0 <= x < cur]
                return rng.choice(c)
            return rng.randrange(cur)
        if r < 0.22:
            p = pos()
            if p is not None: ops.append("%s:%d:%d" % (rng.choice("sssc"), R(), p))
        elif r < 0.30:
            p = pos()
            if p is not None: ops.append("t:%d:%d" % (R(), p))
        elif r < 0.50:
            ops.append("%s:%d:%d:%d" % (rng.choice("&|-"), R(), R(), R()))
        elif r < 0.58:
            ops.append("%s:%d:%d" % (rng.choice(("n", "cp")), R(), R()))
        elif r < 0.62:
            ops.append("%s:%d" % (rng.choice(("sa", "ca")), R()))
        elif r < 0.72:
            ops.append("=:%d:%d" % (R(), R()))
        elif r < 0.80:
            ops.append("%s:%d" % (rng.choice(("mx", "ct", "w", "p")), R()))
        elif r < 0.84:
            ops.append("cto:%d:%d" % (R(), rng.randint(0, cur)))
        elif r < 0.90:
            lim = rng.randint(0, cur); org = rng.randint(0, lim + 1)
            ops.append("u:%d:%d:%d" % (R(), org, lim))
        elif r < 0.975:
            if cur < 32:
                ops.append(rng.choice(("fi:%d:%d" % (R(), rng.randrange(1 << 31)), "ti:%d" % R())))
            else:
                ops.append("=:%d:%d" % (R(), R()))
        elif allow_resize:
            # shrink, grow inside the same number of words (the vector is returned unchanged), or
            # grow into more words (new allocation, old words copied, old vector freed)
            lo = 0
            hi = nwords(cur) * 64
            if rng.random() < 0.4:
                hi += rng.choice((1, 64, 65, 130, 300))
            n = rng.randint(lo, hi) if rng.random() < 0.5 else rng.choice([x for x in (hi, hi - 1, hi - 63, hi - 64, hi - 65, 31, 1, 0) if 0 <= x <= hi])
            ops.append("rs:%d" % n); cur = n
    for k in range(4):
        ops += ["w:%d" % k, "ct:%d" % k]
    return "V %d %s" % (nbits, " ".join(ops))

# ------------------------------------------------------------------ oracle
def mask(n):
    return (1 << n) - 1

def oracle(line, answer):
    toks = line.split()
    nbits = int(toks[1]); ops = toks[2:]
    res = answer.split(";") if ops else []
    if len(res) != len(ops):
        return False, min(len(res), len(ops)) - 1, "number of results %d != number of ops %d" % (len(res), len(ops))
    val = [0, 0, 0, 0]                # logical content
    known = [mask(nbits)] * 4         # positions whose value is defined
    for j, (op, r) in enumerate(zip(ops, res)):
        f = op.split(":"); a = [int(x) for x in f[1:]]
        full = mask(nbits)
        def bad(why): return False, j, why
        try:
            o = f[0]
            if o in ("sa", "ca", "s", "c", "cp", "n", "&", "|", "-", "fi", "rs"):
                if r != ".": return bad("mutating op answered %r" % r)
            if o == "sa": val[a[0]] = full; known[a[0]] = full
            elif o == "ca": val[a[0]] = 0; known[a[0]] = full
            elif o == "s": val[a[0]] |= 1 << a[1]; known[a[0]] |= 1 << a[1]
            elif o == "c": val[a[0]] &= ~(1 << a[1]); known[a[0]] |= 1 << a[1]
            elif o == "cp": val[a[0]] = val[a[1]]; known[a[0]] = known[a[1]]
            elif o == "n": val[a[0]] = ~val[a[1]] & full; known[a[0]] = known[a[1]]
            elif o in "&|-" and len(a) == 3:
                x, y = val[a[1]], val[a[2]]
                kx, ky = known[a[1]], known[a[2]]
                v = (x & y) if o == "&" else (x | y) if o == "|" else (x & ~y)
                val[a[0]] = v & full; known[a[0]] = kx & ky
            elif o == "fi": val[a[0]] = a[1] & full; known[a[0]] = full
            elif o == "rs":
                new = a[0]
                for k in range(4):
                    known[k] &= mask(min(nbits, new)); val[k] &= mask(min(nbits, new))
                nbits = new
            elif o == "t":
                if known[a[0]] >> a[1] & 1 and int(r) != (val[a[0]] >> a[1] & 1):
                    return bad("bitvTest(r%d,%d) = %s" % (a[0], a[1], r))
            elif o == "=":
                if known[a[0]] == full and known[a[1]] == full and int(r) != int(val[a[0]] == val[a[1]]):
                    return bad("bitvEqual = %s for sets %x and %x" % (r, val[a[0]], val[a[1]]))
            elif o == "mx":
                if known[a[0]] == full and int(r) != val[a[0]].bit_length() - 1:
                    return bad("bitvMax = %s, largest member %d" % (r, val[a[0]].bit_length() - 1))
            elif o == "ct":
                if known[a[0]] == full and int(r) != bin(val[a[0]]).count("1"):
                    return bad("bitvCount = %s, set has %d members" % (r, bin(val[a[0]]).count("1")))
            elif o == "cto":
                m = mask(a[1])
                if known[a[0]] & m == m and int(r) != bin(val[a[0]] & m).count("1"):
                    return bad("bitvCountTo(%d) = %s" % (a[1], r))
            elif o == "u":
                org, lim = a[1], a[2]
                m = mask(lim) & ~mask(org) if lim > org else 0
                if known[a[0]] & m == m:
                    s = val[a[0]] & m
                    want = s.bit_length() - 1 if bin(s).count("1") == 1 else -1
                    if int(r) != want: return bad("bitvUnique1IndexInRange(%d,%d) = %s, want %d" % (org, lim, r, want))
            elif o == "ti":
                if known[a[0]] == full and int(r) != val[a[0]]:
                    return bad("bitvToInt = %s, set is %d" % (r, val[a[0]]))
            elif o == "p":
                if known[a[0]] == full:
                    s = "[" + "".join(("1" if val[a[0]] >> i & 1 else "0") + (" " if i % 5 == 4 else "") for i in range(nbits)) + "]"
                    if r != s: return bad("bitvToString = %r, want %r" % (r[:60], s[:60]))
            elif o == "w":
                ws = [int(x, 16) for x in r.split(",")] if r else []
                if len(ws) != nwords(nbits): return bad("%d words for %d bits" % (len(ws), nbits))
                raw = sum(w << (64 * i) for i, w in enumerate(ws))
                if (raw & known[a[0]]) != (val[a[0]] & known[a[0]]):
                    return bad("raw words %x do not hold the set %x" % (raw & full, val[a[0]]))
            else:
                if r != "bad-op": return bad("unknown op answered %s" % r)
        except (ValueError, IndexError) as ex:
            return bad("unparsable result %r (%s)" % (r[:80], ex))
    return True, -1, ""

def first_diff(a, b):
    ra, rb = a.split(";"), b.split(";")
    for j in range(min(len(ra), len(rb))):
        if ra[j] != rb[j]: return j
    return min(len(ra), len(rb))

def truncate(line, j):
    toks = line.split()
    return " ".join(toks[:2 + j + 1])

def merge_tags(hist, tagline):
    for t in tagline.split():
        if "=" in t:
            k, v = t.rsplit("=", 1)
            hist[k] = hist.get(k, 0) + int(v)

def run_part(ctx, build):
    exe = build.cc_driver("bitv_drv", os.path.join(VERIF, "harness", "bitv_drv.c"))
    rng = ctx.rng
    thorough = ctx.tier == "thorough"
    lines = []
    corp = os.path.join(VERIF, "corpus", "bitv")
    if os.path.isdir(corp):
        for f in sorted(os.listdir(corp)):
            lines += [l.strip() for l in open(os.path.join(corp, f)) if l.strip() and not l.startswith("#")]
    ncorpus = len(lines)
    lines += gen_exhaustive()
    lines += gen_padding(SIZES if not thorough else sorted(set(SIZES + list(range(0, 260)))))
    lines += gen_resize([0, 1, 31, 63, 64, 65, 128, 129, 200] if not thorough else SIZES)
    nexh = len(lines) - ncorpus
    for _ in range(6000 if not thorough else 40000):
        u = rng.random()
        nb = rng.choice(SIZES) if u < 0.6 else rng.choice((64, 128, 192, 256)) if u < 0.8 else rng.randint(0, 400)
        lines.append(gen_random(rng, nb, rng.randint(10, 150)))
    c = common.run_impl_lines(exe, lines)
    m, tags = common.split_model(common.run_model("bitv", "\n".join(lines) + "\n"))
    assert len(m) == len(lines), (len(m), len(lines))
    stats = {"lines": len(lines), "corpus": ncorpus, "exhaustive_and_directed": nexh, "ops": 0,
             "mismatch": 0, "faults": 0, "distinct_results": 0}
    hist = {}
    seen = set()
    for k, ln in enumerate(lines):
        co = c[k] if k < len(c) else "MISSING"
        mo = m[k]
        merge_tags(hist, tags[k])
        nops = len(ln.split()) - 2
        stats["ops"] += nops
        seen.add(hash(co))
        short = ln if len(ln) < 1500 else ln[:1500] + " ...(%d ops)" % nops
        if co.startswith("FAULT") or co in ("MISSING", "SKIPPED"):
            stats["faults"] += 1
            ctx.finding("bitv|fault", "bitv.c faults (%s) on: %s" % (co, short),
                        {"kind": "impl-fault", "driver": "harness/bitv_drv.c", "line": ln, "impl": co, "model": mo[:2000]})
            continue
        ok, j, why = oracle(ln, co)
        if co != mo:
            stats["mismatch"] += 1
            jd = first_diff(co, mo)
            if not ok:
                ctx.finding("bitv|set-algebra|" + ln.split()[2 + j].split(":")[0],
                            "bitv.c does not implement set algebra: op %d (%s) of `%s`: %s" % (j, ln.split()[2 + j], short, why),
                            {"kind": "impl-violates-property", "line": truncate(ln, j), "op_index": j, "why": why,
                             "impl": co.split(";")[j][:300], "model": (mo.split(";") + [""] * (j + 1))[j][:300],
                             "replay_cmd": "echo '<line>' | <bitv_drv built by ./check C20>"})
            else:
                ctx.corr_broken.append(("bitv", truncate(ln, jd), (co.split(";") + [""] * (jd + 1))[jd][:300],
                                        (mo.split(";") + [""] * (jd + 1))[jd][:300]))
        elif not ok:
            ctx.violation("bitv|model-and-impl-wrong|" + ln.split()[2 + j].split(":")[0],
                          "implementation and model agree on `%s` but op %d: %s (contradicts bitv_set_algebra: model/driver defect)" % (short, j, why),
                          {"kind": "inconsistent", "line": truncate(ln, j), "why": why})
        if k % 700 == 5:
            ctx.sample({"module": "bitv", "request": short[:300], "impl": co[:300], "model": mo[:300], "tags": tags[k][:300]})
    stats["distinct_results"] = len(seen)
    stats["branch_tags"] = dict(sorted(hist.items()))
    ctx.cov["bitv"] = stats
    ctx.cov["evaluations"] += stats["ops"]
    ctx.cov["distinct_nontrivial"] += len(seen)
    return stats
