"""part `xfloat` (C19): xfloat.c, util.c (bf*), buffer.c (bufWr/RdSFloat, bufWr/RdDFloat), foam_c.c
(fi[SD]FloDissemble/Assemble) vs Model/XFloat.lean.  Tie: hand model + correspondence (H).
Plus an end-to-end sub-check (`e2e`, below): generated Aldor programs print float constants bit-exactly on twelve
routes (interpreter / executable / saved .ao / saved .fm, each at -Q0, -Q2, -Q3); findings `xfloat-e2e|<route>|<class>`."""
import os, shutil, struct, subprocess
from vlib import common
from vlib.common import VERIF

NAME = "xfloat"
BUILD_TARGETS = ["AldorVerif.Props.C19"]
SOURCES = ["xfloat.c", "xfloat.h", "util.c", "buffer.c", "foam_c.c", "of_cfold.c", "cport.h", "genc.c", "of_peep.c", "fint.c"]
MODELLED = ("util.c: bfShiftUp bfShiftDn bfFirst1; xfloat.c: sfClassify dfClassify xsfClassify xdfClassify "
            "sfDissemble dfDissemble xsfDissemble xdfDissemble sfAssemble dfAssemble xsfAssemble xdfAssemble "
            "xsfToNative xdfToNative xsfFrNative xdfFrNative fracNormalize fracDenormalize (format constants of this "
            "build, compared on every run); buffer.c: bufWrSFloat bufRdSFloat bufWrDFloat bufRdDFloat (over bufAddn/bufGetn); "
            "foam_c.c: fiSFloDissemble fiSFloAssemble fiDFloDissemble fiDFloAssemble; literal conversion sites "
            "of_cfold.c cfoldBCall cases ArrToSFlo/ArrToDFlo (+ cfoldArrToString) and foam_c.c fiArrToSFlo/fiArrToDFlo with libc atof "
            "and the C cast as parameters (the model driver supplies correctly rounded ones) "
            "(not: xdfPrint, xfloatDumpInfo, fiDFloMantissa/Exponent, the decimal printers)")
THEOREMS = [("AldorVerif.Props.C19", "AldorVerif.XFloat." + t) for t in (
    "xsf_roundtrip", "xsf_roundtrip_nan", "xdf_roundtrip", "xdf_roundtrip_nan",
    "xsfFrNative_injective", "xdfFrNative_injective", "xsf_size", "xdf_size",
    "sf_assemble_dissemble", "df_assemble_dissemble", "sf_dissemble_fields", "df_dissemble_fields",
    "fi_sflo_assemble_dissemble", "fi_dflo_assemble_dissemble", "fi_dflo_assemble_sig1_irrelevant",
    "sf_classify_ieee", "df_classify_ieee", "sf_classify_nan", "df_classify_nan",
    "buf_sfloat_roundtrip", "buf_dfloat_roundtrip", "buf_sequence_roundtrip",
    "literal_same_conversion", "literal_same_conversion_dflo", "literal_characters",
    "bfShiftUp_val", "bfShiftDn_val", "bfFirst1_spec")]

M32, M64 = (1 << 32) - 1, (1 << 64) - 1

# ------------------------------------------------------------------ IEEE oracles (python, independent of the model)
def isnan32(x): return (x >> 23) & 0xff == 0xff and x & 0x7fffff != 0
def isnan64(x): return (x >> 52) & 0x7ff == 0x7ff and x & ((1 << 52) - 1) != 0

def cls32(x):
    e, f = (x >> 23) & 0xff, x & 0x7fffff
    return ("zero" if f == 0 else "denorm") if e == 0 else (("inf" if f == 0 else "nan") if e == 0xff else "norm")

def cls64(x):
    e, f = (x >> 52) & 0x7ff, x & ((1 << 52) - 1)
    return ("zero" if f == 0 else "denorm") if e == 0 else (("inf" if f == 0 else "nan") if e == 0x7ff else "norm")

def same_value32(x, r):
    """the property: same bits, NaN stays NaN"""
    return isnan32(r) if isnan32(x) else r == x

def same_value64(x, r):
    return isnan64(r) if isnan64(x) else r == x

def decode_x(b, fracbytes):
    """(sign, exponent field, fraction) of a portable encoding (layout of xfloat.h: s eeeeeeeeeeeeeee f...)"""
    w0 = (b[0] << 8) | b[1]
    sign, field = w0 >> 15, w0 & 0x7fff
    frac = int.from_bytes(b[2:2 + fracbytes], "big")
    return sign, field, frac

def expected_portable32(x):
    """(sign, exponent field, fraction) the format description of xfloat.h gives for a single"""
    s, e, f = x >> 31, (x >> 23) & 0xff, x & 0x7fffff
    if e == 0xff: return s, 0x7fff, f << 9
    if e == 0 and f == 0: return s, 0, 0
    if e == 0:
        k = 23 - f.bit_length()            # zeros in front of the first 1 inside the 23-bit field
        return s, (-127 - (k + 1) + 0x3ffe) & 0x7fff, ((f << 9) << (k + 1)) & M32
    return s, e - 127 + 0x3ffe, f << 9

def expected_portable64(x):
    s, e, f = x >> 63, (x >> 52) & 0x7ff, x & ((1 << 52) - 1)
    if e == 0x7ff: return s, 0x7fff, f << 12
    if e == 0 and f == 0: return s, 0, 0
    if e == 0:
        k = 52 - f.bit_length()
        return s, (-1023 - (k + 1) + 0x3ffe) & 0x7fff, ((f << 12) << (k + 1)) & M64
    return s, e - 1023 + 0x3ffe, f << 12

# ------------------------------------------------------------------ generators
def fracs(bits, full):
    ones = (1 << bits) - 1
    alt = int("01" * 40, 2) & ones
    out = [0, 1, ones, alt, ones ^ alt, ones - 1, 1 << (bits - 1)]
    pos = range(bits) if full else sorted({0, 1, 2, 7, 8, 9, 15, 16, 20, 21, 22, 23, 24, 25, 31, 32, 33, 40, 47, 48, 50, bits - 2, bits - 1} & set(range(bits)))
    for p in pos:
        out.append(1 << p)
    seen, res = set(), []
    for f in out:
        if f not in seen:
            seen.add(f); res.append(f)
    return res

def rnd_pattern(rng, bits, expbits):
    """random pattern with boundary-heavy exponent field"""
    fb = bits - 1 - expbits
    r = rng.random()
    emax = (1 << expbits) - 1
    if r < 0.15: e = 0
    elif r < 0.25: e = emax
    elif r < 0.35: e = rng.choice((1, 2, emax - 1, emax // 2, emax // 2 + 1))
    else: e = rng.randint(0, emax)
    r = rng.random()
    if r < 0.1: f = 0
    elif r < 0.2: f = 1 << rng.randrange(fb)
    elif r < 0.3: f = rng.getrandbits(fb) >> rng.randrange(fb)      # leading zeros
    elif r < 0.4: f = (rng.getrandbits(fb) << rng.randrange(fb)) & ((1 << fb) - 1)   # trailing zeros
    else: f = rng.getrandbits(fb)
    return (rng.getrandbits(1) << (bits - 1)) | (e << fb) | f

def rnd_bytes(rng, n):
    r = rng.random()
    if r < 0.1: return bytes(n)
    if r < 0.2: return bytes([0xff] * n)
    b = bytearray(rng.getrandbits(8) for _ in range(n))
    if r < 0.45 and n:                          # leading zero bytes / bits
        k = rng.randrange(n + 1)
        for i in range(k): b[i] = 0
        if k < n: b[k] &= 0xff >> rng.randrange(8)
    elif r < 0.6 and n:
        b = bytearray(n); b[rng.randrange(n)] = 1 << rng.randrange(8)
    return bytes(b)

def rnd_decimal(rng, emin, emax):
    """a decimal literal [-]digits[.digits][e[+-]digits] with its magnitude spread over the whole
    exponent range (including beyond both ends)"""
    nd = rng.choice((1, 1, 2, 3, 7, 8, 9, 15, 16, 17, 18, 20, 25, rng.randint(1, 30)))
    digs = "".join(rng.choice("0123456789") for _ in range(nd))
    if rng.random() < 0.2: digs = rng.choice(("1", "5", "9", "10", "25", "125", "999", "4999999", "5000001")) + "0" * rng.randint(0, 3)
    r = rng.random()
    if r < 0.25: m = digs
    elif r < 0.35: m = digs + "."
    elif r < 0.45: m = "." + digs
    else:
        k = rng.randint(0, len(digs))
        m = (digs[:k] or "0") + "." + (digs[k:] or "0")
    r = rng.random()
    if r < 0.25: e = ""
    else:
        lead = len(m.split(".")[0].lstrip("0"))
        if r < 0.5: target = rng.choice((-emin - 2, -emin - 1, -emin, -emin + 1, -emin + 8, -emin + 17, emax - 1, emax, emax + 1, -1, 0, 1))
        else: target = rng.randint(-emin - 3, emax + 2)
        e = rng.choice("eE") + rng.choice(("", "", "+") if target - lead >= 0 else ("",)) + str(target - lead + 1)
    return rng.choice(("", "", "", "-", "+")) + m + e

def f32_of_double(d):
    try: return struct.unpack(">I", struct.pack(">f", d))[0]
    except OverflowError: return 0xff800000 if d < 0 else 0x7f800000

def hx(b):
    return b.hex() if len(b) else "-"

def gen_lines(ctx):
    rng = ctx.rng
    thorough = ctx.tier == "thorough"
    L = ["consts"]
    corp = os.path.join(VERIF, "corpus", "xfloat")
    if os.path.isdir(corp):
        for f in sorted(os.listdir(corp)):
            L += [l.strip() for l in open(os.path.join(corp, f)) if l.strip() and not l.startswith("#")]
    ncorpus = len(L) - 1
    # every exponent x boundary fractions x both signs
    n0 = len(L)
    for e in range(256):
        for f in fracs(23, True):
            for s in (0, 1):
                x = (s << 31) | (e << 23) | f
                L.append("xsf %08x" % x)
                if s == 0 or f in (0, 1): L.append("sfdis %08x" % x)
    special = {0, 1, 2, 3, 1022, 1023, 1024, 2045, 2046, 2047}
    for e in range(2048):
        full = thorough or e in special
        for f in fracs(52, full):
            for s in (0, 1):
                x = (s << 63) | (e << 52) | f
                L.append("xdf %016x" % x)
                if (s == 0 and (full or f in (0, 1, (1 << 52) - 1))): L.append("dfdis %016x" % x)
    nexh = len(L) - n0
    nrand = 200000 if thorough else 20000
    for _ in range(nrand):
        x = rnd_pattern(rng, 32, 8); L.append("xsf %08x" % x)
        x = rnd_pattern(rng, 64, 11); L.append("xdf %016x" % x)
    for _ in range(nrand // 4):
        L.append("sfdis %08x" % rnd_pattern(rng, 32, 8))
        L.append("dfdis %016x" % rnd_pattern(rng, 64, 11))
    for _ in range(nrand // 10):
        items = []
        for _ in range(rng.randint(1, 6)):
            if rng.random() < 0.5: items.append("s %08x" % rnd_pattern(rng, 32, 8))
            else: items.append("d %016x" % rnd_pattern(rng, 64, 11))
        L.append("buf " + " ".join(items))
    # the helpers, on general arguments
    for nb in (0, 1, 2):
        vals = [bytes(nb)] if nb == 0 else [bytes(v) for v in ([(a,) for a in (0, 1, 0x80, 0x81, 0xff, 0x5a)] if nb == 1 else
                                                               [(a, b) for a in (0, 1, 0x80, 0xff) for b in (0, 1, 0x80, 0xa5, 0xff)])]
        for v in vals:
            L.append("first1 " + hx(v))
            for nsh in range(0, 8 * nb + 10):
                for al in (0, 1):
                    for bf in (0, 1):
                        L.append("shup %s %d %d %d" % (hx(v), nsh, bf, al))
                    for b0 in (0, 1):
                        for b1 in (0, 1):
                            L.append("shdn %s %d %d %d %d" % (hx(v), nsh, b0, b1, al))
    for _ in range(nrand // 2):
        nb = rng.choice((1, 2, 3, 4, 4, 4, 5, 8, 8, 8, 10, 16))
        v = rnd_bytes(rng, nb)
        nsh = rng.choice((0, 1, 4, 7, 8, 9, 8 * nb - 1, 8 * nb, 8 * nb + 1, 8 * nb + 9)) if rng.random() < 0.3 else rng.randint(0, 8 * nb + 12)
        zero_fill = rng.random() < 0.7
        al = 1 if rng.random() < 0.7 else 0
        L.append("shup %s %d %d %d" % (hx(v), nsh, 0 if zero_fill else 1, al))
        L.append("shdn %s %d %d %d %d" % (hx(v), nsh, 0 if zero_fill else 1, rng.getrandbits(1), al))
        L.append("first1 " + hx(v))
        L.append("norm %d %s" % (rng.randint(-20000, 20000), hx(v)))
        emin = rng.choice((-127, -1023, -64, 0, 5))
        L.append("denorm %d %d %s %d %d" % (emin + rng.choice((1, 0, -1, -2, -7, -8, -9, -23, -24, -52, -53, -8 * nb, -8 * nb - 1, -rng.randint(0, 90))),
                                            emin, hx(v), rng.choice((0, 0, 0, 1, 2)), rng.getrandbits(1)))
    for _ in range(nrand // 2):
        s = rng.getrandbits(1)
        L.append("sfasm %d %d %s" % (s, rng.choice((-127, -126, 0, 127, 128, rng.randint(-300, 300))), hx(rnd_bytes(rng, 4))))
        L.append("dfasm %d %d %s" % (s, rng.choice((-1023, -1022, 0, 1023, 1024, rng.randint(-2100, 2100))), hx(rnd_bytes(rng, 8))))
        L.append("xsfasm %d %d %s" % (s, rng.choice((-16382, 16385, 0, rng.randint(-17000, 17000))), hx(rnd_bytes(rng, 4))))
        L.append("xdfasm %d %d %s" % (s, rng.choice((-16382, 16385, 0, rng.randint(-17000, 17000))), hx(rnd_bytes(rng, 8))))
        # arbitrary portable encodings, exponent fields around every branch boundary of xsfToNative/xdfToNative
        for kind, fb, ex in (("xsf", 4, 127), ("xdf", 8, 1023)):
            r = rng.random()
            if r < 0.35: field = 0x3ffe + rng.choice((-ex - 8 * fb - 2, -ex - 8 * fb - 1, -ex - 8 * fb, -ex - 24, -ex - 23, -ex - 2, -ex - 1, -ex, -ex + 1, ex, ex + 1, ex + 2))
            elif r < 0.5: field = rng.choice((0, 1, 0x7ffe, 0x7fff))
            elif r < 0.8: field = 0x3ffe + rng.randint(-ex - 8 * fb - 4, ex + 3)
            else: field = rng.getrandbits(15)
            field &= 0x7fff
            w0 = (rng.getrandbits(1) << 15) | field
            x = bytes([w0 >> 8, w0 & 0xff]) + rnd_bytes(rng, fb)
            L.append("%sdis %s" % (kind, hx(x)))
            L.append("%sto %s" % (kind, hx(x)))
    # decimal literals through the folder (of_cfold.c) and the runtime conversion (foam_c.c)
    for _ in range(nrand // 4):
        L.append("lit s " + rnd_decimal(rng, 45, 38))
        L.append("lit d " + rnd_decimal(rng, 324, 308))
    # strided samples through the loops inside both drivers
    st = 0x101 if thorough else 0x10001
    if not thorough:
        L.append("hash32 0 100000000 %x" % st)
    L.append("hash64 %x %d" % (rng.getrandbits(63), 200000 if thorough else 20000))
    L.append("sweep32 %x %x" % (0x7f7fff00, 0x7f800100))
    L.append("sweep32 %x %x" % (0x807fff00, 0x80800100))
    L.append("sweep32 0 %x" % 0x4000)
    return L, ncorpus, nexh

def big(b): return int.from_bytes(b, "big")

def helper_oracle(toks, co):
    """documented behaviour of the bit-field helpers on the argument region xfloat.c uses
    (in-place or sub-byte shifts, zero fill).  Returns (checked, ok, why)."""
    try:
        op = toks[0]
        if op == "first1":
            v = bytes.fromhex("" if toks[1] == "-" else toks[1])
            exp = -1 if big(v) == 0 else 8 * len(v) - big(v).bit_length()
            return True, int(co) == exp, "first 1 bit is at %d" % exp
        if op == "shup":
            v = bytes.fromhex("" if toks[1] == "-" else toks[1]); nsh, bf, al = int(toks[2]), int(toks[3]), int(toks[4])
            if bf == 0 and (al == 1 or nsh < 8):
                exp = (big(v) << nsh) & ((1 << (8 * len(v))) - 1)
                return True, co == hx(exp.to_bytes(len(v), "big")), "shifted value is %x" % exp
            return False, True, ""
        if op == "shdn":
            v = bytes.fromhex("" if toks[1] == "-" else toks[1]); nsh, b0, b1, al = int(toks[2]), int(toks[3]), int(toks[4]), int(toks[5])
            if b0 == 0 and (al == 1 or nsh < 8):
                exp = ((big(v) + (b1 << (8 * len(v)))) >> nsh) & ((1 << (8 * len(v))) - 1)
                return True, co == hx(exp.to_bytes(len(v), "big")), "shifted value is %x" % exp
            return False, True, ""
        if op == "norm":
            e = int(toks[1]); v = bytes.fromhex("" if toks[2] == "-" else toks[2])
            if big(v) == 0: exp = "%d %s" % (e, hx(v))
            else:
                k = 8 * len(v) - big(v).bit_length()
                exp = "%d %s" % (e - (k + 1), hx(((big(v) << (k + 1)) & ((1 << (8 * len(v))) - 1)).to_bytes(len(v), "big")))
            return True, co == exp, "normalised is " + exp
        if op == "denorm":
            e, emin = int(toks[1]), int(toks[2]); v = bytes.fromhex("" if toks[3] == "-" else toks[3]); lg, h1 = int(toks[4]), int(toks[5])
            if e > emin: exp = "%d %s" % (e, hx(v))
            else:
                nsh = (emin - e) << lg
                exp = "%d %s" % (emin, hx((((big(v) + (h1 << (8 * len(v)))) >> nsh) & ((1 << (8 * len(v))) - 1)).to_bytes(len(v), "big")))
            return True, co == exp, "denormalised is " + exp
    except Exception as ex:
        return True, False, "unparsable answer %r (%s)" % (co, ex)
    return False, True, ""

def prop_oracle(toks, co):
    """C19's executable form on the implementation's answer.  Returns (checked, ok, why)."""
    try:
        op = toks[0]
        if op in ("xsf", "xdf"):
            x = int(toks[1], 16)
            pb, r = co.split()
            pb = bytes.fromhex(pb); r = int(r, 16)
            if op == "xsf":
                if len(pb) != 6: return True, False, "portable encoding has %d bytes" % len(pb)
                if not same_value32(x, r): return True, False, "round trip gives %08x" % r
                if decode_x(pb, 4) != expected_portable32(x): return True, False, "portable encoding %s is not (sign,exp,frac)=%r" % (pb.hex(), expected_portable32(x))
            else:
                if len(pb) != 10: return True, False, "portable encoding has %d bytes" % len(pb)
                if not same_value64(x, r): return True, False, "round trip gives %016x" % r
                if decode_x(pb, 8) != expected_portable64(x): return True, False, "portable encoding %s is not (sign,exp,frac)=%r" % (pb.hex(), expected_portable64(x))
            return True, True, ""
        if op in ("sfdis", "dfdis"):
            x = int(toks[1], 16)
            s, e, sig0, isz, cls, r = co.split()
            s, e, sig0, isz, r = int(s), int(e), int(sig0, 16), int(isz), int(r, 16)
            if op == "sfdis":
                ok = (s == x >> 31 and e == ((x >> 23) & 0xff) - 127
                      and sig0 == int.from_bytes((((x & 0x7fffff) << 9) & M32).to_bytes(4, "big") + bytes(4), "little")
                      and isz == (1 if x & 0x7fffffff == 0 else 0) and cls == cls32(x) and r == x)
            else:
                ok = (s == x >> 63 and e == ((x >> 52) & 0x7ff) - 1023
                      and sig0 == int.from_bytes((((x & ((1 << 52) - 1)) << 12) & M64).to_bytes(8, "big"), "little")
                      and isz == (1 if x & (M64 >> 1) == 0 else 0) and cls == cls64(x) and r == x)
            return True, ok, "sign/exponent/fraction/class or the reassembled pattern are not those of %s" % toks[1]
        if op == "buf":
            parts = co.split()
            data = bytes.fromhex(parts[0]); vals = parts[1:]
            items = [(toks[i], int(toks[i + 1], 16)) for i in range(1, len(toks), 2)]
            if len(vals) != len(items): return True, False, "wrong number of values read back"
            if len(data) != sum(6 if k == "s" else 10 for k, _ in items): return True, False, "wrong number of bytes written"
            for (k, x), v in zip(items, vals):
                v = int(v, 16)
                if not (same_value32(x, v) if k == "s" else same_value64(x, v)):
                    return True, False, "value %x read back as %x" % (x, v)
            return True, True, ""
        if op == "lit":
            folded, rt = co.split()
            if folded != rt:
                return True, False, "the folder gives %s, the runtime conversion %s" % (folded, rt)
            return True, True, ""
        if op == "sweep32":
            cnt, nfail, first = co.split()
            lo, hi = int(toks[1], 16), int(toks[2], 16)
            return True, (int(cnt) == hi - lo and nfail == "0"), "%s of the %s patterns of [%s,%s) fail the round trip, first %s" % (nfail, cnt, toks[1], toks[2], first)
    except Exception as ex:
        return True, False, "unparsable answer %r (%s)" % (co, ex)
    return False, True, ""

def run_parallel(cmds_inputs, timeout=7200):
    procs = [subprocess.Popen(cmd, stdin=subprocess.PIPE, stdout=subprocess.PIPE, stderr=subprocess.PIPE, text=True) for cmd, _ in cmds_inputs]
    for p, (_, inp) in zip(procs, cmds_inputs):
        p.stdin.write(inp); p.stdin.close()
    outs = []
    for p in procs:
        try:
            out = p.stdout.read(); p.wait(timeout=timeout)
            outs.append((p.returncode, out.strip()))
        except Exception as ex:
            p.kill(); outs.append(("TIMEOUT", ""))
    return outs

def thorough_sweep(ctx, exe, stats):
    """all 2^32 singles through the real code (property checked inside the C driver), 16 processes;
    the compiled model against the implementation on every 256th pattern (2^24 of them)"""
    n = 16
    step = (1 << 32) // n
    reqs = ["sweep32 %x %x" % (i * step, (i + 1) * step) for i in range(n)]
    outs = run_parallel([([exe], r + "\n") for r in reqs])
    total = 0
    for r, (rc, out) in zip(reqs, outs):
        ok = False
        try:
            cnt, nfail, first = out.split()
            total += int(cnt)
            ok = rc == 0 and int(cnt) == step and nfail == "0"
        except Exception:
            first = "?"
        if not ok:
            ctx.finding("xfloat|roundtrip|sweep32", "exhaustive single-precision sweep `%s` -> rc=%s `%s`: a pattern does not survive the portable encoding / dissemble+assemble" % (r, rc, out),
                        {"kind": "impl-violates-property", "driver": "harness/xfloat_drv.c", "line": r, "impl": out,
                         "replay_cmd": "echo 'xsf %s' | <xfloat_drv built by ./check C19>" % first})
    stats["sweep32_patterns"] = total
    off = ctx.rng.randrange(256)
    reqs = ["hash32 %x %x 100" % (i * step + off, (i + 1) * step) for i in range(n)]
    co = run_parallel([([exe], r + "\n") for r in reqs])
    mo = run_parallel([([common.lean_driver(), "xfloat"], r + "\n") for r in reqs])
    cnt = 0
    for r, (rc, c), (rm, m) in zip(reqs, co, mo):
        m = m.split("\t")[0]
        try: cnt += int(c.split()[0])
        except Exception: pass
        if rc != 0 or rm != 0 or c != m:
            bisect_hash(ctx, exe, r, c, m)
    stats["model_vs_impl_strided"] = cnt

def bisect_hash(ctx, exe, req, c, m):
    """a strided hash differs: find one differing pattern and classify it"""
    toks = req.split()
    lo, hi, st = int(toks[1], 16), int(toks[2], 16), int(toks[3], 16)
    k = (hi - lo + st - 1) // st
    a, b = 0, k                     # differing sample index in [a,b)
    while b - a > 1:
        mid = (a + b) // 2
        r = "hash32 %x %x %x" % (lo + a * st, lo + mid * st, st)
        ci = common.run_impl_lines(exe, [r])[0]
        mi = common.split_model(common.run_model("xfloat", r + "\n"))[0][0]
        if ci != mi: b = mid
        else: a = mid
    x = lo + a * st
    ln = "xsf %08x" % x
    ci = common.run_impl_lines(exe, [ln])[0]
    mi = common.split_model(common.run_model("xfloat", ln + "\n"))[0][0]
    if ci == mi:
        ctx.corr_broken.append((NAME, req, c, m)); return
    checked, ok, why = prop_oracle(ln.split(), ci)
    if not ok:
        ctx.finding("xfloat|roundtrip|xsf", "xfloat.c: `%s` -> %s: %s (model: %s)" % (ln, ci, why, mi),
                    {"kind": "impl-violates-property", "driver": "harness/xfloat_drv.c", "line": ln, "impl": ci, "model": mi, "why": why,
                     "replay_cmd": "echo '%s' | <xfloat_drv built by ./check C19>" % ln})
    else:
        ctx.corr_broken.append((NAME, ln, ci, mi))


# ======================================================================================================
# end to end: constants through the whole compiler, six routes, bit-exact
# ======================================================================================================
# A generated Aldor program prints every value through Machine's `dissemble` (sign, exponent, fraction
# word: fiSFloDissemble / fiDFloDissemble, i.e. the integer image of the float -- never the decimal
# printer).  It is run
#   interp-Q0   -Q0 -Ginterp prog.as          literals converted at run time (fiArrToSFlo / fiArrToDFlo)
#   interp-Q2/3 -Q2 -Ginterp prog.as          literals and constant expressions folded, FOAM kept in memory
#   c-Q0        -Q0 -Fx, ./prog               run-time conversion in the executable
#   c-Q2/3      -Q2 -Fx, ./prog               folded constant written into C text (genc.c, DFloatSprint)
#   ao-Q0/2/3   -Fao then -Ginterp prog.ao    folded constant through the portable encoding of the .ao
#   fm-Q0/2/3   -Ffm then -Ginterp prog.fm    folded constant through the FOAM text
# (-Q2 folds the literals of the small programs only: the inliner leaves `float` calls in a large top level;
#  -Q3 folds all of them; the number of float constants in each .fm is recorded in the evidence)
# All routes must print the same bit patterns, and for literals (and the four arithmetic operations on two
# literals) the pattern python computes with correctly rounded conversions.  The main program holds the
# finite values and the zeros; each class that may not even compile on some route (infinite literals,
# NaN / infinity / minus zero produced by a constant expression) has a program of its own, so a failing
# route is attributed to that class.  Findings: `xfloat-e2e|<route>|<class>`.

E2E_LEVELS = (0, 2, 3)      # -Q0: run-time conversion; -Q2: folds in small programs; -Q3: folds every literal of the large one
E2E_ROUTES = tuple("%s-Q%d" % (k, q) for k in ("interp", "c", "ao", "fm") for q in E2E_LEVELS)

def f32(x):
    """round a python float to single precision (C cast semantics: overflow gives infinity)"""
    try: return struct.unpack(">f", struct.pack(">f", x))[0]
    except OverflowError: return float("-inf") if x < 0 else float("inf")

def bits32(x): return struct.unpack(">I", struct.pack(">f", x))[0]
def bits64(x): return struct.unpack(">Q", struct.pack(">d", x))[0]
def of_bits32(b): return struct.unpack(">f", struct.pack(">I", b))[0]
def of_bits64(b): return struct.unpack(">d", struct.pack(">Q", b))[0]

def dec_lit(v, digits):
    """a decimal literal of the non-negative value with `digits` significant digits, in the form
    d.ddddde-xx / d.ddddd (always a '.', no '+', no leading zeros in the exponent)"""
    m, e = ("%.*e" % (digits - 1, v)).split("e")
    if "." not in m: m += ".0"
    e = int(e)
    return m if e == 0 else "%se%d" % (m, e)

def e2e_values(rng):
    """[(prec, class, literal text or expression, expected bits)]; literal texts are non-negative decimals,
    expressions are built from them with unary minus and one binary operation"""
    V = []
    def lit(prec, cls, text, neg=False):
        d = float(text)
        if prec == "S": exp = bits32(f32(d)) ^ (0x80000000 if neg else 0)
        else: exp = bits64(d) ^ ((1 << 63) if neg else 0)
        V.append((prec, cls, ("-" + text) if neg else text, exp))
    def pat(prec, cls, b, neg=False, digits=None):
        if prec == "S": lit("S", cls, dec_lit(of_bits32(b), digits or 9), neg)
        else: lit("D", cls, dec_lit(of_bits64(b), digits or 17), neg)
    # normal values that need all 9 / 17 digits, in bands where the digit count matters
    for cls, lo, hi in (("band-0.1", 0.1, 0.125), ("band-10", 10.0, 16.0), ("band-1000", 1000.0, 1024.0),
                        ("band-1e6", 1e6, float(1 << 20)), ("band-1", 1.0, 2.0), ("band-1e-3", 1e-3, 1.953125e-3)):
        a, b = bits32(lo), bits32(hi)
        for k in range(5):
            pat("S", cls, rng.randrange(a + 1, b), neg=(k == 4))
        pat("S", cls, b - 1); pat("S", cls, a + 1)
        a, b = bits64(lo), bits64(hi)
        for k in range(5):
            pat("D", cls, rng.randrange(a + 1, b), neg=(k == 4))
        pat("D", cls, b - 1); pat("D", cls, a + 1)
    def rnd(draw, val):
        # magnitudes in [1e16, 1e17) have a program of their own (class int17)
        while True:
            b = draw()
            if not 1e16 <= val(b) < 1e17: return b
    for _ in range(12):
        pat("S", "random", rnd(lambda: (rng.randrange(1, 255) << 23) | rng.getrandbits(23), of_bits32))
        pat("D", "random", rnd(lambda: (rng.randrange(1, 2047) << 52) | rng.getrandbits(52), of_bits64))
    # powers of two and their neighbours
    for k in (-126, -125, -100, -24, -10, -1, 0, 1, 3, 10, 23, 24, 31, 64, 100, 127):
        b = (k + 127) << 23
        pat("S", "pow2", b)
        pat("S", "pow2", b + 1)
        if k > -126: pat("S", "pow2", b - 1)
    for k in (-1022, -1021, -500, -53, -10, -1, 0, 1, 3, 10, 52, 53, 63, 64, 500, 1023):
        b = (k + 1023) << 52
        pat("D", "pow2", b)
        pat("D", "pow2", b + 1)
        if k > -1022: pat("D", "pow2", b - 1)
    # range ends
    for b in (0x7f7fffff, 0x7f7ffffe, 0x00800000, 0x00800001): pat("S", "extreme", b)
    for b in (0x7fefffffffffffff, 0x7feffffffffffffe, 0x0010000000000000, 0x0010000000000001): pat("D", "extreme", b)
    lit("S", "extreme", "3.4028235e38"); lit("S", "extreme", "1.17549435e-38", neg=True)
    lit("D", "extreme", "1.7976931348623157e308"); lit("D", "extreme", "2.2250738585072014e-308", neg=True)
    # subnormals: minimum, exact powers of two, largest, random
    for b in (1, 2, 3, 1 << 10, 1 << 22, 0x007fffff, 0x00400001) + tuple(rng.getrandbits(23) | 1 for _ in range(5)):
        pat("S", "subnormal", b)
    for b in (1, 2, 3, 1 << 30, 1 << 51, 0x000fffffffffffff, 0x0008000000000001) + tuple(rng.getrandbits(52) | 1 for _ in range(5)):
        pat("D", "subnormal", b)
    pat("S", "subnormal", 1, neg=True); pat("D", "subnormal", 1, neg=True)
    lit("S", "subnormal", "1.0e-45"); lit("S", "subnormal", "1.4e-45"); lit("D", "subnormal", "4.9e-324"); lit("D", "subnormal", "5.0e-324")
    # short literals, long literals, literals that round to zero
    for t in ("0.1", "0.3", "0.5", "1.0", "2.5", "3.14159", "100.0", "1.0e10", "6.02214076e23", "1.0e-7", "16777217.0", "9007199254740993.0",
              "0.1000000000000000055511151231257827", "1.00000005960464477539062500001", "123456789012345678901234567890.0"):
        lit("S", "plain", t); lit("D", "plain", t)
    lit("S", "zero", "0.0"); lit("D", "zero", "0.0"); lit("S", "zero", "1.0e-60"); lit("D", "zero", "1.0e-400")
    # constant expressions (folded at -Q2)
    for a, op, b in (("0.3", "*", "0.4"), ("3.0", "/", "26.0"), ("0.1", "+", "0.2"), ("1.0", "-", "0.9"), ("1.0", "/", "3.0"),
                     ("1.0e-30", "*", "1.0e-10"), ("16777216.0", "+", "1.0"), ("1.0e30", "*", "1.0e8")):
        x, y = float(a), float(b)
        fs = {"*": lambda p, q: p * q, "/": lambda p, q: p / q, "+": lambda p, q: p + q, "-": lambda p, q: p - q}[op]
        V.append(("S", "folded-expr", "%s %s %s" % (a, op, b), bits32(f32(fs(f32(x), f32(y))))))
        V.append(("D", "folded-expr", "%s %s %s" % (a, op, b), bits64(fs(x, y))))
    return V

E2E_HEAD = """#include "aldor"
#include "aldorio"
import from Machine;
local showS(tag: String, x: SFlo): () == {
	import from MachineInteger, Boolean;
	(s, e, m) := dissemble x;
	stdout << "S " << tag << " " << s::Boolean << " " << e::MachineInteger << " " << (m pretend SInt)::MachineInteger << newline;
}
local showD(tag: String, x: DFlo): () == {
	import from MachineInteger, Boolean;
	(s, e, m1, m2) := dissemble x;
	stdout << "D " << tag << " " << s::Boolean << " " << e::MachineInteger << " " << (m1 pretend SInt)::MachineInteger << newline;
}
import from SingleFloat, DoubleFloat;
"""

def e2e_main_program(V):
    L = [E2E_HEAD]
    for i, (prec, cls, text, exp) in enumerate(V):
        ty, conv = ("SingleFloat", "SFlo") if prec == "S" else ("DoubleFloat", "DFlo")
        L.append('show%s("%s.%d", ((%s)@%s)::%s);' % (prec, cls, i, text, ty, conv))
    return "\n".join(L) + "\n"

# classes with a program of their own: (class, body lines, expected {tag: bits})
E2E_SPECIAL = (
    ("negzero",
     ['showS("negzero.0", ((-0.0)@SingleFloat)::SFlo);', 'showD("negzero.1", ((-0.0)@DoubleFloat)::DFlo);'],
     {("S", "negzero.0"): 0x80000000, ("D", "negzero.1"): 1 << 63}),
    ("int17",      # 17 digits before the decimal point: `%#.17g` prints no digit after it
     ['showS("int17.0", ((8.3691741e16)@SingleFloat)::SFlo);', 'showD("int17.1", ((1.2345678901234567e16)@DoubleFloat)::DFlo);',
      'showD("int17.2", ((1.0e16)@DoubleFloat)::DFlo);', 'showS("int17.3", ((9.9999998e16)@SingleFloat)::SFlo);'],
     {("S", "int17.0"): bits32(f32(8.3691741e16)), ("D", "int17.1"): bits64(1.2345678901234567e16),
      ("D", "int17.2"): bits64(1.0e16), ("S", "int17.3"): bits32(f32(9.9999998e16))}),
    ("inf-literal",
     ['showS("inf-literal.0", ((1.0e39)@SingleFloat)::SFlo);', 'showD("inf-literal.1", ((1.0e400)@DoubleFloat)::DFlo);',
      'showS("inf-literal.2", ((-1.0e39)@SingleFloat)::SFlo);', 'showD("inf-literal.3", ((-1.0e400)@DoubleFloat)::DFlo);'],
     {("S", "inf-literal.0"): 0x7f800000, ("D", "inf-literal.1"): 0x7ff0000000000000,
      ("S", "inf-literal.2"): 0xff800000, ("D", "inf-literal.3"): 0xfff0000000000000}),
    ("inf-expr",
     ['{ z: SFlo := ((0.0)@SingleFloat)::SFlo; o: SFlo := ((1.0)@SingleFloat)::SFlo; showS("inf-expr.0", o/z); showS("inf-expr.1", (-o)/z);',
      '  dz: DFlo := ((0.0)@DoubleFloat)::DFlo; d1: DFlo := ((1.0)@DoubleFloat)::DFlo; showD("inf-expr.2", d1/dz); showD("inf-expr.3", (-d1)/dz); }',
      'showS("inf-expr.4", ((1.0e30 * 1.0e30)@SingleFloat)::SFlo);', 'showD("inf-expr.5", ((1.0e300 * 1.0e300)@DoubleFloat)::DFlo);'],
     {("S", "inf-expr.0"): 0x7f800000, ("S", "inf-expr.1"): 0xff800000, ("D", "inf-expr.2"): 0x7ff0000000000000,
      ("D", "inf-expr.3"): 0xfff0000000000000, ("S", "inf-expr.4"): 0x7f800000, ("D", "inf-expr.5"): 0x7ff0000000000000}),
    ("nan-expr",
     ['{ z: SFlo := ((0.0)@SingleFloat)::SFlo; showS("nan-expr.0", z/z);',
      '  dz: DFlo := ((0.0)@DoubleFloat)::DFlo; showD("nan-expr.1", dz/dz); }'],
     {("S", "nan-expr.0"): "nan", ("D", "nan-expr.1"): "nan"}),
    ("negzero-expr",
     ['{ z: SFlo := ((0.0)@SingleFloat)::SFlo; showS("negzero-expr.0", -z); showS("negzero-expr.1", z * (-(((1.0)@SingleFloat)::SFlo)));',
      '  dz: DFlo := ((0.0)@DoubleFloat)::DFlo; showD("negzero-expr.2", -dz); showD("negzero-expr.3", dz * (-(((1.0)@DoubleFloat)::DFlo))); }'],
     {("S", "negzero-expr.0"): 0x80000000, ("S", "negzero-expr.1"): 0x80000000,
      ("D", "negzero-expr.2"): 1 << 63, ("D", "negzero-expr.3"): 1 << 63}),
)

def e2e_parse(out):
    """{(prec, tag): bits} from the lines `S tag T|F exponent fractionword` of a run"""
    res = {}
    for ln in out.split("\n"):
        t = ln.split()
        if len(t) != 5 or t[0] not in ("S", "D") or t[2] not in ("T", "F"): continue
        try:
            e, m = int(t[3]), int(t[4])
        except ValueError:
            continue
        s = 1 if t[2] == "T" else 0
        if t[0] == "S":
            # fiSFloDissemble stores 4 bytes into the 8-byte word: the rest is whatever the word held
            P = int.from_bytes((m & M32).to_bytes(4, "little"), "big")
            bits = (s << 31) | (((e + 127) & 0xff) << 23) | (P >> 9)
            bad = P & 0x1ff or not -127 <= e <= 128
        else:
            P = int.from_bytes((m & M64).to_bytes(8, "little"), "big")
            bits = (s << 63) | (((e + 1023) & 0x7ff) << 52) | (P >> 12)
            bad = P & 0xfff or not -1023 <= e <= 1024
        res[(t[0], t[1])] = "malformed:" + ln if bad else bits
    return res

def _e2e_res(rc, out, err=""):
    return {"rc": rc, "out": out, "err": err}

def e2e_interp(build, text, q):
    from vlib import aldor
    r = aldor.compile(build, {"prog.as": text}, ["-Q%d" % q, "-Ginterp", "prog.as"], timeout=300)
    return {"interp-Q%d" % q: _e2e_res(r["rc"], r["stdout"], r["stderr"])}

def e2e_native(build, text, q):
    """one compilation gives the executable, the .ao and the .fm; the saved files are then interpreted in
    fresh directories"""
    from vlib import aldor
    res = {}
    r = aldor.compile(build, {"prog.as": text}, ["-Q%d" % q, "-Fx", "-Fao", "-Ffm"] + aldor.c_opts(build) + ["prog.as"],
                      timeout=600, keep=True)
    try:
        exe = os.path.join(r["dir"], "prog")
        if r["rc"] == 0 and os.path.exists(exe):
            rc, out, err = common.run([exe], cwd=r["dir"], timeout=120)
            res["c-Q%d" % q] = _e2e_res(rc, out, err)
        else:
            res["c-Q%d" % q] = _e2e_res("nocompile", "", (r["stdout"] + r["stderr"])[-1500:])
        ao, fm = r["outputs"].get("prog.ao"), r["outputs"].get("prog.fm")
    finally:
        shutil.rmtree(r["top"], ignore_errors=True)
    if ao is None or fm is None:
        r2 = aldor.compile(build, {"prog.as": text}, ["-Q%d" % q, "-Fao", "-Ffm", "prog.as"], timeout=600)
        ao, fm = r2["outputs"].get("prog.ao"), r2["outputs"].get("prog.fm")
    for kind, data in (("ao", ao), ("fm", fm)):
        if data is None:
            res["%s-Q%d" % (kind, q)] = _e2e_res("nocompile", "", "no prog.%s written" % kind)
            continue
        r3 = aldor.compile(build, {"prog." + kind: data}, ["-Ginterp", "prog." + kind], timeout=300)
        res["%s-Q%d" % (kind, q)] = _e2e_res(r3["rc"], r3["stdout"], r3["stderr"])
    if fm is not None:
        res["fm-Q%d" % q]["consts"] = fm.count(b"(SFlo ") + fm.count(b"(DFlo ")
    return res

def e2e_run_program(build, text):
    from vlib import aldor
    jobs = [(e2e_interp, (build, text, q), {}) for q in E2E_LEVELS] + [(e2e_native, (build, text, q), {}) for q in E2E_LEVELS]
    out = {}
    for r in aldor.run_many(jobs, workers=len(jobs)):
        if isinstance(r, Exception):
            raise r
        out.update(r)
    return out

def fmt_bits(prec, b):
    if not isinstance(b, int): return str(b)
    return ("%08x" if prec == "S" else "%016x") % b

def e2e(ctx, build, stats):
    """the end-to-end sub-check; findings `xfloat-e2e|<route>|<class>`"""
    import concurrent.futures as cf
    V = e2e_values(ctx.rng)
    main = e2e_main_program(V)
    expected = {(prec, "%s.%d" % (cls, i)): exp for i, (prec, cls, text, exp) in enumerate(V)}
    texts = {(prec, "%s.%d" % (cls, i)): text for i, (prec, cls, text, exp) in enumerate(V)}
    programs = [("main", main, expected)]
    # a small program with one value of each digit-sensitive class and precision: small enough for -Q2 to fold it
    seen_cls, small, small_exp = set(), [E2E_HEAD], {}
    for i, (prec, cls, text, exp) in enumerate(V):
        if (prec, cls) in seen_cls or not (cls.startswith("band-") or cls in ("pow2", "folded-expr", "subnormal")): continue
        seen_cls.add((prec, cls))
        ty, conv = ("SingleFloat", "SFlo") if prec == "S" else ("DoubleFloat", "DFlo")
        small.append('show%s("%s.%d", ((%s)@%s)::%s);' % (prec, cls, i, text, ty, conv))
        small_exp[(prec, "%s.%d" % (cls, i))] = exp
    programs.append(("small", "\n".join(small) + "\n", small_exp))
    for cls, body, exp in E2E_SPECIAL:
        programs.append((cls, E2E_HEAD + "\n".join(body) + "\n", exp))
        for k in exp: texts[k] = "(see program)"
    with cf.ThreadPoolExecutor(max_workers=len(programs)) as ex:
        futs = [ex.submit(e2e_run_program, build, text) for _, text, _ in programs]
        runs = [f.result() for f in futs]
    st = {"values": len(V), "programs": len(programs), "routes": len(E2E_ROUTES), "compared": 0, "differences": 0, "route_failures": 0,
          "classes": sorted({c for _, c, _, _ in V} | {c for c, _, _ in E2E_SPECIAL})}
    st["float_constants_in_fm"] = {"%s-Q%d" % (pn, q): run.get("fm-Q%d" % q, {}).get("consts")
                                   for (pn, _, _), run in zip(programs, runs) for q in E2E_LEVELS}
    reported = set()
    def report(route, cls, what, replay):
        st["differences"] += 1
        sig = "xfloat-e2e|%s|%s" % (route, cls)
        if sig in reported: return
        reported.add(sig)
        ctx.finding(sig, what, replay)
    for (pname, text, exp), run in zip(programs, runs):
        for route in E2E_ROUTES:
            r = run.get(route) or _e2e_res("missing", "")
            got = e2e_parse(r["out"])
            failed = r["rc"] != 0
            if failed:
                st["route_failures"] += 1
            for key in sorted(exp, key=lambda k: int(k[1].rsplit(".", 1)[1])):
                prec, tag = key
                cls = tag.rsplit(".", 1)[0]
                want = exp[key]
                have = got.get(key)
                st["compared"] += 1
                if have is None:
                    ok, why = False, ("the route fails (rc=%s): %s" % (r["rc"], (r["err"] or r["out"])[-300:].replace("\n", " | "))) if failed else "no line for this value"
                elif want == "nan":
                    ok = isinstance(have, int) and (isnan32(have) if prec == "S" else isnan64(have))
                    why = "not a NaN"
                else:
                    ok, why = have == want, "differs"
                if not ok:
                    report(route, cls,
                           "constant `%s` (%s, class %s) on route %s: got %s, the correctly rounded run-time value is %s (%s); program `%s`"
                           % (texts[key], "SingleFloat" if prec == "S" else "DoubleFloat", cls, route, fmt_bits(prec, have) if have is not None else "nothing",
                              fmt_bits(prec, want), why, pname),
                           {"kind": "e2e-constant-differs", "route": route, "class": cls, "value": texts[key], "precision": prec,
                            "got": fmt_bits(prec, have) if have is not None else None, "expected": fmt_bits(prec, want),
                            "rc": r["rc"], "diagnostics": (r["err"] or "")[-1500:], "program": text,
                            "replay_cmd": {"interp": "aldor -Q%s -Ginterp prog.as", "c": "aldor -Q%s -Fx prog.as && ./prog",
                                           "ao": "aldor -Q%s -Fao prog.as; aldor -Ginterp prog.ao",
                                           "fm": "aldor -Q%s -Ffm prog.as; aldor -Ginterp prog.fm"}[route.split("-")[0]] % route.split("Q")[1]})
    stats["e2e"] = st
    ctx.cov["evaluations"] += st["compared"]
    return st

def run_part(ctx, build):
    exe = build.cc_driver("xfloat_drv", os.path.join(VERIF, "harness", "xfloat_drv.c"))
    lines, ncorpus, nexh = gen_lines(ctx)
    c = common.run_impl_lines(exe, lines, timeout=3600)
    m, tags = common.split_model(common.run_model("xfloat", "\n".join(lines) + "\n"))
    assert len(m) == len(lines), (len(m), len(lines))
    stats = {"lines": len(lines), "corpus": ncorpus, "exhaustive": nexh, "mismatch": 0, "prop_checked": 0,
             "helper_checked": 0, "faults": 0, "distinct_results": 0,
             "lit_agrees_with_python": 0, "lit_differs_from_python": []}
    seen = set()
    for k, ln in enumerate(lines):
        toks = ln.split()
        co = c[k] if k < len(c) else "MISSING"
        mo = m[k]
        seen.add(co)
        if co.startswith("FAULT") or co in ("MISSING", "SKIPPED"):
            stats["faults"] += 1
            ctx.finding("xfloat|fault", "xfloat driver faults (%s) on: %s" % (co, ln),
                        {"kind": "impl-fault", "driver": "harness/xfloat_drv.c", "line": ln, "impl": co, "model": mo})
            continue
        if toks[0] == "consts":
            if co != mo:
                ctx.finding("xfloat|format-constants", "the floating-point format parameters of this build differ from the modelled ones: impl `%s` model `%s`" % (co, mo),
                            {"kind": "model-out-of-date", "line": ln, "impl": co, "model": mo}, found_input=False)
            continue
        checked, ok, why = prop_oracle(toks, co)
        if checked: stats["prop_checked"] += 1
        else:
            checked, ok, why = helper_oracle(toks, co)
            if checked: stats["helper_checked"] += 1
        if toks[0] == "lit" and ok:
            # independent of both: python's correctly rounded conversion (then the C cast for singles)
            d = float(toks[2])
            want = "%08x" % f32_of_double(d) if toks[1] == "s" else "%016x" % struct.unpack(">Q", struct.pack(">d", d))[0]
            if co.split()[0] == want: stats["lit_agrees_with_python"] += 1
            else: stats["lit_differs_from_python"].append((ln, co, want))
        if co != mo:
            stats["mismatch"] += 1
            if toks[0] == "hash32":
                bisect_hash(ctx, exe, ln, co, mo)
            elif not ok:
                # one finding per request kind (the first failing request is the replay)
                sig = ("xfloat|roundtrip|" if toks[0] in ("xsf", "xdf", "sfdis", "dfdis", "buf", "sweep32") else
                       "xfloat|literal|" if toks[0] == "lit" else "xfloat|helper|") + toks[0]
                ctx.finding(sig, "%s: `%%s` -> %%s is wrong: %%s (model: %%s)" % ("of_cfold.c/foam_c.c" if toks[0] == "lit" else "xfloat.c/util.c/buffer.c") % (ln, co, why, mo),
                            {"kind": "impl-violates-property", "driver": "harness/xfloat_drv.c", "line": ln, "impl": co, "model": mo, "why": why,
                             "replay_cmd": "echo '%s' | <xfloat_drv built by ./check C19>" % ln})
            else:
                ctx.corr_broken.append((NAME, ln, co, mo))
        elif not ok:
            # the theorems of Props/C19 are not partial: model = implementation and a property failure
            # can only be a defect of the model driver or of the python oracle
            ctx.violation("xfloat|model-and-impl-wrong|" + toks[0],
                          "implementation and model agree on `%s` -> %s but %s (contradicts the proved round-trip theorems: driver/oracle defect)" % (ln, co, why),
                          {"kind": "inconsistent", "line": ln, "impl": co})
        if k % 9973 == 17:
            ctx.sample({"module": "xfloat", "request": ln, "impl": co, "model": mo, "tags": tags[k]})
    if ctx.tier == "thorough":
        thorough_sweep(ctx, exe, stats)
    e2e(ctx, build, stats)
    stats["lit_differs_from_python"] = stats["lit_differs_from_python"][:5]
    stats["distinct_results"] = len(seen)
    stats["tags"] = common.tag_hist(tags)
    ctx.cov["xfloat"] = stats
    ctx.cov["evaluations"] += len(lines) + stats.get("sweep32_patterns", 0)
    ctx.cov["distinct_nontrivial"] += len(seen)
    return stats
