"""part `codec` (C05): the FOAM byte codec of foam.c (foamToBuffer / foamFrBuffer / foamTagFormat /
foamSIntReduce + buffer.c primitives) vs Model/Foam/Codec.lean, parameterised by the table that
translate/foaminfo.py regenerates from the tree being checked; plus the end-to-end sub-check `e2e`
(source vs saved .ao/.fm routes of whole programs).  Tie: T (table) + hand model + correspondence (H)."""
import os, re, shutil, struct, subprocess, sys, time
from vlib import common
from vlib.common import VERIF

NAME = "codec"
BUILD_TARGETS = ["AldorVerif.Props.C05", "AldorVerif.Props.C05XFloat"]
SOURCES = ["foam.c", "foam.h", "buffer.c", "buffer.h", "cport.h", "xfloat.c", "xfloat.h", "bigint.c", "util.c"]
MODELLED = ("foam.c: foamToBuffer foamFrBuffer foamTagFormat FOAM_FORMAT_GET/PUT/REMOVE/FOR FOAM_PUT_INT FOAM_GET_INT "
            "foamSIntReduce foamInfoTable(generated); buffer.c: bufPutByte/HInt/SInt bufGetByte/HInt/SInt bufWrChars/bufRdChars; "
            "bintToPlacevS/bintFrPlacevS by value; bufWr/RdSFloat/DFloat as parameters (driver: concrete IEEE instance) "
            "(not: foamFrBuffer0 foamProgHdrFrBuffer foamPos*Buffer lib.c sections sexpr.c text)")
THEOREMS = [("AldorVerif.Props.C05", "AldorVerif.Foam." + t) for t in (
    "decode_encode", "encode_norm_idempotent", "sintReduce_value", "foamInfoOK_gen",
    "encode_no_abort", "prog_format_kept", "long_bint_kept")] + [
    ("AldorVerif.Props.C05XFloat", "AldorVerif.Foam.decode_encode_ieee"), ("AldorVerif.Props.C05XFloat", "AldorVerif.Foam.xfIEEE_ok")]

GEN = os.path.join(VERIF, "lean", "AldorVerif", "Gen", "FoamInfo.lean")
TRANSLATOR = os.path.join(VERIF, "translate", "foaminfo.py")
CORPUS = os.path.join(VERIF, "corpus", "codec")
M63 = 1 << 63
M64 = 1 << 64


# ------------------------------------------------------------------------------- translator
def pre_build(ctx, src=None):
    """regenerate Gen/FoamInfo.lean from the tree being checked; must run before the Lean build"""
    src = src or common.SRC
    rc, out, err = common.run([sys.executable, TRANSLATOR, src, GEN], timeout=120)
    ctx.cov.setdefault(NAME + "_translate", []).append({"src": src, "rc": rc, "out": out.strip(), "err": err.strip()[-400:]})
    if rc != 0:
        ctx.violation("codec|translate-failed", "translate/foaminfo.py cannot read foamInfoTable / the tag enums of %s: %s"
                      % (src, err.strip()[-600:]), {"kind": "translator-failed", "stderr": err[-3000:]}, found_input=False)
        return False
    return True


# ------------------------------------------------------------------------------- trees
# tree = (tagname, [arg]); arg = ("i", int) | ("s", bytes) | ("f", bits) | ("d", bits) | ("n", int) | ("C", tree)
def ser(t, out=None):
    top = out is None
    if top: out = []
    out.append(t[0]); out.append(str(len(t[1])))
    for k, v in t[1]:
        if k == "C": ser(v, out)
        elif k == "s": out.append("s" + v.hex())
        elif k == "f": out.append("f%08x" % v)
        elif k == "d": out.append("d%016x" % v)
        else: out.append(k + str(v))
    return " ".join(out) if top else None


def parse_tree(toks, pos=0):
    name = toks[pos]; argc = int(toks[pos + 1]); pos += 2
    args = []
    for _ in range(argc):
        t = toks[pos]
        c = t[0]
        if c == "i": args.append(("i", int(t[1:]))); pos += 1
        elif c == "s": args.append(("s", bytes.fromhex(t[1:]))); pos += 1
        elif c == "f": args.append(("f", int(t[1:], 16))); pos += 1
        elif c == "d": args.append(("d", int(t[1:], 16))); pos += 1
        elif c == "n": args.append(("n", int(t[1:]))); pos += 1
        else:
            sub, pos = parse_tree(toks, pos); args.append(("C", sub))
    return (name, args), pos


class Table:
    def __init__(self, text):
        self.rows = {}
        self.byidx = {}
        for item in text.split(" "):
            idx, name, argc, argf = item.split(":", 3)
            self.rows[name] = (int(idx), int(argc), argf)
            self.byidx[int(idx)] = name
        self.names = [self.byidx[i] for i in sorted(self.byidx)]

    def letter(self, name, si):
        argf = self.rows[name][2]
        k = argf.find("*")
        if k >= 0 and si >= k:
            return argf[k - 1] if k > 0 else ""
        return argf[si] if si < len(argf) else ""


def to_s64(v):
    v &= M64 - 1
    return v - M64 if v >= M63 else v


def eval_reduced(T, t):
    """value of an expression built by foamSIntReduce, 64-bit wrap-around; None if not of that shape;
    also checks that every constant in it fits 31 unsigned bits"""
    name, args = t
    if name == "SInt" and len(args) == 1 and args[0][0] == "i":
        return args[0][1] if 0 <= args[0][1] < (1 << 31) else None
    if name != "BCall" or not args or args[0][0] != "i": return None
    op = T.bvals[args[0][1]] if 0 <= args[0][1] < len(T.bvals) else None
    vals = []
    for a in args[1:]:
        if a[0] != "C": return None
        v = eval_reduced(T, a[1])
        if v is None: return None
        vals.append(v)
    if op == "SIntNegate" and len(vals) == 1: return to_s64(-vals[0])
    if op == "SIntShiftUp" and len(vals) == 2 and 0 <= vals[1] < 64: return to_s64(vals[0] << vals[1])
    if op == "SIntOr" and len(vals) == 2: return to_s64((vals[0] & (M64 - 1)) | (vals[1] & (M64 - 1)))
    return None


def same_program(T, a, b, path="", top_fn=None):
    """the executable form of the property on one unit: `b` (read back) is `a` apart from the two
    permitted differences.  Returns None if so, else a description of the first difference."""
    na, aa = a; nb, ab = b
    if na == "SInt" and aa and aa[0][0] == "i" and not (-(1 << 31) <= aa[0][1] < (1 << 31)):
        v = eval_reduced(T, b)
        if v is None: return "%s: wide SInt %d read back as %s, not an expression of 31-bit constants" % (path, aa[0][1], ser(b)[:80])
        if v != to_s64(aa[0][1]): return "%s: wide SInt %d read back with value %d" % (path, aa[0][1], v)
        return None
    if na != nb: return "%s: tag %s read back as %s" % (path, na, nb)
    if len(aa) != len(ab): return "%s/%s: %d arguments read back as %d" % (path, na, len(aa), len(ab))
    for si, (x, y) in enumerate(zip(aa, ab)):
        let = T.letter(na, si)
        if let == "X": continue
        if x[0] != y[0]: return "%s/%s[%d]: kind %s read back as %s" % (path, na, si, x[0], y[0])
        if x[0] == "C":
            d = same_program(T, x[1], y[1], "%s/%s[%d]" % (path, na, si))
            if d: return d
        elif x[1] != y[1]:
            return "%s/%s[%d] (%s): %r read back as %r" % (path, na, si, let, x[1], y[1])
    return None


# ------------------------------------------------------------------------------- generators
INTS_OK = [0, 1, 2, 3, 4, 5, 13, 127, 128, 254, 255]
INTS_EDGE = [256, 257, 32767, 32768, 65535, 65536, 65537, (1 << 31) - 1]
INTS_BAD = [-1, -2, -3, -128, -129, 1 << 31, (1 << 31) + 1, (1 << 32) - 1, 1 << 32, (1 << 32) + 5, -(1 << 31), -(1 << 31) - 1,
            (1 << 63) - 1, -(1 << 63), (1 << 62), -(1 << 62) - 7, (1 << 31) * 3 + 11, 0x7fffffff7fffffff, -(1 << 32)]
SINTS = [0, 1, -1, 127, 128, 255, 256, 32767, 32768, 65535, 65536, (1 << 31) - 1, 1 << 31, (1 << 31) + 1, -(1 << 31), -(1 << 31) - 1,
         (1 << 32) - 1, 1 << 32, (1 << 32) + 1, -(1 << 32), (1 << 62) - 1, 1 << 62, (1 << 62) + 1, (1 << 63) - 1, -(1 << 63), -(1 << 63) + 1,
         0x7fffffff, 0x3fffffff80000000, 0x4000000000000000, 0x7fffffff00000000, 0x00000000ffffffff, 0x123456789abcdef, -0x123456789abcdef,
         1 << 33, (1 << 31) * ((1 << 31) - 1), -(1 << 62), 4294967297]
SFLO_BITS = [0x00000000, 0x80000000, 0x3f800000, 0xbf800000, 0x00000001, 0x007fffff, 0x00800000, 0x7f7fffff, 0x7f800000, 0xff800000,
             0x7fc00000, 0x7f800001, 0xffc12345, 0x40490fdb, 0x00400000, 0x80000001, 0x00000100, 0x3eaaaaab]
DFLO_BITS = [0x0000000000000000, 0x8000000000000000, 0x3ff0000000000000, 0xbff0000000000000, 0x0000000000000001, 0x000fffffffffffff,
             0x0010000000000000, 0x7fefffffffffffff, 0x7ff0000000000000, 0xfff0000000000000, 0x7ff8000000000000, 0x7ff0000000000001,
             0xfff8000000012345, 0x400921fb54442d18, 0x0008000000000000, 0x8000000000000001, 0x0000000000010000, 0x3fd5555555555555,
             0x7e37e43c8800759c, 0x3ff8000000000000]
BINTS = [0, 1, -1, 65535, 65536, -65536, (1 << 32) - 1, 1 << 32, (1 << 64) - 1, 1 << 64, -(1 << 64), 10 ** 30, -(10 ** 30) - 7,
         123456789012345678901234567890, (1 << 16 * 255) - 1, 1 << (16 * 255), (1 << 16 * 256) - 1, 1 << (32 * 127), (1 << 32 * 128) - 1,
         1 << (32 * 128), 10 ** 1300, -(10 ** 1240), 1 << 31, (1 << 48) + 5]


def rbytes(rng, n):
    return rng.randbytes(n).replace(b"\0", b"\x01")


def gen_str(rng, short=False):
    r = rng.random()
    if r < 0.15: return b""
    if r < 0.45: return bytes(rng.choice(b"abcXYZ09_") for _ in range(rng.randint(1, 8)))
    if r < 0.65: return bytes(rng.choice(b'"\\|\n\t\r\x01\x7f\x80\xff\xe9 ()') for _ in range(rng.randint(1, 6)))
    if short: return rbytes(rng, rng.randint(1, 40))
    if r < 0.8: return rbytes(rng, rng.choice((2, 3, 100, 254, 255)))
    if r < 0.95: return rbytes(rng, rng.choice((256, 257, 300, 1000)))
    return rbytes(rng, rng.choice((65535, 65536, 70000)))


def gen_int(rng, let, T):
    r = rng.random()
    if let == "t": return rng.randrange(len(T.names)) if r < 0.9 else rng.choice([255, 256, -1, 300])
    if let == "o": return rng.randrange(len(T.bvals)) if r < 0.85 else rng.choice([255, 256, 65535, 65536, -1])
    if let == "p": return rng.randrange(len(T.protos)) if r < 0.9 else rng.choice([255, 256, -1])
    if let == "D": return rng.randrange(len(T.ddecls)) if r < 0.9 else rng.choice([255, 256, -1])
    if let == "b": return rng.choice([0, 1, 65, 97, 127, -1, -128]) if r < 0.85 else rng.choice([128, 200, 233, 255, 256, -129])
    if let == "h": return rng.choice([0, 1, 255, 256, 32767, 32768, 65535]) if r < 0.85 else rng.choice([-1, -5, 65536, 70000])
    if let == "w": return rng.choice(SINTS[:16] + [-1, 4, 100]) if r < 0.9 else rng.choice(SINTS[16:])
    if let == "X": return rng.choice(INTS_OK + INTS_EDGE + INTS_BAD)
    if let == "F": return rng.choice([0, 1, 3, 100, 255]) if r < 0.55 else (rng.choice([256, 257, 1000, 65536]) if r < 0.92 else rng.choice([-1, 1 << 31, 1 << 32]))
    if let == "L": return rng.choice([0, 1, 2, 3, 100, 255]) if r < 0.85 else rng.choice([256, 1000, -1, 1 << 31])
    # i
    if r < 0.6: return rng.choice(INTS_OK)
    if r < 0.85: return rng.choice(INTS_EDGE)
    return rng.choice(INTS_BAD)


def gen_leaf(rng, T):
    r = rng.random()
    if r < 0.25: return ("Nil", [])
    if r < 0.5: return ("SInt", [("i", rng.choice(SINTS))])
    if r < 0.6: return ("Par", [("i", rng.choice(INTS_OK))])
    if r < 0.7: return ("Loc", [("i", rng.choice(INTS_OK + INTS_EDGE))])
    if r < 0.8: return ("Bool", [("i", rng.randint(0, 1))])
    if r < 0.9: return ("Lex", [("i", rng.choice(INTS_OK)), ("i", rng.choice(INTS_OK + INTS_EDGE))])
    return ("Char", [("i", rng.randint(0, 127))])


def gen_node(rng, T, depth, name=None):
    if name is None:
        name = rng.choice(T.names)
    idx, argc, argf = T.rows[name]
    if argc == -1:
        r = rng.random()
        nmin = max(0, argf.index("*") - 1) if "*" in argf else 0
        if name == "Prog":
            argc = 13 if r < 0.8 else rng.choice([1, 2, 9, 12, 14])
        elif r < 0.55: argc = rng.choice([0, 1, 2, 3, 4])
        elif r < 0.9: argc = nmin + rng.choice([0, 1, 2, 3])
        else: argc = rng.choice([5, 8, 20])
    elif rng.random() < 0.03:
        argc = argc + 1       # one argument too many for a fixed-arity tag (outside WF; too few would make the C code read argv[] out of bounds)
    args = []
    for si in range(argc):
        let = T.letter(name, si)
        if let == "s": args.append(("s", gen_str(rng)))
        elif let == "f": args.append(("f", rng.choice(SFLO_BITS) if rng.random() < 0.7 else rng.getrandbits(32)))
        elif let == "d": args.append(("d", rng.choice(DFLO_BITS) if rng.random() < 0.7 else rng.getrandbits(64)))
        elif let == "n": args.append(("n", rng.choice(BINTS) if rng.random() < 0.6 else rng.choice((1, -1)) * rng.getrandbits(rng.choice((10, 40, 70, 200)))))
        elif let == "C":
            args.append(("C", gen_node(rng, T, depth - 1) if depth > 0 and rng.random() < 0.7 else gen_leaf(rng, T)))
        elif let in ("", "!"):
            args.append(("i", 0))
        else:
            args.append(("i", gen_int(rng, let, T)))
    if name in ("Decl", "GDecl") and len(args) >= 4 and rng.random() < 0.8:
        args[2] = ("i", rng.choice([-1, 0, 5, 100000]))
        args[3] = ("i", rng.choice([0, 4, 4, 4, 17, 255, 256, 70000]))
    return (name, args)


def gen_prog(rng, T, nlabels=None, fmt=None, body_n=None):
    nlabels = rng.choice([0, 1, 3, 100, 255, 256, 257, 1000]) if nlabels is None else nlabels
    fmt = rng.choice([0, 4, 4, 17, 255]) if fmt is None else fmt
    def label(): return rng.randrange(nlabels) if nlabels else 0
    body = []
    for _ in range(rng.randint(0, 6) if body_n is None else body_n):
        r = rng.random()
        if r < 0.25: body.append(("Label", [("i", label())]))
        elif r < 0.5: body.append(("Goto", [("i", label())]))
        elif r < 0.7: body.append(("If", [("C", gen_leaf(rng, T)), ("i", label())]))
        elif r < 0.8: body.append(("Select", [("C", gen_leaf(rng, T))] + [("i", label()) for _ in range(rng.randint(0, 4))]))
        else: body.append(("Set", [("C", gen_leaf(rng, T)), ("C", gen_node(rng, T, 1))]))
    decl = lambda: ("Decl", [("i", rng.randrange(len(T.names))), ("s", gen_str(rng, True)), ("i", -1), ("i", 4)])
    return ("Prog", [("i", rng.choice([0, 0, 77, -1])), ("i", nlabels), ("i", rng.randrange(len(T.names))), ("i", fmt),
                     ("i", rng.choice([0, 131, 8832, (1 << 31) - 1])), ("i", rng.randint(0, 5000)), ("i", rng.randint(0, 3000)), ("i", 0),
                     ("C", ("DDecl", [("i", 2)] + [("C", decl()) for _ in range(rng.randint(0, 3))])),
                     ("C", ("DDecl", [("i", 3)] + [("C", decl()) for _ in range(rng.randint(0, 3))])),
                     ("C", ("DFluid", [("i", rng.choice(INTS_OK)) for _ in range(rng.randint(0, 2))])),
                     ("C", ("DEnv", [("i", rng.choice(INTS_OK + [256, 300])) for _ in range(rng.randint(0, 4))])),
                     ("C", ("Seq", [("C", b) for b in body]))])


def fixed_cases(T):
    """boundary cases named in the task: every format boundary, 0/1/2/3/255/256/65536-ary nodes, all tags"""
    out = []
    nil = ("C", ("Nil", []))
    for n in (0, 1, 2, 3, 4, 254, 255, 256, 257, 65535, 65536):
        out.append(("Seq", [nil] * n))
    for n in (0, 1, 2, 3, 255, 256):
        out.append(("Values", [("C", ("SInt", [("i", k)])) for k in range(n)]))
        out.append(("DEnv", [("i", k % 7) for k in range(n)]))
        out.append(("DFluid", [("i", 300 if k == n - 1 else 1) for k in range(n)]))
        out.append(("Arr", [("i", T.rows["Char"][0])] + [("i", 65 + k % 26) for k in range(n)]))
        out.append(("BCall", [("i", 5)] + [nil] * n))
    for v in sorted(set(SINTS + [x + d for x in (1 << 7, 1 << 8, 1 << 15, 1 << 16, 1 << 31, 1 << 32, 1 << 62, (1 << 63) - 1) for d in (-1, 0, 1)
                                 if -(1 << 63) <= x + d < (1 << 63)] + [-x for x in (1 << 7, 1 << 8, 1 << 15, 1 << 16, 1 << 31, 1 << 32, 1 << 63)])):
        out.append(("SInt", [("i", v)]))
        out.append(("Cast", [("i", T.rows["Word"][0]), ("C", ("SInt", [("i", v)]))]))
        if -(1 << 33) <= v <= (1 << 33):
            out.append(("Word", [("i", v)]))
            for nm in ("Par", "Loc", "Glo", "Const", "Env", "Label", "RNew", "Fluid"):
                out.append((nm, [("i", v)]))
            out.append(("Lex", [("i", v), ("i", 1)])); out.append(("Lex", [("i", 1), ("i", v)]))
            out.append(("RElt", [("i", v), nil, ("i", 0)])); out.append(("RElt", [("i", 0), nil, ("i", v)]))
            out.append(("EElt", [("i", 0), nil, ("i", v), ("i", 1)])); out.append(("EElt", [("i", 0), nil, ("i", 1), ("i", v)]))
            out.append(("TRElt", [("i", 0), nil, nil, ("i", v)])); out.append(("IRElt", [("i", v), nil, ("i", 2)]))
            out.append(("EEnv", [("i", v), nil])); out.append(("PRef", [("i", v), nil])); out.append(("RRElt", [("i", v), nil, nil]))
            out.append(("Goto", [("i", v)])); out.append(("If", [nil, ("i", v)]))
            out.append(("HInt", [("i", v)])); out.append(("Char", [("i", v)])); out.append(("Byte", [("i", v)])); out.append(("Bool", [("i", v)]))
            out.append(("BVal", [("i", v)])); out.append(("MFmt", [("i", v), nil])); out.append(("PushEnv", [("i", v), nil]))
            out.append(("RRNew", [("i", v), nil])); out.append(("Cast", [("i", v), nil]))
            out.append(("Decl", [("i", 8), ("s", b"x"), ("i", -1), ("i", v)]))
            out.append(("Decl", [("i", 8), ("s", b"x"), ("i", v), ("i", 4)]))
            out.append(("GDecl", [("i", 8), ("s", b"g" * 3), ("i", -1), ("i", v), ("i", 1), ("i", 0)]))
            out.append(("TR", [("i", v), nil, nil])); out.append(("TR", [("i", v), nil])); out.append(("TR", [("i", v)]))
    for L in (0, 1, 2, 3, 254, 255, 256, 257, 65535, 65536, 100000):
        s = bytes((i * 7 + 33) % 255 + 1 for i in range(L))
        out.append(("Unimp", [("s", s)]))
        out.append(("Decl", [("i", 8), ("s", s), ("i", -1), ("i", 4)]))
    for s in (b'"', b"\\", b'a"b\\c', b"|x|", b"\n\t\r", b"\xff\xfe\x80\x01", b" ", b"(Seq)", b"caf\xc3\xa9", b"\x7f"):
        out.append(("Unimp", [("s", s)]))
        out.append(("GDecl", [("i", 8), ("s", s), ("i", -1), ("i", 4), ("i", 0), ("i", 7)]))
    for b in SFLO_BITS: out.append(("SFlo", [("f", b)]))
    for b in DFLO_BITS: out.append(("DFlo", [("d", b)]))
    for e in range(0, 256, 5):
        for fr in (0, 1, 0x400000, 0x7fffff, 0x2aaaaa):
            out.append(("SFlo", [("f", (e << 23) | fr)])); out.append(("SFlo", [("f", 0x80000000 | (e << 23) | fr)]))
    for e in (0, 1, 2, 52, 53, 1022, 1023, 1024, 2045, 2046, 2047):
        for fr in (0, 1, 1 << 51, (1 << 52) - 1, 0x5555555555555, 1 << 20):
            out.append(("DFlo", [("d", (e << 52) | fr)])); out.append(("DFlo", [("d", (1 << 63) | (e << 52) | fr)]))
    for v in BINTS:
        out.append(("BInt", [("n", v)]))
    # every tag once with small, in-range arguments
    for name in T.names:
        idx, argc, argf = T.rows[name]
        n = argc if argc >= 0 else 3
        args = []
        for si in range(n):
            let = T.letter(name, si)
            args.append({"s": ("s", b"id"), "f": ("f", 0x3fc00000), "d": ("d", 0x3ff8000000000000), "n": ("n", 12345678901234567890),
                         "C": nil}.get(let, ("i", 1)))
        out.append((name, args))
    # Prog: label-format boundary, format field, missing X field
    import random
    r0 = random.Random(5)
    for nl in (0, 1, 255, 256, 257, 70000):
        for fmt in (0, 4, 255, 256, 300):
            out.append(gen_prog(r0, T, nl, fmt, 4))
    out.append(("Prog", []))
    out.append(("Seq", [("C", ("Goto", [("i", 300)])), ("C", gen_prog(r0, T, 3, 4, 2)), ("C", ("Goto", [("i", 300)]))]))
    out.append(("Seq", [("C", gen_prog(r0, T, 300, 4, 2)), ("C", gen_prog(r0, T, 3, 4, 2)), ("C", ("Goto", [("i", 2)]))]))
    return out


# ------------------------------------------------------------------------------- .fm text -> tree
def sx_tokens(text):
    i = 0; n = len(text)
    while i < n:
        c = text[i]
        if c in " \t\r\n": i += 1
        elif c in "()": yield c; i += 1
        elif c == '"':
            j = i + 1; buf = []
            while text[j] != '"':
                if text[j] == "\\": j += 1
                buf.append(text[j]); j += 1
            yield ("str", "".join(buf)); i = j + 1
        else:
            j = i; buf = []
            while j < n and text[j] not in " \t\r\n()":
                if text[j] == "\\": j += 1; buf.append(text[j]); j += 1
                elif text[j] == "|":
                    j += 1
                    while text[j] != "|":
                        if text[j] == "\\": j += 1
                        buf.append(text[j]); j += 1
                    j += 1
                else: buf.append(text[j]); j += 1
            yield ("sym", "".join(buf)); i = j


def sx_parse(text):
    stack = [[]]
    for t in sx_tokens(text):
        if t == "(": stack.append([])
        elif t == ")":
            x = stack.pop(); stack[-1].append(x)
        else: stack[-1].append(t)
    return stack[0]


def float_bits(text, single):
    t = text.replace("s", "e") if single else text
    try:
        v = float(t)
    except ValueError:
        v = {"inf": float("inf"), "-inf": float("-inf"), "nan": float("nan"), "-nan": float("nan")}[t.lower()]
    if single: return struct.unpack("<I", struct.pack("<f", v))[0]
    return struct.unpack("<Q", struct.pack("<d", v))[0]


def sx_to_tree(T, sx):
    name = sx[0][1]
    idx, argc, argf = T.rows[name]
    items = sx[1:]
    if argc >= 0 and len(items) > argc:
        items = items[:argc]           # trailing identifier comment of Par/Loc/Glo/Const/Lex/EElt
    args = []
    for si, it in enumerate(items):
        let = T.letter(name, si)
        if let == "C": args.append(("C", sx_to_tree(T, it)))
        elif let == "s": args.append(("s", it[1].encode("latin-1")))
        elif let == "f": args.append(("f", float_bits(it[1], True)))
        elif let == "d": args.append(("d", float_bits(it[1], False)))
        elif let == "n": args.append(("n", int(it[1])))
        elif let == "t": args.append(("i", T.rows[it[1]][0] if it[1] in T.rows else int(it[1])))
        elif let == "o": args.append(("i", T.bvals.index(it[1])))
        elif let == "p": args.append(("i", T.protos.index(it[1])))
        elif let == "D": args.append(("i", T.ddecls.index(it[1])))
        else: args.append(("i", int(it[1])))
    return (name, args)


def has_rec_ptr(t):
    """foamTagFormat's Rec/DEnv/DFluid loop reads `.data` of *every* argument; for Rec ("iC*") those are
    pointers, so the chosen format depends on heap addresses: such trees are compared by read-back only"""
    if t[0] == "Rec" and any(k == "C" for k, _ in t[1]): return True
    return any(k == "C" and has_rec_ptr(v) for k, v in t[1])


def count_tokens(t):
    n = 2
    for k, v in t[1]:
        n += count_tokens(v) if k == "C" else 1
    return n


# ------------------------------------------------------------------------------- compiler runs
class Aldor:
    def __init__(self, build):
        self.build = build
        R = common.ALDOR_TOP
        S = build.src
        self.base = [build.aldor, "-Nfile=" + os.path.join(S, "aldor.conf"), "-Y" + os.path.join(R, "aldor", "lib", "libfoam", "al"),
                     "-I" + os.path.join(R, "lib", "aldor", "include"), "-Y" + os.path.join(R, "lib", "aldor", "src"), "-laldor"]
        libfoam = getattr(build, "libfoam_dir", None) or os.path.join(R, "aldor", "lib", "libfoam")
        self.c_opts = ["-Ccc=" + os.path.join(R, "aldor", "subcmd", "unitools", "unicl"),
                       "-Cargs=-Wconfig=%s -I%s" % (os.path.join(S, "aldor.conf"), S), "-Y" + libfoam]
        self.root = common.scratch("aldor-verif-codec-")
        self.n = 0
        self.wall = 0.0
        self.runs = 0
        import threading
        self.lock = threading.Lock()

    def next_id(self):
        with self.lock:
            self.n += 1
            return self.n

    def run(self, flags, inputs, timeout=120, exe=None):
        """one compiler invocation in a fresh directory holding copies of `inputs` ({name: bytes});
        returns (rc, stdout, stderr, {name: bytes of every file present afterwards})"""
        d = os.path.join(self.root, "r%04d" % self.next_id())
        os.makedirs(d)
        for nm, data in inputs.items():
            with open(os.path.join(d, nm), "wb") as f: f.write(data)
        t0 = time.time()
        rc, out, err = common.run(self.base + list(flags), cwd=d, timeout=timeout, binary=True)
        if exe is not None:
            # native route: run the executable the compiler linked, in the same directory
            if rc == 0 and os.path.exists(os.path.join(d, exe)):
                rc, out, err = common.run([os.path.join(d, exe)], cwd=d, timeout=timeout, binary=True)
            else:
                rc, out, err = ("NOEXE(%s)" % rc, out, err)
        with self.lock:
            self.wall += time.time() - t0; self.runs += 1
        files = {}
        for nm in os.listdir(d):
            p = os.path.join(d, nm)
            if os.path.isfile(p):
                with open(p, "rb") as f: files[nm] = f.read()
        shutil.rmtree(d, ignore_errors=True)
        return rc, out, err, files


def generated_programs():
    """programs aimed at two former excluded points (see Props/C05.lean: long_bint_kept,
    prog_format_kept): an integer literal of more than 255 sixteen-bit places, and a multi-value
    function whose return format number exceeds 255"""
    out = []
    n = 10 ** 1232 + 12345678901234567890
    out.append(("gbiglit", ("#include \"aldor\"\n#include \"aldorio\"\nimport from Integer;\nb: Integer := %d;\n"
                            "stdout << b rem 1000000007 << newline;\n" % n).encode()))
    L = ['#include "aldor"', '#include "aldorio"', "import from MachineInteger;"]
    N = 270
    for i in range(N):
        L.append("f%d(n: MachineInteger): MachineInteger == { a := n + %d; g := (x: MachineInteger): MachineInteger +-> x + a; g 1 }" % (i, i))
    L.append("mv(a: MachineInteger): (MachineInteger, MachineInteger) == (a + 7, a * 3);")
    L.append("t: MachineInteger := 0;")
    for i in range(0, N, 30):
        L.append("t := t + f%d(%d);" % (i, i))
    L.append("(p, q) := mv t;")
    L.append('stdout << t << " " << p << " " << q << newline;')
    out.append(("gmanyfmt", ("\n".join(L) + "\n").encode()))
    return out


def corpus_programs(tier):
    progs = []
    if os.path.isdir(CORPUS):
        for f in sorted(os.listdir(CORPUS)):
            if f.endswith(".as") and not f.startswith(("lib", "cli", "one")):
                progs.append((f[:-3], open(os.path.join(CORPUS, f), "rb").read()))
    return progs


# ------------------------------------------------------------------------------- the part
def run_part(ctx, build):
    t_start = time.time()
    thorough = ctx.tier == "thorough"
    stats = {"lines": 0, "mismatch": 0, "wf": 0, "nwf": 0, "abort": 0, "prop_checked": 0, "prop_failed_wf": 0,
             "excluded_roundtrip_ok": 0, "excluded_roundtrip_differs": 0, "excluded_examples": {}, "real_units": 0,
             "real_unit_tokens": 0, "faults": 0, "reduce_lines": 0, "reruns": 0, "rerun_changed": 0}
    ctx.cov[NAME] = stats
    # the table the Lean side was built with must be the one of the tree under test
    rc, out, err = common.run([sys.executable, TRANSLATOR, build.src, GEN], timeout=120)
    if rc != 0:
        ctx.violation("codec|translate-failed", "translate/foaminfo.py failed on the scratch tree: " + err.strip()[-600:],
                      {"kind": "translator-failed", "stderr": err[-3000:]}, found_input=False)
        return stats
    if out.strip() != "unchanged":
        ok, log, wall = common.lean_build(["drv_codec"])
        stats["table_regenerated_late"] = True
        if not ok:
            ctx.violation("codec|lean-build-after-regeneration", "Lean driver does not build with the regenerated table: " + log[-800:],
                          {"kind": "proof-broken", "log_tail": log[-3000:]}, found_input=False)
            return stats
    exe = build.cc_driver("foamcodec_drv", os.path.join(VERIF, "harness", "foamcodec_drv.c"))
    rng = ctx.rng
    # ---- table + constants: generated table / model constants against the linked C table
    head = ["consts", "table"]
    c = common.run_impl_lines(exe, head + ["names"])
    m, _ = common.split_model(common.run_model("codec", "\n".join(head) + "\n"))
    for k, ln in enumerate(head):
        if c[k] != m[k]:
            ctx.finding("codec|%s-differ" % ln, "the %s of the model/generated table differ from the C code's: C `%s` vs Lean `%s`"
                        % (ln, first_diff(c[k], m[k]), first_diff(m[k], c[k])),
                        {"kind": "table-or-constants-differ", "request": ln, "impl": c[k][:4000], "model": m[k][:4000]}, found_input=False)
            return stats
    T = Table(c[1])
    parts = [p.strip().split(" ") for p in c[2].split("|")]
    T.bvals, T.protos, T.ddecls = parts[0][1:], parts[1][1:], parts[2][1:]
    stats["table_rows"] = len(T.names)
    # ---- request lines
    lines = []
    origin = []
    def add(tree, lf, src):
        lines.append("T%d %s" % (lf, ser(tree))); origin.append((tree, lf, src))
    if os.path.isdir(CORPUS):
        for f in sorted(os.listdir(CORPUS)):
            if f.endswith(".ops"):
                for l in open(os.path.join(CORPUS, f)):
                    l = l.strip()
                    if l and not l.startswith("#"):
                        if l.startswith("T"):
                            tr, _ = parse_tree(l.split()[1:]); origin.append((tr, int(l[1]), "corpus")); lines.append(l)
                        else:
                            origin.append((None, 0, "corpus")); lines.append(l)
    for v in sorted(set(SINTS + INTS_OK + INTS_EDGE + INTS_BAD)):
        lines.append("R %d" % v); origin.append((None, 0, "reduce"))
    for _ in range(2000 if not thorough else 20000):
        v = rng.choice((1, -1)) * rng.getrandbits(rng.choice((8, 31, 32, 33, 40, 62, 63)))
        v = max(-(1 << 63), min((1 << 63) - 1, v))
        lines.append("R %d" % v); origin.append((None, 0, "reduce"))
    for t in fixed_cases(T):
        add(t, 0, "fixed")
        if t[0] in ("Goto", "If", "Seq", "Select"): add(t, 1, "fixed")
    nrand = 12000 if not thorough else 60000
    for k in range(nrand):
        r = rng.random()
        if r < 0.2: t = gen_prog(rng, T)
        elif r < 0.3: t = ("Unit", [("C", ("DFmt", [("C", gen_node(rng, T, 1, "DDecl")) for _ in range(rng.randint(0, 3))])),
                                    ("C", ("DDef", [("C", ("Def", [("C", ("Const", [("i", j)])), ("C", gen_prog(rng, T))])) for j in range(rng.randint(0, 3))]))])
        else: t = gen_node(rng, T, rng.randint(0, 3))
        add(t, 1 if rng.random() < 0.15 else 0, "random")
    # ---- real units: FOAM of compiled programs
    ald = Aldor(build)
    real_fail = []
    progs = corpus_programs(ctx.tier)
    for (nm, srcb) in progs[: (8 if not thorough else 100)]:
        for q in (("-Q2",) if not thorough else ("-Q0", "-Q2", "-Q9")):
            rc, o, e, files = ald.run([q, "-Ffm", nm + ".as"], {nm + ".as": srcb})
            fm = files.get(nm + ".fm")
            if rc != 0 or fm is None:
                real_fail.append((nm, q, (o + e)[-300:].decode("latin-1")))
                continue
            try:
                unit = sx_to_tree(T, sx_parse(fm.decode("latin-1"))[0])
            except Exception as ex:
                real_fail.append((nm, q, "cannot convert .fm: %r" % (ex,)))
                continue
            stats["real_units"] += 1
            ntok = count_tokens(unit)
            stats["real_unit_tokens"] += ntok
            if ntok < 190000:
                add(unit, 0, "real:%s%s" % (nm, q))
            else:
                defs = unit[1][1][1]
                add(("Unit", [unit[1][0], ("C", ("DDef", []))]), 0, "real:%s%s:fmts" % (nm, q))
                for dk, d in enumerate(defs[1]):
                    add(d[1], 0, "real:%s%s:def%d" % (nm, q, dk))
    stats["real_compile_failures"] = real_fail[:5]
    stats["compiler_runs_corr"] = ald.runs
    if progs and stats["real_units"] == 0:
        ctx.violation("codec|no-real-unit", "none of the corpus programs could be compiled to .fm with the scratch compiler: %r" % (real_fail[:2],),
                      {"kind": "check-error", "failures": real_fail[:5]}, found_input=False)
    # ---- run both sides
    if os.environ.get("CODEC_DUMP"):
        open(os.environ["CODEC_DUMP"], "w").write("\n".join(lines) + "\n")
    t1 = time.time()
    c = common.run_impl_lines(exe, lines, timeout=1800)
    stats["impl_wall_s"] = round(time.time() - t1, 1)
    t1 = time.time()
    mraw = common.run_model("codec", "\n".join(lines) + "\n")
    stats["model_wall_s"] = round(time.time() - t1, 1)
    m, tags = common.split_model(mraw)
    assert len(m) == len(lines), (len(m), len(lines))
    stats["lines"] = len(lines)
    hist = common.tag_hist(tags)
    stats["tags"] = hist
    seen = set()
    for k, ln in enumerate(lines):
        co = c[k] if k < len(c) else "MISSING"
        mo = m[k]
        tree, lf, src = origin[k]
        tg = tags[k].split()
        if co != mo and ln.startswith("T") and "wf" in tg and stats["reruns"] < 400:
            stats["reruns"] += 1
            co2 = isolated(exe, ln)
            if co2 != co: stats["rerun_changed"] += 1
            co = co2
        seen.add(co[:200])
        short = ln if len(ln) < 600 else ln[:600] + " …(%d chars)" % len(ln)
        if ln.startswith("R "):
            stats["reduce_lines"] += 1
            x = int(ln.split()[1])
            ok = False
            try:
                ok = int(co.rsplit("=", 1)[1]) == x
            except Exception:
                pass
            if co != mo or not ok:
                stats["mismatch"] += co != mo
                if not ok:
                    ctx.finding("codec|sintreduce-value|%d" % x, "foamSIntReduce(%d) gives `%s`, which does not denote %d (model: %s)" % (x, co, x, mo),
                                {"kind": "impl-violates-property", "request": ln, "impl": co, "model": mo, "driver": "harness/foamcodec_drv.c"})
                else:
                    ctx.corr_broken.append((NAME, ln, co, mo))
            continue
        wf = "wf" in tg
        stats["wf" if wf else "nwf"] += 1
        if co.startswith("FAULT") or co in ("MISSING", "SKIPPED"):
            stats["faults"] += 1
            ctx.finding("codec|driver-fault", "the codec driver died (%s) on: %s" % (co, short),
                        {"kind": "impl-fault", "request": ln[:20000], "impl": co, "model": mo[:2000]})
            continue
        cf = co.split("|")
        mf = mo.split("|")
        aborted = co in ("ABORT",) or co.startswith("CRASH") or co.startswith("|CHILD-DIED")
        if aborted or mo == "ABORT":
            stats["abort"] += 1
            if wf and aborted:
                ctx.finding("codec|abort-on-wellformed|" + tree[0], "foamToBuffer stops in bug()/assert (%s) on a well-formed tree: %s" % (co, short),
                            {"kind": "impl-violates-property", "request": ln[:20000], "impl": co, "model": mo[:2000]})
            elif (mo == "ABORT") != aborted:
                stats["mismatch"] += 1
                ctx.corr_broken.append((NAME, short, co[:300], mo[:300]))
            continue
        # bytes: structural stream
        if has_rec_ptr(tree):
            stats["rec_pointer_dependent"] = stats.get("rec_pointer_dependent", 0) + 1
            continue
        bytes_equal = cf[0] == mf[0] and cf[1] == mf[1]
        # decoded tree: observable stream.  Where the model says the reader runs off the bytes / leaves
        # bytes over, the C reader is in undefined territory (stale buffer contents): not compared.
        model_defined = len(mf) == 4 and mf[2] != "NONE"
        dec_equal = (cf[2:] == mf[2:]) if model_defined else True
        # executable property on the implementation's output
        prop = None
        if len(cf) >= 3 and not cf[2].startswith("DEC-") and "CHILD-DIED" not in co:
            try:
                dtree, _ = parse_tree(cf[2].split())
                prop = same_program(T, tree, dtree)
                if prop is None and len(cf) > 4: prop = "bytes left over after reading back: " + cf[4]
            except Exception as ex:
                prop = "unparsable read-back %r (%s)" % (cf[2][:100], ex)
        else:
            prop = "the reader aborted/crashed: " + (cf[2] if len(cf) > 2 else co)
        stats["prop_checked"] += 1
        if not (bytes_equal and dec_equal):
            stats["mismatch"] += 1
            if prop is not None and wf:
                ctx.finding("codec|roundtrip|" + defect_key(prop, tree), "a well-formed %s tree does not survive foamToBuffer/foamFrBuffer: %s; request: %s"
                            % (tree[0], prop, short),
                            {"kind": "impl-violates-property", "request": ln[:20000], "impl": co[:4000], "model": mo[:4000], "why": prop,
                             "driver": "harness/foamcodec_drv.c", "source": src})
            else:
                ctx.corr_broken.append((NAME, short, "%s (first difference at %s)" % (co[:200], first_diff(co, mo)), mo[:200]))
        elif wf:
            if prop is not None:
                stats["prop_failed_wf"] += 1
                ctx.violation("codec|model-and-impl-wrong|" + tree[0],
                              "implementation and model agree but a well-formed tree does not round-trip (contradicts decode_encode): %s; %s" % (prop, short),
                              {"kind": "inconsistent", "request": ln[:20000], "impl": co[:4000], "why": prop})
        else:
            # excluded point: outside WF.  Recorded, not judged.
            if prop is None: stats["excluded_roundtrip_ok"] += 1
            else:
                stats["excluded_roundtrip_differs"] += 1
                key = tree[0] + ":" + re.sub(r"-?\d+", "N", prop.split(": ", 1)[-1])[:60]
                ex = stats["excluded_examples"]
                if key not in ex and len(ex) < 60:
                    ex[key] = {"request": short[:300], "why": prop[:200]}
        if src.startswith("real") and (prop is not None):
            ctx.finding("codec|real-unit-roundtrip|" + src.split(":")[1], "the FOAM of a real program does not survive the byte codec: %s" % prop,
                        {"kind": "impl-violates-property", "request": ln[:20000], "why": prop, "source": src})
        if k % 1500 == 7:
            ctx.sample({"module": NAME, "request": short[:300], "impl": co[:200], "model": mo[:200], "tags": tags[k]})
    stats["distinct_results"] = len(seen)
    ctx.cov["evaluations"] += len(lines)
    ctx.cov["distinct_nontrivial"] += len(seen)
    stats["corr_wall_s"] = round(time.time() - t_start, 1)
    if os.environ.get("CODEC_NO_E2E") != "1":
        run_e2e(ctx, build, T, ald)
        run_splits(ctx, build, ald)
    return stats


def defect_key(prop, tree):
    """key a round-trip failure by the field that was lost (innermost tag and format letter), not by
    the tree that happened to contain it"""
    m = re.search(r"/(\w+)\[\d+\] \((\w)\): ", prop or "")
    if m: return "%s.%s" % (m.group(1), m.group(2))
    if prop and "reader aborted/crashed" in prop: return "reader-crash"
    return tree[0]


def isolated(exe, ln):
    """answer of a fresh driver process to this one request (a worker that served other wild requests
    before may have a damaged heap)"""
    r = common.run_impl_lines(exe, [ln], timeout=300)
    return r[0] if r else "MISSING"


# ------------------------------------------------------------------------------- end-to-end sub-check
C_RED = re.compile(r"\((\d+)L<<31L\|(\d+)L\)")
L_RED = re.compile(r"\(\|SIntOr\|\(\|SIntShiftUp\|\(the\|SInt\|(-?\d+)\)\(the\|SInt\|31\)\)\(the\|SInt\|(\d+)\)\)")
L_NEG = re.compile(r"\(\|SIntNegate\|\(the\|SInt\|(-?\d+)\)\)")


def c_norm(text):
    """generated C apart from what the property lets differ: comments (the file-name line), layout,
    and 31-bit re-expressed integer constants (folded back to their value)"""
    t = re.sub(r"/\*.*?\*/", "", text, flags=re.S)
    t = re.sub(r"\s+", "", t)
    while True:
        t2 = C_RED.sub(lambda m: "%dL" % to_s64((int(m.group(1)) << 31) | int(m.group(2))), t)
        if t2 == t: break
        t = t2
    # LONG_MIN: `-(…)` of the wrapped shift (the generated C relies on `long` wrap-around there)
    return t.replace("--9223372036854775808L", "-9223372036854775808L")


def lsp_norm(text):
    t = "\n".join(l for l in text.split("\n") if not l.lstrip().startswith(";"))
    t = re.sub(r"\s+", "", t)
    while True:
        t2 = L_RED.sub(lambda m: "(the|SInt|%d)" % to_s64((int(m.group(1)) << 31) | int(m.group(2))), t)
        t2 = L_NEG.sub(lambda m: "(the|SInt|%d)" % to_s64(-int(m.group(1))), t2)
        if t2 == t: break
        t = t2
    return t


def first_diff_lines(a, b, skip=lambda l: False):
    la = [l for l in a.split("\n") if not skip(l)]
    lb = [l for l in b.split("\n") if not skip(l)]
    for i in range(max(len(la), len(lb))):
        x = la[i] if i < len(la) else "<end of file>"
        y = lb[i] if i < len(lb) else "<end of file>"
        if x != y: return {"line": i + 1, "first": x[:300], "second": y[:300]}
    return {"line": 0, "first": "", "second": ""}


def norm_diff(a, b):
    n = min(len(a), len(b))
    for i in range(n):
        if a[i] != b[i]: return "…%s  vs  …%s" % (a[max(0, i - 60):i + 60], b[max(0, i - 60):i + 60])
    return "lengths %d vs %d: …%s" % (len(a), len(b), (a if len(a) > len(b) else b)[n:n + 100])


def e2e_one(ald, T, name, src, q, with_lsp):
    """all routes of one program at one optimisation level; returns (list of (kind, what, replay), stats)"""
    out = []
    fl = ["-Fc", "-Ffm"] + (["-Flsp"] if with_lsp else [])
    txt = lambda b: b.decode("latin-1") if b is not None else None
    rc, o, e, f1 = ald.run([q, "-Fao"] + fl + [name + ".as"], {name + ".as": src})
    ao, c1, fm1, l1 = f1.get(name + ".ao"), txt(f1.get(name + ".c")), txt(f1.get(name + ".fm")), txt(f1.get(name + ".lsp"))
    if rc != 0 or ao is None or c1 is None or fm1 is None:
        return [("compile", "the program does not compile from source: %s" % (o + e)[-300:].decode("latin-1"), {})], {"skipped": 1}
    rc, o, e, f2 = ald.run([q] + fl + [name + ".ao"], {name + ".ao": ao})
    c2, fm2, l2 = txt(f2.get(name + ".c")), txt(f2.get(name + ".fm")), txt(f2.get(name + ".lsp"))
    if rc != 0 or c2 is None or fm2 is None:
        out.append(("ao-load", "C/FOAM cannot be generated from the saved .ao: %s" % (o + e)[-300:].decode("latin-1"), {"rc": rc}))
    else:
        if fm1 != fm2:
            d = None
            try:
                d = same_program(T, sx_to_tree(T, sx_parse(fm1)[0]), sx_to_tree(T, sx_parse(fm2)[0]))
            except Exception as ex:
                d = "cannot compare: %r" % (ex,)
            if d:
                out.append(("fm-from-ao", ".fm generated from the saved .ao differs from .fm generated from the source: " + d,
                            first_diff_lines(fm1, fm2)))
        a, b = c_norm(c1), c_norm(c2)
        if a != b:
            out.append(("c-from-ao", ".c generated from the saved .ao differs from .c generated from the source (apart from the file name and "
                        "re-expressed integers): " + norm_diff(a, b), first_diff_lines(c1, c2, lambda l: "generated by Aldor from file" in l)))
        if with_lsp and l1 is not None:
            if l2 is None: out.append(("lsp-from-ao", "no .lsp from the saved .ao", {}))
            else:
                a, b = lsp_norm(l1), lsp_norm(l2)
                if a != b:
                    out.append(("lsp-from-ao", ".lsp generated from the saved .ao differs from .lsp generated from the source: " + norm_diff(a, b),
                                first_diff_lines(l1, l2, lambda l: l.lstrip().startswith(";"))))
    # .fm -> .c/.fm
    rc, o, e, f3 = ald.run([q, "-Ffm=resaved.fm", "-Fc=fromfm.c", name + ".fm"], {name + ".fm": fm1.encode("latin-1")})
    fm3, c3 = txt(f3.get("resaved.fm")), txt(f3.get("fromfm.c"))
    if rc != 0 or fm3 is None:
        out.append(("fm-load", "the saved .fm cannot be loaded again: %s" % (o + e)[-300:].decode("latin-1"), {"rc": rc}))
    else:
        if fm3 != fm1:
            out.append(("fm-resave", "re-saving the loaded .fm does not reproduce it byte for byte", first_diff_lines(fm1, fm3)))
        if c3 is not None and c_norm(c3) != c_norm(c1):
            out.append(("c-from-fm", ".c generated from the saved .fm differs from .c generated from the source: " + norm_diff(c_norm(c1), c_norm(c3)),
                        first_diff_lines(c1, c3, lambda l: "generated by Aldor from file" in l)))
    # behaviour
    def runit(fname, data):
        rc, o, e, _ = ald.run([q, "-Ginterp", fname], {fname: data}, timeout=120)
        # stack traces of a faulting run print code addresses
        return (rc, re.sub(r"0x[0-9a-f]+", "0x?", o.decode("latin-1")),
                re.sub(r"\S*%s\.\w+" % re.escape(name), "<file>", e.decode("latin-1"))[-500:])
    if name.startswith("g"):
        # generated programs: their point is the saved forms.  (gmanyfmt cannot be interpreted on any
        # route: fint.c keeps the DEnv/DFluid format numbers of a prog in UByte arrays, so a unit with
        # more than 255 formats is beyond the interpreter whatever the codec does.)
        return out, {"fm_bytes": len(fm1)}
    r_as = runit(name + ".as", src)
    r_ao = runit(name + ".ao", ao)
    r_fm = runit(name + ".fm", fm1.encode("latin-1"))
    if r_as[0] != 0:
        out.append(("run-source", "the program does not run from source (rc %s): %s" % (r_as[0], r_as[2][-200:]), {}))
    if (r_ao[0], r_ao[1]) != (r_as[0], r_as[1]):
        out.append(("run-from-ao", "run from the saved .ao behaves differently from the run from source",
                    dict(first_diff_lines(r_as[1], r_ao[1]), rc_source=r_as[0], rc_saved=r_ao[0], stderr=r_ao[2][-200:])))
    if (r_fm[0], r_fm[1]) != (r_as[0], r_as[1]):
        out.append(("run-from-fm", "run from the saved .fm behaves differently from the run from source",
                    dict(first_diff_lines(r_as[1], r_fm[1]), rc_source=r_as[0], rc_saved=r_fm[0], stderr=r_fm[2][-200:])))
    return out, {"stdout_bytes": len(r_as[1]), "fm_bytes": len(fm1), "wide_ints": fm1 != fm2 if fm2 is not None else None}


def e2e_split(ald, q, lib, cli, one, libname):
    """library unit + client unit against the same program compiled as one unit; the library is used as
    .ao and as a member of an archive .al"""
    out = []
    rc, o, e, f = ald.run([q, "-Fao", libname + ".as"], {libname + ".as": lib})
    ao = f.get(libname + ".ao")
    if rc != 0 or ao is None:
        return [("split-compile", "library unit does not compile: " + (o + e)[-300:].decode("latin-1"), {})]
    r1 = ald.run([q, "-Ginterp", "one.as"], {"one.as": one})
    r2 = ald.run([q, "-Ginterp", "cli.as"], {"cli.as": cli, libname + ".ao": ao})
    if (r1[0], r1[1]) != (r2[0], r2[1]):
        out.append(("split-ao", "library (.ao) + client behaves differently from the one-unit program",
                    dict(first_diff_lines(r1[1].decode("latin-1"), r2[1].decode("latin-1")), rc_one=r1[0], rc_split=r2[0],
                         stderr=r2[2].decode("latin-1")[-300:])))
    d = os.path.join(ald.root, "ar%d" % ald.next_id())
    os.makedirs(d, exist_ok=True)
    open(os.path.join(d, libname + ".ao"), "wb").write(ao)
    rc, _, err = common.run(["ar", "cr", libname + ".al", libname + ".ao"], cwd=d)
    if rc == 0:
        al = open(os.path.join(d, libname + ".al"), "rb").read()
        cli_al = cli.replace((libname + ".ao").encode(), (libname + ".al").encode())
        r3 = ald.run([q, "-Ginterp", "cli.as"], {"cli.as": cli_al, libname + ".al": al})
        if (r1[0], r1[1]) != (r3[0], r3[1]):
            out.append(("split-al", "library (archive .al) + client behaves differently from the one-unit program",
                        dict(first_diff_lines(r1[1].decode("latin-1"), r3[1].decode("latin-1")), rc_one=r1[0], rc_split=r3[0],
                             stderr=r3[2].decode("latin-1")[-300:])))
    shutil.rmtree(d, ignore_errors=True)
    if r1[0] != 0:
        out.append(("split-run", "the one-unit program does not run: " + r1[2].decode("latin-1")[-200:], {}))
    return out


def run_e2e(ctx, build, T, ald):
    from concurrent.futures import ThreadPoolExecutor
    t0 = time.time()
    thorough = ctx.tier == "thorough"
    st = {"programs": 0, "pairs": 0, "differences": 0, "kinds": {}, "splits": 0}
    ctx.cov[NAME + "_e2e"] = st
    progs = corpus_programs(ctx.tier)
    levels = ("-Q0", "-Q2") if not thorough else ("-Q0", "-Q2", "-Q9")
    jobs = []
    for k, (nm, src) in enumerate(progs if thorough else progs[:8]):
        for q in levels:
            jobs.append((nm, src, q, thorough or (k < 2 and q == "-Q2")))
    for nm, src in generated_programs():
        jobs.append((nm, src, "-Q2" if nm == "gbiglit" else "-Q0", False))
    st["programs"] = len({j[0] for j in jobs})
    results = []
    with ThreadPoolExecutor(max_workers=max(2, min(8, common.NCPU))) as ex:
        futs = [(j, ex.submit(e2e_one, ald, T, j[0], j[1], j[2], j[3])) for j in jobs]
        sp = []
        def rd(n): return open(os.path.join(CORPUS, n), "rb").read()
        if os.path.exists(os.path.join(CORPUS, "libshapes.as")):
            for q in levels:
                sp.append((q, ex.submit(e2e_split, ald, q, rd("libshapes.as"), rd("clishapes.as"), rd("oneshapes.as"), "libshapes")))
        for j, f in futs:
            results.append((j, f.result()))
        for q, f in sp:
            st["splits"] += 1
            for kind, what, rep in f.result():
                st["differences"] += 1
                st["kinds"][kind] = st["kinds"].get(kind, 0) + 1
                ctx.finding("codec-e2e|%s" % kind, "%s (%s): %s" % (what, q, json_short(rep)),
                            {"kind": "e2e-difference", "program": "corpus/codec/{lib,cli,one}shapes.as", "level": q, "what": what, "first_difference": rep})
    for (nm, src, q, _), (diffs, info) in results:
        st["pairs"] += 1
        for kind, what, rep in diffs:
            st["differences"] += 1
            st["kinds"][kind] = st["kinds"].get(kind, 0) + 1
            ctx.finding("codec-e2e|%s" % kind, "%s at %s: %s; first difference: %s" % (nm, q, what, json_short(rep)),
                        {"kind": "e2e-difference", "program": "corpus/codec/%s.as" % nm, "level": q, "what": what, "first_difference": rep,
                         "how": "each compiler run in a fresh directory: `aldor %s -Fao -Fc -Ffm p.as`; `aldor -Fc -Ffm p.ao`; `aldor -Ffm=resaved.fm p.fm`; `aldor -Ginterp p.{as,ao,fm}`" % q})
    st["compiler_runs"] = ald.runs
    st["wall_s"] = round(time.time() - t0, 1)
    ctx.cov["evaluations"] += st["pairs"] + st["splits"]
    return st


# ------------------------------------------------------------------------------- separate compilation
SPLITDIR = os.path.join(CORPUS, "split")


def parse_units(text):
    """corpus/codec/split/*.as are one-unit programs whose top-level pieces are marked by comment
    lines `--UNIT name [uses name…]` and `--MAIN`; returns (header, [(name, uses, body)], main)"""
    header, units, main = [], [], []
    cur = header
    for ln in text.split("\n"):
        if ln.startswith("--UNIT "):
            w = ln.split()
            uses = w[w.index("uses") + 1:] if "uses" in w else []
            units.append((w[1], uses, [])); cur = units[-1][2]
        elif ln.startswith("--MAIN"):
            cur = main
        else:
            cur.append(ln)
    return "\n".join(header) + "\n", [(n, u, "\n".join(b) + "\n") for n, u, b in units], "\n".join(main) + "\n"


def src_one(prog):
    h, units, main = prog
    return (h + "".join(b for _, _, b in units) + main).encode()


def src_unit(prog, name, ext="ao", archive=None):
    """one unit as a file of its own; the units it uses are named by their .ao (or by the archive)"""
    h, units, main = prog
    n, uses, body = [u for u in units if u[0] == name][0]
    t = '#include "aldor"\n'
    for k, d in enumerate(uses):
        t += '#library U%d "%s"\nimport from U%d;\n' % (k, archive or (d + "." + ext), k)
    return (t + body).encode()


def src_lib(prog, S):
    """the units in S merged into one library unit"""
    h, units, main = prog
    return ('#include "aldor"\n' + "".join(b for n, _, b in units if n in S)).encode()


def src_client(prog, S, libs, inline):
    """everything not in S, then the main part; `libs`: file names of the libraries to import"""
    h, units, main = prog
    t = h
    for k, f in enumerate(libs):
        t += '#library L%d "%s"\nimport from L%d;\n' % (k, f, k)
        if inline: t += "inline from L%d;\n" % k
    return (t + "".join(b for n, _, b in units if n not in S) + main).encode()


def closed(prog, S):
    """a library cannot use what is left in the client"""
    return all(set(u) <= S for n, u, _ in prog[1] if n in S)


def mk_archive(ald, members):
    """`ar cr` of the given {name: bytes}; returns the archive bytes (None if ar fails)"""
    d = os.path.join(ald.root, "ar%d" % ald.next_id())
    os.makedirs(d, exist_ok=True)
    for nm, data in members.items():
        with open(os.path.join(d, nm), "wb") as f: f.write(data)
    rc, _, err = common.run(["ar", "cr", "out.al"] + list(members), cwd=d)
    al = open(os.path.join(d, "out.al"), "rb").read() if rc == 0 else None
    shutil.rmtree(d, ignore_errors=True)
    return al


def norm_run(r):
    rc, o, e = r[0], r[1], r[2]
    return (rc, re.sub(r"0x[0-9a-f]+", "0x?", o.decode("latin-1")))


def run_prog(ald, q, route, main_name, files, objs=()):
    """interpret (`interp`) or compile, link and execute (`c`) main_name.as in a directory holding `files`"""
    if route == "interp":
        return norm_run(ald.run([q, "-Ginterp", main_name + ".as"], files))
    return norm_run(ald.run([q, "-Fx"] + ald.c_opts + [main_name + ".as"] + list(objs), files, timeout=300, exe=main_name))


def split_diff(ref, got):
    d = first_diff_lines(ref[1], got[1])
    d.update(rc_one=ref[0], rc_split=got[0])
    return d


def split_cond(ald, prog, q, label="cond"):
    """(1) a parametrised library domain overriding a category default under a condition, exported
    constants, a generic function, map-typed exports; client with/without `inline from`, library as
    .ao and inside an .al, interpreter and C routes, against the one-unit program"""
    out = []
    libn = prog[1][0][0]
    S = {n for n, _, _ in prog[1]}
    one = {"one.as": src_one(prog)}
    ref = {"interp": run_prog(ald, q, "interp", "one", one), "c": run_prog(ald, q, "c", "one", one)}
    for r, v in ref.items():
        if v[0] != 0: out.append(("%s-one-unit-%s" % (label, r), "the one-unit program fails on the %s route (rc %s)" % (r, v[0]), {"stdout": v[1][-300:]}))
    rc, o, e, f = ald.run([q, "-Fao", "-Fo"] + ald.c_opts + [libn + ".as"], {libn + ".as": src_lib(prog, S)}, timeout=300)
    ao, ob = f.get(libn + ".ao"), f.get(libn + ".o")
    if rc != 0 or ao is None or ob is None:
        return out + [("%s-library-compile" % label, "the library unit does not compile: " + (o + e)[-300:].decode("latin-1"), {})]
    al = mk_archive(ald, {libn + ".ao": ao})
    n = 0
    for inline in (False, True):
        for form, libfile, data in (("ao", libn + ".ao", ao), ("al", libn + ".al", al)):
            if data is None: continue
            cli = {"cli.as": src_client(prog, S, [libfile], inline), libfile: data}
            for route in ("interp", "c"):
                files = dict(cli)
                objs = ()
                if route == "c":
                    files[libn + ".o"] = ob; objs = (libn + ".o",)
                got = run_prog(ald, q, route, "cli", files, objs)
                n += 1
                if got != ref[route]:
                    out.append(("%s-%s" % (label, form),
                                "library (.%s)%s + client differs from the one-unit program on the %s route" % (form, ", inline from" if inline else "", route),
                                split_diff(ref[route], got)))
    return out, n


def split_archive(ald, prog, q):
    """(2) archives whose members have names longer than 15 characters (the `//` long-name table) mixed
    with short ones; several units of one archive used with `inline from`; against separate .ao files
    and the one-unit program"""
    out = []
    names = [n for n, _, _ in prog[1]]
    one = {"one.as": src_one(prog)}
    ref = {"interp": run_prog(ald, q, "interp", "one", one), "c": run_prog(ald, q, "c", "one", one)}
    aos, obs = {}, {}
    for n, uses, _ in prog[1]:
        files = {n + ".as": src_unit(prog, n)}
        for d in uses: files[d + ".ao"] = aos[d + ".ao"]
        rc, o, e, f = ald.run([q, "-Fao", "-Fo"] + ald.c_opts + [n + ".as"], files, timeout=300)
        if rc != 0 or n + ".ao" not in f or n + ".o" not in f:
            return out + [("archive-unit-compile", "unit %s does not compile: %s" % (n, (o + e)[-300:].decode("latin-1")), {})], 0
        aos[n + ".ao"] = f[n + ".ao"]; obs[n + ".o"] = f[n + ".o"]
    longn = [n for n in names if len(n + ".ao") > 15]
    cnt = 0
    configs = [("separate-ao", None, names)]
    # archives: the 2 first long-named members + a short one; all members (>= 3 long)
    short = [n for n in names if n not in longn]
    closure = lambda sel: [n for n in names if n in sel or any(n in u for m, u, _ in prog[1] if m in sel)]
    configs.append(("archive-2long", closure(set(longn[:2]) | set(short[:1])), names))
    configs.append(("archive-all", names, names))
    for label, members, _ in configs:
        if members is None:
            libs = [n + ".ao" for n in names]
            base = {k: v for k, v in aos.items()}
        else:
            al = mk_archive(ald, {m + ".ao": aos[m + ".ao"] for m in members})
            if al is None:
                out.append(("archive-ar", "ar failed", {})); continue
            if al[:8] != b"!<arch>\n" or (any(len(m + ".ao") > 15 for m in members) and b"//" not in al[:80]):
                out.append(("archive-format", "the archive built by ar has no long-name table", {}))
            rest = [n for n in names if n not in members]
            libs = ["multi.al"] + [n + ".ao" for n in rest]
            base = {"multi.al": al}
            for n in rest: base[n + ".ao"] = aos[n + ".ao"]
        for inline in ((True,) if label != "archive-all" else (True, False)):
            cli = dict(base); cli["cli.as"] = src_client(prog, set(names), libs, inline)
            for route in ("interp", "c"):
                files = dict(cli); objs = ()
                if route == "c":
                    files.update(obs); objs = tuple(sorted(obs))
                got = run_prog(ald, q, route, "cli", files, objs)
                cnt += 1
                if got != ref[route]:
                    out.append((label,
                                "client of %s%s differs from the one-unit program on the %s route" % (label, " with inline from" if inline else "", route),
                                split_diff(ref[route], got)))
    return out, cnt


def split_subset(ald, prog, pname, S, q, inline):
    """(3) one library/client split of the top-level domains: S goes to the library"""
    one = {"one.as": src_one(prog)}
    ref = run_prog(ald, q, "interp", "one", one)
    rc, o, e, f = ald.run([q, "-Fao", "lib.as"], {"lib.as": src_lib(prog, S)})
    if rc != 0 or "lib.ao" not in f:
        return [("subset-library-compile", "%s: library of {%s} does not compile: %s" % (pname, ",".join(sorted(S)), (o + e)[-300:].decode("latin-1")), {})]
    got = run_prog(ald, q, "interp", "cli", {"cli.as": src_client(prog, S, ["lib.ao"], inline), "lib.ao": f["lib.ao"]})
    if got != ref:
        return [("subset", "%s: library {%s} + client {%s}%s differs from the one-unit program at %s"
                 % (pname, ",".join(sorted(S)), ",".join(n for n, _, _ in prog[1] if n not in S), ", inline from" if inline else "", q),
                 split_diff(ref, got))]
    return []


def run_splits(ctx, build, ald):
    from concurrent.futures import ThreadPoolExecutor
    import itertools
    t0 = time.time()
    thorough = ctx.tier == "thorough"
    st = {"cond_configs": 0, "archive_configs": 0, "subsets": 0, "subset_programs": 0, "differences": 0, "kinds": {}}
    ctx.cov[NAME + "_split"] = st
    if not os.path.isdir(SPLITDIR):
        return st
    load = lambda n: parse_units(open(os.path.join(SPLITDIR, n)).read())
    rng = ctx.rng
    jobs = []
    with ThreadPoolExecutor(max_workers=max(2, min(8, common.NCPU))) as ex:
        if os.path.exists(os.path.join(SPLITDIR, "cond.as")):
            cond = load("cond.as")
            for q in ("-Q0", "-Q2", "-Q9"):
                jobs.append(("cond", q, ex.submit(split_cond, ald, cond, q)))
        if os.path.exists(os.path.join(SPLITDIR, "fileconst.as")):
            fc = load("fileconst.as")
            for q in ("-Q0", "-Q2", "-Q9"):
                jobs.append(("cond", q, ex.submit(split_cond, ald, fc, q, "fileconst")))
        if os.path.exists(os.path.join(SPLITDIR, "multi.as")):
            multi = load("multi.as")
            for q in (("-Q2",) if not thorough else ("-Q0", "-Q2", "-Q9")):
                jobs.append(("archive", q, ex.submit(split_archive, ald, multi, q)))
        subs = sorted(f for f in os.listdir(SPLITDIR) if f.startswith("sub") and f.endswith(".as"))
        st["subset_programs"] = len(subs)
        allsplits = []
        for fn in subs:
            prog = load(fn)
            names = [n for n, _, _ in prog[1]][:3]
            for k in range(1, len(names) + 1):
                for S in itertools.combinations(names, k):
                    if closed(prog, set(S)):
                        for q in ("-Q0", "-Q2", "-Q9"):
                            for inline in (False, True):
                                allsplits.append((fn[:-3], prog, set(S), q, inline))
        st["subsets_possible"] = len(allsplits)
        chosen = allsplits if thorough else rng.sample(allsplits, min(len(allsplits), 36))
        for pn, prog, S, q, inline in chosen:
            jobs.append(("subset", q, ex.submit(split_subset, ald, prog, pn, S, q, inline)))
        for kind, q, f in jobs:
            r = f.result()
            if kind == "subset":
                diffs = r; st["subsets"] += 1
            else:
                diffs, n = r if isinstance(r, tuple) else (r, 0)
                st[kind + "_configs"] += n
            for what, msg, rep in diffs:
                st["differences"] += 1
                st["kinds"][what] = st["kinds"].get(what, 0) + 1
                ctx.finding("codec-e2e|split|%s" % what, "%s (%s); first difference: %s" % (msg, q, json_short(rep)),
                            {"kind": "e2e-split-difference", "scenario": kind, "level": q, "what": msg, "first_difference": rep,
                             "sources": "corpus/codec/split/*.as (pieces marked --UNIT/--MAIN), assembled by checks/parts/codec.py src_lib/src_client/src_unit",
                             "how": "library: `aldor Q -Fao [-Fo] lib.as`; archive: `ar cr x.al members…`; client: `aldor Q -Ginterp cli.as` / `aldor Q -Fx cli.as lib.o` then ./cli; every run in a fresh directory"})
    st["wall_s"] = round(time.time() - t0, 1)
    ctx.cov["evaluations"] += st["cond_configs"] + st["archive_configs"] + st["subsets"]
    return st


def json_short(d):
    try:
        import json
        return json.dumps(d)[:400]
    except Exception:
        return str(d)[:400]


def first_diff(a, b):
    n = min(len(a), len(b))
    for i in range(n):
        if a[i] != b[i]:
            return "char %d: …%s" % (i, a[max(0, i - 20):i + 40])
    return "length %d vs %d: …%s" % (len(a), len(b), a[n - 20 if n > 20 else 0:n + 40])
