"""part `jprint` (C12): the Java expression printer of javacode.c (jcBinOpPrint, jc0PrintWithParens,
jc0NeedsParens, jcUnaryOpPrint) vs Model/JPrint.lean, and vs Java's own reading of the printed text.

Tie: hand model + correspondence (H).  harness/jprint_drv.c builds expression trees with the
repository's jcBinOp / jcNot / jcNegate / jcId / jcLiteralInteger (linked from the scratch build) and
prints them with the real printer.  The Lean driver prints the same trees with JPrint.print over the
operator table that translate/jmap.py reads from the source (Gen.JMap.binOps).  The python oracle
parses the REAL printer's text with Java's precedence and associativity (JLS, hand-written here,
independent of the compiler's table) and compares the tree it reads with the tree that was printed."""
import os, re
from vlib import common
from vlib.common import VERIF

NAME = "jprint"
BUILD_TARGETS = ["AldorVerif.Props.C12Print"]
SOURCES = ["java/javacode.c", "java/javacode.h"]
MODELLED = ("javacode.c: jcBinOpPrint jc0PrintWithParens jc0NeedsParens + the class table's text/precedence/associativity "
            "(not: jcUnaryOpPrint - probed against Java's grammar only; statements, declarations, layout)")
_P = "AldorVerif.Props.C12Print"
THEOREMS = [(_P, "AldorVerif.C12." + t) for t in (
    "printer_rule_is_standard", "print_parse_roundtrip", "table_consistent", "print_parse_roundtrip_table",
    "equal_level_table_misreads")]

# Java (JLS 15.17-15.24): level of each binary operator, all left-associative
JLS = {"*": 12, "/": 12, "%": 12, "+": 11, "-": 11, "<<": 10, ">>": 10, ">>>": 10, "<": 9, "<=": 9, ">": 9, ">=": 9,
       "==": 8, "!=": 8, "&": 7, "^": 6, "|": 5, "&&": 4, "||": 3}
# operation name of the C driver -> Java text
BIN = {"LogAnd": "&&", "LogOr": "||", "And": "&", "Or": "|", "XOr": "^", "Equals": "==", "NEquals": "!=", "Plus": "+",
       "Minus": "-", "Times": "*", "Divide": "/", "Modulo": "%", "LT": "<", "LE": "<=", "GT": ">", "GE": ">=",
       "ShiftUp": "<<", "ShiftDn": ">>"}
UN = {"Not": "!", "Negate": "-"}
# Java's lexer takes the longest token: `--` and `++` are the decrement / increment operators
JTOK = re.compile(r"\s*(>>>|<<|>>|<=|>=|==|!=|&&|\|\||\+\+|--|[-+*/%&|^!<>()]|[A-Za-z_]\w*|\d+)")

def jtokens(s):
    out, i = [], 0
    s = s.strip()
    while i < len(s):
        m = JTOK.match(s, i)
        if not m: return None
        out.append(m.group(1)); i = m.end()
    return out

def jparse(toks):
    """Java's reading of an expression: tree in the request's Polish form (list of tokens), or None"""
    pos = [0]
    def peek(): return toks[pos[0]] if pos[0] < len(toks) else None
    def nxt():
        t = peek(); pos[0] += 1; return t
    def unary():
        t = peek()
        if t in ("--", "++"): raise ValueError("`%s` is Java's %s operator" % (t, "decrement" if t == "--" else "increment"))
        if t == "!": nxt(); return ["Not"] + unary()
        if t == "-": nxt(); return ["Negate"] + unary()
        if t == "(":
            nxt(); e = binary(3)
            if nxt() != ")": raise ValueError("missing )")
            return e
        if t is None or not re.fullmatch(r"[A-Za-z_]\w*|\d+", t): raise ValueError("unexpected %r" % (t,))
        nxt(); return [t]
    def binary(level):
        if level > 12: return unary()
        l = binary(level + 1)
        while peek() in JLS and JLS[peek()] == level:
            op = nxt(); r = binary(level + 1)
            l = [next(k for k, v in BIN.items() if v == op)] + l + r
        return l
    e = binary(3)
    if pos[0] != len(toks): raise ValueError("trailing tokens")
    return e

# ------------------------------------------------------------------ trees
def gen_trees(rng, thorough):
    names = list(BIN)
    leaves = ["a", "b", "c", "d", "7", "10"]
    def lf(k): return [leaves[k % len(leaves)]]
    out = []
    # every operator as left and as right child of every operator
    for p in names:
        for c in names:
            out.append([p, c] + lf(0) + lf(1) + lf(2))          # (a c b) p c
            out.append([p] + lf(0) + [c] + lf(1) + lf(2))        # a p (b c c)
    # depth 3: chains through every triple on the four nesting shapes
    trip = [(p, c, g) for p in names for c in names for g in names]
    if not thorough: trip = rng.sample(trip, 2500)
    for p, c, g in trip:
        out.append([p, c, g] + lf(0) + lf(1) + lf(2) + lf(3))
        out.append([p, c] + lf(0) + [g] + lf(1) + lf(2) + lf(3))
        out.append([p] + lf(0) + [c, g] + lf(1) + lf(2) + lf(3))
        out.append([p] + lf(0) + [c] + lf(1) + [g] + lf(2) + lf(3))
    # unary operators below and above every binary operator, and on each other
    for p in names:
        for u in UN:
            out.append([u, p] + lf(0) + lf(1))
            out.append([p, u] + lf(0) + lf(1))
            out.append([p] + lf(0) + [u] + lf(1))
    for u in UN:
        for v in UN:
            out.append([u, v] + lf(0))
    # random trees to depth 4
    def rnd(d):
        r = rng.random()
        if d == 0 or r < 0.12: return [rng.choice(leaves)]
        if r < 0.22: return [rng.choice(list(UN))] + rnd(d - 1)
        return [rng.choice(names)] + rnd(d - 1) + rnd(d - 1)
    for _ in range(20000 if thorough else 4000):
        out.append(rnd(4))
    return out

def has_unary(t): return any(x in UN for x in t)

def run_part(ctx, build):
    exe = build.cc_driver("jprint_drv", os.path.join(VERIF, "harness", "jprint_drv.c"))
    trees = []
    corp = os.path.join(VERIF, "corpus", "jprint")
    if os.path.isdir(corp):
        for f in sorted(os.listdir(corp)):
            trees += [l.split() for l in open(os.path.join(corp, f)) if l.strip() and not l.startswith("#")]
    ncorpus = len(trees)
    trees += gen_trees(ctx.rng, ctx.tier == "thorough")
    lines = [" ".join(t) for t in trees]
    impl = common.run_impl_lines(exe, lines)
    model, tags = common.split_model(common.run_model("jprint", "\n".join(lines) + "\n"))
    assert len(model) == len(lines)
    st = {"lines": len(lines), "corpus": ncorpus, "mismatch": 0, "read_back_ok": 0, "unary_trees": 0,
          "double_negate": 0, "tags": common.tag_hist(tags), "distinct_results": 0}
    seen = set()
    st["misprints"] = 0
    def misprint(ln, what, replay):
        # one finding per tree for the first few, then only counted (a broken rule misprints hundreds of trees)
        st["misprints"] += 1
        if st["misprints"] <= 6:
            ctx.finding("jprint|misprint|" + ln, what, replay)
    for k, (t, ln) in enumerate(zip(trees, lines)):
        co = impl[k] if k < len(impl) else "MISSING"
        mo = model[k]
        seen.add(co)
        if co.startswith("FAULT") or co in ("MISSING", "SKIPPED", "bad-op"):
            ctx.finding("jprint|fault", "the printer driver faults (%s) on: %s" % (co, ln), {"kind": "impl-fault", "line": ln, "impl": co})
            continue
        toks = jtokens(co)
        ctoks = " ".join(toks) if toks is not None else co
        # executable property on the implementation's own output: Java reads the tree that was printed
        why = ""
        try:
            back = jparse(toks) if toks is not None else None
            impl_ok = back == t
            if not impl_ok: why = "Java reads `%s` as %s" % (co, " ".join(back) if back else "nothing")
        except ValueError as e:
            impl_ok = False; why = "Java does not read `%s` as an expression of this tree: %s" % (co, e)
        if impl_ok: st["read_back_ok"] += 1
        un = has_unary(t)
        if un: st["unary_trees"] += 1
        if not un and ctoks != mo:
            st["mismatch"] += 1
            if not impl_ok:
                misprint(ln, "javacode.c prints `%s` for the tree `%s`: %s (model: %s)" % (co, ln, why, mo),
                         {"kind": "impl-violates-property", "line": ln, "impl": co, "model": mo, "why": why,
                          "replay_cmd": "echo '%s' | <jprint_drv built by ./check C12>" % ln})
            else:
                ctx.corr_broken.append(("jprint", ln, ctoks, mo))
        elif not impl_ok:
            if un and "--" in (toks or []):
                st["double_negate"] += 1
                ctx.finding("jprint|negate-of-negate-is-decrement",
                            "jcUnaryOpPrint writes a negation of a negation as `--x`, which Java's lexer reads as the decrement operator, e.g. `%s` -> `%s`" % (ln, co),
                            {"kind": "impl-violates-property", "line": ln, "impl": co, "why": why})
            elif un:
                misprint(ln, "javacode.c prints `%s` for the tree `%s`: %s" % (co, ln, why),
                         {"kind": "impl-violates-property", "line": ln, "impl": co, "why": why})
            else:
                ctx.violation("jprint|model-and-impl-wrong|" + ln,
                              "printer and model agree on `%s` -> `%s` but %s (contradicts print_parse_roundtrip_table: the table is "
                              "no longer consistent with Java's ranking, or a defect of model / oracle)" % (ln, co, why),
                              {"kind": "inconsistent", "line": ln, "impl": co})
        if k % 4000 == 13:
            ctx.sample({"module": "jprint", "request": ln, "impl": co, "model": mo, "java_reads_it_back": impl_ok})
    st["distinct_results"] = len(seen)
    ctx.cov["jprint"] = st
    ctx.cov["evaluations"] += len(lines)
    ctx.cov["distinct_nontrivial"] += len(seen)
    return st
