"""part `libhdr` (C17): lib.c header code + archive.c member walk vs Model/LibHdr.lean, Model/Archive.lean
(hand model + correspondence), and the end-to-end damage sweep on the real compiler."""
import bisect, hashlib, os, re, shutil, struct, subprocess, tempfile
from concurrent.futures import ThreadPoolExecutor
from vlib import common
from vlib.common import VERIF

NAME = "libhdr"
BUILD_TARGETS = ["AldorVerif.Props.C17"]
SOURCES = ["lib.c", "lib.h", "archive.c", "file.h", "buffer.c"]
MODELLED = ("lib.c: libNewHeader libAddSection+libPutSection(bookkeeping) libPutHeader libGetHeader libChkHeader "
            "libHasSection libGetSection libBadFile (the repaired reader: fread counts, verdict and bounds tested); archive.c: arRdFormat "
            "arFirst arNext arEndp arSeek arRdItemArch0 arReadNumber for the !<arch> format (not: // name table, "
            "/n indirect names, AIX/CMS formats); the decoders of the section bodies are not modelled")
_L = "AldorVerif.LibHdr."
_A = "AldorVerif.Archive."
THEOREMS = [("AldorVerif.Props.C17", t) for t in (
    _L + "chk_contiguous", _L + "chk_exactly", _L + "chk_names_distinct", _L + "chk_sections_below_end",
    _L + "accepted_in_bounds", _L + "accepted_independent_of_junk", _L + "chk_alone_does_not_bound",
    _L + "truncation_keeps_header", _L + "truncation_refused", _L + "trailing_bytes_accepted",
    _L + "readHeader_putHeader", _L + "intact_accepted", _L + "getSection_exact", _L + "getSection_short_refused",
    _L + "accepted_sections_complete", _L + "truncation_classes",
    _A + "walk_members_start_in_file", _A + "step_forward_partial", _A + "member_in_bounds_statement_refuted",
    _A + "walk_terminates_statement_refuted")]

SECT_NAMES = "syme foam fsyme pos postbl name kind file lazy type inline twins extend doc foreign fileid macros".split()
HDR, FIXED, NLIM, SECT = 165, 12, 17, 9

# ------------------------------------------------------------------------------------------------
# python's own reading of the format (independent of the Lean model; used as oracle and to name
# the damage classes)
# ------------------------------------------------------------------------------------------------
def parse_ao_header(b, base=0):
    if len(b) < base + HDR:
        return None
    magic, vmaj, vmin, ns = struct.unpack_from("<HIIH", b, base)
    tab = [struct.unpack_from("<BII", b, base + FIXED + SECT * i) for i in range(NLIM)]
    return {"magic": magic, "vmaj": vmaj, "vmin": vmin, "ns": ns, "tab": tab}

def ao_region(hdr, off):
    """region of byte offset `off` (relative to the start of the library) in an intact .ao"""
    if off < FIXED: return "header"
    if off < HDR: return "table"
    for i in range(min(hdr["ns"], NLIM)):
        n, o, l = hdr["tab"][i]
        if o <= off < o + l:
            return "section:" + (SECT_NAMES[n] if n < NLIM else "?")
    return "beyond"

def ar_members(b):
    """[(name, header_pos, data_pos, size)] of an intact !<arch> archive"""
    out = []
    p = 8
    while p + 60 <= len(b):
        name = b[p:p + 16].decode("latin1").rstrip()
        size = int(b[p + 48:p + 58].decode("latin1").strip() or "0")
        out.append((name.rstrip("/"), p, p + 60, size))
        p = p + 60 + size + (size & 1)
    return out

def al_region(b, members, off):
    if off < 8: return "al-magic"
    for name, hp, dp, size in members:
        if hp <= off < dp: return "al-memberhdr"
        if dp <= off < dp + size:
            h = parse_ao_header(b, dp)
            r = ao_region(h, off - dp) if h else "beyond"
            return "al-" + r
    return "al-padding"

def make_header(sections):
    """bytes of a header as libPutHeader writes it; sections = [(name, length)]"""
    tab = []
    off = HDR
    for n, l in sections:
        tab.append((n, off, l)); off += l
    while len(tab) < NLIM:
        tab.append((NLIM, 0, 0))
    out = struct.pack("<HIIH", 0o420, 28, 0, len(sections))
    for n, o, l in tab:
        out += struct.pack("<BII", n, o & 0xffffffff, l & 0xffffffff)
    return out, off

# ------------------------------------------------------------------------------------------------
# correspondence: header code
# ------------------------------------------------------------------------------------------------
def gen_header_lines(rng, thorough, real_files):
    lines = []
    def G(b, j): lines.append("G %s %d" % (b.hex() or "-", j))
    def S(b, j, n): lines.append("S %s %d %d" % (b.hex() or "-", j, n))
    # synthetic libraries (header + small bodies)
    synth = []
    shapes = [[(15, 10)], [(5, 7), (0, 13), (15, 4)], [(n, 1 + (n * 7) % 5) for n in range(17)],
              [(16, 3), (1, 0), (2, 9)], [(3, 300)]]
    for _ in range(6 if not thorough else 40):
        k = rng.randint(1, 17)
        names = rng.sample(range(17), k)
        shapes.append([(n, rng.choice((0, 1, 2, 5, 40))) for n in names])
    for sh in shapes:
        h, end = make_header(sh)
        body = bytes(rng.randrange(256) for _ in range(end - HDR))
        synth.append(h + body)
    for f in synth:
        G(f, 0); G(f, 170)
        for n in range(20): S(f, 0, n)
        # bytes after the last section (accepted: only `end > size` refuses)
        G(f + b"\x00", 0); G(f + bytes(range(7)), 170)
        for n in rng.sample(range(20), 4): S(f + b"\xff\xfe", 0, n)
    # every truncation of the first synthetic files, with three kinds of junk
    for f in synth[:3] + real_files[:1]:
        top = min(len(f), HDR + 40)
        for n in range(0, top + 1):
            for j in ((0, 170, 17) if thorough or n % 3 == 0 else (rng.choice((0, 1, 16, 17, 170, 255)),)):
                G(f[:n], j)
    # truncated section reads
    for f in synth[1:4]:
        for n in range(HDR, len(f), 1 if thorough else 3):
            for nm in rng.sample(range(17), 3):
                S(f[:n], rng.choice((0, 170)), nm)
    # single byte substitutions in header and table
    for f in synth[:4] + real_files:
        hb = f if len(f) < 1500 else f[:HDR + 8]
        for off in range(HDR):
            vals = {hb[off] ^ 0xff, (hb[off] + 1) & 255, (hb[off] - 1) & 255, 0, 17, 16, rng.randrange(256)}
            if thorough:
                vals |= {hb[off] ^ (1 << k) for k in range(8)}
            for v in sorted(vals):
                if v != hb[off]:
                    G(hb[:off] + bytes([v]) + hb[off + 1:], 0)
    # random and near-valid headers
    for _ in range(400 if not thorough else 6000):
        k = rng.randint(0, 19)
        tab = []
        off = rng.choice((HDR, HDR, HDR, 0, 164, 166))
        names = [rng.choice((rng.randrange(17), rng.randrange(17), 17, rng.randrange(256))) for _ in range(NLIM)]
        for i in range(NLIM):
            l = rng.choice((0, 1, 5, 300, 0xffffffff, rng.randrange(1 << 32)))
            tab.append((names[i], off & 0xffffffff, l))
            off = off + l if rng.random() < 0.9 else rng.randrange(1 << 32)
        b = struct.pack("<HIIH", rng.choice((0o420, 0o420, 0o420, 0, 0o421)), rng.choice((28, 28, 28, 27, 29, 0)),
                        rng.choice((0, 0, 1)), k)
        for t in tab: b += struct.pack("<BII", *t)
        G(b, 0)
    for _ in range(50 if not thorough else 500):
        G(bytes(rng.randrange(256) for _ in range(rng.choice((0, 3, 11, 12, 13, 100, 164, 165, 166, 200)))), rng.randrange(256))
    return lines

def parse_hdr_line(s):
    """'hdr m a b n T n:o:l*20 I i*20 V verdict' -> dict"""
    t = s.split()
    if not t or t[0] != "hdr": return None
    d = {"magic": int(t[1]), "vmaj": int(t[2]), "vmin": int(t[3]), "ns": int(t[4])}
    ti = t.index("T"); ii = t.index("I"); vi = t.index("V")
    d["tab"] = [tuple(int(x) for x in e.split(":")) for e in t[ti + 1:ii]]
    d["idx"] = [int(x) for x in t[ii + 1:vi]]
    d["v"] = t[vi + 1]
    return d

def oracle(b):
    """python's own libGetHeader on the bytes: ("fatal", reason) or ("ok", header dict with idx)"""
    if len(b) < HDR:
        return "fatal", "badSectHdr"
    h = parse_ao_header(b)
    idx = [NLIM] * 20
    for i in range(min(NLIM, h["ns"])):
        if h["tab"][i][0] < NLIM: idx[h["tab"][i][0]] = i
    h["idx"] = idx
    def verdict():
        if h["magic"] != 0o420: return "badMagic"
        if h["vmaj"] < 28: return "badVersion"
        if h["ns"] > NLIM: return "badNumSect"
        for i in range(h["ns"]):
            n = h["tab"][i][0]
            if n >= NLIM: return "badSectName"
            if idx[n] != i: return "dupSect"
        if h["tab"][0][1] != HDR: return "badSectHdr"
        for i in range(1, h["ns"]):
            if h["tab"][i][1] != h["tab"][i - 1][1] + h["tab"][i - 1][2]: return "badSectHdr"
        return "ok"
    v = verdict()
    if v != "ok": return "fatal", v
    end = HDR if h["ns"] == 0 else h["tab"][h["ns"] - 1][1] + h["tab"][h["ns"] - 1][2]
    if end > len(b): return "fatal", "badOffset"
    return "ok", h

def run_header_corr(ctx, build, real_files):
    exe = build.cc_driver("libhdr_drv", os.path.join(VERIF, "harness", "libhdr_drv.c"))
    tmp = common.scratch("aldor-verif-libhdr-")
    thorough = ctx.tier == "thorough"
    lines = ["consts"]
    corp = os.path.join(VERIF, "corpus", "libhdr")
    if os.path.isdir(corp):
        for f in sorted(os.listdir(corp)):
            lines += [l.strip() for l in open(os.path.join(corp, f)) if l.strip() and not l.startswith("#")]
    ncorpus = len(lines) - 1
    lines += gen_header_lines(ctx.rng, thorough, real_files)
    # truncation classes of the real files: model's truncClass vs python's ao_region
    cls_expect = {}
    for f in real_files:
        h = parse_ao_header(f)
        pts = sorted(set(list(range(0, HDR + 3)) + [o + d for (_, o, l) in h["tab"][:h["ns"]] for d in (-1, 0, 1, l - 1, l)] +
                         [ctx.rng.randrange(len(f)) for _ in range(40)]))
        for n in pts:
            if 0 <= n < len(f):
                ln = "C %s %d" % (f[:HDR].hex(), n)
                cls_expect[len(lines)] = ao_region(h, n)
                lines.append(ln)
    c = common.run_impl_lines(exe, [l for l in lines if not l.startswith("C ")], env={"DRV_TMP": tmp})
    m_all = common.run_model("libhdr", "\n".join(lines) + "\n")
    assert len(m_all) == len(lines), (len(m_all), len(lines))
    stats = {"lines": len(lines), "corpus": ncorpus, "mismatch": 0, "accepted": 0, "refused": 0,
             "accepted_out_of_bounds": 0, "short_reads": 0, "oracle_checked": 0, "class_checked": 0}
    tags = []
    ci = 0
    seen = set()
    for k, ln in enumerate(lines):
        parts = m_all[k].split("\t")
        mo = parts[0]; tg = parts[1] if len(parts) > 1 else ""
        tags.append(tg)
        if ln.startswith("C "):
            # model-only line: the Lean truncClass against python's independent classification
            stats["class_checked"] += 1
            sect = cls_expect[k]
            mcls = mo
            if mcls.startswith("section:"):
                h = parse_ao_header(bytes.fromhex(ln.split()[1]))
                i = int(mcls.split(":")[1]); n = h["tab"][i][0]
                mcls = "section:" + (SECT_NAMES[n] if n < NLIM else "?")
            if mcls != sect:
                ctx.corr_broken.append((NAME, ln[:80], sect, mo))
            continue
        co = c[ci] if ci < len(c) else "MISSING"; ci += 1
        seen.add(co[:200])
        toks = ln.split()
        if co.startswith("FAULT") or co in ("MISSING", "SKIPPED"):
            ctx.finding("libhdr|driver-fault", "lib.c header code faults in the driver (%s) on: %s" % (co, ln[:200]),
                        {"kind": "impl-fault", "driver": "harness/libhdr_drv.c", "line": ln, "impl": co, "model": mo})
            continue
        if ln == "consts":
            if co != mo:
                ctx.corr_broken.append((NAME, ln, co, mo))
            continue
        # executable property on the implementation's own answer: the python oracle reads the bytes itself
        impl_ok = True; why = ""
        fb = bytes.fromhex(toks[1]) if toks[1] != "-" else b""
        ov, oh = oracle(fb)
        stats["oracle_checked"] += 1
        if co.startswith("fatal"):
            stats["refused"] += 1
            if ov != "fatal":
                impl_ok = False; why = "an intact, in-bounds library is refused (%s)" % co
            elif co != "fatal " + oh:
                impl_ok = False; why = "refused with %s, python's reading says %s" % (co, oh)
        elif toks[0] == "G":
            d = parse_hdr_line(co)
            stats["accepted"] += 1
            if d is None:
                impl_ok = False; why = "unparsable answer"
            else:
                oob = [i for i in range(min(d["ns"], 20)) if d["tab"][i][1] + d["tab"][i][2] > len(fb)]
                if oob or len(fb) < HDR:
                    stats["accepted_out_of_bounds"] += 1
                    ctx.finding("libhdr|accepted-out-of-bounds",
                                "libGetHeader accepts a header whose section %s lies beyond the end of the %d-byte file "
                                "(contradicts theorem accepted_in_bounds: the size test is gone or wrong)" %
                                (oob[:1], len(fb)),
                                {"kind": "impl-violates-property", "driver": "harness/libhdr_drv.c", "line": ln[:2000], "impl": co})
                    impl_ok = False; why = "accepted out of bounds"
                elif ov == "fatal":
                    impl_ok = False; why = "accepted although python's reading refuses it with %s" % oh
                elif d["v"] != "ok" or d["tab"][:NLIM] != list(oh["tab"]) or d["ns"] != oh["ns"] or d["idx"] != oh["idx"] \
                        or (d["magic"], d["vmaj"], d["vmin"]) != (oh["magic"], oh["vmaj"], oh["vmin"]):
                    impl_ok = False; why = "header fields differ from python's reading of the bytes"
        elif toks[0] == "S":
            if ov == "fatal":
                impl_ok = False; why = "section read from a file python's reading refuses (%s)" % oh
            elif co.startswith("want="):
                i = oh["idx"][int(toks[3])] if int(toks[3]) < 20 else NLIM
                n, o, l = oh["tab"][i] if i < NLIM else (NLIM, 0, 0)
                want = "want=%d data=%s" % (l, fb[o:o + l].hex())
                if co != want or o + l > len(fb):
                    stats["short_reads"] += 1
                    ctx.finding("libhdr|short-read-unnoticed",
                                "libGetSection hands a buffer to the decoders that is not the %d bytes at offset %d of the file "
                                "(contradicts theorem getSection_exact: the fread count is not tested), e.g. %s -> %s" % (l, o, ln[-60:], co[:80]),
                                {"kind": "impl-violates-property", "driver": "harness/libhdr_drv.c", "line": ln[:2000], "impl": co[:400]})
                    impl_ok = False; why = "section bytes differ from the file"
            elif co == "none":
                i = oh["idx"][int(toks[3])] if int(toks[3]) < 20 else NLIM
                if i < NLIM and oh["tab"][i][1] != 0:
                    impl_ok = False; why = "section present in the file reported absent"
        if co != mo:
            stats["mismatch"] += 1
            if not impl_ok:
                if why not in ("accepted out of bounds", "section bytes differ from the file"):
                    ctx.finding("libhdr|reader-differs|" + "-".join(why.split()[:4]),
                                "lib.c reads the library differently from the bytes in the file: %s (request %s, impl %s, model %s)" %
                                (why, ln[:120], co[:200], mo[:200]),
                                {"kind": "impl-violates-property", "line": ln, "impl": co, "model": mo, "why": why})
            else:
                ctx.corr_broken.append((NAME, ln[:400], co[:400], mo[:400]))
        elif not impl_ok:
            ctx.violation("libhdr|model-and-impl-wrong|" + hashlib.sha256(ln.encode()).hexdigest()[:10],
                          "implementation and model agree on `%s` but python's reading differs: %s" % (ln[:120], why),
                          {"kind": "inconsistent", "line": ln, "impl": co})
        if k % 700 == 5:
            ctx.sample({"module": "libhdr", "request": ln[:100], "impl": co[:160], "model": mo[:160], "tags": tg})
    stats["tags"] = common.tag_hist(tags)
    stats["distinct_results"] = len(seen)
    ctx.cov["libhdr"] = stats
    ctx.cov["evaluations"] += len(lines)
    ctx.cov["distinct_nontrivial"] += len(seen)
    return stats

# ------------------------------------------------------------------------------------------------
# correspondence: archive walk
# ------------------------------------------------------------------------------------------------
def ar_header(name, size_field, date=b"0", uid=b"0", gid=b"0", mode=b"644"):
    return (name + b"/").ljust(16)[:16] + date.ljust(12)[:12] + uid.ljust(6)[:6] + gid.ljust(6)[:6] + \
        mode.ljust(8)[:8] + size_field.ljust(10)[:10] + b"`\n"

def make_archive(rng, members):
    out = b"!<arch>\n"
    for name, data in members:
        out += ar_header(name, b"%d" % len(data)) + data
        if len(data) & 1: out += b"\n"
    return out

def run_archive_corr(ctx, build):
    exe = build.cc_driver("archive_drv", os.path.join(VERIF, "harness", "archive_drv.c"))
    tmp = common.scratch("aldor-verif-ardrv-")
    rng = ctx.rng
    thorough = ctx.tier == "thorough"
    lines = ["consts"]
    archives = []
    for _ in range(6 if not thorough else 30):
        ms = []
        for k in range(rng.randint(1, 4)):
            nm = bytes(rng.choice(b"abcxyz_") for _ in range(rng.randint(1, 9))) + rng.choice((b".ao", b".o", b".ao", b""))
            ms.append((nm[:15], bytes(rng.randrange(256) for _ in range(rng.choice((0, 1, 2, 7, 30, 61))))))
        archives.append(make_archive(rng, ms))
    for a in archives:
        lines.append("A " + a.hex())
        for n in range(0, len(a), 1 if thorough else 2):
            lines.append("A " + (a[:n].hex() or "-"))
        mem = ar_members(a)
        for (_, hp, dp, _) in mem:
            for off in range(hp, dp):
                vals = {a[off] ^ 0x10, 32, 48, 57, 45, 47, 0, rng.randrange(256)}
                if thorough: vals |= {43, 9, 56, 120, a[off] ^ 1}
                for v in sorted(vals):
                    if v != a[off]:
                        lines.append("A " + (a[:off] + bytes([v]) + a[off + 1:]).hex())
        for off in range(8):
            lines.append("A " + (a[:off] + bytes([a[off] ^ 1]) + a[off + 1:]).hex())
    m, tags = common.split_model(common.run_model("archive", "\n".join(lines) + "\n"))
    assert len(m) == len(lines)
    # only walks the model finishes are put to the implementation (the others are the recorded
    # non-termination / name-table cases; they are exercised end to end)
    send = [k for k, t in enumerate(tags) if t.startswith(("finished", "consts", "notarch"))]
    c = common.run_impl_lines(exe, [lines[k] for k in send], env={"DRV_TMP": tmp}, timeout=300)
    stats = {"lines": len(lines), "compared": len(send), "mismatch": 0, "not_sent": len(lines) - len(send)}
    seen = set()
    for j, k in enumerate(send):
        co = c[j] if j < len(c) else "MISSING"
        seen.add(co)
        if co.startswith("FAULT") or co in ("MISSING", "SKIPPED"):
            ctx.finding("archive|driver-fault", "archive.c member walk faults in the driver (%s) on: %s" % (co, lines[k][:200]),
                        {"kind": "impl-fault", "driver": "harness/archive_drv.c", "line": lines[k], "impl": co, "model": m[k]})
            continue
        if co != m[k]:
            stats["mismatch"] += 1
            ctx.corr_broken.append(("archive", lines[k][:300], co[:300], m[k][:300]))
        if k % 500 == 3:
            ctx.sample({"module": "archive", "request": lines[k][:80], "impl": co[:120], "model": m[k][:120], "tags": tags[k]})
    stats["tags"] = common.tag_hist(tags)
    ctx.cov["archive"] = stats
    ctx.cov["evaluations"] += len(lines)
    ctx.cov["distinct_nontrivial"] += len(seen)
    return stats

# ------------------------------------------------------------------------------------------------
# end-to-end damage sweep
# ------------------------------------------------------------------------------------------------
SRC = {
"mylib.as": '''#include "aldor"
#include "aldorio"

Counter: with {
	new: MachineInteger -> %;
	bump: % -> %;
	value: % -> MachineInteger;
	triple: MachineInteger -> MachineInteger;
} == add {
	Rep == MachineInteger;
	import from Rep;
	new(n: MachineInteger): % == per n;
	bump(c: %): % == per(rep c + 1);
	value(c: %): MachineInteger == rep c;
	triple(n: MachineInteger): MachineInteger == 3 * n;
}
''',
"shapes.as": '''#include "aldor"
#include "aldorio"

Shape: with {
	square: MachineInteger -> %;
	rect: (MachineInteger, MachineInteger) -> %;
	area: % -> MachineInteger;
	name: % -> String;
} == add {
	Rep == Record(w: MachineInteger, h: MachineInteger);
	import from Rep;
	square(n: MachineInteger): % == per [n, n];
	rect(a: MachineInteger, b: MachineInteger): % == per [a, b];
	area(s: %): MachineInteger == { r := rep s; r.w * r.h }
	name(s: %): String == { r := rep s; if r.w = r.h then "square" else "rectangle" }
}
''',
"tally.as": '''#include "aldor"
#include "aldorio"

Tally(T: PrimitiveType): with {
	empty: () -> %;
	add!: (%, T) -> %;
	count: (%, T) -> MachineInteger;
} == add {
	Rep == List T;
	import from Rep, MachineInteger;
	empty(): % == per empty;
	add!(t: %, x: T): % == per cons(x, rep t);
	count(t: %, x: T): MachineInteger == {
		n: MachineInteger := 0;
		for y in rep t repeat if x = y then n := n + 1;
		n
	}
}
''',
"hello.as": '''#include "aldor"
#include "aldorio"
import from MachineInteger;
f(n: MachineInteger): MachineInteger == if n < 2 then 1 else n * f(n - 1);
stdout << "MARK fact " << f 10 << newline;
''',
"client.as": '''#include "aldor"
#include "aldorio"
#library L "mylib.ao"
import from L;
import from Counter, MachineInteger;
c := bump bump new 40;
stdout << "MARK-LIB value " << value c << " triple " << triple 14 << newline;
''',
"client2.as": '''#include "aldor"
#include "aldorio"
#library M "libmine.al"
import from M;
import from Counter, Shape, MachineInteger, String;
import from Tally MachineInteger;
c := bump bump new 40;
s := rect(6, 7);
t := add!(add!(add!(empty(), 3), 4), 3);
stdout << "MARK-LIB value " << value c << " area " << area s << " " << name s << " count " << count(t, 3) << newline;
''',
}

# the forms of the interactive session (-Gloop reads them from stdin): a line that does not use the
# library, the import, a line printing values computed by the library, a line after it
SRC["loop.in"] = '''#include "aldor"
#include "aldorio"
import from MachineInteger;
stdout << "MARK-A " << 7 << newline;
#library L "mylib.ao"
import from L;
import from Counter;
stdout << "MARK-LIB " << value bump bump new 40 << " " << triple 14 << newline;
stdout << "MARK-Z " << 9 << newline;
'''

def aldor_cmd(build):
    R = common.ALDOR_TOP
    S = build.src
    return [build.aldor, "-Nfile=" + os.path.join(S, "aldor.conf"), "-Y" + os.path.join(R, "aldor/lib/libfoam/al"),
            "-I" + os.path.join(R, "lib/aldor/include"), "-Y" + os.path.join(R, "lib/aldor/src"), "-laldor"]

def run_compiler(cmd, base, files, flags, arg, tmo=10):
    """one compile in a fresh directory; returns (rc, stdout, stderr, {output file: sha})"""
    d = tempfile.mkdtemp(dir=base)
    try:
        for n, cnt in files.items():
            with open(os.path.join(d, n), "wb") as f:
                f.write(cnt)
        try:
            # arg None: an interactive session, the forms (file loop.in) come on stdin
            p = subprocess.Popen(cmd + flags + ([arg] if arg is not None else []), cwd=d,
                                 stdin=subprocess.PIPE if arg is None else subprocess.DEVNULL,
                                 stdout=subprocess.PIPE, stderr=subprocess.PIPE, start_new_session=True)
            try:
                out, err = p.communicate(files["loop.in"] if arg is None else None, timeout=tmo)
                rc = p.returncode
            except subprocess.TimeoutExpired:
                try: os.killpg(p.pid, 9)
                except OSError: pass
                out, err = p.communicate()
                rc = "TIMEOUT"
        except OSError as e:
            rc, out, err = "EXC", b"", str(e).encode()
        outs = {}
        for n in sorted(os.listdir(d)):
            q = os.path.join(d, n)
            if n not in files and os.path.isfile(q):
                outs[n] = hashlib.sha256(open(q, "rb").read()).hexdigest()[:16]
        return rc, out, err, outs
    finally:
        shutil.rmtree(d, ignore_errors=True)

def markers(out):
    return [l for l in out.split(b"\n") if l.startswith(b"MARK")]

def classify(ref, res, loop=False):
    """same: exit 0 and the outputs of the intact run (batch: the whole stdout and the files written; session:
    the marker lines, the banner carries timings).  refused: a diagnostic, non-zero exit, and no marker line
    that the intact run does not print (nothing computed from the damaged file is shown)."""
    rc, out, err, outs = res
    txt = (out + err).decode("latin1")
    if rc == "TIMEOUT": return "hang"
    if rc == "EXC": return "exec-error"
    if "Compiler bug" in txt or "Bug:" in txt: return "bug"
    if rc < 0 or rc >= 128 or "Program fault" in txt: return "segv"
    M, M0 = markers(out), markers(ref[1])
    if rc == 0:
        if outs == ref[3] and (M == M0 if loop else out == ref[1]): return "same"
        if loop and "Error" in txt and not any(m.startswith(b"MARK-LIB") for m in M) and all(m in M0 for m in M):
            return "refused-exit0"       # the session went on after refusing the library and ended with status 0
        return "wrong-output"
    if not all(m in M0 for m in M): return "wrong-output"
    if not txt.strip(): return "silent-failure"
    return "refused"

BAD = ("segv", "bug", "hang", "wrong-output", "refused-exit0", "silent-failure", "exec-error")

def coarse(region):
    """damage class used in finding signatures.  About 1 % of the damaged inputs end differently from run to
    run (address-space layout decides between segv / bug / refused), so the signature must not be finer than
    what every run saturates: the section name is kept in the evidence histogram and the replay only."""
    if region.startswith("section:"): return "body"
    if region.startswith("al-section:"): return "al-body"
    if region in ("al-header", "al-table"): return "al-libheader"
    if region in ("beyond", "al-beyond", "al-padding"): return "al-padding" if region.startswith("al-") else "body"
    return region

def sample_offsets(rng, n, lo, hi, always=()):
    """about n offsets in [lo, hi): an even stride with a random phase, plus the given ones"""
    if hi <= lo: return []
    if n >= hi - lo: return list(range(lo, hi))
    step = (hi - lo) / float(n)
    ph = rng.random()
    s = {lo + int((k + ph) * step) for k in range(n)}
    s |= {a for a in always if lo <= a < hi}
    return sorted(x for x in s if lo <= x < hi)

def run_e2e(ctx, build):
    thorough = ctx.tier == "thorough"
    rng = ctx.rng
    base = common.scratch("aldor-verif-c17e2e-")
    cmd = aldor_cmd(build)
    # 1. the intact library files, produced by the compiler under test
    made = {}
    for unit in ("mylib", "shapes", "tally", "hello"):
        d = tempfile.mkdtemp(dir=base)
        open(os.path.join(d, unit + ".as"), "w").write(SRC[unit + ".as"])
        rc, out, err = common.run(cmd + ["-Fao", "-Ffm", unit + ".as"], cwd=d, timeout=120)
        ao = os.path.join(d, unit + ".ao")
        if rc != 0 or not os.path.exists(ao):
            ctx.violation("libhdr-e2e|cannot-compile-library", "the compiler under test cannot compile the library unit %s: rc=%s %s"
                          % (unit, rc, (out + err)[-600:]), {"kind": "setup", "unit": unit, "rc": rc, "out": (out + err)[-2000:]})
            return {}
        made[unit + ".ao"] = open(ao, "rb").read()
        made[unit + ".fm"] = open(os.path.join(d, unit + ".fm"), "rb").read()
    # FOAM text with `;line` comments (-Zdb)
    d = tempfile.mkdtemp(dir=base)
    open(os.path.join(d, "hellodb.as"), "w").write(SRC["hello.as"])
    rc, out, err = common.run(cmd + ["-Zdb", "-Ffm", "hellodb.as"], cwd=d, timeout=120)
    if rc == 0 and os.path.exists(os.path.join(d, "hellodb.fm")):
        made["hellodb.fm"] = open(os.path.join(d, "hellodb.fm"), "rb").read()
    else:
        ctx.violation("libhdr-e2e|cannot-compile-library|zdb", "aldor -Zdb -Ffm fails: rc=%s %s" % (rc, (out + err)[-400:]),
                      {"kind": "setup", "rc": rc})
        return {}
    ard = tempfile.mkdtemp(dir=base)
    for u in ("mylib", "shapes", "tally"):
        open(os.path.join(ard, u + ".ao"), "wb").write(made[u + ".ao"])
    common.run(["ar", "cr", "libmine.al", "mylib.ao", "shapes.ao", "tally.ao"], cwd=ard, check=True)
    made["libmine.al"] = open(os.path.join(ard, "libmine.al"), "rb").read()
    # intact files obey the format invariants the classes rely on
    for n in ("mylib.ao", "shapes.ao", "tally.ao", "hello.ao"):
        h = parse_ao_header(made[n])
        last = h["tab"][h["ns"] - 1]
        if h["magic"] != 0o420 or last[1] + last[2] != len(made[n]):
            ctx.violation("libhdr-e2e|intact-file-format", "the .ao written by the compiler under test does not end with its last section: %s" % n,
                          {"kind": "format", "file": n, "header": str(h)[:600], "size": len(made[n])})
            return {}
    cl = lambda n: SRC[n].encode()
    scenarios = [
        # name, damaged file, other files, flags, argument, kind of file
        ("ao-import", "mylib.ao", {"client.as": cl("client.as")}, ["-Ginterp"], "client.as", "ao"),
        ("loop-import", "mylib.ao", {"loop.in": cl("loop.in")}, ["-Gloop"], None, "ao"),
        ("ao-run", "hello.ao", {}, ["-Ginterp"], "hello.ao", "ao"),
        ("ao-to-c", "hello.ao", {}, ["-Fc", "-Ffm"], "hello.ao", "ao"),
        ("al-import", "libmine.al", {"client2.as": cl("client2.as")}, ["-Ginterp"], "client2.as", "al"),
        ("al-to-c", "libmine.al", {"client2.as": cl("client2.as")}, ["-Fc"], "client2.as", "al"),
        ("fm-run", "hello.fm", {}, ["-Ginterp"], "hello.fm", "fm"),
        ("fmdb-run", "hellodb.fm", {}, ["-Ginterp"], "hellodb.fm", "fmdb"),
    ]
    jobs = []      # (scenario index, damage kind, description, bytes)
    refs = []
    for si, (sname, fname, others, flags, arg, kind) in enumerate(scenarios):
        data = made[fname]
        files = dict(others); files[fname] = data
        ref = run_compiler(cmd, base, files, flags, arg, 60)
        refs.append(ref)
        if ref[0] != 0:
            ctx.violation("libhdr-e2e|intact-run-fails|" + sname, "the intact run of scenario %s fails: rc=%s %s" %
                          (sname, ref[0], (ref[1] + ref[2])[-400:]), {"kind": "setup", "scenario": sname, "rc": ref[0]})
            continue
        n = len(data)
        if kind == "ao":
            h = parse_ao_header(data)
            region = lambda off, h=h: ao_region(h, off)
            dense = HDR
            bounds = [o + d for (_, o, l) in h["tab"][:h["ns"]] for d in (-1, 0, 1, 2)]
        elif kind == "al":
            mem = ar_members(data)
            region = lambda off, data=data, mem=mem: al_region(data, mem, off)
            dense = 8 + 60
            bounds = []
            # every member boundary +-3 bytes, and the last 1..6 bytes of the archive (inside the last
            # member's last section)
            bounds += [n - k for k in range(1, 7)]
            for (_, hp, dp, sz) in mem:
                for edge in (hp, dp, dp + sz, dp + sz + (sz & 1)):
                    bounds += [edge + k for k in range(-3, 4)]
            for (_, hp, dp, sz) in mem:
                bounds += list(range(hp, hp + 60, 1 if thorough else 3)) + list(range(dp, dp + HDR, 1 if thorough else 4))
                hh = parse_ao_header(data, dp)
                bounds += [dp + o + d for (_, o, l) in hh["tab"][:hh["ns"]] for d in (0, 1)]
        elif kind == "fmdb":
            # `;` comments run to the end of the line
            spans = [(m.start(), m.end()) for m in re.finditer(rb";[^\n]*\n?", data)]
            starts = [a for a, _ in spans]
            def region(off, spans=spans, starts=starts):
                i = bisect.bisect_right(starts, off) - 1
                return "fm-comment" if i >= 0 and spans[i][0] <= off < spans[i][1] else "fm-text"
            dense = 0
            bounds = []
            pick = spans[:3] + spans[len(spans) // 2:len(spans) // 2 + 2] + spans[-2:]
            for a, b in (spans if thorough else pick):
                bounds += list(range(a - 1, b + 2))
        else:
            region = lambda off: "fm-text"
            dense = 0
            bounds = []
        quota_t = n if thorough else {"ao": 330, "al": 420, "fm": 120, "fmdb": 150}[kind]
        quota_s = n if thorough else {"ao": 260, "al": 380, "fm": 100, "fmdb": 60}[kind]
        if sname == "al-to-c" and not thorough:
            quota_t, quota_s = 200, 120
        if sname in ("ao-to-c", "loop-import") and not thorough:
            quota_t, quota_s = 200, 200
        # truncations: every length in the header and section table, a sample elsewhere
        tl = sorted(set(list(range(0, min(dense, n))) + sample_offsets(rng, quota_t, dense, n, bounds)))
        for t in tl:
            jobs.append((si, "trunc-" + region(t), "truncated to %d of %d bytes" % (t, n), ("trunc", t)))
        # substitutions: every offset of header and table (several values), a sample elsewhere
        for off in list(range(0, min(dense, n))) + sample_offsets(rng, quota_s, dense, n, bounds):
            b = data[off]
            if off < dense:
                vals = [b ^ 0xff, (b + 1) & 255, 0] if not thorough else [b ^ 0xff, (b + 1) & 255, (b - 1) & 255, 0, 17, 3, b ^ 0x80]
            else:
                vals = [rng.choice((b ^ 0xff, (b + 1) & 255, 0, b ^ (1 << rng.randrange(8)), rng.randrange(256)))]
                if thorough and off % 4 == 0: vals += [b ^ 0xff, 0]
            for v in sorted(set(vals)):
                if v != b:
                    jobs.append((si, "subst-" + region(off), "byte %d changed from %d to %d" % (off, b, v), ("subst", off, v)))
    def work(j):
        # (the damaged bytes are made here, not kept in the job list: the thorough list has several 10^5 entries)
        si, dk, desc, dmg = j
        sname, fname, others, flags, arg, kind = scenarios[si]
        if refs[si][0] != 0: return None
        data = made[fname]
        blob = data[:dmg[1]] if dmg[0] == "trunc" else data[:dmg[1]] + bytes([dmg[2]]) + data[dmg[1] + 1:]
        files = dict(others); files[fname] = blob
        res = run_compiler(cmd, base, files, flags, arg, 10)
        oc = classify(refs[si], res, loop=arg is None)
        return oc, (res if oc in BAD else None)
    with ThreadPoolExecutor(16) as ex:
        results = list(ex.map(work, jobs))
    hist = {}
    classes = {}
    fine = {}
    for j, r in zip(jobs, results):
        if r is None: continue
        si, dk, desc, dmg = j
        outcome, res = r
        sname = scenarios[si][0]
        hist.setdefault(sname, {}).setdefault(outcome, 0)
        hist[sname][outcome] += 1
        fine.setdefault(dk, {}).setdefault(outcome, 0)
        fine[dk][outcome] += 1
        if outcome in BAD:
            pre, reg = dk.split("-", 1)
            classes.setdefault((pre + "-" + coarse(reg), outcome), []).append((sname, desc + " (in %s)" % reg, dmg, res))
    for (dk, outcome), exs in sorted(classes.items()):
        sname, desc, dmg, res = exs[0]
        sc = [s for s in scenarios if s[0] == sname][0]
        sig = "libhdr-e2e|%s|%s" % (dk, outcome)
        what = ("%d damaged-file run(s) end in `%s` for damage class %s; e.g. scenario %s (aldor %s %s), %s %s: rc=%s, output %r"
                % (len(exs), outcome, dk, sname, " ".join(sc[3]), sc[4] or "< loop.in", sc[1], desc, res[0],
                   (res[1] + res[2]).decode("latin1")[-200:]))
        ctx.finding(sig, what, {"kind": "e2e-damage", "scenario": sname, "flags": sc[3], "argument": sc[4],
                                "damaged_file": sc[1], "damage": list(dmg), "outcome": outcome, "rc": res[0],
                                "output_tail": (res[1] + res[2]).decode("latin1")[-600:],
                                "sources": {k: SRC[k] for k in SRC}, "stdin": "loop.in" if sc[4] is None else None,
                                "how": "compile the library units with -Fao (ar cr libmine.al mylib.ao shapes.ao tally.ao), "
                                       "apply the damage to the named file, run the command in a fresh directory under timeout 10",
                                "more": [(s, d) for (s, d, _, _) in exs[1:6]]})
    st = {"runs": len(jobs), "by_scenario": hist, "by_region": fine,
          "violating_classes": sorted("%s|%s" % k for k in classes),
          "rule": "every truncation length / substituted offset in header and section table (archives: magic + first member header), "
                  "an even-stride sample with random phase plus section boundaries elsewhere (thorough: every offset)"}
    ctx.cov["libhdr_e2e"] = st
    ctx.cov["evaluations"] += len(jobs)
    return made

def run_part(ctx, build):
    made = run_e2e(ctx, build)
    real = [made[n] for n in ("mylib.ao", "hello.ao") if n in made]
    run_header_corr(ctx, build, real)
    run_archive_corr(ctx, build)
