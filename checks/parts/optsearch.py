"""part `optsearch` (C02): end-to-end search, nothing modelled.

programs x optimisation configurations; reference = `-Q0` on the same route; stdout (addresses
and backtrace offsets masked) and exit class are compared.  A difference is shrunk over the
switch set so that the replay names the guilty switches:

    ctx.finding("opt|<route>|Q<level>+<switches>|<program>|<outcome class>", what, replay={source, two
                commands, two outputs, minimal level and switches})

<program> is the corpus file (stable), <outcome class> one of wrong-output / fault / fault-stack-growth /
no-termination.  Every (program, switch set) pair that differs on the unchanged tree is listed on its
own in known_findings.json; the open C02 entries are also the search's library: a failing
configuration of program P is first tried against the listed sets OF P (same route or the other one,
same outcome class) and is attributed to one whose own configuration still shows that class of
difference; otherwise it is shrunk (1-minimal set, lowest level) and gets a new signature.  A
different program failing under the same switch set is therefore reported.
Generated programs (vlib.miniald) have no stable name.  They are attributed to a listed cause only
by a mechanical test - `opt|<route>|<set>|generated|no-termination` resp. `fault-stack-growth`: the
listed set reproduces that class - and otherwise the PROGRAM is shrunk too (miniald.shrink) and
reported as `opt|<route>|<set>|generated|<sha8 of the shrunk source>`.

Configurations (names from lean/AldorVerif/Gen/OptControl.json, regenerated from optfoam.c):
levels -Q1..-Q<max>, -O, `-Q0 -Q<switch>` for every switch, `-Q<max> -Qno-<switch>` for every
switch, seeded random subsets.  Routes: interpreter (-Ginterp; a difference is confirmed with
the compiled unit saved as .ao and interpreted in a second run, so that compiler diagnostics -
which -Ginterp prints on the same stream - do not count as program output) and, for a sample, C.
Programs: corpus/programs/*.as and, when vlib.miniald exists, generated programs whose expected
output is known from the model.

"Does not terminate" is decided by CPU time (the compiler is started through a two-line shell
wrapper that sets `ulimit -t`), never by wall-clock time: a run that only hits the wall-clock
backstop is inconclusive and is not reported."""
import concurrent.futures as cf
import copy, hashlib, json, os, random, re, shlex, stat, threading, time
from vlib import common, aldor
from vlib.common import VERIF

NAME = "optsearch"
BUILD_TARGETS = []
THEOREMS = []
SOURCES = ["optfoam.c", "of_inlin.c", "of_cprop.c", "of_comex.c", "of_deada.c", "of_deadv.c", "of_emerg.c", "of_env.c",
           "of_hfold.c", "of_jflow.c", "of_retyp.c", "of_rrfmt.c", "of_killp.c", "of_argsub.c", "of_cfold.c", "of_peep.c",
           "inlutil.c", "flog.c", "usedef.c", "fint.c", "genc.c"]
MODELLED = ("nothing (search only): inline, cprop, cse, emerge, env, flow, deadvar, dassign, hfold, cast, emerge-rr, killp, "
            "argsub, cc and their combinations are exercised end to end on corpus/programs and generated programs")

EXPECTED_FLAGS = ["inline", "inline-all", "cfold", "ffold", "hfold", "deadvar", "dassign", "peep", "cprop", "cse", "env",
                  "emerge", "emerge-rr", "flow", "cast", "cc", "del-assert", "cc-fnonstd", "killp", "argsub"]

R = common.ALDOR_TOP
AXL = ["-I%s/lib/axllib/include" % R, "-Y%s/lib/axllib/src" % R, "-laxllib"]
ADDR = re.compile(r"0x[0-9a-fA-F]+")
FRAME = re.compile(r"^#(\d+) [0-9a-fA-F]+ in ", re.M)
_LOCK = threading.Lock()
CPU = "cpu-limit"            # exit class of a run stopped by `ulimit -t`
WALL = "wall-backstop"       # inconclusive

def mask(text):
    """addresses and code offsets of the interpreter's backtrace lines are not program output"""
    return FRAME.sub(r"#\1 ADDR in ", ADDR.sub("0xADDR", text))

# ------------------------------------------------------------------ table and configurations
def load_table(src_dir):
    """regenerate (rewrite only on change) and read the switch table"""
    import importlib.util
    spec = importlib.util.spec_from_file_location("optcontrol_tr", os.path.join(VERIF, "translate", "optcontrol.py"))
    mod = importlib.util.module_from_spec(spec); spec.loader.exec_module(mod)
    d, _ = mod.regen(src_dir, VERIF)
    j = json.load(open(os.path.join(VERIF, "lean", "AldorVerif", "Gen", "OptControl.json")))
    assert j["flags"] == d["flags"]
    return j

class Table:
    def __init__(self, j):
        self.flags = j["flags"]
        self.maxq = j["maxQLevel"]; self.maxl = j["maxLevel"]
        self.rows = {r["name"]: r for r in j["rows"]}
    def on_at(self, lev):
        i = min(lev, self.maxl)
        return frozenset(f for f in self.flags if self.rows[f]["values"][i] != 0)

class Config:
    """level + the set of switches that are on; `spelling` is what is put on the command line"""
    def __init__(self, level, on, spelling, kind):
        self.level, self.on, self.spelling, self.kind = level, frozenset(on), list(spelling), kind
    def key(self):
        return " ".join(self.spelling)

def explicit(tab, level, on):
    """-Q<level> followed by the state of every switch (inline-all first: -Qinline-all also turns inline on)"""
    sp = ["-Q%d" % level]
    order = [f for f in tab.flags if f == "inline-all"] + [f for f in tab.flags if f != "inline-all"]
    for f in order:
        sp.append("-Q%s" % f if f in on else "-Qno-%s" % f)
    if level < 2 and ("inline" in on or "inline-all" in on):
        sp += ["-Qinline-limit=5", "-Qinline-size=10"]          # the limits of -Q2 (0 at -Q0/-Q1: nothing would be inlined)
    return sp

def base_configs(tab):
    cs = []
    for l in range(1, tab.maxq + 1):
        cs.append(Config(l, tab.on_at(l), ["-Q%d" % l], "level"))
    cs.append(Config(2, tab.on_at(2), ["-O"], "level"))
    for f in tab.flags:
        sp = ["-Q0", "-Q" + f]
        on = {f} | ({"inline"} if f == "inline-all" else set())
        if f in ("inline", "inline-all"):
            sp += ["-Qinline-limit=5", "-Qinline-size=10"]
        cs.append(Config(0, on, sp, "single"))
    return cs

def complement_configs(tab, base_level):
    # (-Qno-inline leaves optInlineAll set, but nothing is inlined then)
    return [Config(base_level, set(tab.on_at(base_level)) - {f}, ["-Q%d" % base_level, "-Qno-" + f], "complement")
            for f in tab.flags]

def random_configs(tab, rng, n):
    cs = []
    for _ in range(n):
        level = rng.choice((0, 1, 2, 3, 4, 6, tab.maxq))
        p = rng.choice((0.15, 0.4, 0.6, 0.85))
        on = {f for f in tab.flags if rng.random() < p}
        cs.append(Config(level, on, explicit(tab, level, on), "random"))
    return cs

# ------------------------------------------------------------------ running
def _s(x):
    return x.decode("utf-8", "replace") if isinstance(x, bytes) else ("" if x is None else x)

def libopts(text):
    return AXL if '#include "axllib"' in text else []

def limited_build(build, cpu_s):
    """a view of the build whose compiler is started under `ulimit -t`"""
    w = os.path.join(build.top, "aldor-cpu%d.sh" % cpu_s)
    if not os.path.exists(w):
        with open(w, "w") as f:
            # (-v 16 GB: far above what a compiler reaches inside the CPU limit; a guard against the out-of-memory killer)
            f.write("#!/bin/sh\nulimit -S -t %d\nulimit -S -v 16777216\nexec %s \"$@\"\n" % (cpu_s, shlex.quote(build.aldor)))
        os.chmod(w, os.stat(w).st_mode | stat.S_IXUSR | stat.S_IXGRP | stat.S_IXOTH)
    lb = copy.copy(build)
    lb.aldor = w
    return lb

def cls(rc):
    if rc == "TIMEOUT":
        return WALL
    if isinstance(rc, int) and rc in (-24, 128 + 24):
        return CPU
    return aldor.exit_class(rc)

XCPU_MSG = "Exceeded time limit imposed by operating system"      # the compiler's SIGXCPU handler

def run_direct(lb, text, route, opts, wall):
    r = aldor.run_source(lb, text, route, libopts(text) + list(opts), timeout=wall)
    if r["rc"] is None:
        c = CPU if XCPU_MSG in _s(r["compile_out"]) else cls(r["compile_rc"])
        if c != CPU and ("Program fault" in _s(r["compile_out"]) or c.startswith("signal")):
            c = "compiler-fault"
        return ("nocompile:" + c, ""), _s(r["compile_out"])[-1500:]
    c = cls(r["rc"])
    if c == "fail" and XCPU_MSG in _s(r["stdout"]) + _s(r["stderr"]):
        c = CPU
    return (c, mask(_s(r["stdout"])) if c not in (CPU, WALL) else ""), _s(r["stderr"])[-500:]

def run_ao(lb, text, opts, wall):
    """compile to .ao with the options, then interpret the saved unit in a second run (saved units
    by-pass the optimiser): program output is separated from the compiler's messages"""
    lo = libopts(text)
    r = aldor.compile(lb, {"prog.as": text}, lo + list(opts) + ["-Fao", "prog.as"], timeout=wall)
    ao = r["outputs"].get("prog.ao")
    if r["rc"] != 0 or ao is None:
        txt = _s(r["stdout"]) + _s(r["stderr"])
        c = CPU if XCPU_MSG in txt else cls(r["rc"])
        if c != CPU and ("Program fault" in txt or c.startswith("signal")):
            c = "compiler-fault"              # the compiler process itself faulted while compiling
        return ("nocompile:" + c, ""), txt[-1500:]
    r2 = aldor.compile(lb, {"prog.ao": ao}, lo + ["-Ginterp", "prog.ao"], timeout=wall)
    c = cls(r2["rc"])
    if c == "fail" and XCPU_MSG in _s(r2["stdout"]) + _s(r2["stderr"]):
        c = CPU
    return (c, mask(_s(r2["stdout"])) if c not in (CPU, WALL) else ""), _s(r2["stderr"])[-500:]

def run_cfg(lb, text, route, opts, wall):
    """route: interp | c | ao"""
    try:
        if route == "ao":
            return run_ao(lb, text, opts, wall)
        return run_direct(lb, text, route, opts, wall)
    except Exception as e:          # noqa: a broken run must not take the pool down
        return ("check-error", repr(e)), ""

def inconclusive(out):
    return WALL in out[0] or out[0] == "check-error"

def hangs(out):
    return CPU in out[0]

def command_line(build, route, opts, text):
    base = aldor.base_cmd(build) + libopts(text) + list(opts)
    if route == "c":
        return " ".join(shlex.quote(x) for x in base + ["-Fx"] + aldor.c_opts(build) + ["prog.as"]) + " && ./prog"
    if route == "ao":
        return (" ".join(shlex.quote(x) for x in base + ["-Fao", "prog.as"]) + " && (in a fresh directory holding prog.ao) " +
                " ".join(shlex.quote(x) for x in aldor.base_cmd(build) + libopts(text) + ["-Ginterp", "prog.ao"]))
    return " ".join(shlex.quote(x) for x in base + ["-Ginterp", "prog.as"])

# ------------------------------------------------------------------ shrinking over the switch set
class Shrinker:
    def __init__(self, lb, tab, text, route, ref, wall, budget_runs, workers):
        self.lb, self.tab, self.text, self.route, self.ref, self.wall = lb, tab, text, route, ref, wall
        self.cache = {}
        self.runs = 0
        self.budget = budget_runs
        self.workers = workers

    def differs_many(self, level_sets):
        """[(level, frozenset on)] -> [bool] (True = behaviour differs from the reference)"""
        todo = [ls for ls in dict.fromkeys(level_sets) if ls not in self.cache]
        jobs = [(run_cfg, (self.lb, self.text, self.route, explicit(self.tab, l, s), self.wall), {}) for l, s in todo]
        self.runs += len(jobs)
        for ls, r in zip(todo, aldor.run_many(jobs, workers=self.workers)):
            self.cache[ls] = (r if not isinstance(r, Exception) else (("check-error", repr(r)), ""))
        return [(not inconclusive(self.cache[ls][0])) and self.cache[ls][0] != self.ref for ls in level_sets]

    def minimise(self, level, on):
        """returns (level', 1-minimal set, fully_minimised?) or None when the explicit spelling of the
        failing configuration does not reproduce the difference"""
        on = frozenset(on)
        if not self.differs_many([(level, on)])[0]:
            return None
        cur = on
        complete = True
        # bottom-up first: nothing at all, then every single switch (most differences need one switch;
        # for a compiler that does not terminate this costs one expensive run instead of many)
        elems = [f for f in self.tab.flags if f in cur]
        res = self.differs_many([(level, frozenset())] + [(level, frozenset([f])) for f in elems])
        if res[0]:
            cur = frozenset()
        else:
            singles = [f for f, d in zip(elems, res[1:]) if d]
            if singles:
                cur = frozenset([singles[0]])
        while len(cur) > 1:
            elems = [f for f in self.tab.flags if f in cur]
            if self.runs > self.budget:
                complete = False; break
            # leave-one-out, all at once: what cannot be removed alone is needed
            res = self.differs_many([(level, cur - {f}) for f in elems])
            removable = [f for f, d in zip(elems, res) if d]
            if not removable:
                break                                   # 1-minimal
            needed = cur - set(removable)
            if self.differs_many([(level, needed)])[0]:
                cur = needed
                continue
            # removable one by one but not all together: greedy, in table order (the first one is
            # known to be removable, so the loop makes progress)
            for f in removable:
                if self.runs > self.budget:
                    complete = False; break
                if self.differs_many([(level, cur - {f})])[0]:
                    cur = cur - {f}
            if not complete:
                break
        # smallest level at which exactly this set shows the difference
        lv = level
        if level > 0:
            res = self.differs_many([(l, cur) for l in range(0, level)])
            for l, d in zip(range(0, level), res):
                if d:
                    lv = l; break
        return lv, cur, complete

# ------------------------------------------------------------------ programs
def corpus_programs():
    """corpus/programs/*.as; when corpus/programs/c02.manifest exists, the programs named there
    (the directory is shared with other properties' programs, which were not surveyed for C02)"""
    d = os.path.join(VERIF, "corpus", "programs")
    out = []
    if os.path.isdir(d):
        names = None
        mf = os.path.join(d, "c02.manifest")
        if os.path.exists(mf):
            names = {l.strip() for l in open(mf) if l.strip() and not l.startswith("#")}
        for f in sorted(os.listdir(d)):
            if f.endswith(".as") and (names is None or f[:-3] in names):
                out.append((f[:-3], open(os.path.join(d, f), errors="replace").read(), None))
    return out

def generated_programs(ctx, n):
    """(name, source, expected stdout, ast) from vlib.miniald: programs the model accepts and that end normally"""
    try:
        from vlib import miniald
    except Exception:
        return [], "no vlib.miniald"
    try:
        progs = miniald.generate(ctx.rng, n)
        models = miniald.model(progs)
        out = []
        feats = {}
        for i, (a, m) in enumerate(zip(progs, models)):
            src = m.get("braced")
            if not m.get("ok") or not src or m.get("exit") != "ok":
                continue
            out.append(("gen%04d" % i, src, m.get("stdout", ""), a))
            for f in m.get("features", ()):
                feats[f] = feats.get(f, 0) + 1
        return out, "vlib.miniald: %d of %d generated programs accepted by the model with exit ok; features %s" % (
            len(out), len(progs), {k: feats[k] for k in sorted(feats)})
    except Exception as e:      # the generator is somebody else's part: never let it break this one
        return [], "vlib.miniald failed: %r" % (e,)

# ------------------------------------------------------------------ the search
def flag_list(tab, s):
    return ",".join(f for f in tab.flags if f in s) or "-"

def outcome_class(out):
    """of the behaviour that differs from the reference"""
    if hangs(out):
        return "no-termination"
    if "Stack Growth Excessive" in out[1]:
        return "fault-stack-growth"          # fint.c stackChain: more than 3000 locals in one prog
    if out[0] == "nocompile:compiler-fault":
        return "fault-compiler"              # the compiler faults while compiling (seen through the .ao route)
    return "wrong-output" if out[0] == "ok" else "fault"

class ProgState:
    def __init__(self, name, text, expected, ast=None):
        self.name, self.text, self.expected, self.ast = name, text, expected, ast
        self.key = "generated" if ast is not None or expected is not None else name
        self.ref = {}            # route -> outcome
        self.found = []          # dicts: route, level, on, hang, outcomes (set of wrong outcomes attributed to it)
        self.bad = {}            # route -> [(config, outcome)]
        self.ran = set()         # spellings of the configurations that were run (interp route)
        self.hung_at = None      # lowest plain level (-Q<n>) at which the compiler was seen not to terminate
    def explained(self, route, out):
        """the same wrong behaviour of this program on this route was reported already"""
        return any(f["route"] == route and out in f["outcomes"] for f in self.found)
    def masked(self, c):
        """the compiler does not terminate for a subset of these switches (whatever the route)"""
        return any(f["hang"] and c.level >= f["level"] and f["on"] <= c.on for f in self.found)

MECHANICAL = ("no-termination", "fault-stack-growth")     # classes a generated program may be attributed by
INLINER = frozenset(["inline", "inline-all"])
# passes that are known to make the COMPILER fault on some generated programs: name -> the switches that run it
FAULTY_PASSES = (("inline", INLINER), ("cast", frozenset(["cast"])))

class Causes:
    """(route, level, switches, program key, class): the open known findings of the property + this run's"""
    def __init__(self, tab, known):
        self.items = []
        for k in known:
            c = self.parse(tab, k.get("signature", ""))
            if c and k.get("status", "open") == "open" and c not in self.items:
                self.items.append(c)
    @staticmethod
    def parse(tab, sig):
        mm = re.match(r"^opt\|(interp|c)\|(inline|cast)\|generated\|fault-compiler-(inline|cast)$", sig)
        if mm and mm.group(2) == mm.group(3):
            return (mm.group(1), 0, dict(FAULTY_PASSES)[mm.group(2)], "generated", "fault-compiler-" + mm.group(2))
        m = re.match(r"^opt\|(interp|c)\|Q(\d+)\+([^|]*)\|([^|]+)\|([^|]+)$", sig)
        if not m:
            return None
        fl = [] if m.group(3) == "-" else m.group(3).split(",")
        if any(f not in tab.flags for f in fl):
            return None
        return (m.group(1), int(m.group(2)), frozenset(fl), m.group(4), m.group(5))
    def add(self, c):
        with _LOCK:
            if c not in self.items:
                self.items.append(c)
    def candidates(self, key, cfg, klass):
        """(level, switches) listed for this program (either route) with this outcome class that the
        configuration contains, smallest first; generated programs: mechanical classes only"""
        if key == "generated" and klass not in MECHANICAL:
            return []
        with _LOCK:
            cs = {(c[1], c[2]) for c in self.items if c[3] == key and c[4] == klass and c[1] <= cfg.level and c[2] <= cfg.on}
        return sorted(cs, key=lambda c: (len(c[1]), c[0], sorted(c[1])))

def signature(tab, route, lv, s, key, klass):
    return "opt|%s|Q%d+%s|%s|%s" % (route, lv, flag_list(tab, s), key, klass)

def symptom(out):
    return "%s|%s" % (out[0], hashlib.sha256(out[1].encode("utf-8", "replace")).hexdigest()[:8])

def quick_skip(p, c):
    """quick tier only: the plain level -Q<n> was seen not to terminate for this program; every listed
    no-termination cause involves the inliner, so configurations at that level or above that still inline are
    not started (each would cost the full CPU limit); the thorough tier runs them (after the exact shrink)"""
    return (not _THOROUGH) and p.hung_at is not None and c.level >= p.hung_at and ("inline" in c.on)

_THOROUGH = False

def run_grid(lb, progs, route, configs_of, wall, stats, deadline=None):
    """all (program, configuration) pairs of one stage, in pools of a few hundred runs; fills p.bad[route].
    Past the deadline (quick tier) nothing more is started; the programs left out are counted."""
    jobs, idx = [], []
    for p in progs:
        if route not in p.ref:
            continue
        if deadline and time.time() > deadline and not getattr(p, "always", False):
            stats["left_out_by_time_budget"] += 1
            continue
        for c in configs_of(p):
            if p.masked(c) or (deadline and quick_skip(p, c)):
                stats["masked_by_hang"] += 1
                continue
            jobs.append((run_cfg, (lb, p.text, route, c.spelling, wall), {})); idx.append((p, c))
        if deadline and len(jobs) > 200:
            run_jobs(jobs, idx, route, stats)
            jobs, idx = [], []
    run_jobs(jobs, idx, route, stats)

def run_jobs(jobs, idx, route, stats):
    res = aldor.run_many(jobs)
    stats["runs"] += len(jobs)
    for (p, c), r in zip(idx, res):
        out = r[0] if not isinstance(r, Exception) else ("check-error", repr(r))
        stats["by_kind"][route + ":" + c.kind] = stats["by_kind"].get(route + ":" + c.kind, 0) + 1
        if route == "interp":
            p.ran.add(c.key())
        if inconclusive(out):
            stats["inconclusive"] += 1
            continue
        if out != p.ref[route] or (p.expected is not None and out[0] == "ok" and out[1] != p.expected):
            p.bad.setdefault(route, []).append((c, out))
            if hangs(out) and c.kind == "level" and (p.hung_at is None or c.level < p.hung_at):
                p.hung_at = c.level

def shrink_generated(lb, p, sroute, lv, s, tab, klass, wall, budget, stats):
    """smallest generated program (miniald.shrink) that still shows this class of difference between -Q0
    and the minimal configuration; returns (source, features) - the original when nothing smaller does"""
    try:
        from vlib import miniald
        spelling = explicit(tab, lv, s)
        def pred(cands):
            ms = miniald.model(cands)
            jobs, where = [], []
            for i, m in enumerate(ms):
                if m.get("ok") and m.get("braced") and m.get("exit") == "ok":
                    jobs.append((run_cfg, (lb, m["braced"], sroute, ["-Q0"], wall), {}))
                    jobs.append((run_cfg, (lb, m["braced"], sroute, spelling, wall), {}))
                    where.append(i)
            res = aldor.run_many(jobs)
            stats["runs"] += len(jobs)
            ok = [False] * len(cands)
            for k, i in enumerate(where):
                a, b = res[2 * k], res[2 * k + 1]
                if isinstance(a, Exception) or isinstance(b, Exception):
                    continue
                a, b = a[0], b[0]
                if inconclusive(a) or inconclusive(b) or a[0] != "ok":
                    continue
                ok[i] = (a != b and outcome_class(b) == klass)
            return ok
        small = miniald.shrink(p.ast, pred, budget=budget)
        m = miniald.model([small])[0]
        if m.get("braced"):
            return m["braced"], sorted(m.get("features", ()))
    except Exception as e:          # noqa: the finding is reported with the unshrunk program then
        stats.setdefault("program_shrink_errors", []).append(repr(e)[:200])
    return p.text, []

def shrink_program(ctx, build, lb, tab, causes, p, route, wall, stats, max_findings, shrink_budget, workers, prog_budget):
    bad = p.bad.pop(route, [])
    bad.sort(key=lambda t: (len(t[0].on), t[0].level, t[0].key()))
    ref = p.ref[route]
    for c, out in bad:
        if p.explained(route, out):
            stats["explained_by_earlier_finding"] += 1
            continue
        if sum(1 for f in p.found if f["route"] == route) >= max_findings:
            stats["findings_cap_hit"] += 1
            break
        sroute, sref, sout = route, ref, out
        if route == "interp":
            # is it program behaviour, or only what the compiler says while compiling?
            r0, _ = run_ao(lb, p.text, ["-Q0"], wall)
            r1, _ = run_ao(lb, p.text, c.spelling, wall)
            stats["runs"] += 2
            if inconclusive(r0) or inconclusive(r1):
                stats["inconclusive"] += 1
                continue
            if r0 == r1:
                stats["compiler_messages_only"] += 1
                if len(stats["compiler_messages_examples"]) < 6:
                    stats["compiler_messages_examples"].append("%s %s" % (p.name, c.key()))
                continue
            sroute, sref, sout = "ao", r0, r1
            same = [f for f in p.found if f["route"] == route and sout in f["outcomes"]]
            if same:
                same[0]["outcomes"].add(out)         # same program output, other compiler messages
                stats["explained_by_earlier_finding"] += 1
                continue
        klass = outcome_class(sout)
        # a set listed for THIS program (generated: mechanical classes only) that still shows this class of difference?
        cands = causes.candidates(p.key, c, klass)
        attributed = None
        if cands:
            res = aldor.run_many([(run_cfg, (lb, p.text, sroute, explicit(tab, lv, s), wall), {}) for lv, s in cands], workers=workers)
            stats["runs"] += len(cands)
            for (lv, s), r in zip(cands, res):
                o = r[0] if not isinstance(r, Exception) else ("check-error", repr(r))
                if not inconclusive(o) and o != sref and outcome_class(o) == klass:
                    attributed = (lv, s, o); break
        text, shape = p.text, None
        inliner_fault = False        # (name kept: "the compiler fault goes away without this pass")
        pass_name = None
        if not attributed and p.key == "generated" and klass == "fault-compiler":
            for pname, sw in FAULTY_PASSES:
                if not (c.on & sw) or not any(k[3] == "generated" and k[4] == "fault-compiler-" + pname for k in causes.items):
                    continue
                # mechanical test of the listed cause "pass <pname> makes the compiler fault on a generated program":
                # the same configuration without the switches of that pass compiles and behaves like -Q0
                o, _ = run_cfg(lb, p.text, sroute, explicit(tab, c.level, c.on - sw), wall)
                stats["runs"] += 1
                if o == sref:
                    inliner_fault, pass_name = True, pname
                    lv, s, fout = c.level, c.on, sout
                    complete, note, spelling = False, "attributed mechanically: without %s the same configuration behaves like -Q0" % "/".join(sorted(sw)), c.spelling
                    stats["attributed_to_known_cause"] += 1
                    break
        if inliner_fault:
            pass
        elif attributed:
            lv, s, fout = attributed
            complete, note, spelling = True, "attributed to a listed switch set of this program (its configuration shows the same class of difference)", explicit(tab, lv, s)
            stats["attributed_to_known_cause"] += 1
        else:
            sh = Shrinker(lb, tab, p.text, sroute, sref, wall, shrink_budget, workers)
            m = sh.minimise(c.level, c.on)
            stats["runs"] += sh.runs
            if m is None:
                lv, s, complete = c.level, c.on, False
                spelling = c.spelling
                note = "the difference is not reproduced when every switch is spelled out; reported with the original spelling, not shrunk"
                fout = sout
            else:
                lv, s, complete = m
                spelling = explicit(tab, lv, s)
                note = "" if complete else "shrinking stopped at its run budget; the set may not be minimal"
                fout = sh.cache[(lv, frozenset(s))][0]
            klass = outcome_class(fout) if m is not None else klass
            if p.key != "generated":
                causes.add((route, lv, frozenset(s), p.key, klass))
        p.found.append({"route": route, "level": lv, "on": frozenset(s), "hang": hangs(fout) or hangs(sout),
                        "outcomes": {out, sout, fout}})
        if inliner_fault:
            sig = "opt|%s|%s|generated|fault-compiler-%s" % (route, pass_name, pass_name)
        elif p.key == "generated" and not (attributed and klass in MECHANICAL):
            # no stable name: shrink the program as well, the signature carries the shrunk source
            if p.ast is not None and m is not None:
                text, shape = shrink_generated(lb, p, sroute, lv, s, tab, klass, wall, prog_budget, stats)
            sig = "opt|%s|Q%d+%s|generated|%s" % (route, lv, flag_list(tab, s), hashlib.sha256(text.encode()).hexdigest()[:8])
        elif not inliner_fault:
            sig = signature(tab, route, lv, s, p.key, klass)
        what = ("%s (%s route): behaviour with `%s` differs from `-Q0` (%s): %s/%r instead of %s/%r; minimal switch set: level %d, {%s} "
                "(`%s`)%s%s" % (p.name, route, c.key(), klass, sout[0], sout[1][-160:], sref[0], sref[1][-160:], lv, flag_list(tab, s),
                                " ".join(spelling), ("; " + note) if note else "",
                                ("; shrunk program has features %s" % shape) if shape is not None else ""))
        stats["findings"].append("%s  %s %s" % (sig, p.name, symptom(sout)))
        with _LOCK:
            ctx.finding(sig, what,
                        {"kind": "opt-changes-behaviour", "program": p.name, "route": sroute, "source": text,
                         "original_source": p.text if text != p.text else None,
                         "reference_command": command_line(build, sroute, ["-Q0"], text),
                         "failing_command": command_line(build, sroute, spelling, text),
                         "reference_options": ["-Q0"], "failing_options": list(spelling),
                         "reference_output": {"exit": sref[0], "stdout": sref[1][-4000:]},
                         "failing_output": {"exit": fout[0], "stdout": fout[1][-4000:]},
                         "first_seen_with": c.key(), "first_seen_output": {"exit": sout[0], "stdout": sout[1][-4000:]},
                         "minimal_level": lv, "minimal_switches": flag_list(tab, s), "outcome_class": klass,
                         "fully_minimised": complete, "expected_from_model": p.expected,
                         "note": "`%s` = stopped by `ulimit -t` (does not terminate within the CPU limit); route `ao` = compiled to "
                                 ".ao with the options, the saved unit interpreted in a second run; for a shrunk generated program the "
                                 "outputs shown are those of the original program" % CPU})

def shrink_all(ctx, build, lb, tab, causes, progs, route, wall, stats, max_findings, shrink_budget, prog_budget, deadline=None):
    """one program after the other, in the order given (the outcome must not depend on scheduling); the runs
    of one shrink step go in parallel"""
    for p in progs:
        if p.bad.get(route):
            if deadline and time.time() > deadline and not getattr(p, "always", False):
                stats["unshrunk_by_time_budget"] += 1
                p.bad.pop(route, None)
                continue
            shrink_program(ctx, build, lb, tab, causes, p, route, wall, stats, max_findings, shrink_budget, 2 * common.NCPU, prog_budget)

def replay(build, rep):
    """re-runs the two commands of a replay file; returns 1 when they still behave differently"""
    route = rep["route"]
    lb = limited_build(build, 90)
    a, _ = run_cfg(lb, rep["source"], route, rep["reference_options"], 1800)
    b, _ = run_cfg(lb, rep["source"], route, rep["failing_options"], 1800)
    print("program %s, route %s" % (rep["program"], route))
    print("--- %s\n    exit class %s\n%s" % (" ".join(rep["reference_options"]), a[0], a[1]))
    print("--- %s\n    exit class %s\n%s" % (" ".join(rep["failing_options"]), b[0], b[1]))
    print("=> %s" % ("DIFFERENT" if a != b else "same behaviour"))
    return 1 if a != b else 0

def run_part(ctx, build):
    t0 = time.time()
    thorough = ctx.tier == "thorough"
    tab = Table(load_table(build.src))
    if tab.flags != EXPECTED_FLAGS:
        ctx.notes.append("optsearch: the switch table of optfoam.c changed: %s (search enumerates the current table)" % tab.flags)
    rng = ctx.rng
    cpu = 30 if not thorough else 60      # CPU seconds after which a compile/run counts as not terminating
    wall = 20 * cpu
    lb = limited_build(build, cpu)
    causes = Causes(tab, [k for k in ctx.known if k.get("property") == ctx.prop])
    corpus = corpus_programs()
    gen, gen_note = generated_programs(ctx, int(os.environ.get("VERIF_C02_GEN", 48 if not thorough else 400)))   # (override: development only)
    stats = {"programs_total": len(corpus), "generated": len(gen), "generator": gen_note, "switches": tab.flags,
             "by_kind": {}, "explained_by_earlier_finding": 0, "compiler_messages_only": 0, "compiler_messages_examples": [],
             "findings_cap_hit": 0, "masked_by_hang": 0, "attributed_to_known_cause": 0, "left_out_by_time_budget": 0,
             "unshrunk_by_time_budget": 0, "inconclusive": 0, "findings": [], "runs": 0,
             "cpu_limit_s": cpu, "wall_backstop_s": wall, "phases": {}}
    # The random subsets come from a fixed list of 200 (seeded by a constant, so that what the thorough tier
    # explores is the same whatever VERIF_SEED, and covers the quick tier); the quick tier takes 4 of them,
    # chosen by VERIF_SEED.
    allrandom = random_configs(tab, random.Random(20020202), int(os.environ.get("VERIF_C02_RANDOM", 200)))
    nrandom = len(allrandom) if thorough else min(4, len(allrandom))
    rconfigs = allrandom if thorough else [allrandom[i] for i in sorted(rng.sample(range(len(allrandom)), nrandom))]
    stage1 = base_configs(tab)
    first = [c for c in stage1 if c.kind == "single" or c.key() in ("-Q1", "-Q2")]      # cheap, and a single switch names the pass
    rest_levels = [c for c in stage1 if c not in first]
    max_findings = 8
    shrink_budget = 150 if not thorough else 800
    prog_budget = 40 if not thorough else 250

    # ---- which programs: generated ones first (quick: all of them), then the corpus (quick: a seeded sample)
    # the hand-written aliasing programs (arguments / parameters / captured variables written and read through two
    # names) always run, and run first: they are small, and copy propagation and the inliner are exactly the passes
    # no theorem covers
    prio = [p for p in corpus if p[0].startswith("alias_")]
    others = [p for p in corpus if not p[0].startswith("alias_")]
    sample = list(others) if thorough else sorted(rng.sample(others, min(30 - len(prio), len(others))), key=lambda p: p[0])
    gprogs = [ProgState(n, t, e, a) for n, t, e, a in gen]
    cprogs0 = [ProgState(*p) for p in sample]
    pprogs = [ProgState(*p) for p in prio]
    for p in pprogs:
        p.always = True        # no stage deadline applies to them: what they show must not depend on machine load
    progs = pprogs + gprogs + cprogs0
    stats["always_run"] = [p[0] for p in prio]
    stats["programs_run"] = len(progs)

    def phase(name, t):
        stats["phases"][name] = round(time.time() - t0, 1)
    # quick tier: a time budget (a phase stops starting work when its share is used up; what was left out is counted)
    # (the thorough tier's plan - every corpus program and 400 generated ones under ~70 configurations, each
    # difference shrunk - ran for more than two and a half hours on 16 cores without finishing; it now has the
    # quick tier's stage deadlines times ten, about 55 minutes in all, and counts what it left out)
    global _THOROUGH
    _THOROUGH = thorough
    dl = (lambda s: t0 + 10 * s) if thorough else (lambda s: t0 + s)

    # ---- references (interpreter)
    res = aldor.run_many([(run_cfg, (lb, p.text, "interp", ["-Q0"], wall), {}) for p in progs])
    stats["runs"] += len(progs)
    for p, r in zip(progs, res):
        out = r[0] if not isinstance(r, Exception) else ("check-error", repr(r))
        if inconclusive(out) or hangs(out):
            stats["inconclusive"] += 1
            continue
        p.ref["interp"] = out
        if p.expected is not None and out[0] == "ok" and out[1] != p.expected:
            ctx.finding("opt|interp|Q0-vs-model|generated|%s" % hashlib.sha256(p.text.encode()).hexdigest()[:8],
                        "generated program %s prints something else than the model expects already at -Q0" % p.name,
                        {"kind": "differs-from-model", "program": p.name, "source": p.text,
                         "command": command_line(build, "interp", ["-Q0"], p.text), "output": out[1][-2000:], "expected": p.expected[-2000:]})
    phase("references", t0)

    args = (ctx, build, lb, tab, causes)
    # ---- 1. -Q1, -Q2 and every single switch, every program
    run_grid(lb, progs, "interp", lambda p: first, wall, stats, dl(110))
    shrink_all(*args, progs, "interp", wall, stats, max_findings, shrink_budget, prog_budget, dl(150))
    phase("singles+Q1+Q2", t0)
    # ---- 2. the other levels and -O
    # (the top level last and on its own: with its unlimited inline limit the compiler often runs into the CPU limit)
    top = [c for c in rest_levels if c.level == tab.maxq]
    run_grid(lb, progs, "interp", lambda p: [c for c in rest_levels if c.level != tab.maxq], wall, stats, dl(170))
    run_grid(lb, progs, "interp", lambda p: top, wall, stats, dl(185))
    shrink_all(*args, progs, "interp", wall, stats, max_findings, shrink_budget, prog_budget, dl(215))
    phase("levels", t0)
    # ---- 3. complements, 4. random subsets
    def complements(p):
        # relative to the top level (those for which the compiler is already known not to terminate are skipped as
        # masked) and, when the top level itself is masked for this program, also to the highest level that is not
        base = tab.maxq
        while base > tab.maxl and (p.masked(Config(base, tab.on_at(base), [], "")) or
                                    (not thorough and p.hung_at is not None and base >= p.hung_at)):
            base -= 1
        stats.setdefault("complement_base", {})
        stats["complement_base"][str(base)] = stats["complement_base"].get(str(base), 0) + 1
        if not thorough and ("-Q%d" % tab.maxq) not in p.ran:
            # quick tier: the top level itself was not reached for this program (time budget), so whether it
            # terminates is unknown; its complements would each risk the full CPU limit
            stats["left_out_by_time_budget"] += 1
            return []
        cs = complement_configs(tab, tab.maxq)
        if base < tab.maxq:
            cs += complement_configs(tab, base)
        return cs
    run_grid(lb, progs, "interp", complements, wall, stats, dl(240))
    run_grid(lb, progs, "interp", lambda p: [c for c in rconfigs if thorough or c.level < tab.maxq or ("-Q%d" % tab.maxq) in p.ran],
             wall, stats, dl(255))
    shrink_all(*args, progs, "interp", wall, stats, max_findings, shrink_budget, prog_budget, dl(270))
    phase("complements+random", t0)

    # ---- 5. C route: a sample with a few configurations (quick), everything (thorough)
    cprogs = [p for p in progs if not p.name.startswith("order_") and "interp" in p.ref]
    if not thorough:
        cprogs = [cprogs[i] for i in sorted(rng.sample(range(len(cprogs)), min(10, len(cprogs))))]
        c1 = [Config(l, tab.on_at(l), ["-Q%d" % l], "level") for l in (1, 2, 3, tab.maxq)]
        c1 += [Config(0, {"cc"}, ["-Q0", "-Qcc"], "single"),
               Config(2, set(tab.on_at(2)) | {"cc-fnonstd"}, ["-Q2", "-Qcc-fnonstd"], "single")]
    else:
        c1 = stage1
    stats["c_programs"] = len(cprogs)
    if time.time() < t0 + (2750 if thorough else 275):
        res = aldor.run_many([(run_cfg, (lb, p.text, "c", ["-Q0"], wall), {}) for p in cprogs])
        stats["runs"] += len(cprogs)
        for p, r in zip(cprogs, res):
            out = r[0] if not isinstance(r, Exception) else ("check-error", repr(r))
            if inconclusive(out) or hangs(out):
                stats["inconclusive"] += 1
                continue
            p.ref["c"] = out
        run_grid(lb, cprogs, "c", lambda p: c1, wall, stats, dl(300))
        shrink_all(*args, cprogs, "c", wall, stats, max_findings, shrink_budget, prog_budget, dl(315))
        if thorough:
            # (the random subsets stay on the interpreter route: the optimiser is the same, only code generation differs)
            run_grid(lb, cprogs, "c", complements, wall, stats, dl(330))
            shrink_all(*args, cprogs, "c", wall, stats, max_findings, shrink_budget, prog_budget, dl(345))
    else:
        stats["left_out_by_time_budget"] += len(cprogs)
    phase("c-route", t0)

    stats["wall_s"] = round(time.time() - t0, 1)
    stats["configurations_per_program"] = len(stage1) + 2 * len(tab.flags) + len(rconfigs)
    ctx.cov["optsearch"] = stats
    ctx.cov["evaluations"] += stats["runs"]
    ctx.cov["distinct_nontrivial"] += len(progs)
    for p in progs[:3]:
        if "interp" in p.ref:
            ctx.sample({"module": "optsearch", "program": p.name, "reference": p.ref["interp"][1][:120]})
    return stats
