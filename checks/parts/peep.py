"""part `peep` (C02): of_peep.c vs Model/Peep.lean.  Tie: hand model + correspondence (H).

Requests are FOAM statements in prefix syntax (see harness/optdrv.c).  The C side runs the
repository's peepProg on a minimal Prog holding the statement; the Lean side runs the model.
Results are compared structurally, and the *implementation's* answer is checked on its own:
the original and the rewritten statement are evaluated by an independent evaluator (below)
under several environments and must agree in value/outcome, final locals and call trace."""
import os
from vlib import common
from vlib.common import VERIF

NAME = "peep"
BUILD_TARGETS = ["AldorVerif.Props.C02"]
SOURCES = ["of_peep.c", "of_peep.h", "optfoam.c", "foam.c", "fint.c"]
MODELLED = ("of_peep.c: peepProg/peepExpr/peepAux (fixpoint loop), peepBCall, peepUnaryBCall, peepBinaryBCall, "
            "peepNegate, peepMakeUnaryOp, peepMakeBinaryOp, peepAdditiveOp, peepTimesOp, peepPositive, peepFoamIsValue, "
            "peepFoamIsPowerOf2, peepFoamValue, peepFoamExprType, peepCast, peepIf, peepSelect and the tables "
            "foamBValOpInfoTableFast/Slow, peepBValOpInfo restricted to Bool/SInt builtins; foam.c: foamHasSideEffect, "
            "foamEqual on the fragment; regenerated: optfoam.c optControl[]/optQInlineLimit[], of_peep.c enum bvalOp/peepBValOpInfo[]/"
            "foamBValOpInfoTableFast/Slow[] "
            "(not: Char/BInt/SFlo/DFlo rows, BIntToSInt/SIntToBInt, peepCCall, peepEEnsure, PeepEnv code)")
THEOREMS = [("AldorVerif.Props.C02", "AldorVerif.Peep." + t) for t in (
    "peep_preserves_partial", "peep_preserves", "peep_preserves_type", "peep_preserves_statement_refuted",
    "peepNegate_swap_refuted", "peepCast_narrow_refuted", "sidefx_guard_necessary",
    "peepStmt_preserves", "peepSelect_guard_statement_refuted", "peepAux_minint_diverges",
    "peep_table_matches_model", "peep_builtin_tables_match_model", "peep_table_identities_valid",
    "peep_table_read_out_of_bounds",
    "optlevel_monotone", "opt_switch_names_complete", "opt_levels_above_max_only_raise_inline_limit")]

def prepare_src(src):
    """regenerate Gen/OptControl.lean (+ .json) and Gen/PeepTable.lean from the tree BEFORE the Lean build, so
    that the table theorems are about optfoam.c / of_peep.c as they are now (files rewritten only on change)"""
    import importlib.util
    for name in ("optcontrol", "peeptable"):
        spec = importlib.util.spec_from_file_location("tr_" + name, os.path.join(VERIF, "translate", name + ".py"))
        mod = importlib.util.module_from_spec(spec); spec.loader.exec_module(mod)
        mod.regen(src, VERIF)

M64 = (1 << 64) - 1
MIN = 1 << 63

def sgn(v):
    return v - (1 << 64) if v & MIN else v

# ------------------------------------------------------------------ expressions (tuples)
OP0 = {"BoolFalse": "B", "BoolTrue": "B"}
OP1 = {"BoolNot": ("B", "B"), "SIntNegate": ("S", "S"), "SIntNext": ("S", "S"), "SIntPrev": ("S", "S"),
       "SIntIsZero": ("S", "B"), "SIntIsPos": ("S", "B"), "SIntIsNeg": ("S", "B"), "SIntNot": ("S", "S")}
OP2 = {"BoolAnd": ("B", "B"), "BoolOr": ("B", "B"), "BoolEQ": ("B", "B"), "BoolNE": ("B", "B"),
       "SIntPlus": ("S", "S"), "SIntMinus": ("S", "S"), "SIntTimes": ("S", "S"), "SIntGcd": ("S", "S"),
       "SIntEQ": ("S", "B"), "SIntNE": ("S", "B"), "SIntLT": ("S", "B"), "SIntLE": ("S", "B"),
       "SIntShiftUp": ("S", "S"), "SIntAnd": ("S", "S")}
NLOC = 12
WIDTH = {"B": 8, "C": 8, "S": 64, "W": 64}

def loc_ty(i):
    return "SBW"[i % 3]

def parse_expr(toks, p):
    t = toks[p]
    if t == "T": return ("bool", True), p + 1
    if t == "F": return ("bool", False), p + 1
    if t[0] == "#": return ("sint", int(t[1:]) & M64), p + 1
    if t[0] == "v" and t[1:].isdigit(): return ("loc", int(t[1:])), p + 1
    if t == "call":
        a, q = parse_expr(toks, p + 3)
        return ("call", int(toks[p + 1]), toks[p + 2], a), q
    if t == "cast":
        a, q = parse_expr(toks, p + 2)
        return ("cast", toks[p + 1], a), q
    if t in OP0: return ("b0", t), p + 1
    if t in OP1:
        a, q = parse_expr(toks, p + 1)
        return ("b1", t, a), q
    if t in OP2:
        a, q = parse_expr(toks, p + 1)
        b, q = parse_expr(toks, q)
        return ("b2", t, a, b), q
    raise ValueError("token " + t)

def parse_stmt(toks):
    k = toks[0]
    if k == "ret":
        e, p = parse_expr(toks, 1)
        if p != len(toks): raise ValueError("trailing")
        return ("ret", e)
    if k == "if":
        e, p = parse_expr(toks, 1)
        if p != len(toks) - 1: raise ValueError("if")
        return ("if", e, int(toks[p]))
    if k == "sel":
        e, p = parse_expr(toks, 1)
        return ("sel", e, [int(x) for x in toks[p:]])
    if k == "goto" and len(toks) == 2: return ("goto", int(toks[1]))
    if k == "nop" and len(toks) == 1: return ("nop",)
    raise ValueError("statement " + k)

def show(e):
    k = e[0]
    if k == "bool": return "T" if e[1] else "F"
    if k == "sint": return "#%d" % sgn(e[1])
    if k == "loc": return "v%d" % e[1]
    if k == "call": return "call %d %s %s" % (e[1], e[2], show(e[3]))
    if k == "cast": return "cast %s %s" % (e[1], show(e[2]))
    if k == "b0": return e[1]
    if k == "b1": return "%s %s" % (e[1], show(e[2]))
    return "%s %s %s" % (e[1], show(e[2]), show(e[3]))

def type_of(e):
    """type of a well-typed expression, None otherwise"""
    k = e[0]
    if k == "bool": return "B"
    if k == "sint": return "S"
    if k == "loc": return loc_ty(e[1])
    if k == "call": return e[2] if type_of(e[3]) else None
    if k == "cast": return e[1] if type_of(e[2]) else None
    if k == "b0": return "B"
    if k == "b1": return OP1[e[1]][1] if type_of(e[2]) == OP1[e[1]][0] else None
    a, r = OP2[e[1]]
    return r if type_of(e[2]) == a and type_of(e[3]) == a else None

class Undefined(Exception):
    pass

def ob(b):
    return 1 if b else 0

def norm(t, v):
    return ob(v != 0) if t == "B" else v

def call_sem(k, v, st):
    """the unknown functions of the oracle: leave a trace, change a local, depend on a local"""
    st["out"].append((k, v))
    i = k % NLOC
    st["loc"][i] = (st["loc"][i] + v + 1) & M64
    return (v * 3 + k + st["loc"][(k + 1) % NLOC]) & M64

def gcd(a, b):
    import math
    return math.gcd(abs(sgn(a)), abs(sgn(b))) & M64

def ev(e, st):
    """independent evaluator (interpreter semantics: operands left to right, all evaluated)"""
    k = e[0]
    if k == "bool": return ob(e[1])
    if k == "sint": return e[1]
    if k == "loc": return norm(loc_ty(e[1]), st["loc"][e[1] % NLOC])
    if k == "call":
        v = ev(e[3], st)
        return norm(e[2], call_sem(e[1], v, st))
    if k == "cast":
        v = ev(e[2], st)
        src = type_of(e[2])
        if src is not None and WIDTH[e[1]] < WIDTH[src]:
            return v & 0xff
        return v
    if k == "b0": return ob(e[1] == "BoolTrue")
    if k == "b1":
        v = ev(e[2], st); o = e[1]
        if o == "BoolNot": return ob(v == 0)
        if o == "SIntNegate": return (-v) & M64
        if o == "SIntNext": return (v + 1) & M64
        if o == "SIntPrev": return (v - 1) & M64
        if o == "SIntIsZero": return ob(v == 0)
        if o == "SIntIsPos": return ob(sgn(v) > 0)
        if o == "SIntIsNeg": return ob(sgn(v) < 0)
        if o == "SIntNot": return v ^ M64
    a = ev(e[2], st); b = ev(e[3], st); o = e[1]
    if o == "BoolAnd": return ob(a != 0 and b != 0)
    if o == "BoolOr": return ob(a != 0 or b != 0)
    if o in ("BoolEQ", "SIntEQ"): return ob(a == b)
    if o in ("BoolNE", "SIntNE"): return ob(a != b)
    if o == "SIntPlus": return (a + b) & M64
    if o == "SIntMinus": return (a - b) & M64
    if o == "SIntTimes": return (a * b) & M64
    if o == "SIntGcd": return gcd(a, b)
    if o == "SIntLT": return ob(sgn(a) < sgn(b))
    if o == "SIntLE": return ob(sgn(a) <= sgn(b))
    if o == "SIntShiftUp":
        if b > 63: raise Undefined("shift count")
        return (a << b) & M64
    if o == "SIntAnd": return a & b
    raise ValueError(o)

def ev_stmt(s, st):
    k = s[0]
    if k == "ret": return ("returned", ev(s[1], st))
    if k == "if": return ("jump", s[2]) if ev(s[1], st) != 0 else ("fall",)
    if k == "sel":
        v = ev(s[1], st)
        if v >= len(s[2]): raise Undefined("select index")
        return ("jump", s[2][v])
    if k == "goto": return ("jump", s[1])
    return ("fall",)

def envs(rng, n):
    special = [0, 1, 2, M64, MIN, MIN - 1, 8, 255, 256, (1 << 32) + 1]
    out = []
    for j in range(n):
        loc = []
        for i in range(NLOC):
            if loc_ty(i) == "B":
                loc.append(rng.randint(0, 1))
            elif j == 0:
                loc.append(0)
            elif rng.random() < 0.5:
                loc.append(rng.choice(special))
            else:
                loc.append(rng.getrandbits(64))
        out.append(loc)
    return out

def agree(s1, s2, env_list):
    """None when the two statements behave alike under every environment, else a description"""
    for loc in env_list:
        a = {"loc": list(loc), "out": []}
        b = {"loc": list(loc), "out": []}
        try:
            ra = ev_stmt(s1, a)
        except Undefined:
            continue                      # the original is undefined there: nothing to preserve
        try:
            rb = ev_stmt(s2, b)
        except Undefined as u:
            return "rewritten statement undefined (%s) where the original is defined, locals %s" % (u, loc)
        if ra != rb or a != b:
            return "locals %s: original -> %s, locals' %s, calls %s; rewritten -> %s, locals' %s, calls %s" % (
                loc, ra, a["loc"], a["out"], rb, b["loc"], b["out"])
    return None

# ------------------------------------------------------------------ generator
SINT_CONSTS = [0, 1, -1, 2, 4, 8, 3, 5, -2, -8, 1 << 30, 1 << 31, 1 << 40, -(1 << 63) + 1, (1 << 63) - 1, 7, 16, 1024]
MININT = -(1 << 63)       # only as a rare operand: `x + MinInt` makes peepAux loop for ever

def gen(rng, ty, depth, impure_p, typed=True):
    """an expression of type `ty` (B/S/W)"""
    if not typed and rng.random() < 0.08:
        ty = rng.choice("BSW")
    if depth <= 0 or rng.random() < 0.18:
        r = rng.random()
        if r < impure_p:
            return ("call", rng.randint(0, 5), ty, gen(rng, rng.choice("SB"), 0, 0, typed))
        if ty == "B":
            return ("bool", rng.random() < 0.5) if r < 0.55 else ("loc", rng.choice((1, 4, 7, 10)))
        if ty == "S":
            if rng.random() < 0.002:
                return ("sint", MININT & M64)
            return ("sint", rng.choice(SINT_CONSTS) & M64) if r < 0.55 else ("loc", rng.choice((0, 3, 6, 9)))
        if ty == "C":
            return ("cast", "C", ("loc", rng.choice((1, 4))) if r < 0.8 else ("loc", rng.choice((0, 2))))
        return ("loc", rng.choice((2, 5, 8, 11))) if r < 0.6 else ("cast", "W", gen(rng, rng.choice("SB"), depth - 1, impure_p, typed))
    r = rng.random()
    if r < 0.07:
        return ("call", rng.randint(0, 5), ty, gen(rng, rng.choice("SB"), depth - 1, impure_p, typed))
    if r < 0.17:
        src = rng.choice("SWBC" if ty not in "BC" else "BBBCCSW")
        return ("cast", ty, gen(rng, src, depth - 1, impure_p, typed))
    if ty == "W":
        return ("cast", "W", gen(rng, rng.choice("SSBC"), depth - 1, impure_p, typed))
    if ty == "C":
        return ("cast", "C", gen(rng, rng.choice("BBCSW"), depth - 1, impure_p, typed))
    if ty == "B":
        r = rng.random()
        if r < 0.04: return ("b0", rng.choice(list(OP0)))
        if r < 0.22: return ("b1", "BoolNot", gen(rng, "B", depth - 1, impure_p, typed))
        if r < 0.34: return ("b1", rng.choice(("SIntIsZero", "SIntIsPos", "SIntIsNeg")), gen(rng, "S", depth - 1, impure_p, typed))
        if r < 0.62:
            op = rng.choice(("BoolAnd", "BoolOr", "BoolEQ", "BoolNE"))
            a = gen(rng, "B", depth - 1, impure_p, typed)
            b = a if rng.random() < 0.2 else gen(rng, "B", depth - 1, impure_p, typed)
            return ("b2", op, a, b)
        op = rng.choice(("SIntEQ", "SIntNE", "SIntLT", "SIntLE"))
        a = gen(rng, "S", depth - 1, impure_p, typed)
        b = a if rng.random() < 0.2 else gen(rng, "S", depth - 1, impure_p, typed)
        return ("b2", op, a, b)
    r = rng.random()
    if r < 0.25:
        return ("b1", rng.choice(("SIntNegate", "SIntNegate", "SIntNext", "SIntPrev", "SIntNot")), gen(rng, "S", depth - 1, impure_p, typed))
    op = rng.choice(("SIntPlus", "SIntPlus", "SIntMinus", "SIntMinus", "SIntTimes", "SIntTimes", "SIntGcd", "SIntAnd", "SIntShiftUp"))
    a = gen(rng, "S", depth - 1, impure_p, typed)
    if op == "SIntShiftUp":
        return ("b2", op, a, ("sint", rng.randint(0, 40)))
    b = a if rng.random() < 0.15 else gen(rng, "S", depth - 1, impure_p, typed)
    return ("b2", op, a, b)

def exhaustive_small():
    """every binary/unary builtin on every pair of small operands (constants, a local, an impure call,
    a negation, a double), and the Cast shapes"""
    s_ops = [("sint", c & M64) for c in (0, 1, -1, 2, 8, 3, -8, 1 << 30, 1 << 31)] + [("loc", 0), ("loc", 3),
             ("call", 1, "S", ("sint", 5)), ("b1", "SIntNegate", ("loc", 0)), ("b1", "SIntNext", ("loc", 0)),
             ("b1", "SIntPrev", ("loc", 3)), ("b1", "SIntNegate", ("call", 2, "S", ("sint", 1)))]
    b_ops = [("bool", True), ("bool", False), ("loc", 1), ("loc", 4), ("call", 3, "B", ("sint", 2)),
             ("b1", "BoolNot", ("loc", 1)), ("b2", "SIntLE", ("loc", 0), ("loc", 3)), ("b2", "SIntLT", ("loc", 0), ("loc", 3)),
             ("b2", "SIntEQ", ("call", 1, "S", ("sint", 5)), ("loc", 1 - 1)), ("b2", "BoolNE", ("loc", 1), ("call", 3, "B", ("sint", 2))),
             ("b2", "SIntNE", ("call", 1, "S", ("sint", 5)), ("call", 2, "S", ("sint", 5))), ("b0", "BoolTrue")]
    out = []
    for op, (at, rt) in OP2.items():
        ops = s_ops if at == "S" else b_ops
        for a in ops:
            for b in ops:
                out.append(("ret", ("b2", op, a, b)))
    for op, (at, rt) in OP1.items():
        ops = s_ops if at == "S" else b_ops
        for a in ops:
            out.append(("ret", ("b1", op, a)))
            for op2, (at2, rt2) in OP1.items():
                if rt2 == at:
                    out.append(("ret", ("b1", op, ("b1", op2, (s_ops if at2 == "S" else b_ops)[9 if at2 == "S" else 2]))))
    for t1 in "BCSW":
        for x in (("loc", 0), ("loc", 1), ("loc", 2), ("sint", 300), ("bool", True), ("call", 1, "S", ("sint", 5)),
                  ("b2", "SIntPlus", ("loc", 0), ("loc", 3)), ("b2", "SIntLT", ("loc", 0), ("loc", 3))):
            out.append(("ret", ("cast", t1, x)))
            for t2 in "BCSW":
                out.append(("ret", ("cast", t1, ("cast", t2, x))))
                for t3 in "BCSW":
                    out.append(("ret", ("cast", t1, ("cast", t2, ("cast", t3, x)))))
    for c in b_ops:
        out.append(("if", c, 7))
        out.append(("if", ("b1", "BoolNot", c), 3))
    for i in range(0, 4):
        out.append(("sel", ("sint", i), [10, 11, 12, 13]))
    out.append(("sel", ("loc", 0), [10, 11]))
    out.append(("sel", ("b2", "SIntPlus", ("sint", 1), ("sint", 0)), [10, 11]))
    return out

def show_stmt(s):
    if s[0] == "ret": return "ret " + show(s[1])
    if s[0] == "if": return "if %s %d" % (show(s[1]), s[2])
    if s[0] == "sel": return "sel " + show(s[1]) + "".join(" %d" % l for l in s[2])
    if s[0] == "goto": return "goto %d" % s[1]
    return "nop"

def has_narrowing_cast(e):
    if e[0] == "cast":
        src = type_of(e[2])
        return (src is not None and (WIDTH[e[1]] < WIDTH[src] or (e[1] == "B" and src != "B"))) or has_narrowing_cast(e[2])
    return any(has_narrowing_cast(x) for x in e[1:] if isinstance(x, tuple))

def has_minint_additive(e):
    """the shape on which peepPositive/peepAdditiveOp loop: SIntPlus or SIntMinus with the literal MinInt as an
    operand (also one `SIntNegate` away: a + (-(MinInt)) is rewritten to a - MinInt).  MinInt as the LEFT operand
    of SIntMinus reaches the loop after one step when the right operand is negatable: MinInt - (-2) and
    MinInt - (-x) are first rewritten to MinInt + 2 and MinInt + x."""
    def is_min(x):
        return x == ("sint", MININT & M64) or (x[0] == "b1" and x[1] == "SIntNegate" and x[2] == ("sint", MININT & M64))
    if e[0] == "b2" and ((e[1] == "SIntPlus" and (is_min(e[2]) or is_min(e[3]))) or (e[1] == "SIntMinus" and (is_min(e[2]) or is_min(e[3])))):
        return True
    return any(has_minint_additive(x) for x in e[1:] if isinstance(x, tuple))

def stmt_expr(s):
    return s[1] if s[0] in ("ret", "if", "sel") else ("bool", True)

KNOWN_CLASSES = (
    # tag of the rule that fired, signature, text
    ("r=add-swap", "peep|reorder-additive",
     "peepAdditiveOp rewrites (-a)+b to b-a without any side-effect test: the operands are evaluated in the opposite order"),
    ("r=not-dual", "peep|reorder-negate",
     "peepNegate rewrites not(a R b) to (b R' a) when ONE operand is free of side effects; the other may change what the pure one reads"),
    ("", "peep|cast-narrowing",
     "a Cast to Bool of an SInt/Word is a view of one byte (fint.c); peepCast drops the inner Casts of a chain although "
     "such a Cast loses bits, and the Boolean rules (not not x -> x, true and x -> x) assume 0/1 operands"),
)

def replay(build, rep):
    """feeds the request line of a replay file to both sides again"""
    exe = build.cc_driver("optdrv", os.path.join(VERIF, "harness", "optdrv.c"))
    ln = rep["line"]
    c = common.run_impl_lines(exe, [ln], timeout=10)[0]
    m = common.run_model("peep", ln + "\n")[0]
    print("request : %s\nof_peep.c: %s\nmodel    : %s" % (ln, c, m))
    toks = ln.split()
    try:
        d = agree(parse_stmt(toks[2:]), parse_stmt(c.split()), envs(__import__("random").Random(1), 8))
    except Exception as e:
        d = "answer not comparable (%s)" % e
    print("=> %s" % (d or "original and rewritten statement behave alike under the environments tried"))
    return 1 if d else 0

def run_part(ctx, build):
    exe = build.cc_driver("optdrv", os.path.join(VERIF, "harness", "optdrv.c"))
    rng = ctx.rng
    thorough = ctx.tier == "thorough"
    oob = common.run_impl_lines(exe, ["oob"], timeout=60)[0]
    try:
        bits = [int(x) for x in oob.split()]
        mask = bits[0] + 2 * bits[1] + 4 * bits[2]
    except Exception:
        raise RuntimeError("optdrv: unexpected answer to `oob`: %r" % oob)
    stmts = []
    corp = os.path.join(VERIF, "corpus", "peep")
    ncorpus = 0
    if os.path.isdir(corp):
        for f in sorted(os.listdir(corp)):
            for l in open(os.path.join(corp, f)):
                l = l.strip()
                if l and not l.startswith("--"):
                    stmts.append(parse_stmt(l.split())); ncorpus += 1
    ex = exhaustive_small()
    stmts += ex
    nrand = 12000 if not thorough else 150000
    for i in range(nrand):
        depth = rng.choice((1, 2, 2, 3, 3, 4, 5))
        impure_p = rng.choice((0.0, 0.0, 0.1, 0.3))
        typed = rng.random() < 0.92
        r = rng.random()
        if r < 0.75:
            stmts.append(("ret", gen(rng, rng.choice("BBSSSWC"), depth, impure_p, typed)))
        elif r < 0.9:
            stmts.append(("if", gen(rng, "B", depth, impure_p, typed), rng.randint(0, 9)))
        else:
            n = rng.randint(1, 5)
            e = ("sint", rng.randint(0, n - 1)) if rng.random() < 0.6 else gen(rng, "S", depth - 1, impure_p, typed)
            stmts.append(("sel", e, [rng.randint(0, 20) for _ in range(n)]))
    lines = []
    for s in stmts:
        for fast in ((0, 1) if (len(lines) < 2 * (ncorpus + len(ex))) else (rng.randint(0, 1),)):
            lines.append("%d %d %s" % (fast, mask, show_stmt(s)))
    m, tags = common.split_model(common.run_model("peep", "\n".join(lines) + "\n"))
    assert len(m) == len(lines), (len(m), len(lines))
    # requests on which the model does not reach a fixed point are run one by one with a short
    # time limit (the C loop is expected not to return)
    # ("DIVERGES": the rule still fires on the result; tag `fuel0`: a SUBTERM ran out of fuel although the
    # result looks finished, e.g. `if (a - MinInt) ~= (a - MinInt)` -> nop in the model: the C code treats the
    # operands first and never gets to the root)
    def predicted_div(i):
        return m[i] == "DIVERGES" or "fuel0" in tags[i].split()
    normal_idx = [i for i in range(len(lines)) if not predicted_div(i)]
    div_idx = [i for i in range(len(lines)) if predicted_div(i)]
    c = [None] * len(lines)
    got = common.run_impl_lines(exe, [lines[i] for i in normal_idx], timeout=300)
    for i, g in zip(normal_idx, got):
        c[i] = g
    # (in parallel, a few seconds each: the answer expected from the C side is "no answer")
    from vlib import aldor as _aldor
    dsel = div_idx[:4] if ctx.tier != "thorough" else div_idx[:40]
    for i, r in zip(dsel, _aldor.run_many([(common.run_impl_lines, (exe, [lines[i]]), {"timeout": 4}) for i in dsel])):
        c[i] = r[0] if not isinstance(r, Exception) else "FAULT(check-error %r)" % (r,)
    stats = {"lines": len(lines), "corpus": ncorpus, "exhaustive": len(ex), "mismatch": 0, "prop_checked": 0,
             "prop_skipped_illtyped": 0, "rewritten": 0, "diverging": len(div_idx), "select_oob": 0, "faults": 0,
             "oob_arity_bits": oob, "known_classes": {}, "tags": common.tag_hist(tags)}
    seen = set()
    for k, ln in enumerate(lines):
        co = c[k]; mo = m[k]
        if co is None:
            continue
        toks = ln.split()
        req = " ".join(toks[2:])
        seen.add(co)
        if predicted_div(k):
            shape = has_minint_additive(stmt_expr(parse_stmt(toks[2:])))
            if co.startswith("FAULT(TIMEOUT") and not shape:
                # a loop of the pass that is NOT the listed one (no `x + MinInt` / `x - MinInt` inside)
                ctx.finding("peep|loop|" + ln, "peepAux does not return on `%s`, which does not contain the MinInt additive shape" % req,
                            {"kind": "impl-hangs", "driver": "harness/optdrv.c", "line": ln, "impl": co, "model": mo})
            elif co.startswith("FAULT(TIMEOUT"):
                ctx.finding("peep|minint-additive-loop",
                            "peepAux never returns on `x + MinInt` / `x - MinInt` (peepPositive negates the most negative "
                            "SInt to itself, so a+m -> a-m -> a+m -> ...): the compiler hangs, e.g. `%s`" % req,
                            {"kind": "impl-hangs", "driver": "harness/optdrv.c", "line": ln, "impl": co, "model": "no fixed point",
                             "replay_cmd": "echo '%s' | timeout 5 <optdrv built by ./check C02>" % ln})
            else:
                ctx.corr_broken.append((NAME, ln, co, mo))
            continue
        if mo == "OOB-READ":
            # Select with a constant index outside its label list: the interpreter's behaviour is
            # undefined for the original (fint.c runs off the label list), peepSelect reads
            # argv[idx] outside the node (garbage label, or a fault for a far index): nothing to
            # compare; theorem peepSelect_guard_statement_refuted records the missing test
            stats["select_oob"] += 1
            if co.startswith("FAULT"):
                stats["select_oob_fault"] = stats.get("select_oob_fault", 0) + 1
            continue
        if co.startswith("FAULT") or co in ("MISSING", "SKIPPED"):
            stats["faults"] += 1
            ctx.finding("peep|fault", "of_peep.c faults (%s) on: %s" % (co, ln),
                        {"kind": "impl-fault", "driver": "harness/optdrv.c", "line": ln, "impl": co, "model": mo})
            continue
        orig = parse_stmt(toks[2:])
        impl_ok = True; why = ""
        try:
            new = parse_stmt(co.split())
        except Exception as e:
            new = None; impl_ok = False; why = "unparsable answer %r (%s)" % (co, e)
        if new is not None:
            if co != req:
                stats["rewritten"] += 1
            if type_of(stmt_expr(orig)) is None:
                stats["prop_skipped_illtyped"] += 1
            else:
                d = agree(orig, new, envs(rng, 5)) if co != req else None
                stats["prop_checked"] += 1
                if d is not None:
                    impl_ok = False; why = d
        if co != mo:
            stats["mismatch"] += 1
            if not impl_ok:
                ctx.finding("peep|semantics|" + ln, "of_peep.c turns `%s` into `%s`, which behaves differently: %s (model: %s)" % (req, co, why, mo),
                            {"kind": "impl-violates-property", "line": ln, "impl": co, "model": mo, "why": why,
                             "replay_cmd": "echo '%s' | <optdrv built by ./check C02>" % ln})
            else:
                ctx.corr_broken.append((NAME, ln, co, mo))
        elif not impl_ok:
            # model and implementation agree and the rewrite changes behaviour: only the rules that
            # peep_preserves_partial excludes by hypothesis can do that
            cls = None
            if has_narrowing_cast(stmt_expr(orig)):
                cls = KNOWN_CLASSES[2][1:]
            else:
                for tag, sig, text in KNOWN_CLASSES[:2]:
                    if any(t.startswith(tag) for t in tags[k].split()):
                        cls = (sig, text); break
            if cls:
                stats["known_classes"][cls[0]] = stats["known_classes"].get(cls[0], 0) + 1
                ctx.finding(cls[0], "%s; e.g. `%s` -> `%s`: %s" % (cls[1], req, co, why),
                            {"kind": "impl-violates-property", "line": ln, "impl": co, "why": why,
                             "replay_cmd": "echo '%s' | <optdrv built by ./check C02>" % ln})
            else:
                ctx.violation("peep|model-and-impl-wrong|" + ln,
                              "implementation and model agree on `%s` -> `%s` but %s, and none of the rules excluded by the "
                              "hypotheses of peep_preserves_partial fired (model/driver defect)" % (req, co, why),
                              {"kind": "inconsistent", "line": ln, "impl": co, "tags": tags[k]})
        if k % 3000 == 11:
            ctx.sample({"module": "peep", "request": ln, "impl": co, "model": mo, "tags": tags[k]})
    stats["distinct_results"] = len(seen)
    ctx.cov["peep"] = stats
    ctx.cov["evaluations"] += len(lines)
    ctx.cov["distinct_nontrivial"] += len(seen)
    return stats
