"""Expression-tree programs for the C12 end-to-end search (helper of part javasearch, not a part).

Typed trees over MachineInteger (I) and Boolean (B): + - * quo rem mod, shift up/down, /\\ \\/ xor ~,
unary minus, the six comparisons, and/or/not, =/~= on booleans.  Each tree becomes the body of a
function of three run-time MachineInteger arguments (nothing can be folded away) that is called with
several argument tuples.  Every tree is evaluated here on every tuple first: all intermediate values
stay below 2^30 in magnitude (the region where the Java route can agree, Props/C12.lean), divisors are
non-zero (positive for mod), shift counts lie in 0..8.

Systematic family: every operator as LEFT and as RIGHT child of every binary operator it can be typed
under (so every parent/child pair of the same and of neighbouring precedence levels occurs on both
sides), each in two leaf variants (variables only / literals next to the inner and the outer operator:
nested builtin calls survive inlining most often with literal operands).  Random family: seeded trees to
depth 4."""
import random

ARGS = [(1, 2, 3), (-7, 5, 13), (100, -3, 8), (0, 9, -4), (37, 41, 6), (-12, -5, 2), (6, 6, 6)]
VARS = ["a", "b", "c"]
LITS = [1, 2, 3, 4, 5, 6, 7, 10, 16]
LIM = 2 ** 30

IBIN = ["add", "sub", "mul", "quo", "rem", "mod", "shl", "shr", "and", "or", "xor"]
IUN = ["neg", "not"]
CMP = ["lt", "le", "gt", "ge", "eq", "ne"]
BBIN = ["band", "bor", "beq", "bne"]
BUN = ["bnot"]
JAVA_TXT = {"add": "+", "sub": "-", "mul": "*", "quo": "/", "rem": "%", "shl": "<<", "shr": ">>", "and": "&", "or": "|", "xor": "^",
            "lt": "<", "le": "<=", "gt": ">", "ge": ">=", "eq": "==", "ne": "!=", "beq": "==", "bne": "!="}

class Unsafe(Exception):
    pass

def tdiv(a, b):
    q = abs(a) // abs(b)
    return q if (a < 0) == (b < 0) else -q

def ev(t, env):
    k = t[0]
    if k == "var": return env[t[1]]
    if k == "lit": return t[1]
    if k in IUN:
        x = ev(t[1], env); r = -x if k == "neg" else ~x
    elif k in BUN:
        return not ev(t[1], env)
    elif k in BBIN:
        x, y = ev(t[1], env), ev(t[2], env)
        return {"band": x and y, "bor": x or y, "beq": x == y, "bne": x != y}[k]
    else:
        x, y = ev(t[1], env), ev(t[2], env)
        if k in CMP:
            return {"lt": x < y, "le": x <= y, "gt": x > y, "ge": x >= y, "eq": x == y, "ne": x != y}[k]
        if k == "add": r = x + y
        elif k == "sub": r = x - y
        elif k == "mul": r = x * y
        elif k in ("quo", "rem"):
            if y == 0: raise Unsafe()
            r = tdiv(x, y) if k == "quo" else x - y * tdiv(x, y)
        elif k == "mod":
            if y <= 0: raise Unsafe()
            r = x % y
        elif k in ("shl", "shr"):
            if not 0 <= y <= 8: raise Unsafe()
            r = x << y if k == "shl" else x >> y
        elif k == "and": r = x & y
        elif k == "or": r = x | y
        elif k == "xor": r = x ^ y
        else: raise ValueError(k)
    if abs(r) >= LIM: raise Unsafe()
    return r

def safe(t):
    try:
        for a in ARGS:
            ev(t, dict(zip(VARS, a)))
        return True
    except Unsafe:
        return False

def typ(op):
    """(result type, operand types)"""
    if op in IBIN: return "I", ("I", "I")
    if op in IUN: return "I", ("I",)
    if op in CMP: return "B", ("I", "I")
    if op in BBIN: return "B", ("B", "B")
    if op in BUN: return "B", ("B",)
    raise ValueError(op)

def leaf(rng, ty, lits):
    if ty == "I":
        if lits and rng.random() < 0.6: return ("lit", rng.choice(LITS))
        return ("var", rng.choice(VARS))
    # a boolean leaf is a comparison of two integer leaves
    return (rng.choice(CMP), ("var", rng.choice(VARS)), ("lit", rng.choice(LITS)) if lits else ("var", rng.choice(VARS)))

def make(rng, op, kids):
    return (op,) + tuple(kids)

def leaves_for(rng, tys, lits):
    """operand leaves; in the literal variant integer operands are one variable and otherwise literals
    (an all-literal operation would be folded away)"""
    ls = [leaf(rng, t, False) for t in tys]
    if lits:
        idx = [i for i, t in enumerate(tys) if t == "I"]
        keep = rng.choice(idx) if idx else None
        for i in idx:
            if i != keep: ls[i] = ("lit", rng.choice(LITS))
    return ls

def pair_tree(rng, parent, side, child, lits):
    """parent with `child` as its left (side 0) or right (side 1) operand, leaves elsewhere"""
    _, pts = typ(parent)
    cres, cts = typ(child)
    if cres != pts[side]: return None
    for _ in range(60):
        ck = make(rng, child, leaves_for(rng, cts, lits))
        kids = [(("lit", rng.choice(LITS)) if (lits and t == "I") else leaf(rng, t, False)) for t in pts]
        kids[side] = ck
        t = make(rng, parent, kids)
        if safe(t): return t
    return None

def rnd_tree(rng, ty, d):
    if d == 0 or rng.random() < 0.1:
        return leaf(rng, ty, rng.random() < 0.5)
    ops = [o for o in IBIN + IUN + CMP + BBIN + BUN if typ(o)[0] == ty]
    op = rng.choice(ops)
    return make(rng, op, [rnd_tree(rng, t, d - 1) for t in typ(op)[1]])

def systematic(seed=12345, full=True):
    """deterministic: the same trees in every run.  `full=False` (quick tier): the literal variant of every
    pair, the variables-only variant of every third pair"""
    rng = random.Random(seed)
    out = []
    n = [0]
    def want(lits):
        n[0] += 1
        return full or lits or n[0] % 3 == 0
    parents = IBIN + CMP + BBIN
    children = IBIN + IUN + CMP + BBIN + BUN
    for p in parents:
        for side in (0, 1):
            for c in children:
                for lits in (False, True):
                    t = pair_tree(rng, p, side, c, lits)
                    if t is not None and t not in out and want(lits): out.append(t)
    # unary parents over every operator
    for u in IUN + BUN:
        for c in children:
            if typ(c)[0] != typ(u)[1][0]: continue
            for lits in (False, True):
                for _ in range(60):
                    t = make(rng, u, [make(rng, c, leaves_for(rng, typ(c)[1], lits))])
                    if safe(t):
                        if t not in out: out.append(t)
                        break
    # literal-heavy depth-3 shapes `(k P (v C m)) O j` and `((v C m) P k) O j` for operators of the same and of
    # neighbouring Java levels: with literal operands and an outer operation the inner two builtin calls stay
    # nested in the emitted Java (other operands go through temporaries)
    LEVEL = {"mul": 12, "quo": 12, "rem": 12, "add": 11, "sub": 11, "shl": 10, "shr": 10, "and": 7, "xor": 6, "or": 5}
    flip = 0
    for P in LEVEL:
        for C in LEVEL:
            if abs(LEVEL[P] - LEVEL[C]) > 1 and not (LEVEL[P] <= 7 and LEVEL[C] <= 7): continue
            for side in (0, 1):
                flip += 1
                outer = "add" if flip % 2 else "sub"
                for _ in range(60):
                    inner = (C, ("var", rng.choice(VARS)), ("lit", rng.choice(LITS)))
                    kids = [("lit", rng.choice(LITS)), ("lit", rng.choice(LITS))]
                    kids[side] = inner
                    t = (outer, (P,) + tuple(kids), ("lit", rng.choice(LITS)))
                    if safe(t):
                        if t not in out: out.append(t)
                        break
    # the shapes named in the trial: k*(n rem m) + j, k*(n quo m) - j
    for k, inner, m, outer, j in [(5, "rem", 4, "add", 1), (6, "quo", 6, "sub", 1), (3, "mod", 5, "add", 2), (7, "rem", 3, "sub", 2)]:
        for v in VARS:
            t = (outer, ("mul", ("lit", k), (inner, ("var", v), ("lit", m))), ("lit", j))
            if safe(t): out.append(t)
    return out

def random_trees(rng, n):
    out = []
    tries = 0
    while len(out) < n and tries < n * 400:
        tries += 1
        t = rnd_tree(rng, rng.choice(("I", "I", "B")), rng.choice((3, 4, 4)))
        if t[0] in ("var", "lit"): continue
        if safe(t): out.append(t)
    return out

def render(t):
    """fully parenthesised Aldor"""
    k = t[0]
    if k == "var": return t[1]
    if k == "lit": return str(t[1])
    if k == "neg": return "(-(%s))" % render(t[1])
    if k == "not": return "(~(%s))" % render(t[1])
    if k == "bnot": return "(not (%s))" % render(t[1])
    l, r = render(t[1]), render(t[2])
    if k == "shl": return "shift(%s, %s)" % (l, r)
    if k == "shr": return "shift(%s, -(%s))" % (l, r)
    if k == "xor": return "xor(%s, %s)" % (l, r)
    s = {"add": "+", "sub": "-", "mul": "*", "quo": "quo", "rem": "rem", "mod": "mod", "and": "/\\", "or": "\\/",
         "lt": "<", "le": "<=", "gt": ">", "ge": ">=", "eq": "=", "ne": "~=", "band": "and", "bor": "or", "beq": "=", "bne": "~="}[k]
    return "(%s %s %s)" % (l, s, r)

def is_bool(t):
    return t[0] in CMP + BBIN + BUN

def program(trees):
    """one function per tree, one `run` that prints every function's value for an argument tuple, and a
    loop over the tuples (a single call site per function: seven inlined copies of everything make -Q9's
    compile time explode and the unit's Java method exceed javac's 64 KB limit)"""
    o = ['#include "aldor"', '#include "aldorio"', "import from MachineInteger, Boolean, String;", "M ==> MachineInteger;",
         "import from List M;"]
    for k, t in enumerate(trees):
        o.append("f%d(a: M, b: M, c: M): %s == %s;" % (k, "Boolean" if is_bool(t) else "M", render(t)))
    o.append("run(a: M, b: M, c: M): () == {")
    o.append('  stdout << "args " << a << " " << b << " " << c << newline;')
    for k, t in enumerate(trees):
        o.append('  stdout << "f%d " << f%d(a, b, c) << newline;' % (k, k))
    o.append("}")
    for v, i in zip(("as", "bs", "cs"), range(3)):
        o.append("%s: List M := [%s];" % (v, ", ".join(str(a[i]) if a[i] >= 0 else "-%d" % -a[i] for a in ARGS)))
    o.append("for a in as for b in bs for c in cs repeat run(a, b, c);")
    return "\n".join(o) + "\n"

def differing_functions(out1, out2):
    """indices k of functions whose `fK ...` lines differ between two outputs"""
    def lines(s): return [l for l in s.split("\n") if l.startswith("f")]
    bad = set()
    l1, l2 = lines(out1), lines(out2)
    for x, y in zip(l1, l2):
        if x != y:
            try: bad.add(int(x.split()[0][1:]))
            except ValueError: pass
    if len(l1) != len(l2): bad.add(-1)
    return sorted(bad)

def programs(trees, per=16, prefix="expr"):
    """-> [(name, source, [trees])]"""
    out = []
    for i in range(0, len(trees), per):
        chunk = trees[i:i + per]
        out.append(("%s%03d" % (prefix, i // per), program(chunk), chunk))
    return out
