"""part `jmap` (C12): the Java back end's builtin table (genjava.c gjBValInfoTable + javacode.c
operator tables + foamj/Math.java) vs Gen/JMap.lean (translated on every run by
translate/jmap.py) vs the 32-bit meaning Spec (Model/JSpec.lean).

Tie: translator + correspondence.  A Java class is generated from the same rows: for an operator
row its method returns the Java expression text the row emits, for a method row it calls the real
`foamj.Math` method (foamj is compiled from the tree's current sources).  A real JVM evaluates it
on boundary tuples; the answers are compared with `Gen.JMap.X` evaluated by the Lean driver
(checks the translator and Model/JSem.lean) and with the 32-bit meaning (python oracle here, and
Spec through the Lean driver)."""
import importlib.util, os, re, shutil
from vlib import common
from vlib.common import VERIF

NAME = "jmap"
BUILD_TARGETS = ["AldorVerif.Props.C12"]
SOURCES = ["java/genjava.c", "java/javacode.c", "foam.c", "../lib/java/src/foamj/Math.java", "../lib/java/src/foamj/Foam.java"]
MODELLED = ("genjava.c: gjBValInfoTable, gj0BCallKeyword/Op/OpMod/LitInt/Const/Cast/Apply, gj0TypeFrFmt; javacode.c: JcOpInfoTable, "
            "operator texts, jcOpNot/jcOpNegate/jcOpTimesPlus; foamj/Math.java: bit isEven isOdd hashCombine "
            "(not: the emitter genjava.c proper, float/BInt/Word/Ptr rows, library methods - listed in Gen.JMap.untranslated)")

# rows whose 32-bit theorem is `jmap_<name>_spec32`
PROVED = ["BoolFalse", "BoolTrue", "BoolNot", "BoolAnd", "BoolOr", "BoolEQ", "BoolNE", "CharEQ", "CharNE", "CharLT", "CharLE", "CharOrd", "CharNum",
          "SInt0", "SInt1", "SIntMin", "SIntMax", "SIntIsZero", "SIntIsNeg", "SIntIsPos", "SIntIsEven", "SIntIsOdd",
          "SIntEQ", "SIntNE", "SIntLT", "SIntLE", "SIntNegate", "SIntPrev", "SIntNext", "SIntPlus", "SIntMinus",
          "SIntTimes", "SIntTimesPlus", "SIntMod", "SIntQuo", "SIntRem", "SIntPlusMod", "SIntMinusMod", "SIntTimesMod",
          "SIntShiftUp", "SIntShiftDn", "SIntBit", "SIntNot", "SIntAnd", "SIntOr", "SIntXOr",
          "Byte0", "Byte1", "ByteMin", "HInt0", "HInt1", "HIntMin", "HIntMax", "SIntToByte", "SIntToHInt", "HIntToSInt"]
# rows whose full statement is refuted with a witness: name -> (theorem, finding signature)
REFUTED = {"ByteMax": ("jmap_ByteMax_spec32_refuted", "jmap|ByteMax|spec32"),
           "ByteToSInt": ("jmap_ByteToSInt_spec32_statement_refuted", "jmap|ByteToSInt|spec32")}
# translated rows without an independent meaning here (correspondence JVM <-> model only)
NO_SPEC = ["CharMin", "CharMax", "SIntHashCombine"]
AGREE = ["SIntPlus", "SIntMinus", "SIntTimes", "SIntTimesPlus", "SIntNegate", "SIntPrev", "SIntNext", "SIntQuo", "SIntRem",
         "SIntShiftUp", "SIntShiftDn", "SIntNot", "SIntAnd", "SIntOr", "SIntXOr", "SIntLT", "SIntLE", "SIntEQ", "SIntNE",
         "SIntIsZero", "SIntIsNeg", "SIntIsPos", "SIntIsEven", "SIntIsOdd"]
COMBINED = ["SIntPlus", "SIntMinus", "SIntTimes", "SIntTimesPlus", "SIntNegate", "SIntPrev", "SIntNext", "SIntQuo", "SIntRem",
            "SIntShiftUp", "SIntShiftDn", "SIntLT", "SIntLE", "SIntEQ", "SIntNE", "SIntAnd"]
_P = "AldorVerif.Props.C12"
THEOREMS = ([(_P, "AldorVerif.C12.jmap_%s_spec32" % n) for n in PROVED]
            + [(_P, "AldorVerif.C12." + t) for t in sorted({v[0] for v in REFUTED.values()})]
            + [(_P, "AldorVerif.C12.jmap_ByteToSInt_spec32_partial")]
            + [(_P, "AldorVerif.C12.agree_within_31bit_%s" % n) for n in AGREE]
            + [(_P, "AldorVerif.C12.jmap_agrees_on_31bit_%s" % n) for n in COMBINED]
            + [(_P, "AldorVerif.C12.bint_literal_fits_int"), (_P, "AldorVerif.C12.bint_literal_text_exact")]
            + [(_P, "AldorVerif.C12.routes_differ_outside_31bit"), (_P, "AldorVerif.C12.shift_count_differs_outside_0_31")])

def translator():
    spec = importlib.util.spec_from_file_location("translate_jmap", os.path.join(VERIF, "translate", "jmap.py"))
    m = importlib.util.module_from_spec(spec); spec.loader.exec_module(m)
    return m

_PREP = {}

def prepare(src=None):
    """regenerate Gen/JMap.lean from the tree's current sources; called by common.run_parts before the
    Lean build (rewritten only when its text changes)"""
    T = translator()
    L = T.load(src or common.SRC)
    _PREP["regenerated"] = T.write_if_changed(os.path.join(common.LEAN, "AldorVerif", "Gen", "JMap.lean"), T.emit(L))
    _PREP["foamj_methods_translated"] = sorted(v["lean"] for v in L["methods"].values() if v["ok"])
    return L

prepare_src = prepare          # the name common.run_parts looks for

# ------------------------------------------------------------------ foamj from the tree's sources
def foamj_classes(build):
    """javac the tree's lib/java/src/foamj/*.java into the scratch tree (once per run); returns the
    class directory, or raises BuildError (the runtime the generated classes run against does not compile)"""
    d = getattr(build, "foamj_classes_dir", None)
    if d: return d
    srcdir = os.path.join(build.comp, "lib", "java", "src", "foamj")
    out = os.path.join(build.top, "foamj-classes")
    os.makedirs(out, exist_ok=True)
    files = sorted(os.path.join(srcdir, f) for f in os.listdir(srcdir) if f.endswith(".java"))
    rc, o, e = common.run(["javac", "-nowarn", "-d", out] + files, timeout=600)
    if rc != 0:
        raise common.BuildError("javac of lib/java/src/foamj failed:\n" + (o + e)[-3000:])
    build.foamj_classes_dir = out
    return out

# ------------------------------------------------------------------ the probe class
JT_PARSE = {"int": "(int) Long.parseLong(%s)", "long": "Long.parseLong(%s)", "short": "(short) Long.parseLong(%s)",
            "byte": "(byte) Long.parseLong(%s)", "char": "(char) Long.parseLong(%s)", "boolean": "(Long.parseLong(%s) != 0)"}
def jshow(ty, x):
    return {"boolean": "(%s ? \"T\" : \"F\")", "char": "Integer.toString((int) %s)", "byte": "Integer.toString(%s & 0xFF)",
            "short": "Integer.toString(%s)", "int": "Integer.toString(%s)", "long": "Long.toString(%s)"}[ty] % x

def probe_source(L):
    o = ["public class JMapProbe {"]
    cases = []
    for r in L["rows"]:
        if not r["ok"]: continue
        ps = ", ".join("%s %s" % (t, n) for t, n in r["params"])
        o.append("  static %s r_%s(%s) { return %s; }" % (r["jtype"], r["name"], ps, r["java"]))
        args = ", ".join(JT_PARSE[t] % ("t[%d]" % (i + 1)) for i, (t, n) in enumerate(r["params"]))
        cases.append('      case "%s": return %s;' % (r["name"], jshow(r["jtype"], "r_%s(%s)" % (r["name"], args))))
    for key, v in sorted(L["methods"].items()):
        if not v["ok"]: continue
        m = v["m"]
        args = ", ".join(JT_PARSE[t] % ("t[%d]" % (i + 1)) for i, (t, n) in enumerate(m["params"]))
        cases.append('      case "@%s": return %s;' % (v["lean"], jshow(m["ret"], "foamj.%s.%s(%s)" % (key[0], key[1], args))))
    o.append("  static String eval(String[] t) {")
    o.append("    switch (t[0]) {")
    o += cases
    o.append('      default: return "untranslated";')
    o.append("    }")
    o.append("  }")
    o.append("  public static void main(String[] a) throws Exception {")
    o.append("    java.io.BufferedReader in = new java.io.BufferedReader(new java.io.InputStreamReader(System.in));")
    o.append("    StringBuilder sb = new StringBuilder();")
    o.append("    String l;")
    o.append("    while ((l = in.readLine()) != null) {")
    o.append("      String[] t = l.trim().split(\" +\");")
    o.append("      String r;")
    o.append("      try { r = eval(t); }")
    o.append("      catch (ArithmeticException e) { r = \"throw\"; }")
    o.append("      catch (Throwable e) { r = \"exception:\" + e.getClass().getName(); }")
    o.append("      sb.append(r).append('\\n');")
    o.append("    }")
    o.append("    System.out.print(sb);")
    o.append("    System.out.flush();")
    o.append("  }")
    o.append("}")
    return "\n".join(o) + "\n"

# ------------------------------------------------------------------ python oracle: the 32-bit meaning
def wrap(x, w=32):
    x &= (1 << w) - 1
    return x - (1 << w) if x >> (w - 1) else x
def tdiv(a, b):
    q = abs(a) // abs(b)
    return q if (a < 0) == (b < 0) else -q
def tmod(a, b):
    return a - b * tdiv(a, b)
def TF(b): return "T" if b else "F"

def oracle(name, a):
    """meaning on 32-bit integers (arguments already narrowed to the parameter type, signed reading
    except Char/Byte); None = no meaning recorded / outside the stated domain"""
    I = lambda f: str(wrap(f))
    D = lambda num, den, f: "throw" if den == 0 else str(wrap(f(num, den)))
    t = {
        "BoolFalse": lambda: "F", "BoolTrue": lambda: "T",
        "BoolNot": lambda: TF(not a[0]), "BoolAnd": lambda: TF(a[0] and a[1]), "BoolOr": lambda: TF(a[0] or a[1]),
        "BoolEQ": lambda: TF(bool(a[0]) == bool(a[1])), "BoolNE": lambda: TF(bool(a[0]) != bool(a[1])),
        "CharEQ": lambda: TF(a[0] == a[1]), "CharNE": lambda: TF(a[0] != a[1]),
        "CharLT": lambda: TF(a[0] < a[1]), "CharLE": lambda: TF(a[0] <= a[1]),
        "CharOrd": lambda: str(a[0]), "CharNum": lambda: str(a[0] % 65536),
        "SInt0": lambda: "0", "SInt1": lambda: "1", "SIntMin": lambda: str(-2**31), "SIntMax": lambda: str(2**31 - 1),
        "SIntIsZero": lambda: TF(a[0] == 0), "SIntIsNeg": lambda: TF(a[0] < 0), "SIntIsPos": lambda: TF(a[0] > 0),
        "SIntIsEven": lambda: TF(a[0] % 2 == 0), "SIntIsOdd": lambda: TF(a[0] % 2 == 1),
        "SIntEQ": lambda: TF(a[0] == a[1]), "SIntNE": lambda: TF(a[0] != a[1]),
        "SIntLT": lambda: TF(a[0] < a[1]), "SIntLE": lambda: TF(a[0] <= a[1]),
        "SIntNegate": lambda: I(-a[0]), "SIntPrev": lambda: I(a[0] - 1), "SIntNext": lambda: I(a[0] + 1),
        "SIntPlus": lambda: I(a[0] + a[1]), "SIntMinus": lambda: I(a[0] - a[1]), "SIntTimes": lambda: I(a[0] * a[1]),
        "SIntTimesPlus": lambda: I(a[0] * a[1] + a[2]),
        "SIntQuo": lambda: D(a[0], a[1], tdiv), "SIntRem": lambda: D(a[0], a[1], tmod), "SIntMod": lambda: D(a[0], a[1], tmod),
        "SIntPlusMod": lambda: D(wrap(a[0] + a[1]), a[2], tmod), "SIntMinusMod": lambda: D(wrap(a[0] - a[1]), a[2], tmod),
        "SIntTimesMod": lambda: D(wrap(a[0] * a[1]), a[2], tmod),
        "SIntShiftUp": lambda: I(a[0] << a[1]) if 0 <= a[1] < 32 else None,
        "SIntShiftDn": lambda: I(a[0] >> a[1]) if 0 <= a[1] < 32 else None,
        "SIntBit": lambda: TF((a[0] >> a[1]) & 1) if 0 <= a[1] < 32 else None,
        "SIntNot": lambda: I(-a[0] - 1), "SIntAnd": lambda: I(a[0] & a[1]), "SIntOr": lambda: I(a[0] | a[1]),
        "SIntXOr": lambda: I(a[0] ^ a[1]),
        "Byte0": lambda: "0", "Byte1": lambda: "1", "ByteMin": lambda: "0", "ByteMax": lambda: "255",
        "HInt0": lambda: "0", "HInt1": lambda: "1", "HIntMin": lambda: "-32768", "HIntMax": lambda: "32767",
        "ByteToSInt": lambda: str(a[0]), "SIntToByte": lambda: str(a[0] % 256),
        "HIntToSInt": lambda: str(a[0]), "SIntToHInt": lambda: str(wrap(a[0], 16)),
    }.get(name)
    return t() if t else None

def narrow(ty, v):
    if ty == "boolean": return 1 if v != 0 else 0
    if ty == "char": return v % 65536
    if ty == "byte": return v % 256                # FOAM reading: unsigned
    if ty == "short": return wrap(v, 16)
    if ty == "long": return wrap(v, 64)
    return wrap(v, 32)

# ------------------------------------------------------------------ operands
def boundary(ty):
    if ty == "boolean": return [0, 1]
    if ty == "char": return [0, 1, 48, 65, 127, 128, 255, 256, 32767, 32768, 65534, 65535]
    if ty == "byte": return [0, 1, 2, 126, 127, 128, 129, 200, 254, 255]
    if ty == "short": return [0, 1, -1, 2, 255, 256, 32766, 32767, -32767, -32768]
    vs = {0, 1, -1, 2, -2, 3, -3, 7, -7, 10, 100, 2**31 - 1, -2**31, 2**31 - 2, -2**31 + 1}
    for k in (7, 8, 15, 16, 24, 30, 31):
        for d in (-1, 0, 1):
            for s in (1, -1):
                v = s * (2**k + d)
                if -2**31 <= v <= 2**31 - 1: vs.add(v)
    return sorted(vs)

SMALL = [0, 1, -1, 2, -2, 3, 5, -7, 255, 256, 65535, 65536, 46340, 46341, -46341, 2**30, 2**31 - 1, -2**31, -2**31 + 1, 2**30 + 1, -2**30 - 1]
COUNTS = list(range(0, 34)) + [63, 64, 65, -1, -31, -32, 2**31 - 1]

def requests(sigs, rng, thorough):
    lines = []
    for name, ps, rt in sigs:
        sets = []
        for i, t in enumerate(ps):
            b = boundary(t)
            if t == "int" and len(ps) >= 2: b = SMALL if len(ps) == 2 else SMALL[:11] + [2**31 - 1, -2**31]
            if name in ("SIntShiftUp", "SIntShiftDn", "SIntBit", "@Math_bit") and i == 1: b = COUNTS
            sets.append(b)
        def rec(i, acc):
            if i == len(sets):
                lines.append(" ".join([name] + [str(x) for x in acc])); return
            for v in sets[i]: rec(i + 1, acc + [v])
        rec(0, [])
        if ps:
            for _ in range(400 if thorough else 60):
                acc = []
                for i, t in enumerate(ps):
                    if t == "boolean": acc.append(rng.randint(0, 1))
                    elif t == "char": acc.append(rng.randint(0, 65535))
                    elif t == "byte": acc.append(rng.randint(0, 255))
                    elif t == "short": acc.append(rng.randint(-32768, 32767))
                    elif name in ("SIntShiftUp", "SIntShiftDn", "SIntBit", "@Math_bit") and i == 1: acc.append(rng.randint(0, 31))
                    else:
                        k = rng.choice((4, 8, 15, 16, 20, 31, 32))
                        acc.append(wrap(rng.getrandbits(k) * rng.choice((1, -1))))
                lines.append(" ".join([name] + [str(x) for x in acc]))
    return lines

# ------------------------------------------------------------------ big-integer constants (gj0BInt)
BINT_KS = (15, 16, 28, 29, 30, 31, 32, 33, 61, 62, 63, 64, 100)

def bint_values():
    vs = [0, 1, -1, 2, -2, 7, 10, 1000000]
    for k in BINT_KS:
        for d in (-1, 0, 1):
            vs += [2**k + d, -(2**k + d)]
    return vs

def bint_literal_probe(ctx, build, L, stats):
    """the real emitter: a program whose Integer constants sit on both sides of every boundary is compiled
    with -Fjava at -Q3 and -Q9 (from -Q3 on constants reach the back end as FOAM BInt literals; at -Q1 they
    are parsed from strings at run time), every `BigInteger.valueOf(n)` / `new BigInteger("n")` of the
    emitted Java is compared with Gen.JMap.bintLit n, and the executable form of bint_literal_fits_int
    is evaluated on what the emitter wrote"""
    from vlib import aldor
    st = {"constants": 0, "valueOf": 0, "string": 0, "mismatch": 0, "not_emitted_as_literal": 0}
    stats["bint_literals"] = st
    if not L["bintlit"]["ok"]:
        ctx.violation("jmap|gj0BInt|untranslated", "gj0BInt is no longer of the form the translator reads: " + L["bintlit"].get("reason", ""),
                      {"kind": "untranslated", "reason": L["bintlit"].get("reason", "")}, found_input=False)
        return
    allv = bint_values()
    st["constants"] = len(allv)
    # all declarations first, and a sacrificial first negation: the first `-` of a unit is emitted as
    # v.negate() (the operation is still being imported), the later ones are folded into negative literals
    for q in (3, 9):
        vals = allv
        src = ['#include "aldor"', '#include "aldorio"', "import from MachineInteger, Integer;", "w: Integer := -5;"]
        for k, v in enumerate(vals):
            src.append("v%d: Integer := %s;" % (k, str(v) if v >= 0 else "-" + str(-v)))
        src.append("stdout << w << newline;")
        for k, v in enumerate(vals):
            src.append('stdout << v%d << newline;' % k)
        text = "\n".join(src) + "\n"
        r = aldor.compile(build, {"bintlit.as": text}, ["-Q%d" % q, "-Fjava", "-Jmain", "bintlit.as"], timeout=300)
        jsrc = r["outputs"].get(os.path.join("aldorcode", "bintlit.java"))
        if r["rc"] != 0 or jsrc is None:
            ctx.finding("jmap|gj0BInt|Q%d|javagen-fail" % q, "aldor -Q%d -Fjava fails on a program of Integer constants: %s" % (q, (r["stdout"] + r["stderr"])[-300:]),
                        {"kind": "javagen-fail", "source": text, "log": (r["stdout"] + r["stderr"])[-3000:]})
            continue
        j = jsrc.decode("utf-8", "replace")
        vo = [int(x) for x in re.findall(r"BigInteger\.valueOf\(\s*(-?\d+)\s*\)", j)]
        sr = [int(x) for x in re.findall(r"new\s+(?:java\.math\.)?BigInteger\(\s*\"(-?\d+)\"\s*\)", j)]
        seen = set(vo) | set(sr)
        if re.search(r"BigInteger\.ZERO\b", j): seen.add(0)
        if re.search(r"BigInteger\.ONE\b", j): seen.add(1)
        st["valueOf"] += len(vo); st["string"] += len(sr)
        st["not_emitted_as_literal"] += sum(1 for v in vals if v not in seen)
        st.setdefault("not_emitted_examples", [v for v in vals if v not in seen][:20])
        ask = sorted(set(vo) | set(sr))
        m, _ = common.split_model(common.run_model("jmap", "\n".join("bintlit %d" % v for v in ask) + "\n"))
        model = dict(zip(ask, m))
        for n in sorted(set(vo)):
            fits = -2**31 <= n < 2**31
            if model[n] != "valueOf:%d" % n:
                st["mismatch"] += 1
                if not fits:
                    ctx.finding("jmap|gj0BInt|valueOf-out-of-int-range", "at -Q%d the emitter wrote BigInteger.valueOf(%d): not a Java int literal (model: %s)" % (q, n, model[n]),
                                {"kind": "impl-violates-property", "Q": q, "value": n, "model": model[n], "source": text})
                else:
                    ctx.corr_broken.append(("jmap", "bintlit %d (Q%d)" % (n, q), "valueOf:%d" % n, model[n]))
            elif not fits:
                ctx.violation("jmap|gj0BInt|fits-int", "emitter and model agree on BigInteger.valueOf(%d), outside the int range: contradicts bint_literal_fits_int" % n,
                              {"kind": "inconsistent", "value": n})
        for n in sorted(set(sr)):
            if model[n] != "string:%d" % n:
                st["mismatch"] += 1
                ctx.corr_broken.append(("jmap", "bintlit %d (Q%d)" % (n, q), "string:%d" % n, model[n]))
    if st["valueOf"] == 0 or st["string"] == 0:
        ctx.notes.append("jmap: the big-integer literal probe saw %d valueOf and %d string constants: the emitter's switch-over was not exercised" % (st["valueOf"], st["string"]))

def run_part(ctx, build):
    T = translator()
    L = T.load(build.src)                      # the scratch copy of the tree's current sources
    stats = {"rows": len(L["rows"]), "translated": 0, "lines": 0, "mismatch_jvm_model": 0, "spec_checked": 0,
             "refuted_rows_confirmed": {}, "outside_domain": 0, "kinds": {}, "distinct_results": 0}
    names = [r["name"] for r in L["rows"] if r["ok"]]
    stats["translated"] = len(names)
    stats["untranslated_reasons"] = {}
    stats.update(_PREP)
    for r in L["rows"]:
        if not r["ok"]:
            k = re.sub(r"FOAM_\w+", "T", r["reason"]).split(":")[0][:50]
            stats["untranslated_reasons"][k] = stats["untranslated_reasons"].get(k, 0) + 1
    # every translated row is accounted for by a theorem, a refutation, or the explicit no-spec list
    for n in names:
        if n not in PROVED and n not in REFUTED and n not in NO_SPEC:
            ctx.violation("jmap|no-theorem|" + n, "builtin %s is translated from the table but no theorem or recorded refutation covers it" % n,
                          {"kind": "uncovered-row", "row": n}, found_input=False)
    for n in PROVED + list(REFUTED):
        if n not in names:
            ctx.violation("jmap|row-lost|" + n, "builtin %s has a theorem but its table row is no longer translatable: %s" % (
                n, next((r.get("reason") for r in L["rows"] if r["name"] == n), "row missing")),
                {"kind": "row-lost", "row": n}, found_input=False)
    bint_literal_probe(ctx, build, L, stats)
    # the probe
    cls = foamj_classes(build)
    d = os.path.join(build.top, "jmap-probe"); os.makedirs(d, exist_ok=True)
    with open(os.path.join(d, "JMapProbe.java"), "w") as f:
        f.write(probe_source(L))
    rc, o, e = common.run(["javac", "-nowarn", "-cp", cls, "-d", d, os.path.join(d, "JMapProbe.java")], timeout=600)
    if rc != 0:
        ctx.violation("jmap|probe-javac", "the Java expressions read from the table do not compile as typed by the translator: " + (o + e)[-600:],
                      {"kind": "probe-compile", "log": (o + e)[-4000:]}, found_input=False)
        ctx.cov["jmap"] = stats
        return stats
    sigs = [(r["name"], [t for t, _ in r["params"]], r["jtype"]) for r in L["rows"] if r["ok"]]
    sigs += [("@" + v["lean"], [t for t, _ in v["m"]["params"]], v["m"]["ret"]) for k, v in sorted(L["methods"].items()) if v["ok"]]
    sigd = {n: (ps, rt) for n, ps, rt in sigs}
    lines = []
    corp = os.path.join(VERIF, "corpus", "jmap")
    if os.path.isdir(corp):
        for fn in sorted(os.listdir(corp)):
            lines += [l.strip() for l in open(os.path.join(corp, fn)) if l.strip() and not l.startswith("#")]
    lines = [l for l in lines if l.split()[0] in sigd and len(l.split()) - 1 == len(sigd[l.split()[0]][0])]
    stats["corpus"] = len(lines)
    lines += requests(sigs, ctx.rng, ctx.tier == "thorough")
    rc, out, err = common.run(["java", "-cp", d + ":" + cls, "JMapProbe"], inp="\n".join(lines) + "\n", timeout=1200)
    impl = out.split("\n")[:-1] if out.endswith("\n") else out.split("\n")
    if rc != 0 or len(impl) != len(lines):
        ctx.violation("jmap|probe-run", "the probe did not answer every request (rc=%s, %d of %d): %s" % (rc, len(impl), len(lines), err[-400:]),
                      {"kind": "probe-run", "stderr": err[-3000:]}, found_input=False)
        ctx.cov["jmap"] = stats
        return stats
    m, tags = common.split_model(common.run_model("jmap", "\n".join(lines) + "\n"))
    assert len(m) == len(lines), (len(m), len(lines))
    seen = set()
    refuted_seen = {}
    for k, ln in enumerate(lines):
        toks = ln.split(); name = toks[0]
        ps, rt = sigd[name]
        args = [narrow(t, int(x)) for t, x in zip(ps, toks[1:])]
        co, mo = impl[k], m[k]
        tg = dict(x.split("=", 1) for x in tags[k].split() if "=" in x)
        stats["kinds"][tg.get("kind", "?")] = stats["kinds"].get(tg.get("kind", "?"), 0) + 1
        seen.add((name, co))
        sp = oracle(name.lstrip("@"), args) if not name.startswith("@") else None
        lean_spec = tg.get("spec", "-")
        in_domain = sp is not None
        if sp is None and not name.startswith("@") and name not in NO_SPEC:
            stats["outside_domain"] += 1
        if in_domain:
            stats["spec_checked"] += 1
            if lean_spec != sp:
                ctx.violation("jmap|oracle-vs-Spec|" + name, "python oracle (%s) and Lean Spec (%s) disagree on `%s`: defect of the check" % (sp, lean_spec, ln),
                              {"kind": "inconsistent", "line": ln, "oracle": sp, "lean_spec": lean_spec}, found_input=False)
        impl_ok = (not in_domain) or co == sp
        if co != mo:
            stats["mismatch_jvm_model"] += 1
            if not impl_ok:
                ctx.finding("jmap|%s|jvm-vs-spec" % name, "Java computes %s for `%s` where the 32-bit meaning is %s (Lean model of the row: %s)" % (co, ln, sp, mo),
                            {"kind": "impl-violates-property", "line": ln, "impl": co, "model": mo, "spec32": sp,
                             "row": next((r["text"] for r in L["rows"] if r["name"] == name), ""),
                             "replay_cmd": "echo '%s' | java -cp <probe>:<foamj classes> JMapProbe  (generated by checks/parts/jmap.py)" % ln})
            else:
                ctx.corr_broken.append(("jmap", ln, co, mo))
        elif not impl_ok:
            if name in REFUTED:
                refuted_seen.setdefault(name, (ln, co, sp))
            else:
                ctx.violation("jmap|%s|spec32" % name, "the row of %s computes %s for `%s`, the 32-bit meaning is %s; model and JVM agree, so theorem jmap_%s_spec32 cannot hold any more" % (name, co, ln, sp, name),
                              {"kind": "impl-violates-property", "line": ln, "impl": co, "model": mo, "spec32": sp,
                               "row": next((r["text"] for r in L["rows"] if r["name"] == name), "")})
        if k % 1500 == 11:
            ctx.sample({"module": "jmap", "request": ln, "jvm": co, "model": mo, "spec32": sp, "tags": tags[k]})
    for name, (ln, co, sp) in sorted(refuted_seen.items()):
        thm, sig = REFUTED[name]
        stats["refuted_rows_confirmed"][name] = "%s -> %s (meaning %s)" % (ln, co, sp)
        row = next((r["text"] for r in L["rows"] if r["name"] == name), "")
        ctx.finding(sig, "table row %s emits Java that computes %s for `%s`; the operation's meaning is %s (theorem %s); model and JVM agree" % (row, co, ln, sp, thm),
                    {"kind": "impl-violates-property", "line": ln, "impl": co, "spec32": sp, "row": row, "theorem": thm})
    for name in REFUTED:
        if name in names and name not in refuted_seen:
            ctx.notes.append("jmap: row %s no longer shows the recorded defect on the probed operands" % name)
    stats["lines"] = len(lines)
    stats["distinct_results"] = len(seen)
    ctx.cov["jmap"] = stats
    ctx.cov["evaluations"] += len(lines)
    ctx.cov["distinct_nontrivial"] += len(seen)
    return stats
